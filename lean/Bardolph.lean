-- Root of the `Bardolph` library: the executable model, the driver handlers, the audit tool
-- and the property theorems.  `lake build` builds everything; a check builds only its own
-- `Bardolph.Props.Cxx` so that one property's broken proof does not disturb another's.
import Bardolph.Driver.All
import Bardolph.Audit.Tool
import Bardolph.Props.C01
import Bardolph.Props.C02
import Bardolph.Props.C02Climb
import Bardolph.Props.C03
import Bardolph.Props.C04
import Bardolph.Props.C05
import Bardolph.Props.C06
import Bardolph.Props.C07
import Bardolph.Props.C11
import Bardolph.Props.C14
import Bardolph.Props.C15
import Bardolph.Props.C18
import Bardolph.Props.C19
import Bardolph.Props.C20
