-- Root of the `Bardolph` library: the executable model, the driver handlers, the audit tool
-- and the property theorems.  `lake build` builds everything; a check builds only its own
-- `Bardolph.Props.Cxx` so that one property's broken proof does not disturb another's.
import Bardolph.Driver.All
import Bardolph.Audit.Tool
import Bardolph.Props.C11
import Bardolph.Props.C10
import Bardolph.Props.C09
