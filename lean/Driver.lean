import Bardolph.Driver.All
/-!
Model driver: one request per line on stdin, one answer per line on stdout.
Run with `lake env lean --run Driver.lean`.
-/
open Bardolph

partial def loop (h : IO.FS.Stream) (out : IO.FS.Stream) : IO Unit := do
  let line ← h.getLine
  if line.isEmpty then return ()
  let line := if line.endsWith "\n" then (line.dropEnd 1).toString else line
  out.putStrLn (Driver.dispatch line)
  loop h out

def main : IO Unit := do
  let out ← IO.getStdout
  loop (← IO.getStdin) out
  out.flush
