import Lean
/-!
Axiom audit command.  `#audit_module Bardolph.Props.C11` prints, for every theorem declared
in that (imported) module, one line
  `THEOREM <name> AXIOMS <comma separated axioms>`
The check scripts count these lines as proof obligations and require the axioms to be a
subset of {propext, Classical.choice, Quot.sound}.
-/
open Lean Elab Command

elab "#audit_module " m:ident : command => do
  let env ← getEnv
  let modName := m.getId
  let some idx := env.getModuleIdx? modName
    | throwError "module {modName} is not imported"
  let names := env.header.moduleData[idx.toNat]!.constNames
  for n in names do
    if n.isInternal then continue
    match env.find? n with
    | some (.thmInfo _) =>
      let axs ← collectAxioms n
      let axs := axs.toList.map toString
      IO.println s!"THEOREM {n} AXIOMS {",".intercalate axs}"
    | _ => pure ()
