import Bardolph.Model.StopProtocol
/-! Driver handler for the stop-protocol transition system (property C09). -/
namespace Bardolph.Driver.SP
open Bardolph.Stop

def parseBoolIdx (s : String) : Option Bool :=
  if s = "0" then some false else if s = "1" then some true else none

def parseLabel (t : String) : Option Label :=
  match t.splitOn ":" with
  | ["e0"] => some .mReset
  | ["m2"] => some .mArm
  | ["s0"] => some .mStartReset
  | ["s1"] => some .mArmClock
  | ["s2"] => some .mClear
  | ["s3"] => some .mSpawn
  | ["m4+"] => some .mLoopGo
  | ["m4-"] => some .mLoopExit
  | ["x", "c"] => some (.mExec .cmd)
  | ["x", "d"] => some (.mExec .delay)
  | ["x", "u"] => some (.mExec .until_)
  | ["x", "o"] => some (.mExec .other)
  | ["m6"] => some .mAdvance
  | ["p1+"] => some (.mPauseTest true)
  | ["p1-"] => some (.mPauseTest false)
  | ["u1+"] => some (.mUntilTest true)
  | ["u1-"] => some (.mUntilTest false)
  | ["u5"] => some .mUntilReset
  | ["w2"] => some .mWaitTest
  | ["w3"] => some .mEventWait
  | ["w4"] => some .mWaitRet
  | ["m9"] => some .mClockStop
  | ["m10"] => some .mFlush
  | ["re"] => some .mRestart
  | ["ka", i] => (parseBoolIdx i).map .kArm
  | ["k1", i] => (parseBoolIdx i).map .kLoop
  | ["k2", i] => (parseBoolIdx i).map .kSleep
  | ["k3", i] => (parseBoolIdx i).map .kSet
  | ["k4", i] => (parseBoolIdx i).map .kClear
  | ["k9", i] => (parseBoolIdx i).map .kFinal
  | ["r0"] => some .rStopRun
  | ["r1"] => some .rStopClock
  | ["rn"] => some .rNone
  | _ => none

def showM : MPc → String
  | .e0 => "e0" | .m2 => "m2" | .s0 => "s0" | .s1 => "s1" | .s2 => "s2" | .s3 => "s3"
  | .m4 => "m4" | .m5 => "m5" | .m6 => "m6" | .p1 => "p1" | .u1 => "u1" | .u5 => "u5"
  | .w2 c => "w2" ++ showC c | .w3 c => "w3" ++ showC c | .ww c => "ww" ++ showC c
  | .w4 c => "w4" ++ showC c | .m9 => "m9" | .m10 => "m10" | .done => "done"
where showC : Ctx → String
  | .pause => "p" | .until_ => "u"

def showK : KPc → String
  | .none => "none" | .ka => "ka" | .k1 => "k1" | .k2 => "k2" | .k3 => "k3" | .k4 => "k4"
  | .k9 => "k9" | .done => "done"

def showR : RPc → String
  | .r0 => "r0" | .r1 => "r1" | .done => "done"

def b (x : Bool) : String := if x then "1" else "0"

def flagsChar (s : State) : Char :=
  Char.ofNat (48 + (if s.kr then 4 else 0) + (if s.kg then 2 else 0) + (if s.flag then 1 else 0))

def summary (s : State) : String :=
  " ".intercalate [showM s.mpc, showK s.k0, showK s.k1, showR s.rpc, b s.kr, b s.kg, b s.flag,
    toString s.cmds, b s.exitStopped, b s.cutShort, b s.run2, b s.stopped, b s.armedAtStop,
    b s.inProgAtStop, toString s.cmdsAfterStop]

def parseVariant (t : String) : Option Variant :=
  if t = "fixed" then some fixed
  else if t = "pinned" then some pinned
  else match t.toList with
    | [x, y, z] => some ⟨x = '1', y = '1', z = '1'⟩
    | _ => none

def traceV (v : Variant) (s : State) : List Label → List State
  | [] => []
  | l :: rest => match stepV v s l with
    | some s' => s' :: traceV v s' rest
    | none => []

/-- `sp.run <variant> <label>…` →
`ok <summary> | <flags after each step>` or `reject <index> <summary of the state reached> | <flags>`;
summary = mpc k0 k1 rpc kr kg flag cmds exitStopped cutShort run2 stopped armedAtStop
inProgAtStop cmdsAfterStop; flags: one digit 4·kr + 2·kg + flag per accepted label -/
def run_ (args : List String) : String :=
  match args with
  | v :: ls =>
    match parseVariant v, ls.mapM parseLabel with
    | some v, some labels =>
      let tr := traceV v init labels
      let fl := String.ofList (tr.map flagsChar)
      let last := (tr.getLast?).getD init
      if tr.length = labels.length then "ok " ++ summary last ++ " | " ++ fl
      else "reject " ++ toString tr.length ++ " " ++ summary last ++ " | " ++ fl
    | _, _ => "bad-args"
  | _ => "bad-args"

def handle (cmd : String) (args : List String) : Option String :=
  match cmd with
  | "sp.run" => some (run_ args)
  | _ => none

end Bardolph.Driver.SP
