import Bardolph.Model.LightSet
import Bardolph.Driver.Wire
/-! Driver handlers for the `SortedList` / `LightSet` model (property C13).

Strings in answers are written with `encS` (ASCII letters and digits as they are, every
other character as `%<hex>.`); a list is the concatenation of `item,`; so no separator can
be confused with content. -/
namespace Bardolph.Driver.LS
open Bardolph.LS Bardolph.Wire

def encS (s : String) : String :=
  String.join (s.toList.map fun c =>
    if c.isAlphanum then c.toString else "%" ++ String.ofList (Nat.toDigits 16 c.toNat) ++ ".")

def encList (xs : List String) : String := String.join (xs.map fun x => encS x ++ ",")

def encOpt : Option String → String
  | none => "-"
  | some s => "+" ++ encS s

def age (s : State) (r : LightRec) : Int := (s.now : Int) - (r.birth : Int)

def encRec (s : State) (r : LightRec) : String :=
  encS r.group ++ ":" ++ encS r.location ++ ":" ++ toString (age s r)

def encMembers : Option (List String) → String
  | none => "-"
  | some l => "[" ++ encList l ++ "]"

/-- everything the public getters of `LightSet` show, plus the answers for the probe names -/
def observe (probes : List String) (s : State) : String :=
  "N=" ++ encList (getLightNames s) ++
  ";C=" ++ toString (getLightCount s) ++
  ";L=" ++ String.join ((getLights s).map fun p => encS p.1 ++ ":" ++ encRec s p.2 ++ ",") ++
  ";G=" ++ String.join ((getGroupNames s).map fun g => encS g ++ encMembers (getGroupLights s g) ++ ",") ++
  ";P=" ++ String.join ((getLocationNames s).map fun g => encS g ++ encMembers (getLocationLights s g) ++ ",") ++
  ";K=" ++ toString s.okDiscovers ++ "," ++ toString s.failDiscovers ++
  ";Q=" ++ String.join (probes.map fun p =>
      (match getLight s p with | none => "-" | some r => "+" ++ encRec s r) ++ "/" ++
      encMembers (getGroupLights s p) ++ "/" ++ encMembers (getLocationLights s p) ++ ",")

/-- `k s1 … sk rest` → the k decoded strings and the rest -/
def takeStrings (args : List String) : Option (List String × List String) :=
  match args with
  | k :: rest =>
    match k.toNat? with
    | some k => if k ≤ rest.length then some ((rest.take k).map decode, rest.drop k) else none
    | none => none
  | [] => none

def triples : List String → Option Snapshot
  | [] => some []
  | n :: g :: l :: rest => (triples rest).map ((n, g, l) :: ·)
  | _ => none

/-- operations: `D <3k> (name group location)*k` | `F` | `A <delta>` | `E <maxAge>` -/
partial def parseOps (args : List String) : Option (List Op) :=
  match args with
  | [] => some []
  | "D" :: rest =>
    match takeStrings rest with
    | some (strs, rest') =>
      match triples strs, parseOps rest' with
      | some snap, some ops => some (Op.discover snap :: ops)
      | _, _ => none
    | none => none
  | "F" :: rest => (parseOps rest).map (Op.discoverFail :: ·)
  | "A" :: d :: rest =>
    match d.toNat?, parseOps rest with
    | some d, some ops => some (Op.advance d :: ops)
    | _, _ => none
  | "E" :: m :: rest =>
    match m.toInt?, parseOps rest with
    | some m, some ops => some (Op.expire m :: ops)
    | _, _ => none
  | _ => none

def invReport (s : State) : String :=
  let bad := (invParts s).filter (fun p => !p.2) |>.map (·.1)
  if bad.isEmpty then "inv" else "INV-FAILS(" ++ ",".intercalate bad ++ ")"

/-- `ls.run <all|last> <np> probe… op…` → the observation after every step (`all`, joined by
` | `) or after the last one, each followed by the model state's own `invB` verdict -/
def run_ (args : List String) : String :=
  match args with
  | mode :: rest =>
    match takeStrings rest with
    | some (probes, opArgs) =>
      match parseOps opArgs with
      | some ops =>
        let show_ (s : State) := observe probes s ++ ";" ++ invReport s
        if mode = "all" then
          let states := (ops.foldl (fun (acc : State × List State) op =>
            let s' := step acc.1 op; (s', s' :: acc.2)) (init, [])).2.reverse
          " | ".intercalate (states.map show_)
        else show_ (run ops)
      | none => "bad-ops"
    | none => "bad-args"
  | [] => "bad-args"

/-- members of a dictionary of lists: `<k> (key <m> member*m)*k` -/
partial def parseDict : Nat → List String → Option (Dict (List String) × List String)
  | 0, rest => some ([], rest)
  | k + 1, key :: rest =>
    match takeStrings rest with
    | some (members, rest') =>
      (parseDict k rest').map fun (d, r) => ((decode key, members) :: d, r)
    | none => none
  | _, _ => none

partial def parseLights : Nat → List String → Option (Dict LightRec × List String)
  | 0, rest => some ([], rest)
  | k + 1, n :: g :: l :: b :: rest =>
    match b.toNat? with
    | some b => (parseLights k rest).map fun (d, r) => ((decode n, ⟨decode g, decode l, b⟩) :: d, r)
    | none => none
  | _, _ => none

/-- `ls.inv <now> <k> name*k <k> (name group location birth)*k <k> groups… <k> locations…`:
the proved checker `invB` applied to a directory state read off the implementation -/
def inv_ (args : List String) : String :=
  match args with
  | now :: rest =>
    match now.toNat?, takeStrings rest with
    | some now, some (names, rest) =>
      match rest with
      | k :: rest =>
        match k.toNat? with
        | some k =>
          match parseLights k rest with
          | some (lights, kg :: rest) =>
            match kg.toNat? with
            | some kg =>
              match parseDict kg rest with
              | some (groups, kl :: rest) =>
                match kl.toNat? with
                | some kl =>
                  match parseDict kl rest with
                  | some (locs, []) =>
                    let s : State := ⟨now, lights, names, groups, locs, 0, 0⟩
                    (if invB s then "true " else "false ") ++ invReport s
                  | _ => "bad-args"
                | none => "bad-args"
              | _ => "bad-args"
            | none => "bad-args"
          | _ => "bad-args"
        | none => "bad-args"
      | [] => "bad-args"
    | _, _ => "bad-args"
  | [] => "bad-args"

/-- `sl.ops <probe> <k> elem*k` → next prev first last has bisect_left bisect_right add remove -/
def slOps (args : List String) : String :=
  match args with
  | x :: rest =>
    match takeStrings rest with
    | some (l, []) =>
      let x := decode x
      " ".intercalate [encOpt (next l x), encOpt (prev l x), encOpt (first l), encOpt (last l),
        toString (has l x), toString (bisectLeft l x), toString (bisectRight l x),
        encList (add l x), encList (remove l x)]
    | _ => "bad-args"
  | [] => "bad-args"

/-- removal batches `<k> name*k` one per step -/
partial def parseBatches (args : List String) : Option (List (List String)) :=
  match args with
  | [] => some []
  | _ =>
    match takeStrings args with
    | some (b, rest) => (parseBatches rest).map (b :: ·)
    | none => none

/-- `sl.walk <b|f> <fuel> <k> elem*k batch…` → the names visited -/
def slWalk (args : List String) : String :=
  match args with
  | dir :: fuel :: rest =>
    match fuel.toNat?, takeStrings rest with
    | some fuel, some (l, rest) =>
      match parseBatches rest with
      | some bs =>
        let rem := fun i => (bs[i]?).getD []
        encList (if dir = "b" then iterBack rem fuel l else iterFwd rem fuel l)
      | none => "bad-args"
    | _, _ => "bad-args"
  | _ => "bad-args"

/-- `sl.sorted <k> elem*k` → `SortedList(initial)` -/
def slSorted (args : List String) : String :=
  match takeStrings args with
  | some (l, []) => encList (ofList l)
  | _ => "bad-args"

def handle (cmd : String) (args : List String) : Option String :=
  match cmd with
  | "ls.run" => some (run_ args)
  | "ls.inv" => some (inv_ args)
  | "sl.ops" => some (slOps args)
  | "sl.walk" => some (slWalk args)
  | "sl.sorted" => some (slSorted args)
  | _ => none

end Bardolph.Driver.LS
