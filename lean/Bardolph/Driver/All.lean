import Bardolph.Driver.TimePattern
import Bardolph.Driver.Clock
import Bardolph.Driver.StopProtocol
/-! All driver handlers; `dispatch` routes one request line. -/
namespace Bardolph.Driver

def dispatch (line : String) : String :=
  match line.splitOn "\t" with
  | cmd :: args =>
    match TP.handle cmd args with
    | some r => r
    | none =>
    match Clk.handle cmd args with
    | some r => r
    | none =>
    match SP.handle cmd args with
    | some r => r
    | none => "bad-cmd"
  | [] => "bad-cmd"

end Bardolph.Driver
