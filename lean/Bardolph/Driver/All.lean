import Bardolph.Driver.TimePattern
import Bardolph.Driver.Vm
import Bardolph.Driver.Ast
import Bardolph.Driver.Web
import Bardolph.Driver.Output
import Bardolph.Driver.Snapshot
import Bardolph.Driver.Units
import Bardolph.Driver.Lex
/-! All driver handlers; `dispatch` routes one request line. -/
namespace Bardolph.Driver

def handlers : List (String → List String → Option String) := [
  TP.handle,
  VmD.handle,
  AstD.handle,
  Web.handle,
  Out.handle,
  Snap.handle,
  Units.handle,
  LexD.handle
]

def dispatch (line : String) : String :=
  match line.splitOn "\t" with
  | cmd :: args => (handlers.findSome? fun h => h cmd args).getD "bad-cmd"
  | [] => "bad-cmd"

end Bardolph.Driver
