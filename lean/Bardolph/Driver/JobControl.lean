import Bardolph.Model.JobControl
import Bardolph.Driver.Wire
/-! Driver handler for the job-control model (property C08).

`jc.replay <variant> <programs> <schedule>`
* variant: `fixed` | `pinned`
* programs: client programs separated by `/`, calls by `,`:
  `add:L insert:L spawn:L clear stopjob:N stopcur stopbg has isrun:N` (L, N numbers)
* schedule: comma separated thread choices at LINE granularity (one choice = the thread executes
  the source line it stands at): `c<n>` a client, `J<L>` the thread of the agent named L; a
  job-thread choice may carry what its body does in that step: `+` keeps running (default),
  `.` finishes, `!` raises.

Answer: for every step `queue|active|background|running bodies|lock owner:count|label of the
line the stepped thread stands at afterwards`, joined by `;`, then `#` and the event log.
Agents are printed by their names. -/
namespace Bardolph.Driver.JC
open Bardolph.JC

def parseOp (s : String) : Option Op :=
  match s.splitOn ":" with
  | ["add", n] => n.toNat?.map Op.add
  | ["insert", n] => n.toNat?.map Op.insert
  | ["spawn", n] => n.toNat?.map Op.spawn
  | ["clear"] => some .clear
  | ["stopjob", n] => n.toNat?.map Op.stopJob
  | ["stopcur"] => some .stopCurrent
  | ["stopbg"] => some .stopBackground
  | ["has"] => some .hasJobs
  | ["isrun", n] => n.toNat?.map Op.isRunning
  | _ => none

def parseProgs (s : String) : Option (List (List Op)) :=
  (s.splitOn "/").mapM fun p =>
    if p.isEmpty then some [] else (p.splitOn ",").mapM parseOp

def findAgent (s : State) (lbl : Nat) : Option Nat :=
  (List.range s.next).find? fun a => (s.info a).lbl == lbl

/-- a schedule token, resolved against the current state -/
def parseChoice (s : State) (tok : String) : Option (Tid × Choice) :=
  let (core, c) :=
    if tok.endsWith "+" then ((tok.dropEnd 1).toString, Choice.run)
    else if tok.endsWith "." then ((tok.dropEnd 1).toString, Choice.fin)
    else if tok.endsWith "!" then ((tok.dropEnd 1).toString, Choice.raise)
    else (tok, Choice.run)
  if core.startsWith "c" then (core.drop 1).toString.toNat?.map fun n => (Tid.client n, c)
  else if core.startsWith "J" then
    match (core.drop 1).toString.toNat? with
    | some l => (findAgent s l).map fun a => (Tid.job a, c)
    | none => none
  else none

def showAgent (s : State) (a : Nat) : String := toString (s.info a).lbl

def showTid (s : State) : Tid → String
  | .client n => "c" ++ toString n
  | .job a => "J" ++ showAgent s a

def showAgents (s : State) (l : List Nat) : String := ",".intercalate (l.map (showAgent s))

def sortedLabels (s : State) (l : List Nat) : String :=
  let ls := (l.map fun a => (s.info a).lbl).toArray.qsort (· < ·)
  ",".intercalate (ls.toList.map toString)

def observe (s : State) (t : Tid) : String :=
  let running := (List.range s.next).filter fun a => (s.thr (.job a)).pc == .body
  let lock := match s.owner with
    | some u => showTid s u ++ ":" ++ toString s.count
    | none => "-"
  showAgents s s.queue ++ "|" ++ (match s.active with | some a => showAgent s a | none => "-") ++
    "|" ++ sortedLabels s s.bg ++ "|" ++ sortedLabels s running ++ "|" ++ lock ++ "|" ++
    (if s.errs.contains t then "crashed" else (s.thr t).pc.label)

def showEvent (s : State) : Event → String
  | .enq b a => (if b then "add:" else "ins:") ++ showAgent s a
  | .clear => "clear"
  | .start a => "start:" ++ showAgent s a
  | .done a => "done:" ++ showAgent s a
  | .tstart a => "tstart:" ++ showAgent s a
  | .bodyBegin a => "begin:" ++ showAgent s a
  | .bodyEnd a r => (if r then "raised:" else "end:") ++ showAgent s a
  | .bgAdd a => "bgadd:" ++ showAgent s a
  | .bgDel a => "bgdel:" ++ showAgent s a
  | .stop a => "stop:" ++ showAgent s a
  | .ret t v => "ret:" ++ showTid s t ++ ":" ++ (if v then "1" else "0")

/-- The model keeps threads and agents as functions; every step wraps them in one more
closure.  `compact` replaces them by extensionally equal table look-ups (driver speed only). -/
def compact (nClients : Nat) (s : State) : State :=
  let cs := ((List.range nClients).map fun n => s.thr (.client n)).toArray
  let js := ((List.range s.next).map fun a => s.thr (.job a)).toArray
  let is := ((List.range s.next).map fun a => s.info a).toArray
  let thr0 : Thread := ⟨.unborn, []⟩
  { s with
    thr := fun
      | .client n => if h : n < cs.size then cs[n] else ⟨.idle, []⟩
      | .job a => if h : a < js.size then js[a] else thr0
    info := fun a => if h : a < is.size then is[a] else ⟨0, false⟩ }

def replayLoop (v : Variant) (nClients : Nat) :
    State → List String → List String → State × List String
  | s, [], acc => (s, acc.reverse)
  | s, tok :: rest, acc =>
    match parseChoice s tok with
    | none => (s, (("bad-token " ++ tok) :: acc).reverse)
    | some (t, c) =>
      let s' := compact nClients (step v s t c)
      replayLoop v nClients s' rest (observe s' t :: acc)

def replay (args : List String) : String :=
  match args with
  | [v, progs, sched] =>
    let v := if v == "pinned" then Variant.pinned else Variant.fixed
    match parseProgs (Wire.decode progs) with
    | none => "bad-programs"
    | some ps =>
      let s0 := init fun n => (ps[n]?).getD []
      let toks := if sched.isEmpty then [] else sched.splitOn ","
      let (s, obs) := replayLoop v ps.length s0 toks []
      ";".intercalate obs ++ "#" ++ ",".intercalate (s.events.map (showEvent s))
  | _ => "bad-args"

def handle (cmd : String) (args : List String) : Option String :=
  match cmd with
  | "jc.replay" => some (replay args)
  | _ => none

end Bardolph.Driver.JC
