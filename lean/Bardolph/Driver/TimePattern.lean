import Bardolph.Model.TimePattern
import Bardolph.Driver.Wire
/-! Driver handlers for the time-pattern model (property C11). -/
namespace Bardolph.Driver.TP
open Bardolph.TP Bardolph.Wire

def matrix (p : Pat) : String :=
  bitsToHex ((List.range 24).flatMap fun h => (List.range 60).map fun m => p.matches h m)

def setBits (n : Nat) (f : Nat → Bool) : String := bitsToHex ((List.range n).map f)

/-- `tp.from <text>` → `none` | `some <24 hour bits> <60 minute bits>` (hours/minutes for which
some minute/hour matches) -/
def from_ (args : List String) : String :=
  match args with
  | [txt] =>
    match fromString (decode txt) with
    | none => "none"
    | some p =>
      "some " ++ setBits 24 (fun h => (List.range 60).any fun m => p.matches h m) ++ " " ++
        setBits 60 (fun m => (List.range 24).any fun h => p.matches h m)
  | _ => "bad-args"

/-- `tp.or <p1> <p2> …` → `none` if any is rejected, else the 1440-bit match matrix of the
union built as INIT p1; UNION p2; … -/
def or_ (args : List String) : String :=
  match args.map (fun a => fromString (decode a)) with
  | [] => "bad-args"
  | some p :: rest =>
    if rest.all Option.isSome then
      matrix (rest.foldl (fun acc q => acc.union (q.getD ⟨[]⟩)) p)
    else "none"
  | none :: _ => "none"

def parseInstr (s : String) : Option TpInstr :=
  match s.splitOn ":" with
  | ["i", n] => n.toNat?.map TpInstr.init
  | ["u", n] => n.toNat?.map TpInstr.union
  | _ => none

/-- `tp.vm <k> <p1> … <pk> <instr> …` with instr `i:<addr>` / `u:<addr>` → matrices of the k
program-owned patterns after the run, then the matrix the `time` register ends with -/
def vm (args : List String) : String :=
  match args with
  | k :: rest =>
    match k.toNat? with
    | none => "bad-args"
    | some k =>
      let pats := (rest.take k).map (fun a => fromString (decode a))
      let instrs := (rest.drop k).map parseInstr
      if pats.all Option.isSome && instrs.all Option.isSome then
        let st : TpState := ⟨pats.map (·.getD ⟨[]⟩), none⟩
        let st' := st.run (instrs.map (·.getD (.init 0)))
        let owned := (List.range k).map fun a => matrix ((st'.heap[a]?).getD ⟨[]⟩)
        let t := match st'.time with
          | some t => matrix ((st'.heap[t]?).getD ⟨[]⟩)
          | none => "unset"
        " ".intercalate (owned ++ [t])
      else "none"
  | _ => "bad-args"

/-- `tp.wait <k> <p1> … <pk> <h>,<m> …` → `none` (a pattern is rejected), `never`, or the number
of ticks `wait_until` waits for with the union of the k patterns and these readings -/
def wait (args : List String) : String :=
  match args with
  | k :: rest =>
    match k.toNat? with
    | none => "bad-args"
    | some k =>
      let pats := (rest.take k).map (fun a => fromString (decode a))
      let rds := (rest.drop k).map fun r =>
        match r.splitOn "," with
        | [h, m] => (h.toNat?.getD 99, m.toNat?.getD 99)
        | _ => (99, 99)
      match pats with
      | some p :: more =>
        if more.all Option.isSome then
          match waitUntil (more.foldl (fun acc q => acc.union (q.getD ⟨[]⟩)) p) rds with
          | some i => toString i
          | none => "never"
        else "none"
      | _ => "none"
  | _ => "bad-args"

def handle (cmd : String) (args : List String) : Option String :=
  match cmd with
  | "tp.wait" => some (wait args)
  | "tp.from" => some (from_ args)
  | "tp.or" => some (or_ args)
  | "tp.vm" => some (vm args)
  | _ => none

end Bardolph.Driver.TP
