import Bardolph.Model.Clock
import Bardolph.Driver.Wire
/-! Driver handlers for the clock model (property C10). -/
namespace Bardolph.Driver.Clk
open Bardolph.Clock Bardolph.Wire

/-- `n`, `-n`, `n/d`, `-n/d` -/
def parseRat (s : String) : Option Rat :=
  let (neg, body) := if s.startsWith "-" then (true, (s.drop 1).toString) else (false, s)
  let mk (n d : Nat) : Option Rat :=
    if d = 0 then none else
      let q : Rat := (n : Rat) / (d : Rat)
      some (if neg then -q else q)
  match body.splitOn "/" with
  | [n] => n.toNat?.bind fun n => mk n 1
  | [n, d] => n.toNat?.bind fun n => d.toNat?.bind fun d => mk n d
  | _ => none

def showRat (q : Rat) : String :=
  if q.den = 1 then toString q.num else toString q.num ++ "/" ++ toString q.den

/-- `a|b|c` → union of the patterns -/
def parsePat (s : String) : Option TP.Pat :=
  match (s.splitOn "|").map TP.fromString with
  | [] => none
  | some p :: rest =>
    if rest.all Option.isSome then some (rest.foldl (fun acc q => acc.union (q.getD ⟨[]⟩)) p)
    else none
  | none :: _ => none

def parseEv (s : String) : Option (Ev × Time) :=
  match s.splitOn "@" with
  | [e, t] =>
    (parseRat t).bind fun t =>
      if e = "r" then some (.read, t)
      else if e = "e" then some (.enter, t)
      else if e = "k" then some (.tick, t)
      else if e = "c" then some (.clear, t)
      else if e = "z" then some (.reset, t)
      else if e.startsWith "P" then (parseRat (e.drop 1).toString).map fun d => (.callPause d, t)
      else if e.startsWith "U" then (parsePat (decode (e.drop 1).toString)).map fun p => (.callUntil p, t)
      else none
  | _ => none

def showPhase : Phase → String
  | .idle => "idle" | .pRead => "pRead" | .pEnter => "pEnter" | .pWait => "pWait"
  | .uRead _ => "uRead" | .uEnter _ => "uEnter" | .uWait _ => "uWait" | .uReset => "uReset"

def showRet (r : Ret) : String :=
  (if r.isUntil then "u:" else "p:") ++ showRat r.at_ ++ ":" ++ (if r.blocked then "b" else "n")

/-- `clk.run <t0> <event>…` → `ok <origin> <cue> <phase> <ret>,<ret>…` | `reject <index>` -/
def run_ (args : List String) : String :=
  match args with
  | t0 :: evs =>
    match parseRat t0, evs.mapM parseEv with
    | some t0, some tr =>
      match run t0 tr with
      | some s =>
        "ok " ++ showRat s.clk.origin ++ " " ++ showRat s.clk.cue ++ " " ++ showPhase s.phase ++ " " ++
          ",".intercalate (s.rets.reverse.map showRet)
      | none => "reject " ++ toString ((firstReject (init t0) tr 0).getD 0)
    | _, _ => "bad-args"
  | _ => "bad-args"

/-- `clk.wait n:<rat>|p:<pattern> raw|logical` -/
def wait_ (args : List String) : String :=
  match args with
  | [reg, mode] =>
    let raw := mode = "raw"
    let r : Option TimeReg :=
      if reg.startsWith "n:" then (parseRat (reg.drop 2).toString).map TimeReg.num
      else if reg.startsWith "p:" then (parsePat (decode (reg.drop 2).toString)).map TimeReg.pat
      else none
    match r with
    | none => "bad-args"
    | some r =>
      match waitChoice r raw with
      | .nothing => "nothing"
      | .delay d => "delay " ++ showRat d
      | .until_ _ => "until"
  | _ => "bad-args"

def tod_ (args : List String) : String :=
  match args with
  | [t] => match parseRat t with
    | some t => toString (hourOf t) ++ " " ++ toString (minuteOf t)
    | none => "bad-args"
  | _ => "bad-args"

def handle (cmd : String) (args : List String) : Option String :=
  match cmd with
  | "clk.run" => some (run_ args)
  | "clk.wait" => some (wait_ args)
  | "clk.tod" => some (tod_ args)
  | _ => none

end Bardolph.Driver.Clk
