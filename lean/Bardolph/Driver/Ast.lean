import Bardolph.Model.Gen
import Bardolph.Model.Sem
import Bardolph.Model.ExprParse
import Bardolph.Driver.Vm
/-!
S-expression reader for ASTs sent by `harness/progs.py` (`to_sexp`) and the `gen.*` driver
commands.  Atoms are percent-encoded (`%20` space, `%28` `%29` parentheses); values use the
same tags as instruction parameters (`i:`, `f:`, `b:`, `s:`, `n`, `U:`, `t:`).
-/
namespace Bardolph.Driver.AstD
open Bardolph Bardolph.Wire Bardolph.Driver.VmD

inductive Sexp where
  | atom (s : String)
  | list (xs : List Sexp)
  deriving Inhabited, Repr

/-- tokens: "(" ")" and atoms -/
def tokenize (cs : List Char) : List String :=
  let rec go : List Char → List Char → List String → List String
    | [], cur, acc => (if cur.isEmpty then acc else String.ofList cur.reverse :: acc).reverse
    | c :: rest, cur, acc =>
      let flush := if cur.isEmpty then acc else String.ofList cur.reverse :: acc
      if c == '(' then go rest [] ("(" :: flush)
      else if c == ')' then go rest [] (")" :: flush)
      else if c == ' ' then go rest [] flush
      else go rest (c :: cur) acc
  go cs [] []

/-- parse a token list into a stack of partially built lists -/
def parseTokens : List String → List (List Sexp) → Option Sexp
  | [], [[x]] => some x
  | [], _ => none
  | "(" :: rest, stack => parseTokens rest ([] :: stack)
  | ")" :: rest, top :: next :: stack => parseTokens rest ((Sexp.list top.reverse :: next) :: stack)
  | ")" :: _, _ => none
  | a :: rest, top :: stack => parseTokens rest ((Sexp.atom (decode a) :: top) :: stack)
  | _ :: _, [] => none

def parseSexp (s : String) : Option Sexp := parseTokens (tokenize s.toList) [[]]

def valOf (s : String) : Option Val := (parseP s).lit

def operatorSym : String → Option Operator
  | "+" => some .add | "-" => some .sub | "*" => some .mul | "/" => some .div | "%" => some .mod
  | "^" => some .pow | "<" => some .lt | "<=" => some .lte | ">" => some .gt | ">=" => some .gte
  | "==" => some .eq | "!=" => some .noteq | "and" => some .and | "or" => some .or | _ => none

def strs (xs : List Sexp) : List String := xs.filterMap fun | .atom a => some a | _ => none

mutual
  partial def toExpr : Sexp → Option Expr
    | .list [.atom "lit", .atom v] => (valOf v).map Expr.lit
    | .list [.atom "var", .atom n] => some (.var n)
    | .list [.atom "reg", .atom r] => (regOf r).map Expr.reg
    | .list [.atom "call", .atom f, .list ps, .list as] =>
      (as.mapM toRv).map fun a => Expr.call f (strs ps) (Args.ofList a)
    | .list [.atom "un", .atom op, e] => (toExpr e).map (Expr.un (op == "-"))
    | .list [.atom "bin", .atom op, a, b] =>
      match operatorSym op, toExpr a, toExpr b with
      | some o, some x, some y => some (.bin o x y)
      | _, _, _ => none
    | .list [.atom "paren", e] => (toExpr e).map Expr.paren
    | _ => none
  partial def toRv : Sexp → Option Rv
    | .list [.atom "lit", .atom v] => (valOf v).map Rv.lit
    | .list [.atom "var", .atom n] => some (.var n)
    | .list [.atom "reg", .atom r] => (regOf r).map Rv.reg
    | .list [.atom "expr", e] => (toExpr e).map Rv.expr
    | .list [.atom "call", .atom f, .list ps, .list as] =>
      (as.mapM toRv).map fun a => Rv.call f (strs ps) (Args.ofList a)
    | _ => none
end

def toOptRv : Sexp → Option (Option Rv)
  | .atom "none" => some none
  | x => (toRv x).map some

def toRange : Sexp → Option (Option Range)
  | .atom "none" => some none
  | .list [a, b] =>
    match toRv a, toOptRv b with
    | some x, some y => some (some ⟨x, y⟩)
    | _, _ => none
  | _ => none

def toName : Sexp → Option NameSpec
  | .list [.atom "str", .atom s] => some (.str s)
  | .list [.atom "var", .atom n] => some (.var n)
  | _ => none

def toWith : Sexp → Option (Option WithClause)
  | .atom "none" => some none
  | .list [.atom "from", .atom v, a, b] =>
    match toRv a, toRv b with
    | some x, some y => some (some (.fromTo v x y))
    | _, _ => none
  | .list [.atom "cycle", .atom v, s] => (toOptRv s).map fun x => some (.cycle v x)
  | _ => none

def toItem : Sexp → Option IterItem
  | .list [.atom "light", n] => (toRv n).map IterItem.light
  | .list [.atom "group", n] => (toRv n).map IterItem.group
  | .list [.atom "location", n] => (toRv n).map IterItem.location
  | .atom "all" => some .all
  | _ => none

def toHdr : Sexp → Option LoopHdr
  | .list [.atom "forever"] => some .forever
  | .list [.atom "count", n] => (toRv n).map LoopHdr.count
  | .list [.atom "while", c] => (toRv c).map LoopHdr.while_
  | .list [.atom "range", .atom v, a, b] =>
    match toRv a, toRv b with
    | some x, some y => some (.range v x y)
    | _, _ => none
  | .list [.atom "interp", n, .atom v, a, b] =>
    match toRv n, toRv a, toRv b with
    | some k, some x, some y => some (.interp k v x y)
    | _, _, _ => none
  | .list [.atom "cycle", n, .atom v, s] =>
    match toRv n, toOptRv s with
    | some k, some x => some (.cycle k v x)
    | _, _ => none
  | .list [.atom "all", .atom lv, w] => (toWith w).map (LoopHdr.all lv)
  | .list [.atom "groups", .atom lv, w] => (toWith w).map (LoopHdr.groups lv)
  | .list [.atom "locations", .atom lv, w] => (toWith w).map (LoopHdr.locations lv)
  | .list [.atom "in", .list items, .atom lv, w] =>
    match items.mapM toItem, toWith w with
    | some its, some x => some (.iter its lv x)
    | _, _ => none
  | _ => none

def actKind : String → Option ActKind
  | "set" => some .set | "on" => some .on | "off" => some .off | _ => none

mutual
  partial def toStmt : Sexp → Option Stmt
    | .list [.atom "setreg", .atom r, v] =>
      match regOf r, toRv v with
      | some r, some v => some (.setReg r v)
      | _, _ => none
    | .list [.atom "units", .atom m] => (modeOf m).map Stmt.units
    | .list [.atom "actall", .atom k] => (actKind k).map Stmt.actAll
    | .list [.atom "setdefault"] => some (.setDefault true)
    | .list [.atom "action", .atom k, .list ops] =>
      match actKind k, ops.mapM toOperand with
      | some k, some os => some (.action k true (Operands.ofList os))
      | _, _ => none
    | .list [.atom "get", n] => (toRv n).map Stmt.get
    | .list [.atom "wait"] => some .wait
    | .list (.atom "timeat" :: ps) =>
      some (.timeAt (ps.filterMap fun | .atom a => some (parsePat a) | _ => none))
    | .list [.atom "assign", .atom n, v] => (toRv v).map (Stmt.assign n)
    | .list [.atom "defmacro", .atom n, .atom v] => (valOf v).map (Stmt.defMacro n)
    | .list [.atom "define", .atom n, .list ps, .list body] =>
      (body.mapM toStmt).map fun b => Stmt.defRoutine n (strs ps) (Block.ofList b)
    | .list [.atom "call", .atom f, .list ps, .list as] =>
      (as.mapM toRv).map fun a => Stmt.call f (strs ps) (Args.ofList a)
    | .list [.atom "return", v] => (toOptRv v).map Stmt.ret
    | .list [.atom "if", c, .list t, e] =>
      match toRv c, t.mapM toStmt with
      | some c, some t =>
        match e with
        | .atom "none" => some (.ite c (Block.ofList t) none)
        | .list es => (es.mapM toStmt).map fun b => Stmt.ite c (Block.ofList t) (some (Block.ofList b))
        | _ => none
      | _, _ => none
    | .list [.atom "repeat", h, .list body] =>
      match toHdr h, body.mapM toStmt with
      | some h, some b => some (.repeat_ h (Block.ofList b))
      | _, _ => none
    | .list [.atom "break"] => some .brk
    | .list [.atom "print", v] => (toRv v).map Stmt.print
    | .list [.atom "println", v] => (toOptRv v).map Stmt.println
    | .list [.atom "printf", .atom f, .list as] =>
      (as.mapM toRv).map fun a => Stmt.printf f (Args.ofList a)
    | .list [.atom "stage", rows, cols, .atom cf] =>
      match toRange rows, toRange cols with
      | some r, some c => some (.stage r c (cf == "1"))
      | _, _ => none
    | _ => none
  partial def toOperand : Sexp → Option Operand_
    | .list [.atom "light", n] => (toName n).map Operand_.light
    | .list [.atom "group", n] => (toName n).map Operand_.group
    | .list [.atom "location", n] => (toName n).map Operand_.location
    | .list [.atom "zone", n, a, b] =>
      match toName n, toRv a, toOptRv b with
      | some n, some a, some b => some (.zone n ⟨a, b⟩)
      | _, _, _ => none
    | .list [.atom "matrix", n, rows, cols, .atom cf] =>
      match toName n, toRange rows, toRange cols with
      | some n, some r, some c => some (.matrixInline n r c (cf == "1"))
      | _, _, _ => none
    | .list [.atom "matrix_block", n, .list body] =>
      match toName n, body.mapM toStmt with
      | some n, some b => some (.matrixBlock n (Block.ofList b))
      | _, _ => none
    | _ => none
end

def toProgram (s : String) : Option Block :=
  match parseSexp s with
  -- the `WAIT` flags of the commands are set from their position (`Block.lexical`)
  | some (.list stmts) => (stmts.mapM toStmt).map fun l => Block.lexical false (Block.ofList l)
  | _ => none

/-! ### instructions back to the wire form of `harness/vmwire.py: enc_instr_fixed` -/

def escP (s : String) : String :=
  String.ofList (s.toList.flatMap fun c => if c == '\\' then ['\\', '\\'] else if c == '|' then ['\\', 'p'] else [c])

def loopVarName : LoopVar → String
  | .counter => "COUNTER" | .current => "CURRENT" | .exitJmp => "EXIT_JMP" | .first => "FIRST"
  | .incr => "INCR" | .last => "LAST"

def operatorName : Operator → String
  | .add => "ADD" | .and => "AND" | .div => "DIV" | .eq => "EQ" | .lt => "LT" | .lte => "LTE"
  | .gt => "GT" | .gte => "GTE" | .mod => "MOD" | .mul => "MUL" | .not => "NOT"
  | .noteq => "NOTEQ" | .or => "OR" | .pow => "POW" | .sub => "SUB" | .uadd => "UADD"
  | .usub => "USUB"

def jumpName : JumpCond → String
  | .always => "ALWAYS" | .ifFalse => "IF_FALSE" | .ifTrue => "IF_TRUE" | .indirect => "INDIRECT"

def encLit : Val → String
  | .int i => "i:" ++ toString i
  | .num q => "f:" ++ ratStr q
  | .bool b => if b then "b:1" else "b:0"
  | .str s => "s:" ++ escP s
  | .none => ""
  | .operand o => "O:" ++ operandName o
  | .mode m => "U:" ++ modeName m
  | .pat p => "t:" ++ "+".intercalate (p.alts.map fun (hs, ms) =>
      ".".intercalate (hs.map toString) ++ "," ++ ".".intercalate (ms.map toString))

def encSrc : Src → String
  | .reg r => "R:" ++ regName r
  | .var n => "s:" ++ escP n
  | .loopVar l => "L:" ++ loopVarName l
  | .lit v => encLit v

def encDst : Dst → String
  | .reg r => "R:" ++ regName r
  | .var n => "s:" ++ escP n
  | .loopVar l => "L:" ++ loopVarName l

def enc3 (op a b : String) : String := op ++ "|" ++ a ++ "|" ++ b

def encInstrWire : Instr → String
  | .breakpoint => enc3 "BREAKPOINT" "" ""
  | .color => enc3 "COLOR" "" ""
  | .constant n v => enc3 "CONSTANT" ("s:" ++ escP n) (encLit v)
  | .ctx => enc3 "CTX" "" ""
  | .disc => enc3 "DISC" "" ""
  | .discm a => enc3 "DISCM" (encSrc a) ""
  | .dnext a => enc3 "DNEXT" (encSrc a) ""
  | .dnextm a b => enc3 "DNEXTM" (encSrc a) (encSrc b)
  | .end_ n => enc3 "END" ("s:" ++ escP n) ""
  | .endMatrix => enc3 "END" "O:MATRIX" ""
  | .endCtx => enc3 "END_CTX" "" ""
  | .endLoop => enc3 "END_LOOP" "" ""
  | .getColor => enc3 "GET_COLOR" "" ""
  | .jsr n => enc3 "JSR" ("s:" ++ escP n) ""
  | .jump c off => enc3 "JUMP" ("J:" ++ jumpName c) ("i:" ++ toString off)
  | .loop => enc3 "LOOP" "" ""
  | .matrix => enc3 "MATRIX" "" ""
  | .move s d => enc3 "MOVE" (encSrc s) (encDst d)
  | .moveq v d => enc3 "MOVEQ" (encLit v) (encDst d)
  | .nop => enc3 "NOP" "" ""
  | .op o => enc3 "OP" ("P:" ++ operatorName o) ""
  | .out io a =>
    match io with
    | .literal => enc3 "OUT" "I:LITERAL" (encSrc a)
    | .register => enc3 "OUT" "I:REGISTER" (encSrc a)
    | .print => enc3 "OUT" "I:PRINT" ""
    | .printEnd => enc3 "OUT" "I:PRINT_END" ""
    | .printf => enc3 "OUT" "I:PRINTF" (encSrc a)
  | .param n s => enc3 "PARAM" ("s:" ++ escP n) (encSrc s)
  | .pause => enc3 "PAUSE" "" ""
  | .pop d => enc3 "POP" (encDst d) ""
  | .power => enc3 "POWER" "" ""
  | .push s => enc3 "PUSH" (encSrc s) ""
  | .pushq v => enc3 "PUSHQ" (encLit v) ""
  | .ret => enc3 "RETURN" "" ""
  | .routine n => enc3 "ROUTINE" ("s:" ++ escP n) ""
  | .stop => enc3 "STOP" "" ""
  | .timePattern i p => enc3 "TIME_PATTERN" (if i then "S:INIT" else "S:UNION") (encLit p)
  | .wait => enc3 "WAIT" "" ""
  | .bad w => enc3 "BAD" w ""

/-- `gen.prog <sexp>` → the generated instructions in wire form, tab-free, separated by `\x1f` -/
def genCmd (args : List String) : String :=
  match args with
  | [sx] =>
    match toProgram (decode sx) with
    | none => "bad-ast"
    | some b =>
      match Gen.genProgram b with
      | none => "break-outside-loop"
      | some prog => "\x1f".intercalate (prog.map fun i => encode (encInstrWire i))
  | _ => "bad-args"

def outcomeStr : Sem.Outcome → String
  | .normal => "halted"
  | .brk => "fault(break outside loop)"
  | .ret => "fault(return outside a routine)"
  | .fault w => "fault(" ++ w ++ ")"
  | .uninterpreted w => "uninterpreted(" ++ w ++ ")"
  | .outOfFuel => "running"

/-- `sem.run <fuel> <nLights> <light>… <sexp>` → `<status> pc=0 ;events…` in the format of
`vm.run`: the source-level semantics of the script on the population.  As `Machine.run` does,
the output sink is flushed at the end (also after a fault). -/
def semCmd (args : List String) : String :=
  match args with
  | fuel :: n :: rest =>
    match fuel.toNat?, n.toNat? with
    | some fuel, some n =>
      let lights := (rest.take n).map fun a => parseLight (decode a)
      if lights.any Option.isNone then "bad-light"
      else
        match rest.drop n with
        | [sx] =>
          match toProgram (decode sx) with
          | none => "bad-ast"
          | some b =>
            let (o, s) := Sem.run fuel b (lights.filterMap id)
            let s := match o with
              | .normal | .fault _ | .brk | .ret => s.emit .flush
              | _ => s
            let evs := s.vm.trace.reverse.filterMap encEvent
            outcomeStr o ++ " pc=0 ;" ++ ";".intercalate evs
        | _ => "bad-args"
    | _, _ => "bad-args"
  | _ => "bad-args"

/-- `vm.loadfull <instr>…` → the model loader's image in wire form:
`name=addr,…` then `\x1f`-separated instructions -/
def loadFullCmd (args : List String) : String :=
  let prog := args.map fun a => VmD.decodeInstr (decode a)
  let img := Loader.load prog
  ",".intercalate (img.routines.map fun (n, a) => encode (escP n) ++ "=" ++ toString a) ++ "\x1e" ++
    "\x1f".intercalate (img.code.toList.map fun i => encode (encInstrWire i))

/-- `expr.parse <tok>…` with tokens `n:<value>` (number literal), `v:<name>`, `(`, `)` or an
operator symbol → the postfix code in wire form, or `reject` -/
def exprParseCmd (args : List String) : String :=
  let toks : List ExprParse.Tok := args.map fun a =>
    let a := decode a
    if a == "(" then .lparen
    else if a == ")" then .rparen
    else if a.startsWith "n:" then
      match valOf (a.drop 2).toString with
      | some v => .atom [Gen.pushLit v]
      | none => .atom [.bad a]
    else if a.startsWith "v:" then .atom [.push (.var (a.drop 2).toString)]
    else .op a
  match ExprParse.parse toks with
  | some code => "\x1f".intercalate (code.map fun i => encode (encInstrWire i))
  | none => "reject"

def handle (cmd : String) (args : List String) : Option String :=
  match cmd with
  | "gen.prog" => some (genCmd args)
  | "expr.parse" => some (exprParseCmd args)
  | "vm.loadfull" => some (loadFullCmd args)
  | "sem.run" => some (semCmd args)
  | _ => none

end Bardolph.Driver.AstD
