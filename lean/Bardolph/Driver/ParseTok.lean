import Bardolph.Model.ParseTok
import Bardolph.Driver.Ast
/-! Driver handler for the token-level parser model `ParseTok` (properties C06, C16, C17). -/
namespace Bardolph.Driver.PT
open Bardolph Bardolph.Wire

/-- wire form of an instruction; `Instr.bad` carries the exact wire text of an instruction the
typed `Instr` cannot express -/
def encI : Instr → String
  | .bad w => w
  | i => AstD.encInstrWire i

def encMsgs (msgs : List (Nat × String)) : String :=
  ",".intercalate (msgs.map fun m => toString m.1) ++ "\x1e" ++
    "\x1f".intercalate (msgs.map fun m => encode m.2)

/-- `parse.text <text>` → `accept <\x1f-separated wire instructions>` |
`reject <line numbers joined by ,>\x1e<\x1f-separated message texts>` | `silent` |
`raised <kind>` | `fuel` | `accept-with-errors <lines>\x1e<messages>` -/
def answer : ParseTok.Outcome → String
  | .accept prog => "accept " ++ "\x1f".intercalate (prog.map fun i => encode (encI i))
  | .reject msgs => "reject " ++ encMsgs msgs
  | .silentFail => "silent"
  | .raised k => "raised " ++ k
  | .outOfFuel => "fuel"
  | .acceptWithErrors _ msgs => "accept-with-errors " ++ encMsgs msgs

def handle (cmd : String) (args : List String) : Option String :=
  match cmd, args with
  | "parse.text", [text] => some (answer (ParseTok.parse (decode text)))
  | "parse.text", [] => some (answer (ParseTok.parse ""))
  | _, _ => none

end Bardolph.Driver.PT
