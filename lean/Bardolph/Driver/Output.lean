import Bardolph.Model.Output
import Bardolph.Driver.Wire
/-!
Driver handlers for the output model (property C19).

Every argument arrives percent-encoded by the harness (`Wire.decode` undoes that).  Inside an
argument the structure characters are `=` `,` `:` `;` `|` and the blank; a component that may
contain them is encoded once more with `enc` (here) / `inner_encode` (harness/c19.py).

Statement arguments of `out.run` / `out.compile`:
  `print` `print=<operand>` `println` `println=<operand>`
  `printf=<fmt>=<0|1 pyRaises>=<operand>,<operand>…`
  `assign=<name>=<operand>` `reg=<name>=<operand>` `dev=<label>`  and `job` (starts the next job)
Operands / values: `i:<int>` `f:<decimal>` `s:<text>` `b:<0|1>` `n:` `o:<text>` and, operands
only, `r:<register>` `v:<variable>` `x:` (evaluation raises).
-/
namespace Bardolph.Driver.Out
open Bardolph.Out Bardolph.Wire

def special (c : Char) : Bool :=
  c = '=' ∨ c = ',' ∨ c = ':' ∨ c = ';' ∨ c = '|' ∨ c = ' ' ∨ c = '%' ∨ c.toNat < 32 ∨ c.toNat > 126

def encChar (c : Char) : List Char :=
  if special c then
    if c.toNat < 256 then ['%', hexDigit (c.toNat / 16), hexDigit (c.toNat % 16)]
    else ['%', 'u', '{'] ++ Nat.toDigits 16 c.toNat ++ ['}']
  else [c]

def enc (s : String) : String := String.ofList (s.toList.flatMap encChar)
def encL (cs : List Char) : String := String.ofList (cs.flatMap encChar)

/-- split at the first occurrence of `sep` -/
def cut (sep : Char) (s : String) : String × String :=
  let cs := s.toList
  (String.ofList (cs.takeWhile (· ≠ sep)), String.ofList ((cs.dropWhile (· ≠ sep)).drop 1))

def parseValue (s : String) : Option Value :=
  let (k, p) := cut ':' s
  let p := decode p
  match k with
  | "i" => p.toInt?.map Value.int
  | "f" => some (.frac p)
  | "s" => some (.str p)
  | "b" => some (.bool (p = "1"))
  | "n" => some .none
  | "o" => some (.opaque p)
  | _ => none

def parseOperand (s : String) : Option Operand :=
  let (k, p) := cut ':' s
  match k with
  | "r" => some (.reg (decode p))
  | "v" => some (.var (decode p))
  | "x" => some .raises
  | _ => (parseValue s).map Operand.const

def showValue : Value → String
  | .int i => "i:" ++ toString i
  | .frac d => "f:" ++ enc d
  | .str s => "s:" ++ enc s
  | .bool b => if b then "b:1" else "b:0"
  | .none => "n:"
  | .opaque t => "o:" ++ enc t

def showChunk : Chunk → String
  | .lit s => "lit:" ++ enc s
  | .val v => "val:" ++ showValue v
  | .fmt f pos named =>
    "fmt:" ++ enc f ++ ";" ++ ",".intercalate (pos.map showValue) ++ ";" ++
      ",".intercalate (named.map fun (n, v) => enc n ++ "=" ++ showValue v)

def showEvent : Event → String
  | .out c => showChunk c
  | .dev l => "dev:" ++ enc l

def showEvents (es : List Event) : String := " ".intercalate (es.map showEvent)

def parseOperands (s : String) : Option (List Operand) :=
  if s = "" then some [] else (s.splitOn ",").mapM parseOperand

def parseStmt (arg : String) : Option Stmt :=
  match arg.splitOn "=" with
  | ["print"] => some (.print none)
  | ["print", o] => (parseOperand o).map (Stmt.print ∘ some)
  | ["println"] => some (.println none)
  | ["println", o] => (parseOperand o).map (Stmt.println ∘ some)
  | ["printf", f, r, ops] => (parseOperands ops).map fun os => .printf (decode f) os (r = "1")
  | ["assign", n, o] => (parseOperand o).map (Stmt.assign (decode n))
  | ["reg", n, o] => (parseOperand o).map (Stmt.setReg (decode n))
  | ["dev", l] => some (.device (decode l))
  | _ => none

/-- split the argument list at `job` markers -/
def splitJobs : List String → List (List String)
  | [] => [[]]
  | a :: rest =>
    match splitJobs rest with
    | [] => [[a]]
    | j :: js => if a = "job" then [] :: j :: js else (a :: j) :: js

def initValue (kind text : String) : Value :=
  match kind with
  | "b" => .bool (text = "1")
  | "i" => .int (text.toInt?.getD 0)
  | "f" => .frac text
  | "o" => .opaque text
  | _ => .none

/-- the registers as `Registers.__init__` leaves them (generated from the source) -/
def env0 : Env :=
  ⟨Bardolph.Generated.Output.registerInit.map fun (a, k, t) => (a, initValue k t), []⟩

def showField (f : Field) : String :=
  "L" ++ encL f.literal ++ ";" ++
    (match f.name with | some n => "N" ++ encL n | none => "-") ++ ";" ++
    "S" ++ encL f.spec ++ ";" ++
    (match f.conv with | some c => "C" ++ encL [c] | none => "-")

/-- `out.parse <fmt>` → `err` | the tuples of `Formatter().parse` -/
def parse_ (args : List String) : String :=
  match args with
  | [f] =>
    match parseFormat (decode f) with
    | none => "err"
    | some fs => "ok " ++ " ".intercalate (fs.map showField)
  | _ => "bad-args"

/-- `out.count <fmt>` → `err` | `<positional> <named name>,…` (raw string, as the compiler sees
it) `| <named names after unescaping>` (as the VM sees it) -/
def count_ (args : List String) : String :=
  match args with
  | [f] =>
    let f := decode f
    match fieldHeads f.toList, fieldHeads (unescape f.toList) with
    | some fs, some fs' =>
      toString (countPositional fs) ++ " " ++ ",".intercalate ((namedNames fs).map enc) ++ " | " ++
        toString (countPositional fs') ++ " " ++ ",".intercalate ((namedNames fs').map enc)
    | _, _ => "err"
  | _ => "bad-args"

def showInstr : Instr → Option String
  | .outLiteral _ => some "LITERAL"
  | .outRegister => some "REGISTER"
  | .outPrint => some "PRINT"
  | .outPrintEnd => some "PRINT_END"
  | .outPrintf f _ => some ("PRINTF:" ++ enc f)
  | _ => none

def parseItem (arg : String) : Option Item :=
  match arg.splitOn "=" with
  | ["P"] => some .kwPrint
  | ["L"] => some .kwPrintln
  | ["F", f] => some (.kwPrintf (decode f))
  | ["V", o] => (parseOperand o).map Item.value
  | "O" :: rest => (parseStmt ("=".intercalate rest)).map Item.other
  | _ => none

/-- `out.items <item>…` → `reject` | the `OUT` instructions of the compiled statements -/
def items_ (args : List String) : String :=
  match (args.map decode).mapM parseItem with
  | none => "bad-args"
  | some items =>
    match parseItems items with
    | none => "reject"
    | some ss => "accept " ++ " ".intercalate ((compile ss).filterMap showInstr)

/-- `out.run <p0> <stmt|job>…` → events of all jobs in order ` | ` per job `ok`/`fault`, the
final sink state and accumulator length.  `p0` = `1` if the sink starts with a line pending. -/
def run_ (args : List String) : String :=
  match args with
  | p0 :: rest =>
    let jobs := (splitJobs (rest.map decode)).map fun j => j.mapM parseStmt
    if jobs.all Option.isSome then
      let progs := jobs.map fun j => compile (j.getD [])
      let evs := runJobs env0 progs (p0 = "1")
      -- per-job status and final state, recomputed job by job
      let (stat, pend, acc) := progs.foldl
        (fun (acc : List String × Bool × Nat) p =>
          let r := runInstrs p (freshSt env0 acc.2.1)
          let m := machineRun p (freshSt env0 acc.2.1)
          (acc.1 ++ [if r.ok then "ok" else "fault"], m.2.pending, m.2.unnamed.length))
        ([], p0 = "1", 0)
      showEvents evs ++ " | " ++ ",".intercalate stat ++ " " ++ (if pend then "1" else "0") ++
        " " ++ toString acc
    else "bad-args"
  | _ => "bad-args"

/-- `out.instrs <p0> <u0> <instr>…`: raw `OUT` instruction sequences (also ones the compiler
never emits) over an accumulator that starts with `u0` values `i:0 … i:(u0-1)`; instructions
`R=<value>` (value to `result`, then `OUT REGISTER`), `T=<value>` (`OUT LITERAL`), `P`, `E`,
`F=<fmt>[=<0|1 pyRaises>]`, `X` (an instruction that raises) -/
def parseRaw (arg : String) : Option (List Instr) :=
  match arg.splitOn "=" with
  | ["R", v] => (parseValue v).map fun v => [.eval (.const v), .outRegister]
  | ["T", v] => (parseValue v).map fun v => [.outLiteral v]
  | ["P"] => some [.outPrint]
  | ["E"] => some [.outPrintEnd]
  | ["F", f] => some [.outPrintf (decode f) false]
  | ["F", f, r] => some [.outPrintf (decode f) (r = "1")]
  | ["X"] => some [.eval .raises]
  | _ => none

def instrs_ (args : List String) : String :=
  match args with
  | p0 :: u0 :: rest =>
    match (rest.map decode).mapM parseRaw with
    | none => "bad-args"
    | some is =>
      let st : St := ⟨env0, .none, (List.range (u0.toNat?.getD 0)).map fun i => .int (Int.ofNat i), p0 = "1"⟩
      let m := machineRun is.flatten st
      showEvents m.1 ++ " | " ++ (if m.2.pending then "1" else "0") ++ " " ++
        toString m.2.unnamed.length
  | _ => "bad-args"

def handle (cmd : String) (args : List String) : Option String :=
  match cmd with
  | "out.parse" => some (parse_ args)
  | "out.count" => some (count_ args)
  | "out.items" => some (items_ args)
  | "out.run" => some (run_ args)
  | "out.instrs" => some (instrs_ args)
  | _ => none

end Bardolph.Driver.Out
