import Bardolph.Model.Web
import Bardolph.Driver.Wire
/-!
Driver handlers for the web front-end model (property C20).

Strings in answers are rendered as the hexadecimal code points joined by `.` (empty string →
empty), so that `, ; : # |` can serve as separators.

* `web.escape <s>` → `html.escape(s)`
* `web.roundtrip <s>` → `unescape (escape s)`
* `web.derive <file_name> <path> <title>` → `<path>,<title>` as the web app derives them
* `web.route <url>` → `index` | `run:<p>` | `stop:<p>` | `stop-current` | `stop-all` | `off` |
  `status` | `capture` | `none`
* `web.run <n> (<file> <path> <title> <background> <color> <icon> <bg 0|1>)×n <input>…` with
  inputs `g<url>` (GET through the URL map), `r<path>` / `s<path>` (the run / stop handler
  called directly), `c<id>` (job number id finishes) → one record per input joined by `|`:
  `<response>#<events of this step>#<active>,<queue ids>,<background ids>`
-/
namespace Bardolph.Driver.Web
open Bardolph.Web Bardolph.Wire

def hex (n : Nat) : String := String.ofList (Nat.toDigits 16 n)

def encS (s : Str) : String := ".".intercalate (s.map fun c => hex c.toNat)

def str (a : String) : Str := (decode a).toList

def bit (b : Bool) : String := if b then "1" else "0"

def encView (v : View) : String :=
  ",".intercalate [encS v.script.fileName, encS v.script.path, encS v.script.title,
    encS v.script.background, encS v.script.color, encS v.script.icon,
    bit v.script.runBackground, bit v.running]

def encResponse : Response → String
  | .index scripts => "I" ++ ";".intercalate (scripts.map encView)
  | .action v icon msg => "A" ++ encView v ++ ":" ++ encS icon ++ ":" ++ encS msg
  | .status cur q bg =>
    "S" ++ (match cur with | some n => encS n | none => "-") ++ ":" ++
      ",".intercalate (q.map encS) ++ ":" ++ ",".intercalate (bg.map encS)

def encEvent : Event → String
  | .started p j bg =>
    "+" ++ ",".intercalate [toString j.id, encS j.name, encS j.file, bit bg, encS p]
  | .stopReq j => "!" ++ toString j.id
  | .snapshot => "snap"

def ids (js : List Job) : String := ".".intercalate (js.map fun j => toString j.id)

def encJC (jc : JC) : String :=
  (match jc.active with | some a => toString a.id | none => "-") ++ "," ++ ids jc.queue ++ "," ++
    ids jc.background

def encRequest : Option Request → String
  | none => "none"
  | some .index => "index"
  | some (.run p) => "run:" ++ encS p
  | some (.stop p) => "stop:" ++ encS p
  | some .stopCurrent => "stop-current"
  | some .stopAll => "stop-all"
  | some .off => "off"
  | some .status => "status"
  | some .capture => "capture"

def parseEntries : Nat → List String → Option (List Entry × List String)
  | 0, rest => some ([], rest)
  | n + 1, f :: p :: t :: b :: c :: i :: g :: rest =>
    match parseEntries n rest with
    | some (es, rest') =>
      some ({ fileName := str f, path := str p, title := str t, background := str b,
              color := str c, icon := str i, runBackground := g == "1" } :: es, rest')
    | none => none
  | _, _ => none

/-- one input applied to the state: the new state and the response part of the record -/
def applyInput (s : State) (inp : String) : Option (State × String) :=
  match (decode inp).toList with
  | 'g' :: url =>
    match route url with
    | some r => let (s', resp) := handle s r; some (s', encResponse resp)
    | none => some (s, "N")
  | 'r' :: p => let (s', resp) := handle s (.run p); some (s', encResponse resp)
  | 's' :: p => let (s', resp) := handle s (.stop p); some (s', encResponse resp)
  | 'c' :: n =>
    match (String.ofList n).toNat? with
    | some id => some (step s (.complete id), "C")
    | none => none
  | _ => none

def runInputs (s : State) (acc : List String) : List String → Option (List String)
  | [] => some acc.reverse
  | inp :: rest =>
    match applyInput s inp with
    | none => none
    | some (s', resp) =>
      let evs := (s'.log.drop s.log.length).map encEvent
      let record := resp ++ "#" ++ ";".intercalate evs ++ "#" ++ encJC s'.jc
      runInputs s' (record :: acc) rest

def run_ (args : List String) : String :=
  match args with
  | n :: rest =>
    match n.toNat? with
    | none => "bad-args"
    | some n =>
      match parseEntries n rest with
      | none => "bad-args"
      | some (entries, inputs) =>
        match runInputs (init entries) [] inputs with
        | some records => "|".intercalate records
        | none => "bad-input"
  | _ => "bad-args"

def handle (cmd : String) (args : List String) : Option String :=
  match cmd, args with
  | "web.escape", [s] => some (encS (escape (str s)))
  | "web.roundtrip", [s] => some (encS (unescape (escape (str s))))
  | "web.derive", [f, p, t] =>
    let e : Entry := { fileName := str f, path := str p, title := str t }
    some (encS (scriptPath e) ++ "," ++ encS (scriptTitle e))
  | "web.route", [u] => some (encRequest (route (str u)))
  | "web.run", args => some (run_ args)
  | "web.escape", _ | "web.roundtrip", _ | "web.derive", _ | "web.route", _ => some "bad-args"
  | _, _ => none

end Bardolph.Driver.Web
