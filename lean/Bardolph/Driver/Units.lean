import Bardolph.Model.Units
import Bardolph.Driver.Wire
/-! Driver handlers for the units model (properties C07, C14).

Numbers travel as exact fractions `n/d` (or plain integers); the harness converts every
Python float with `fractions.Fraction`, so the model computes on exactly the value the
implementation holds. -/
namespace Bardolph.Driver.Units
open Bardolph.Units Bardolph.Wire

def parseInt (s : String) : Option Int :=
  if s.startsWith "-" then (s.drop 1).toNat?.map fun n => -(n : Int)
  else s.toNat?.map fun n => (n : Int)

def parseRat (s : String) : Option Rat :=
  match s.splitOn "/" with
  | [n] => (parseInt n).map fun n => (n : Rat)
  | [n, d] =>
    match parseInt n, d.toNat? with
    | some n, some d => if d = 0 then none else some ((n : Rat) / (d : Rat))
    | _, _ => none
  | _ => none

def showRat (q : Rat) : String := toString q.num ++ "/" ++ toString q.den

def parseMode : String → Option Mode
  | "logical" => some .logical
  | "raw" => some .raw
  | "rgb" => some .rgb
  | _ => none

def showMode : Mode → String
  | .logical => "logical"
  | .raw => "raw"
  | .rgb => "rgb"

def parseRats (xs : List String) : Option (List Rat) := xs.mapM parseRat

def showColor (c : Color) : String :=
  " ".intercalate [showRat c.c0, showRat c.c1, showRat c.c2, showRat c.k]

def showInts (c : Int × Int × Int × Int) : String :=
  s!"{c.1} {c.2.1} {c.2.2.1} {c.2.2.2}"

def parseTime (s : String) : Option TimeReg :=
  if s = "P" then some .pattern else (parseRat s).map .num

def showTime : TimeReg → String
  | .num t => showRat t
  | .pattern => "P"

/-- `<mode> <hue> <sat> <bri> <kelvin> <red> <green> <blue> <duration> <time|P> <power 0|1>` -/
def parseRegs (args : List String) : Option Regs :=
  match args with
  | [m, h, s, b, k, r, g, bl, d, t, p] =>
    match parseMode m, parseRats [h, s, b, k, r, g, bl, d], parseTime t with
    | some m, some [h, s, b, k, r, g, bl, d], some t =>
      some ⟨h, s, b, k, r, g, bl, d, t, p = "1", m⟩
    | _, _, _ => none
  | _ => none

def showRegs (r : Regs) : String :=
  " ".intercalate [showMode r.unitMode, showRat r.hue, showRat r.saturation, showRat r.brightness,
    showRat r.kelvin, showRat r.red, showRat r.green, showRat r.blue, showRat r.duration,
    showTime r.time]

def parseKind : String → Option Kind
  | "light" => some .light
  | "group" => some .group
  | "location" => some .location
  | "all" => some .all
  | "zone" => some .zone
  | "matrix" => some .matrixCell
  | "power_light" => some .powerLight
  | "power_group" => some .powerGroup
  | "power_location" => some .powerLocation
  | "power_all" => some .powerAll
  | _ => none

def showWire (w : Wire) : String :=
  (match w.color with | some c => showInts c | none => "-") ++ " " ++
  (match w.power with | some p => toString p | none => "-") ++ " " ++ toString w.duration

def showDelay (r : Regs) : String :=
  match delaySeconds r with
  | some d => showRat d
  | none => "-"

/-- the exact values `make_raw` rounds in `rgb_to_raw` -/
def rgbRawExact (r : Regs) : List Rat :=
  let d := Bardolph.Generated.Units.g2rDivisor
  let fl := Bardolph.Generated.Units.g2rFloor
  let sc : Rat := (Bardolph.Generated.Units.g2rScale : Rat)
  let (h, s, v) := rgbToHsv (rgbFraction fl d r.red) (rgbFraction fl d r.green)
    (rgbFraction fl d r.blue)
  [h * sc, s * sc, v * sc]

/-- `u.emit <kind> <regs…>` → `H S B K|- power|- duration ; unrounded h s b k d ; delay`
(the unrounded values are what `_as_raw_color`/`_as_raw_time` produced, so that the harness
can measure how close a rounding was to a tie) -/
def emit_ (args : List String) : String :=
  match args with
  | kind :: rest =>
    match parseKind kind, parseRegs rest with
    | some kind, some r =>
      let exact := if r.unitMode = .rgb then
          " ".intercalate ((rgbRawExact r ++ [r.kelvin]).map showRat)
        else showColor (asRawColor r)
      showWire (emit kind r) ++ " ; " ++ exact ++ " " ++
        showRat (asRawTime r.unitMode r.duration) ++ " ; " ++ showDelay r
    | _, _ => "bad-args"
  | _ => "bad-args"

/-- `u.conv <fn name> <c0> <c1> <c2> <k>` → four fractions -/
def conv (args : List String) : String :=
  match args with
  | [fn, a, b, c, k] =>
    match fnByName fn, parseRats [a, b, c, k] with
    | some f, some [a, b, c, k] => showColor (f ⟨a, b, c, k⟩)
    | _, _ => "bad-args"
  | _ => "bad-args"

/-- `u.time raw|logical <t>` -/
def time_ (args : List String) : String :=
  match args with
  | ["raw", t] => match parseRat t with | some t => showRat (timeRaw t) | none => "bad-args"
  | ["logical", t] => match parseRat t with | some t => showRat (timeLogical t) | none => "bad-args"
  | _ => "bad-args"

/-- `u.param 8|16|32 <x>` / `u.round <x>` / `u.std <x>` -/
def param (args : List String) : String :=
  match args with
  | ["8", x] => match parseRat x with | some x => toString (param8 x) | none => "bad-args"
  | ["16", x] => match parseRat x with | some x => toString (param16 x) | none => "bad-args"
  | ["32", x] => match parseRat x with | some x => toString (param32 x) | none => "bad-args"
  | ["round", x] => match parseRat x with | some x => toString (roundHalfEven x) | none => "bad-args"
  | ["std", x] => match parseRat x with | some x => toString (standardize x) | none => "bad-args"
  | _ => "bad-args"

/-- `u.hsv <r> <g> <b>` = colorsys.rgb_to_hsv ; `u.rgb <h> <s> <v>` = colorsys.hsv_to_rgb -/
def colorsys (which : String) (args : List String) : String :=
  match parseRats args with
  | some [a, b, c] =>
    let (x, y, z) := if which = "hsv" then rgbToHsv a b c else hsvToRgb a b c
    " ".intercalate [showRat x, showRat y, showRat z]
  | _ => "bad-args"

/-- `u.r2l2r <x>`: a raw value read from a light in all three components, expressed in
logical units (`_assure_units`), then transmitted again from logical mode →
`H S B ; logical h s b` -/
def r2l2r (args : List String) : String :=
  match args with
  | [x] =>
    match parseRat x with
    | some x =>
      let lg := assureUnits .logical ⟨x, x, x, x⟩
      let w := paramColor (logicalToRaw lg)
      s!"{w.1} {w.2.1} {w.2.2.1} ; " ++ showColor lg
    | none => "bad-args"
  | _ => "bad-args"

/-- the values rounded by `make_raw` along a chain (every `rgb → raw` step) -/
def chainRounded : Regs → List Mode → List Rat
  | _, [] => []
  | r, m :: ms =>
    (if r.unitMode = .rgb ∧ m = .raw then rgbRawExact r else []) ++
      chainRounded (switchUnitMode r m) ms

/-- `u.switch <regs…> -- <mode> <mode> …` → the registers after the chain, then the wire
of a `set` to a light placed after it, the pending delay, and the exact values that the
`rgb → raw` steps of the chain rounded -/
def switch (args : List String) : String :=
  let regs := args.takeWhile (· ≠ "--")
  let modes := (args.dropWhile (· ≠ "--")).drop 1
  match parseRegs regs, modes.mapM parseMode with
  | some r, some ms =>
    let r' := switchChain r ms
    showRegs r' ++ " ; " ++ showWire (emit .light r') ++ " ; " ++ showDelay r' ++ " ; " ++
      " ".intercalate ((chainRounded r ms).map showRat)
  | _, _ => "bad-args"

def handle (cmd : String) (args : List String) : Option String :=
  match cmd with
  | "u.emit" => some (emit_ args)
  | "u.conv" => some (conv args)
  | "u.time" => some (time_ args)
  | "u.param" => some (param args)
  | "u.hsv" => some (colorsys "hsv" args)
  | "u.rgb" => some (colorsys "rgb" args)
  | "u.r2l2r" => some (r2l2r args)
  | "u.switch" => some (switch args)
  | _ => none

end Bardolph.Driver.Units
