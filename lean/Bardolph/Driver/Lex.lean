import Bardolph.Model.Lex
import Bardolph.Driver.Wire
/-! Driver handler for the lexer model (properties C16, C06). -/
namespace Bardolph.Driver.LexD
open Bardolph Bardolph.Wire

/-- `lex.tokens <text>` → `TYPE<US>content<US>line` joined by `<RS>` (`\x1f` / `\x1e`), each
field percent-encoded -/
def handle (cmd : String) (args : List String) : Option String :=
  match cmd, args with
  | "lex.tokens", [text] =>
    some ("\x1e".intercalate ((Lex.tokens (decode text)).map fun t =>
      t.type ++ "\x1f" ++ encode t.content ++ "\x1f" ++ toString t.line))
  | "lex.tokens", [] => some ""
  | _, _ => none

end Bardolph.Driver.LexD
