import Bardolph.Model.Snapshot
import Bardolph.Driver.Wire
/-! Driver handler for the snapshot model (property C18). -/
namespace Bardolph.Driver.Snap
open Bardolph Bardolph.Snapshot Bardolph.Wire

def ints (s : String) : List Int :=
  (s.splitOn ".").filterMap fun x =>
    if x.startsWith "-" then (x.drop 1).toString.toNat?.map fun n => -(n : Int) else x.toNat?.map fun n => (n : Int)

def colors (s : String) : List (List Int) := if s.isEmpty then [] else (s.splitOn ",").map ints

/-- one light: `kind \x1d name \x1d body` -/
def parseCaptured (a : String) : Option Captured :=
  match a.splitOn "\x1d" with
  | ["plain", n, body] =>
    match body.splitOn "|" with
    | [c, p] => some (.plain n (ints c) ((ints p).headD 0))
    | _ => none
  | ["multizone", n, body] => some (.multizone n (colors body))
  | ["matrix", n, body] =>
    match body.splitOn ":" with
    | [dims, cs] =>
      match dims.splitOn "x" with
      | [h, w] => match h.toNat?, w.toNat? with
        | some h, some w => some (.matrix n h w (colors cs))
        | _, _ => none
      | _ => none
    | _ => none
  | _ => none

def handle (cmd : String) (args : List String) : Option String :=
  match cmd with
  | "snap.text" =>
    match args.mapM fun a => parseCaptured (decode a) with
    | some ls => some (encode (scriptText ls))
    | none => some "bad-args"
  | _ => none

end Bardolph.Driver.Snap
