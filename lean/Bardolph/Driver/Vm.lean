import Bardolph.Model.Wf
import Bardolph.Driver.Wire
/-!
Driver handlers for the VM / loader model.

Instruction wire form: `OPCODE|p0|p1`, parameters tagged
`R:` register, `L:` loop variable, `O:` operand, `U:` unit mode, `P:` operator, `J:` jump
condition, `I:` io op, `S:` set op, `i:` int, `f:num/den` float, `b:0|1` bool, `s:` string,
`n` None, `t:` time pattern (`hours.hours,minutes.minutes;…` alternatives), `?:` anything else.
Inside a parameter `\` is `\\` and `|` is `\p`.
-/
namespace Bardolph.Driver.VmD
open Bardolph Bardolph.Vm Bardolph.Wire

def unescape : List Char → List Char
  | '\\' :: 'p' :: rest => '|' :: unescape rest
  | '\\' :: '\\' :: rest => '\\' :: unescape rest
  | c :: rest => c :: unescape rest
  | [] => []

def splitParams (s : String) : List String :=
  (s.splitOn "|").map fun p => String.ofList (unescape p.toList)

def regOf : String → Option Reg
  | "BLUE" => some .blue | "BRIGHTNESS" => some .brightness | "DEFAULT" => some .default
  | "DISC_FORWARD" => some .discForward | "DURATION" => some .duration
  | "FIRST_COLUMN" => some .firstColumn | "FIRST_ROW" => some .firstRow
  | "FIRST_ZONE" => some .firstZone | "GREEN" => some .green | "HUE" => some .hue
  | "LAST_COLUMN" => some .lastColumn | "LAST_ROW" => some .lastRow
  | "LAST_ZONE" => some .lastZone | "KELVIN" => some .kelvin | "MATRIX" => some .matrix
  | "MAT_BODY" => some .matBody | "MAT_TIP" => some .matTip | "NAME" => some .name
  | "OPERAND" => some .operand | "PC" => some .pc | "POWER" => some .power | "RED" => some .red
  | "RESULT" => some .result | "SATURATION" => some .saturation | "TIME" => some .time
  | "UNIT_MODE" => some .unitMode | _ => none

def regName : Reg → String
  | .blue => "BLUE" | .brightness => "BRIGHTNESS" | .default => "DEFAULT"
  | .discForward => "DISC_FORWARD" | .duration => "DURATION" | .firstColumn => "FIRST_COLUMN"
  | .firstRow => "FIRST_ROW" | .firstZone => "FIRST_ZONE" | .green => "GREEN" | .hue => "HUE"
  | .lastColumn => "LAST_COLUMN" | .lastRow => "LAST_ROW" | .lastZone => "LAST_ZONE"
  | .kelvin => "KELVIN" | .matrix => "MATRIX" | .matBody => "MAT_BODY" | .matTip => "MAT_TIP"
  | .name => "NAME" | .operand => "OPERAND" | .pc => "PC" | .power => "POWER" | .red => "RED"
  | .result => "RESULT" | .saturation => "SATURATION" | .time => "TIME" | .unitMode => "UNIT_MODE"

def loopVarOf : String → Option LoopVar
  | "COUNTER" => some .counter | "CURRENT" => some .current | "EXIT_JMP" => some .exitJmp
  | "FIRST" => some .first | "INCR" => some .incr | "LAST" => some .last | _ => none

def operandOf : String → Option Operand
  | "ALL" => some .all | "LIGHT" => some .light | "GROUP" => some .group
  | "LOCATION" => some .location | "MATRIX" => some .matrix | "DEFAULT" => some .default
  | "MATRIX_LIGHT" => some .matrixLight | "MZ_LIGHT" => some .mzLight | "NULL" => some .null
  | _ => none

def operandName : Operand → String
  | .all => "ALL" | .light => "LIGHT" | .group => "GROUP" | .location => "LOCATION"
  | .matrix => "MATRIX" | .default => "DEFAULT" | .matrixLight => "MATRIX_LIGHT"
  | .mzLight => "MZ_LIGHT" | .null => "NULL"

def modeOf : String → Option UnitMode
  | "LOGICAL" => some .logical | "RAW" => some .raw | "RGB" => some .rgb | _ => none

def modeName : UnitMode → String
  | .logical => "LOGICAL" | .raw => "RAW" | .rgb => "RGB"

def operatorOf : String → Option Operator
  | "ADD" => some .add | "AND" => some .and | "DIV" => some .div | "EQ" => some .eq
  | "LT" => some .lt | "LTE" => some .lte | "GT" => some .gt | "GTE" => some .gte
  | "MOD" => some .mod | "MUL" => some .mul | "NOT" => some .not | "NOTEQ" => some .noteq
  | "OR" => some .or | "POW" => some .pow | "SUB" => some .sub | "UADD" => some .uadd
  | "USUB" => some .usub | _ => none

def jumpOf : String → Option JumpCond
  | "ALWAYS" => some .always | "IF_FALSE" => some .ifFalse | "IF_TRUE" => some .ifTrue
  | "INDIRECT" => some .indirect | _ => none

def ioOf : String → Option IoOp
  | "LITERAL" => some .literal | "PRINT" => some .print | "PRINT_END" => some .printEnd
  | "PRINTF" => some .printf | "REGISTER" => some .register | _ => none

def parseInt (s : String) : Option Int :=
  if s.startsWith "-" then (s.drop 1).toString.toNat?.map fun n => -(n : Int)
  else s.toNat?.map fun n => (n : Int)

def parseRat (s : String) : Option Rat :=
  match s.splitOn "/" with
  | [n, d] => match parseInt n, d.toNat? with
    | some n, some d => if d == 0 then none else some (mkRat n d)
    | _, _ => none
  | [n] => (parseInt n).map fun i => (i : Rat)
  | _ => none

def parseNatList (s : String) : List Nat :=
  if s.isEmpty then [] else (s.splitOn ".").filterMap String.toNat?

def parsePat (s : String) : TP.Pat :=
  ⟨(s.splitOn "+").filterMap fun alt =>
    match alt.splitOn "," with
    | [hs, ms] => some (parseNatList hs, parseNatList ms)
    | _ => none⟩

/-- a tagged parameter -/
inductive P where
  | reg (r : Reg) | loopVar (l : LoopVar) | val (v : Val) | str (s : String)
  | operator (o : Operator) | jump (j : JumpCond) | io (i : IoOp) | setInit | setUnion
  | unknown (s : String) | absent

def tagSplit (s : String) : String × String :=
  match s.toList with
  | t :: ':' :: rest => (String.ofList [t], String.ofList rest)
  | _ => (s, "")

def parseP (s : String) : P :=
  if s == "" then .absent
  else if s == "n" then .val .none
  else
    let (t, body) := tagSplit s
    match t with
    | "R" => (regOf body).elim (.unknown s) .reg
    | "L" => (loopVarOf body).elim (.unknown s) .loopVar
    | "O" => (operandOf body).elim (.unknown s) fun o => .val (.operand o)
    | "U" => (modeOf body).elim (.unknown s) fun m => .val (.mode m)
    | "P" => (operatorOf body).elim (.unknown s) .operator
    | "J" => (jumpOf body).elim (.unknown s) .jump
    | "I" => (ioOf body).elim (.unknown s) .io
    | "S" => if body == "INIT" then .setInit else if body == "UNION" then .setUnion else .unknown s
    | "i" => (parseInt body).elim (.unknown s) fun i => .val (.int i)
    | "f" => (parseRat body).elim (.unknown s) fun q => .val (.num q)
    | "b" => .val (.bool (body == "1"))
    | "s" => .str body
    | "t" => .val (.pat (parsePat body))
    | _ => .unknown s

/-- a parameter used as a literal value (`MOVEQ`, `PUSHQ`, `CONSTANT`, …) -/
def P.lit : P → Option Val
  | .val v => some v
  | .str s => some (.str s)
  | .absent => some .none
  | _ => none

/-- a parameter read the way `MOVE`/`PUSH` read theirs -/
def P.src : P → Option Src
  | .reg r => some (.reg r)
  | .str s => some (.var s)
  | .loopVar l => some (.loopVar l)
  | .val v => some (.lit v)
  | .absent => some (.lit .none)
  | _ => none

/-- `VmDiscover._param_to_value`: strings and operands are themselves -/
def P.discArg : P → Option Src
  | .reg r => some (.reg r)
  | .str s => some (.lit (.str s))
  | .loopVar l => some (.loopVar l)
  | .val v => some (.lit v)
  | _ => none

def P.dst : P → Option Dst
  | .reg r => some (.reg r)
  | .str s => some (.var s)
  | .loopVar l => some (.loopVar l)
  | _ => none

def decodeInstr (text : String) : Instr :=
  let bad := Instr.bad text
  match splitParams text with
  | [op, a, b] =>
    let p0 := parseP a
    let p1 := parseP b
    match op with
    | "BREAKPOINT" => .breakpoint
    | "COLOR" => .color
    | "CONSTANT" => match p0, p1.lit with
      | .str n, some v => .constant n v
      | _, _ => bad
    | "CTX" => .ctx
    | "DISC" => .disc
    | "DISCM" => (p0.discArg).elim bad .discm
    | "DNEXT" => (p0.discArg).elim bad .dnext
    | "DNEXTM" => match p0.discArg, p1.discArg with
      | some x, some y => .dnextm x y
      | _, _ => bad
    | "END" => match p0 with
      | .val (.operand .matrix) => .endMatrix
      | .str n => .end_ n
      | _ => bad
    | "END_CTX" => .endCtx
    | "END_LOOP" => .endLoop
    | "GET_COLOR" => .getColor
    | "JSR" => match p0 with
      | .str n => .jsr n
      | _ => bad
    | "JUMP" => match p0, p1 with
      | .jump c, .val (.int off) => .jump c off
      | _, _ => bad
    | "LOOP" => .loop
    | "MATRIX" => .matrix
    | "MOVE" => match p0.src, p1.dst with
      | some s, some d => .move s d
      | _, _ => bad
    | "MOVEQ" => match p0.lit, p1.dst with
      | some v, some d => .moveq v d
      | _, _ => bad
    | "NOP" => .nop
    | "OP" => match p0 with
      | .operator o => .op o
      | _ => bad
    | "OUT" => match p0 with
      | .io .literal => (p1.lit).elim bad fun v => .out .literal (.lit v)
      | .io .register => match p1 with
        | .reg r => .out .register (.reg r)
        | _ => bad
      | .io .print => .out .print (.lit .none)
      | .io .printEnd => .out .printEnd (.lit .none)
      | .io .printf => match p1 with
        | .str f => .out .printf (.lit (.str f))
        | _ => bad
      | _ => bad
    | "PARAM" => match p0, p1 with
      | .str n, .reg r => .param n (.reg r)
      | .str n, p => (p.lit).elim bad fun v => .param n (.lit v)
      | _, _ => bad
    | "PAUSE" => .pause
    | "POP" => (p0.dst).elim bad .pop
    | "POWER" => .power
    | "PUSH" => match p0 with
      | .reg r => .push (.reg r)
      | .str s => .push (.var s)
      | .loopVar l => .push (.loopVar l)
      | .val (.int i) => .push (.lit (.int i))
      | .val (.num q) => .push (.lit (.num q))
      | .val (.bool b) => .push (.lit (.bool b))
      | .val (.operand .null) => .push (.lit (.operand .null))
      | _ => bad
    | "PUSHQ" => (p0.lit).elim bad .pushq
    | "RETURN" => .ret
    | "ROUTINE" => match p0 with
      | .str n => .routine n
      | _ => bad
    | "STOP" => .stop
    | "TIME_PATTERN" => match p0, p1.lit with
      | .setInit, some v => .timePattern true v
      | .setUnion, some v => .timePattern false v
      | _, _ => bad
    | "WAIT" => .wait
    | _ => bad
  | _ => bad

/-! ### output encoding -/

def escOut (s : String) : String :=
  String.ofList (s.toList.flatMap fun c =>
    if c = ';' ∨ c = ':' ∨ c = ',' ∨ c = '|' ∨ c = '=' ∨ c = ' ' then
      ['%', hexDigit (c.toNat / 16), hexDigit (c.toNat % 16)]
    else encodeChar c)

def ratStr (q : Rat) : String := toString q.num ++ "/" ++ toString q.den

def encVal : Val → String
  | .int i => "i:" ++ toString i
  | .num q => "f:" ++ ratStr q
  | .bool b => if b then "b:1" else "b:0"
  | .str s => "s:" ++ escOut s
  | .none => "n"
  | .operand o => "O:" ++ operandName o
  | .mode m => "U:" ++ modeName m
  | .pat p => "t:" ++ "+".intercalate (p.alts.map fun (hs, ms) =>
      ".".intercalate (hs.map toString) ++ "," ++ ".".intercalate (ms.map toString))

def intList (xs : List Int) : String := ".".intercalate (xs.map toString)

def encEvent : Event → Option String
  | .setColor l c d => some s!"C:{escOut l}:{intList c}:{d}"
  | .setPower l p d => some s!"P:{escOut l}:{p}:{d}"
  | .setZones l a b c d => some s!"Z:{escOut l}:{a}:{b}:{intList c}:{d}"
  | .setTile l cells d w h =>
    some s!"T:{escOut l}:{",".intercalate (cells.map intList)}:{d}:{w}:{h}"
  | .allColor c d => some s!"AC:{intList c}:{d}"
  | .allPower p d => some s!"AP:{p}:{d}"
  | .getColor l => some s!"G:{escOut l}"
  | .pause v => some s!"W:{encVal v}"
  | .waitUntil p => some s!"U:{encVal (.pat p)}"
  | .out v => some s!"O:{encVal v}"
  | .outFmt f pos named =>
    some s!"F:{escOut f}:{",".intercalate (pos.map encVal)}:{",".intercalate
      (named.map fun (n, v) => escOut n ++ "=" ++ encVal v)}"
  | .newline => some "NL"
  | .flush => some "FL"
  | .stdout t => some s!"S:{escOut t}"
  | .warn _ => none

def parseLight (s : String) : Option Light :=
  match splitParams s with
  | [name, group, location, kind, color, power] =>
    let k : Option LightKind := match kind.splitOn "." with
      | ["plain"] => some .plain
      | ["multizone", n] => n.toNat?.map .multizone
      | ["matrix", h, w] => match h.toNat?, w.toNat? with
        | some h, some w => some (.matrix h w)
        | _, _ => none
      | _ => none
    match k, parseInt power with
    | some k, some p =>
      some { name := name, group := group, location := location, kind := k,
             color := (color.splitOn ".").filterMap parseInt, power := p }
    | _, _ => none
  | _ => none

def statusStr : Status → String
  | .running => "running"
  | .halted => "halted"
  | .fault w => "fault(" ++ w ++ ")"
  | .uninterpreted w => "uninterpreted(" ++ w ++ ")"

def encImage (img : Image) : String :=
  toString img.code.size

/-- `vm.run <fuel> <nLights> <light>… <instr>…` → `<status> <steps-left> ; events…`
The program is loaded by the model loader first. -/
def runCmd (args : List String) : String :=
  match args with
  | fuel :: n :: rest =>
    match fuel.toNat?, n.toNat? with
    | some fuel, some n =>
      let lights := (rest.take n).map fun a => parseLight (decode a)
      if lights.any Option.isNone then "bad-light"
      else
        let prog := (rest.drop n).map fun a => decodeInstr (decode a)
        let img := Loader.load prog
        let s := Vm.finish (Vm.run img fuel (Vm.init (lights.filterMap id)))
        let evs := s.trace.reverse.filterMap encEvent
        statusStr s.status ++ " pc=" ++ toString s.pc ++ " ;" ++ ";".intercalate evs
    | _, _ => "bad-args"
  | _ => "bad-args"

def encInstr : Instr → String
  | .jump c off => s!"JUMP {repr c} {off}"
  | i => toString (repr i)

/-- `vm.load <instr>…` → the relocated image: jumps and routine table only (what C05 needs):
`<len> ; <idx>:<cond>:<off> … ; name=addr …` -/
def loadCmd (args : List String) : String :=
  let prog := args.map fun a => decodeInstr (decode a)
  let img := Loader.load prog
  let jumps := img.code.toList.zipIdx.filterMap fun x =>
    match x.1 with
    | .jump c off => some s!"{x.2}:{(repr c).pretty}:{off}"
    | _ => none
  toString img.code.size ++ " ;" ++ " ".intercalate jumps ++ " ;" ++
    " ".intercalate (img.routines.map fun (n, a) => escOut n ++ "=" ++ toString a)

/-- `vm.wf <instr>…` : load the compiled program with the model loader, run the proved checker -/
def wfCmd (args : List String) : String :=
  let prog := args.map fun a => decodeInstr (decode a)
  if Wf.wfImage (Loader.load prog) then "wf" else "not-wf"

/-- `vm.wfimage <k> <name=addr>×k <instr>…` : the IMPLEMENTATION's loaded image (code and routine
table as its own loader produced them) given to the proved checker -/
def wfImageCmd (args : List String) : String :=
  match args with
  | k :: rest =>
    match k.toNat? with
    | some k =>
      let rts := (rest.take k).filterMap fun a =>
        match (decode a).splitOn "=" with
        | [n, addr] => addr.toNat?.map fun x => (String.ofList (unescape n.toList), x)
        | _ => none
      if rts.length != k then "bad-routines"
      else
        let code := (rest.drop k).map fun a => decodeInstr (decode a)
        if Wf.wfImage { code := code.toArray, routines := rts } then "wf" else "not-wf"
    | none => "bad-args"
  | _ => "bad-args"

/-- `vm.image <instr>…` : the model loader's image, one token per instruction, for comparison
with the implementation's loader: `name=addr,… ; OPCODE/offset …` (jumps with their offsets) -/
def imageCmd (args : List String) : String :=
  let prog := args.map fun a => decodeInstr (decode a)
  let img := Loader.load prog
  let tag (i : Instr) : String :=
    match i with
    | .jump _ off => "JUMP/" ++ toString off
    | .routine n => "ROUTINE/" ++ escOut n
    | .end_ n => "END/" ++ escOut n
    | .jsr n => "JSR/" ++ escOut n
    | .endMatrix => "END/matrix"
    | .loop => "LOOP" | .endLoop => "END_LOOP" | .ctx => "CTX" | .endCtx => "END_CTX"
    | .ret => "RETURN"
    | _ => "."
  ",".intercalate (img.routines.map fun (n, a) => escOut n ++ "=" ++ toString a) ++ " ;" ++
    " ".intercalate (img.code.toList.map tag)

def handle (cmd : String) (args : List String) : Option String :=
  match cmd with
  | "vm.run" => some (runCmd args)
  | "vm.load" => some (loadCmd args)
  | "vm.wf" => some (wfCmd args)
  | "vm.wfimage" => some (wfImageCmd args)
  | "vm.image" => some (imageCmd args)
  | _ => none

end Bardolph.Driver.VmD
