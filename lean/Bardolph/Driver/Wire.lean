/-!
Line protocol helpers shared by all driver handlers.

A request line is `cmd<TAB>arg<TAB>arg…`; arguments are percent-encoded by the harness
(`%09` tab, `%0a` newline, `%0d` CR, `%25` percent, and any non-ASCII byte sequence as
UTF-8 code points `%u{hex}`), so every request is exactly one line.  The answer is one line.
-/
namespace Bardolph.Wire

def hexVal (c : Char) : Option Nat :=
  if '0' ≤ c ∧ c ≤ '9' then some (c.toNat - 48)
  else if 'a' ≤ c ∧ c ≤ 'f' then some (c.toNat - 87)
  else if 'A' ≤ c ∧ c ≤ 'F' then some (c.toNat - 55)
  else none

/-- decode `%XX` (two hex digits, a code point below 256) and `%u{H…}` -/
partial def decodeChars : List Char → List Char
  | '%' :: 'u' :: '{' :: rest =>
    let hex := rest.takeWhile (· ≠ '}')
    let after := (rest.dropWhile (· ≠ '}')).drop 1
    let n := hex.foldl (fun acc c => acc * 16 + (hexVal c).getD 0) 0
    Char.ofNat n :: decodeChars after
  | '%' :: a :: b :: rest =>
    match hexVal a, hexVal b with
    | some x, some y => Char.ofNat (x * 16 + y) :: decodeChars rest
    | _, _ => '%' :: decodeChars (a :: b :: rest)
  | c :: rest => c :: decodeChars rest
  | [] => []

def decode (s : String) : String := String.ofList (decodeChars s.toList)

def hexDigit (n : Nat) : Char :=
  if n < 10 then Char.ofNat (48 + n) else Char.ofNat (87 + n)

def encodeChar (c : Char) : List Char :=
  if c = '%' ∨ c = '\t' ∨ c = '\n' ∨ c = '\r' then
    ['%', hexDigit (c.toNat / 16), hexDigit (c.toNat % 16)]
  else if c.toNat < 32 ∨ c.toNat > 126 then
    ['%', 'u', '{'] ++ (Nat.toDigits 16 c.toNat) ++ ['}']
  else [c]

def encode (s : String) : String := String.ofList (s.toList.flatMap encodeChar)

/-- bits (most significant first within each group of four) to lower-case hex; the list is
padded with `false` to a multiple of four -/
def bitsToHexAux : List Bool → List Char
  | a :: b :: c :: d :: rest =>
    hexDigit ((if a then 8 else 0) + (if b then 4 else 0) + (if c then 2 else 0) +
      (if d then 1 else 0)) :: bitsToHexAux rest
  | _ => []

def bitsToHex (bs : List Bool) : String :=
  String.ofList (bitsToHexAux (bs ++ List.replicate ((4 - bs.length % 4) % 4) false))

def natList (xs : List Nat) : String := ",".intercalate (xs.map toString)

end Bardolph.Wire
