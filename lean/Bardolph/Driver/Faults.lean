import Bardolph.Model.Faults
import Bardolph.Driver.Wire
/-!
Driver handlers for the fault model (property C12).

Encodings (after percent-decoding of each argument; names contain none of `|;:,`):
* directory / devices: `label|kind|group|location;…`, kind ∈ `plain multizone matrix`
* fault script: `label|method|pattern;…`, pattern = `0`/`1` per attempt (`1` = raises), a
  trailing `*` = fails for ever
* colours: `label|n;…` (what each device reports at the start)
* script: `reg|n`, `ca`, `cl|name`, `cg|name`, `cL|name`, `cz|name`, `mx|name`, `cm|name`,
  `pa|b`, `pl|name|b`, `pg|name|b`, `pL|name|b`, `get|name`, separated by `;`
* events in answers: `label|method|payload|ok` or `…|fail`, separated by `;`
-/
namespace Bardolph.Driver.Faults
open Bardolph.Faults Bardolph.Wire

def items (s : String) : List (List String) :=
  if s.isEmpty then [] else (s.splitOn ";").map (·.splitOn "|")

def parseKind : String → Option Kind
  | "plain" => some .plain
  | "multizone" => some .multizone
  | "matrix" => some .matrix
  | _ => none

def parseDevs (s : String) : Option (List Dev) :=
  (items s).mapM fun
    | [l, k, g, loc] => (parseKind k).map fun k => ⟨l, k, g, loc⟩
    | _ => none

def parsePattern (s : String) : Oracle :=
  let cs := s.toList
  ⟨(cs.filter (· ≠ '*')).map (· == '1'), cs.contains '*'⟩

def parseFaults (s : String) : Option (List (String × String × Oracle)) :=
  (items s).mapM fun
    | [l, m, p] => some (l, m, parsePattern p)
    | _ => none

def faultFn (fs : List (String × String × Oracle)) (l m : String) : Oracle :=
  match fs.find? fun e => e.1 == l && e.2.1 == m with
  | some e => e.2.2
  | none => Oracle.quiet

def parseColours (s : String) : Option (List (String × Nat)) :=
  (items s).mapM fun
    | [l, n] => n.toNat?.map fun n => (l, n)
    | _ => none

def colourFn (cs : List (String × Nat)) (l : String) : Nat :=
  match cs.find? fun e => e.1 == l with
  | some e => e.2
  | none => 0

def parseBool : String → Option Bool
  | "1" => some true
  | "0" => some false
  | _ => none

def parseCmd : List String → Option Cmd
  | ["reg", n] => n.toNat?.map Cmd.reg
  | ["ca"] => some .colorAll
  | ["cl", n] => some (.colorLight n)
  | ["cg", n] => some (.colorGroup n)
  | ["cL", n] => some (.colorLocation n)
  | ["cz", n] => some (.colorZone n)
  | ["mx", n] => some (.matrix n)
  | ["cm", n] => some (.colorMatrixLight n)
  | ["pa", b] => (parseBool b).map Cmd.powerAll
  | ["pl", n, b] => (parseBool b).map (Cmd.powerLight n)
  | ["pg", n, b] => (parseBool b).map (Cmd.powerGroup n)
  | ["pL", n, b] => (parseBool b).map (Cmd.powerLocation n)
  | ["get", n] => some (.get n)
  | _ => none

def showEx : Ex → String
  | .workflow => "WorkflowException"
  | .light => "LightException"
  | .attribute => "AttributeError"
  | .type => "TypeError"

def showEvents (es : List Event) : String :=
  ";".intercalate (es.map fun e =>
    e.label ++ "|" ++ e.meth ++ "|" ++ toString e.payload ++ "|" ++ (if e.failed then "fail" else "ok"))

def showKind : Kind → String
  | .plain => "plain"
  | .multizone => "multizone"
  | .matrix => "matrix"

/-- `fl.run <dir> <faults> <colours> <reg> <script>` →
`completed|aborted:<ex>:<index> <reg> <events>` -/
def run_ (args : List String) : String :=
  match args.map decode with
  | [dir, faults, colours, reg, script] =>
    match parseDevs dir, parseFaults faults, parseColours colours, reg.toNat?,
        (items script).mapM parseCmd with
    | some dir, some fs, some cs, some reg, some cmds =>
      let r := run dir cmds reg ⟨faultFn fs, colourFn cs, []⟩
      let o := match r.1 with
        | .completed => "completed"
        | .aborted e i => "aborted:" ++ showEx e ++ ":" ++ toString i
      o ++ " " ++ toString r.2.1 ++ " " ++ showEvents r.2.2.events
    | _, _, _, _, _ => "bad-args"
  | _ => "bad-args"

/-- `fl.disc <fixed|pinned> <known dir> <successes> <failures> <devices answering> <faults>` →
`ok|failed|raised:<ex> <label|kind;…> <successes> <failures> <events>` -/
def disc (args : List String) : String :=
  match args.map decode with
  | [pol, dir, succ, fail, net, faults] =>
    let pol := if pol == "pinned" then InitPolicy.pinned else InitPolicy.fixed
    match parseDevs dir, succ.toNat?, fail.toNat?, parseDevs net, parseFaults faults with
    | some dir, some succ, some fail, some net, some fs =>
      let r := discover pol ⟨dir, succ, fail⟩ net ⟨faultFn fs, fun _ => 0, []⟩
      let o := match r.1 with
        | .ok => "ok"
        | .failed => "failed"
        | .raised e => "raised:" ++ showEx e
      o ++ " " ++ ";".intercalate (r.2.1.lights.map fun d => d.label ++ "|" ++ showKind d.kind ++
          "|" ++ d.group ++ "|" ++ d.location) ++
        " " ++ toString r.2.1.successes ++ " " ++ toString r.2.1.failures ++
        " " ++ showEvents r.2.2.events
    | _, _, _, _, _ => "bad-args"
  | _ => "bad-args"

/-- `fl.tries <n> <pattern>` → `<attempts> answered|failvalue` : the bare decorator -/
def tries_ (args : List String) : String :=
  match args.map decode with
  | [n, pat] =>
    match n.toNat? with
    | some n =>
      let r := tries n "d" "m" 0 ⟨fun _ _ => parsePattern pat, fun _ => 0, []⟩
      toString r.2.events.length ++ " " ++ (if r.1 then "answered" else "failvalue")
    | none => "bad-args"
  | _ => "bad-args"

/-- `fl.decorated <class> <method>` → `none` | `<tries> <None|value>` -/
def decorated (args : List String) : String :=
  match args.map decode with
  | [c, m] =>
    match retryOf c m with
    | some n => toString n ++ " " ++ (if failIsNone c m then "None" else "value")
    | none => "none"
  | _ => "bad-args"

def handle (cmd : String) (args : List String) : Option String :=
  match cmd with
  | "fl.run" => some (run_ args)
  | "fl.disc" => some (disc args)
  | "fl.tries" => some (tries_ args)
  | "fl.decorated" => some (decorated args)
  | _ => none

end Bardolph.Driver.Faults
