import Bardolph.Model.Vm
/-!
The loader (`bardolph/vm/loader.py`): routine bodies (`ROUTINE name … END name`) are moved
out of line in front of the main code, which is entered by one `JUMP`.  Relative jumps of
the main code that span an extracted routine are shortened by the routine's length, so that
every branch still leads to the instruction it led to before loading.
-/
namespace Bardolph
namespace Loader
open Vm

/-- classify every instruction of the compiled program: `true` = belongs to a routine
segment (`ROUTINE name` up to and including the matching `END name`) -/
def classify : Option String → List Instr → List Bool
  | _, [] => []
  | none, .routine n :: rest => true :: classify (some n) rest
  | none, _ :: rest => false :: classify none rest
  | some n, .end_ m :: rest => true :: classify (if m == n then none else some n) rest
  | some n, _ :: rest => true :: classify (some n) rest

/-- number of main-segment instructions strictly before index `i` -/
def mainPos (cls : List Bool) (i : Nat) : Nat := ((cls.take i).filter (· == false)).length

/-- main-segment instructions with spanning jumps shortened -/
def mainSegment (prog : List Instr) (cls : List Bool) : List Instr :=
  ((prog.zip cls).zipIdx.filter (fun x => x.1.2 == false)).map fun x =>
    match x.1.1 with
    | .jump c off =>
      let i := x.2
      let target := (i : Int) + off
      if c != .indirect && target ≥ 0 && target ≤ prog.length then
        .jump c ((mainPos cls target.toNat : Int) - (mainPos cls i : Int))
      else .jump c off
    | ins => ins

def routineSegment (prog : List Instr) (cls : List Bool) : List Instr :=
  ((prog.zip cls).filter (·.2 == true)).map (·.1)

/-- entry addresses: index after each `ROUTINE` marker in the relocated image -/
def routineTable (rseg : List Instr) : List (String × Nat) :=
  rseg.zipIdx.filterMap fun x =>
    match x.1 with
    | .routine n => some (n, x.2 + 2)
    | _ => none

def load (prog : List Instr) : Image :=
  let cls := classify none prog
  let rseg := routineSegment prog cls
  let main := mainSegment prog cls
  if rseg.isEmpty then { code := main.toArray, routines := [] }
  else
    { code := (.jump .always (rseg.length + 1) :: (rseg ++ main)).toArray,
      -- a later definition of the same name replaces the earlier one, as a dict does
      routines := (routineTable rseg).reverse }

end Loader
end Bardolph
