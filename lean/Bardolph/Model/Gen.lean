import Bardolph.Model.Ast
/-!
The code generator: resolved AST → instruction list, emitting exactly what `parse.py`,
`loop_parser.py`, `matrix_parser.py`, `expr_parser.py`, `io_parser.py` and `code_gen.py` emit,
in the same order.  `break` is emitted as a marker that is turned into `JUMP ALWAYS <distance to
the END_LOOP>` when the enclosing loop is closed — the functional form of the parser's
back-patching (`Context.fix_break_addrs`).
-/
namespace Bardolph
namespace Gen

/-- generated item: an instruction, or a not-yet-patched `break` -/
inductive G where
  | i (x : Instr)
  | brk
  deriving Inhabited

abbrev Code := List G

def ins (xs : List Instr) : Code := xs.map G.i

/-- a constant in an expression is pushed by value (`PUSHQ`), whatever its type -/
def pushLit (v : Val) : Instr := .pushq v

/-- where `_rvalue` delivers: a destination or the evaluation stack -/
inductive Dest where
  | to (d : Dst)
  | push
  deriving Inhabited

def result : Dst := .reg .result

mutual
  /-- `ExpressionParser.expression` → postfix -/
  def genExpr : Expr → List Instr
    | .lit v => [pushLit v]
    | .var n => [.push (.var n)]
    | .reg r => [.push (.reg r)]
    | .call f ps as => genCall f ps as ++ [.push (.reg .result)]
    | .un minus e =>
      genExpr e ++ (if minus then [.pushq (.int (-1)), .op .mul] else [])
    | .bin op a b => genExpr a ++ genExpr b ++ [.op op]
    | .paren e => genExpr e

  /-- `Parser._rvalue(dest)` -/
  def genRv : Rv → Dest → List Instr
    | .lit v, .to d => [.moveq v d]
    | .lit v, .push => [pushLit v]
    | .var n, .to d => [.move (.var n) d]
    | .var n, .push => [.push (.var n)]
    | .reg r, .to d => if d = .reg r then [] else [.move (.reg r) d]
    | .reg r, .push => [.push (.reg r)]
    | .expr e, .to d => genExpr e ++ [.pop d]
    | .expr e, .push => genExpr e        -- not produced by the generator (nested braces)
    | .call f ps as, .to d =>
      genCall f ps as ++ (if d = result then [] else [.move (.reg .result) d])
    | .call f ps as, .push => genCall f ps as ++ [.push (.reg .result)]

  /-- `Parser._call_routine` -/
  def genCall (f : String) : List String → Args → List Instr
    | ps, as => [.ctx] ++ genParams ps as ++ [.jsr f, .endCtx]

  def genParams : List String → Args → List Instr
    | p :: ps, .cons a rest => genRv a (.to result) ++ [.param p (.reg .result)] ++ genParams ps rest
    | _, _ => []
end

def genRange (first last : Reg) (r : Range) : List Instr :=
  genRv r.first (.to (.reg first)) ++
    match r.last with
    | some l => genRv l (.to (.reg last))
    | none => [.moveq .none (.reg last)]

/-- `MatrixParser._inline_operand` -/
def genMatrixRanges (rows cols : Option Range) (colsFirst : Bool) : List Instr :=
  let r := match rows with | some x => genRange .firstRow .lastRow x | none => []
  let c := match cols with | some x => genRange .firstColumn .lastColumn x | none => []
  [.moveq (.operand .matrix) (.reg .operand)] ++
    (if colsFirst then c ++ r else r ++ c) ++
    (if rows.isNone then [.moveq .none (.reg .firstRow), .moveq .none (.reg .lastRow)] else []) ++
    (if cols.isNone then [.moveq .none (.reg .firstColumn), .moveq .none (.reg .lastColumn)]
     else [])

def genName : NameSpec → Instr
  | .str s => .moveq (.str s) (.reg .name)
  | .var n => .move (.var n) (.reg .name)

def opcodeOf : ActKind → Instr
  | .set => .color
  | _ => .power

/-- `if_true_start … if_else … if_end` around already generated branches -/
def genIf (cond : Code) (thenC : Code) (elseC : Option Code) : Code :=
  match elseC with
  | none => cond ++ [G.i (.jump .ifFalse (thenC.length + 1))] ++ thenC
  | some e =>
    cond ++ [G.i (.jump .ifFalse (thenC.length + 2))] ++ thenC ++
      [G.i (.jump .always (e.length + 1))] ++ e

def plusEquals (d : Dst) (src : Src) (delta : Instr) : List Instr :=
  [.push src, delta, .op .add, .pop d]

def counter : Dst := .loopVar .counter

/-- `plus_equals(LoopVar.COUNTER)` -/
def incCounter : List Instr :=
  [.push (.loopVar .counter), .pushq (.int 1), .op .add, .pop counter]

/-- `test_op(op, a, b)` with both operands already as push instructions -/
def testOp (op : Operator) (a b : Instr) : List Instr := [a, b, .op op, .pop result]

/-- `_calc_counter` -/
def calcCounter : List Instr :=
  [.push (.loopVar .last), .push (.loopVar .first), .op .sub, .pop counter] ++
  testOp .lt (.push (.loopVar .counter)) (.pushq (.int 0)) ++
  [.jump .ifFalse 7,
   .push (.loopVar .counter), .pushq (.int (-1)), .op .mul, .pop counter,
   .moveq (.int (-1)) (.loopVar .incr),
   .jump .always 2,
   .moveq (.int 1) (.loopVar .incr)] ++
  incCounter

/-- `_calc_incr` -/
def calcIncr : List Instr :=
  testOp .noteq (.push (.loopVar .counter)) (.pushq (.int 1)) ++
  [.jump .ifFalse 10,
   .push (.loopVar .last), .push (.loopVar .first), .op .sub,
   .push (.loopVar .counter), .pushq (.int 1), .op .sub,
   .op .div, .pop (.loopVar .incr),
   .jump .always 2,
   .moveq (.int 0) (.loopVar .incr)]

/-- `_index_var_range` -/
def indexVarRange (v : String) (a b : Rv) (isWith : Bool) : List Instr :=
  genRv a (.to (.loopVar .first)) ++ genRv b (.to (.loopVar .last)) ++
  [.move (.loopVar .first) (.var v)] ++ (if isWith then calcCounter else calcIncr)

/-- `_cycle_var_range` -/
def cycleVarRange (v : String) (start : Option Rv) : List Instr :=
  (match start with
   | none => [.moveq (.int 0) (.loopVar .first)]
   | some s => genRv s (.to (.loopVar .first))) ++
  [.move (.loopVar .first) (.var v)] ++
  testOp .eq (.push (.loopVar .counter)) (.pushq (.int 0)) ++
  [.jump .ifFalse 3, .moveq (.int 0) (.loopVar .incr), .jump .always 12] ++
  testOp .eq (.push (.reg .unitMode)) (.pushq (.mode .raw)) ++
  [.jump .ifFalse 3, .pushq (.int 65536), .jump .always 2, .pushq (.int 360),
   .push (.loopVar .counter), .op .div, .pop (.loopVar .incr)]

def withClause : Option WithClause → List Instr
  | none => []
  | some (.fromTo v a b) => indexVarRange v a b false
  | some (.cycle v s) => cycleVarRange v s

def withVar : Option WithClause → Option String
  | none => none
  | some (.fromTo v _ _) => some v
  | some (.cycle v _) => some v

/-- the code inserted per discovered name: count it and push it -/
def pushCurrent : List Instr := incCounter ++ [.push (.loopVar .current)]

/-- `iter_lights`, `iter_sets`, `iter_members` share one skeleton -/
def iterSkeleton (start : List Instr) (testSrc : Src) (body : List Instr) (next : List Instr) :
    List Instr :=
  let inner := body ++ next
  start ++
  [.move (.reg .result) (.loopVar .current)] ++
  testOp .noteq (.push testSrc) (.push (.lit (.operand .null))) ++
  [.jump .ifFalse (inner.length + 2)] ++ inner ++
  [.jump .always (-(inner.length + 6 : Int))]

def iterLights : List Instr :=
  iterSkeleton [.moveq (.operand .light) (.reg .operand), .disc] (.loopVar .current) pushCurrent
    [.moveq (.operand .light) (.reg .operand), .dnext (.loopVar .current)]

def iterSets (o : Operand) : List Instr :=
  iterSkeleton [.moveq (.operand o) (.reg .operand), .disc] (.reg .result) pushCurrent
    [.moveq (.operand o) (.reg .operand), .dnext (.loopVar .current)]

def iterMembers (o : Operand) : List Instr :=
  iterSkeleton [.moveq (.operand o) (.reg .operand), .discm (.loopVar .first)]
    (.loopVar .current) pushCurrent
    [.moveq (.operand o) (.reg .operand), .dnextm (.loopVar .first) (.loopVar .current)]

/-- one item of `repeat in …` (`_pre_loop_list` without the recursion) -/
def iterItem : IterItem → List Instr
  | .light n => genRv n (.to result) ++ [.push (.reg .result)] ++ incCounter
  | .group n => genRv n (.to (.loopVar .first)) ++ iterMembers .group
  | .location n => genRv n (.to (.loopVar .first)) ++ iterMembers .location
  | .all => iterLights

/-- items are emitted last-first, so that the first item's names are popped first -/
def iterItems (items : List IterItem) : List Instr := (items.reverse.map iterItem).flatten

/-- turn the `break` markers of a closed loop body into jumps to `target` (an index into
the enclosing code) -/
def patchBreaks (code : Code) (base : Nat) (target : Nat) : Code :=
  code.zipIdx.map fun (g, k) =>
    match g with
    | .brk => G.i (.jump .always ((target : Int) - ((base + k : Nat) : Int)))
    | x => x

/-- `LoopParser.repeat` once prologue, test and body are known -/
def assembleLoop (pre : List Instr) (test : List Instr) (bodyPre : List Instr) (body : Code)
    (post : List Instr) : Code :=
  let head := ins ([Instr.loop] ++ pre)
  let top := head.length
  let testC := ins test
  let inner := ins bodyPre ++ body ++ ins post
  -- JUMP IF_FALSE over the body and the back jump
  let afterTest := top + testC.length + 1
  let exitIdx := afterTest + inner.length + 1
  let code := head ++ testC ++ [G.i (.jump .ifFalse (inner.length + 2))] ++ inner ++
    [G.i (.jump .always ((top : Int) - ((afterTest + inner.length : Nat) : Int)))]
  patchBreaks code 0 exitIdx ++ [G.i .endLoop]

def counterTest : List Instr := testOp .gt (.push (.loopVar .counter)) (.pushq (.int 0))

def loopPost (idx : Option String) : List Instr :=
  [.push (.loopVar .counter), .pushq (.int 1), .op .sub, .pop counter] ++
  match idx with
  | some v => [.push (.var v), .push (.loopVar .incr), .op .add, .pop (.var v)]
  | none => []

mutual
  def genStmt : Stmt → Code
    | .setReg r v => ins (genRv v (.to (.reg r)))
    | .units m => ins [.moveq (.mode m) (.reg .unitMode)]
    | .actAll k =>
      ins ((match k with
            | .on => [.moveq (.bool true) (.reg .power)]
            | .off => [.moveq (.bool false) (.reg .power)]
            | .set => []) ++
           [.wait, .moveq (.operand .all) (.reg .operand), opcodeOf k])
    | .setDefault w =>
      ins ((if w then [.wait] else []) ++ [.moveq (.operand .default) (.reg .operand), .color])
    | .action k w ops =>
      -- inside a matrix block (`w = false`) a command has no `WAIT` of its own
      ins (match k with
           | .on => [.moveq (.bool true) (.reg .power)]
           | .off => [.moveq (.bool false) (.reg .power)]
           | .set => []) ++ ins (if w then [.wait] else []) ++ genOperands k ops
    | .get name => ins (genRv name (.to result) ++ [.move (.reg .result) (.reg .name), .getColor])
    | .wait => ins [.wait]
    | .timeAt ps =>
      ins (match ps with
           | [] => []
           | p :: rest => .timePattern true (.pat p) :: rest.map fun q => .timePattern false (.pat q))
    | .assign n v => ins (genRv v (.to (.var n)))
    | .defMacro n v => ins [.constant n v]
    | .defRoutine n _ body => ins [.routine n] ++ genBlock body ++ ins [.end_ n]
    | .call f ps as => ins (genCall f ps as)
    | .ret v =>
      ins ((match v with
            | some rv => genRv rv (.to result)
            | none => [.moveq .none result]) ++ [.ret])
    | .ite c t e =>
      genIf (ins (genRv c (.to result))) (genBlock t)
        (match e with | some b => some (genBlock b) | none => none)
    | .repeat_ h body => genLoop h (genBlock body)
    | .brk => [G.brk]
    | .print v => ins (genRv v (.to result) ++ [.out .register (.reg .result), .out .print (.lit .none)])
    | .println v =>
      ins ((match v with
            | some rv => genRv rv (.to result) ++ [.out .register (.reg .result), .out .print (.lit .none)]
            | none => []) ++ [.out .printEnd (.lit .none)])
    | .printf fmt as => ins (genOutArgs as ++ [.out .printf (.lit (.str fmt))])
    | .stage rows cols cf => ins (genMatrixRanges rows cols cf ++ [.color])

  def genOutArgs : Args → List Instr
    | .nil => []
    | .cons a rest => genRv a (.to result) ++ [.out .register (.reg .result)] ++ genOutArgs rest

  def genBlock : Block → Code
    | .nil => []
    | .cons s rest => genStmt s ++ genBlock rest

  def genOperand : Operand_ → Code
    | .light n => ins [genName n, .moveq (.operand .light) (.reg .operand)]
    | .group n => ins [genName n, .moveq (.operand .group) (.reg .operand)]
    | .location n => ins [genName n, .moveq (.operand .location) (.reg .operand)]
    | .zone n r =>
      ins ([genName n] ++ genRange .firstZone .lastZone r ++ [.moveq (.operand .mzLight) (.reg .operand)])
    | .matrixInline n rows cols cf =>
      ins ([genName n, .matrix] ++ genMatrixRanges rows cols cf ++ [.color, .endMatrix,
           .moveq (.operand .matrixLight) (.reg .operand)])
    | .matrixBlock n body =>
      -- the name again after `END matrix`: commands inside the block may have loaded other names
      ins [genName n, .matrix] ++ genBlock body ++
        ins [.endMatrix, genName n, .moveq (.operand .matrixLight) (.reg .operand)]

  def genOperands (k : ActKind) : Operands → Code
    | .nil => []
    | .cons o rest => genOperand o ++ ins [opcodeOf k] ++ genOperands k rest

  /-- `LoopParser.repeat` -/
  def genLoop : LoopHdr → Code → Code
    | .forever, body => assembleLoop [] [.moveq (.bool true) result] [] body []
    | .while_ c, body => assembleLoop [] (genRv c (.to result)) [] body []
    | .count n, body => assembleLoop (genRv n (.to counter)) counterTest [] body (loopPost none)
    | .range v a b, body =>
      assembleLoop (indexVarRange v a b true) counterTest [] body (loopPost (some v))
    | .interp n v a b, body =>
      assembleLoop (genRv n (.to counter) ++ indexVarRange v a b false) counterTest [] body
        (loopPost (some v))
    | .cycle n v start, body =>
      assembleLoop (genRv n (.to counter) ++ cycleVarRange v start) counterTest [] body
        (loopPost (some v))
    | .all lv w, body =>
      assembleLoop ([.moveq (.int 0) counter] ++ iterLights ++ withClause w) counterTest
        [.pop (.var lv)] body (loopPost (withVar w))
    | .groups lv w, body =>
      assembleLoop ([.moveq (.int 0) counter] ++ iterSets .group ++ withClause w) counterTest
        [.pop (.var lv)] body (loopPost (withVar w))
    | .locations lv w, body =>
      assembleLoop ([.moveq (.int 0) counter] ++ iterSets .location ++ withClause w) counterTest
        [.pop (.var lv)] body (loopPost (withVar w))
    | .iter items lv w, body =>
      assembleLoop ([.moveq (.int 0) counter] ++ iterItems items ++ withClause w) counterTest
        [.pop (.var lv)] body (loopPost (withVar w))
end

/-- a whole script; a `break` outside any loop cannot be compiled (the parser rejects it) -/
def genProgram (b : Block) : Option Program :=
  (genBlock b).mapM fun g => match g with
    | .i x => some x
    | .brk => none

end Gen
end Bardolph
