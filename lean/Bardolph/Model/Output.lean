import Bardolph.Generated.Output
/-!
# Model of the output path (property C19)

Mirrors, after the `fix:` commits, `bardolph/parser/io_parser.py` (what `print`, `println`,
`printf` compile to and how many values they consume), `bardolph/vm/vm_io.py` (the five `OUT`
variants over the `_unnamed` accumulator — a stack: `PRINT` takes the last value, `PRINTF` the
last k —, `flush`, named-field lookup), the stdout sink
`bardolph/lib/std_out_output.py` (a two-state machine, `_line_pending`), and the part of
`Machine.run`/`Machine.reset` that decides what happens to pending output at the end of a run
and after a fault.

**What CPython does is a parameter.**  The model never renders a value.  Its output is a list of
`Chunk`s: `lit s` (these characters), `val v` (whatever `str(v)` is), `fmt f pos named`
(whatever `f.format(*pos, **named)` is).  The harness renders chunks with Python and compares
bytes.  Whether `str.format` *rejects* a call (`{:d}` for a float, index out of range, …) is
part of the same parameter: it is the `pyRaises` flag a `printf` statement carries.

What *is* modelled of CPython is `string.Formatter().parse` (`parseFormat` below: a
re-implementation of `MarkupIterator_next`/`parse_field` of `Objects/stringlib/
unicode_format.h`) and the first part of a field name (`formatter_field_name_split`), because
the compiler counts fields with them and the VM finds the named fields with them — including the
fields nested one level inside a format spec (`fieldHeads`).  Both are compared with the real
functions on every run.
-/
namespace Bardolph.Out
open Bardolph.Generated.Output

/-! ## Values, chunks, events -/

/-- run-time values as far as printing can tell them apart; `frac` carries the decimal text of a
Python float, `opaque` the `str()` of anything else (an enum member held by a register) -/
inductive Value
  | int (i : Int)
  | frac (dec : String)
  | str (s : String)
  | bool (b : Bool)
  | none
  | opaque (text : String)
  deriving Repr, DecidableEq, Inhabited

inductive Chunk
  /-- exactly these characters -/
  | lit (s : String)
  /-- `str(v)` -/
  | val (v : Value)
  /-- `f.format(*pos, **named)` -/
  | fmt (f : String) (pos : List Value) (named : List (String × Value))
  deriving Repr, DecidableEq

/-- what an observer of the process sees, in order: text on stdout and device commands -/
inductive Event
  | out (c : Chunk)
  | dev (label : String)
  deriving Repr, DecidableEq

/-! ## `string.Formatter().parse` -/

/-- one tuple `(literal_text, field_name, format_spec, conversion)`; `name = none` when no
replacement field follows the literal text -/
structure Field where
  literal : List Char
  name : Option (List Char)
  spec : List Char
  conv : Option Char
  deriving Repr, DecidableEq

/-- scanner states of `MarkupIterator_next` + `parse_field` -/
inductive PState
  /-- in literal text -/
  | lit (acc : List Char)
  /-- just read `{` after the literal `acc` -/
  | lbrace (acc : List Char)
  /-- just read `}` in literal text -/
  | rbrace (acc : List Char)
  /-- in a field name -/
  | name (l n : List Char)
  /-- inside `[…]` of a field name -/
  | bracket (l n : List Char)
  /-- just read `!` -/
  | bang (l n : List Char)
  /-- read the conversion character -/
  | conv (l n : List Char) (k : Char)
  /-- in the format spec, `depth` unclosed inner `{` -/
  | spec (l n : List Char) (k : Option Char) (s : List Char) (depth : Nat)
  deriving Repr, DecidableEq

def nameStep (l n : List Char) (c : Char) : Option (Option Field × PState) :=
  if c = '{' then none
  else if c = '[' then some (none, .bracket l (n ++ [c]))
  else if c = '}' then some (some ⟨l, some n, [], none⟩, .lit [])
  else if c = ':' then some (none, .spec l n none [] 0)
  else if c = '!' then some (none, .bang l n)
  else some (none, .name l (n ++ [c]))

/-- one character; `none` = `ValueError`; the first component is a completed tuple -/
def step : PState → Char → Option (Option Field × PState)
  | .lit acc, c =>
    if c = '{' then some (none, .lbrace acc)
    else if c = '}' then some (none, .rbrace acc)
    else some (none, .lit (acc ++ [c]))
  | .lbrace acc, c =>
    if c = '{' then some (some ⟨acc ++ ['{'], none, [], none⟩, .lit [])
    else nameStep acc [] c
  | .rbrace acc, c =>
    if c = '}' then some (some ⟨acc ++ ['}'], none, [], none⟩, .lit [])
    else none
  | .name l n, c => nameStep l n c
  | .bracket l n, c =>
    if c = ']' then some (none, .name l (n ++ [c])) else some (none, .bracket l (n ++ [c]))
  | .bang l n, c => some (none, .conv l n c)
  | .conv l n k, c =>
    if c = '}' then some (some ⟨l, some n, [], some k⟩, .lit [])
    else if c = ':' then some (none, .spec l n (some k) [] 0)
    else none
  | .spec l n k s d, c =>
    if c = '{' then some (none, .spec l n k (s ++ [c]) (d + 1))
    else if c = '}' then
      match d with
      | 0 => some (some ⟨l, some n, s, k⟩, .lit [])
      | d' + 1 => some (none, .spec l n k (s ++ [c]) d')
    else some (none, .spec l n k (s ++ [c]) d)

/-- end of the string -/
def finish : PState → Option (List Field)
  | .lit [] => some []
  | .lit (c :: l) => some [⟨c :: l, none, [], none⟩]
  | _ => none

def scan : PState → List Char → Option (List Field)
  | st, [] => finish st
  | st, c :: cs =>
    match step st c with
    | none => none
    | some (none, st') => scan st' cs
    | some (some f, st') => (scan st' cs).map (f :: ·)

/-- `list(string.Formatter().parse(s))`, `none` = `ValueError` -/
def parseChars (cs : List Char) : Option (List Field) := scan (.lit []) cs

def parseFormat (s : String) : Option (List Field) := parseChars s.toList

/-! ### the replacement fields `printf` works with (`bardolph/lib/format_fields.py: field_names`)

For every tuple with a field name: the FIRST PART of the name (`formatter_field_name_split(name)[0]`:
the text before the first `.` or `[` — an `int` if it is all digits, `''` if it is empty, else a
`str`), then the same for the fields nested one level inside its format spec (`str.format` allows
exactly one level; the spec is parsed by the same `Formatter().parse`).  Positional = empty or a
number: the compiler reads one value per positional field, the VM looks the others up by name. -/

/-- the first part of a field name -/
def firstPart (n : List Char) : List Char := n.takeWhile fun c => c != '.' && c != '['

/-- value of a string of ASCII digits -/
def digitsVal (cs : List Char) : Nat := cs.foldl (fun acc c => acc * 10 + (c.toNat - 48)) 0

/-- `PY_SSIZE_T_MAX`: a numbered field beyond it is a `ValueError` ("Too many decimal digits") -/
def maxIndex : Nat := 9223372036854775807

inductive Head
  /-- auto-numbered (`{}`, `{.real}`) or numbered (`{0}`, `{0.real}`, `{1[2]}`) -/
  | pos
  /-- named: `{x}`, `{x.real}`, `{s[0]}` are all the name `x` / `s` -/
  | named (n : String)
  deriving Repr, DecidableEq

/-- `formatter_field_name_split(name)[0]` as far as `printf` looks at it; `none` = `ValueError` -/
def headOf (n : List Char) : Option Head :=
  let p := firstPart n
  if p.isEmpty then some .pos
  else if p.all Char.isDigit then (if digitsVal p ≤ maxIndex then some .pos else none)
  else some (.named (String.ofList p))

/-- the heads of the fields among these tuples (not looking into their specs) -/
def flatHeads : List Field → Option (List Head)
  | [] => some []
  | f :: fs =>
    match f.name with
    | none => flatHeads fs
    | some n =>
      match headOf n, flatHeads fs with
      | some h, some hs => some (h :: hs)
      | _, _ => none

/-- the heads of all replacement fields, in the order `str.format` takes them: a field's own,
then those nested in its spec -/
def headsOf : List Field → Option (List Head)
  | [] => some []
  | f :: fs =>
    match f.name with
    | none => headsOf fs
    | some n =>
      match headOf n, (parseChars f.spec).bind flatHeads, headsOf fs with
      | some h, some inner, some hs => some (h :: inner ++ hs)
      | _, _, _ => none

/-- `list(field_names(s))`, `none` = `ValueError` -/
def fieldHeads (cs : List Char) : Option (List Head) := (parseChars cs).bind headsOf

def Head.isPos : Head → Bool
  | .pos => true
  | .named _ => false

def Head.name? : Head → Option String
  | .pos => none
  | .named n => some n

/-- `name == '' or isinstance(name, int)` counted (io_parser.printf, VmIo._printf) -/
def countPositional (hs : List Head) : Nat := (hs.filter Head.isPos).length

/-- the names the VM looks up -/
def namedNames (hs : List Head) : List String := hs.filterMap Head.name?

/-- `format_str.replace('\\n', '\n')`: every backslash-n pair, left to right -/
def unescape : List Char → List Char
  | '\\' :: 'n' :: rest => '\n' :: unescape rest
  | c :: rest => c :: unescape rest
  | [] => []

def unescapeStr (s : String) : String := String.ofList (unescape s.toList)

/-! ## Environment -/

structure Env where
  /-- attribute of `Registers` ↦ value -/
  regs : List (String × Value)
  /-- what `CallStack.get_variable` sees (constants, variables, parameters, globals) -/
  vars : List (String × Value)
  deriving Repr, DecidableEq

def Env.setReg (e : Env) (n : String) (v : Value) : Env := { e with regs := (n, v) :: e.regs }
def Env.setVar (e : Env) (n : String) (v : Value) : Env := { e with vars := (n, v) :: e.vars }

/-- an rvalue as far as output is concerned: its evaluation (expression code, a call, a move)
leaves a value in `result`, or raises -/
inductive Operand
  | const (v : Value)
  | reg (n : String)
  | var (n : String)
  | raises
  deriving Repr, DecidableEq

def evalOp (e : Env) : Operand → Option Value
  | .const v => some v
  | .reg n => e.regs.lookup n
  | .var n => some ((e.vars.lookup n).getD .none)
  | .raises => none

def evalOps (e : Env) : List Operand → Option (List Value)
  | [] => some []
  | o :: os =>
    match evalOp e o with
    | none => none
    | some v => (evalOps e os).map (v :: ·)

/-- `Register.from_string(name) is not None` -/
def isRegisterName (n : String) : Bool := registerMembers.contains n.toUpper

/-- value of a named field (VmIo._printf): the variable of that name if there is one, else the
register of that name (any case), else `None`.  `none` = the lookup raises (`mat_body`). -/
def lookupNamed (e : Env) (n : String) : Option Value :=
  match e.vars.lookup n with
  | some v => if v = .none then
      (if isRegisterName n then e.regs.lookup n.toLower else some .none) else some v
  | none => if isRegisterName n then e.regs.lookup n.toLower else some .none

def lookupAll (e : Env) : List String → Option (List (String × Value))
  | [] => some []
  | n :: ns =>
    match lookupNamed e n with
    | none => none
    | some v => (lookupAll e ns).map ((n, v) :: ·)

/-- the run-time part of a `printf`: unescape, find the named fields, look them up.
`none` = the VM faults (format rejected by the parser, or a lookup raises). -/
def fillNamed (e : Env) (f : String) : Option (String × List (String × Value)) :=
  let f' := unescape f.toList
  match fieldHeads f' with
  | none => none
  | some hs => (lookupAll e (namedNames hs)).map fun named => (String.ofList f', named)

/-- how many of the accumulated values an `OUT PRINTF` takes: the anonymous and numbered fields
of the (unescaped) format, counted as the compiler counts them -/
def vmCount (f : String) : Option Nat := (fieldHeads (unescape f.toList)).map countPositional

/-! ## Statements and what `io_parser` makes of them -/

inductive Stmt
  | print (o : Option Operand)
  | println (o : Option Operand)
  /-- `pyRaises`: CPython's `str.format` rejects this call (part of the Python parameter) -/
  | printf (fmt : String) (ops : List Operand) (pyRaises : Bool)
  | assign (n : String) (o : Operand)
  | setReg (n : String) (o : Operand)
  | device (label : String)
  deriving Repr, DecidableEq

inductive Instr
  /-- the code for an rvalue: leaves its value in `result` -/
  | eval (o : Operand)
  /-- `OUT LITERAL v` (io_parser never emits it: `_out_rvalue` is always called with `end=None`) -/
  | outLiteral (v : Value)
  /-- `OUT REGISTER result` -/
  | outRegister
  /-- `OUT PRINT` -/
  | outPrint
  /-- `OUT PRINT_END` -/
  | outPrintEnd
  /-- `OUT PRINTF fmt` -/
  | outPrintf (fmt : String) (pyRaises : Bool)
  /-- move `result` to a variable / a register -/
  | store (toReg : Bool) (n : String)
  /-- any device command -/
  | device (label : String)
  deriving Repr, DecidableEq

/-- the names of the five variants, for the agreement theorem with `vm_codes.IoOp` -/
def ioOpNames : List String := ["LITERAL", "PRINT", "PRINT_END", "PRINTF", "REGISTER"]

def outRvalue (o : Operand) : List Instr := [.eval o, .outRegister]

def compileStmt : Stmt → List Instr
  | .print none => []
  | .print (some o) => outRvalue o ++ [.outPrint]
  | .println none => [.outPrintEnd]
  | .println (some o) => outRvalue o ++ [.outPrint, .outPrintEnd]
  | .printf f ops r => ops.flatMap outRvalue ++ [.outPrintf f r]
  | .assign n o => [.eval o, .store false n]
  | .setReg n o => [.eval o, .store true n]
  | .device l => [.device l]

def compile (ss : List Stmt) : List Instr := ss.flatMap compileStmt

/-! ### How many values a statement takes from the source (io_parser.print/println/printf) -/

inductive Item
  | kwPrint
  | kwPrintln
  /-- `printf` followed by a string constant (`""` also stands for "not a string") -/
  | kwPrintf (fmt : String)
  /-- a token sequence for which `at_rvalue()` holds -/
  | value (o : Operand)
  /-- any other complete statement -/
  | other (s : Stmt)
  deriving Repr, DecidableEq

/-- first argument: a `printf` still collecting values — format, values so far, and how many
more are needed *after the next one*.  `none` = rejected by the compiler. -/
def parseGo : Option (String × List Operand × Nat) → List Item → Option (List Stmt)
  | some (f, acc, k), .value o :: r =>
    match k with
    | 0 => (parseGo none r).map (.printf f (acc ++ [o]) false :: ·)
    | k' + 1 => parseGo (some (f, acc ++ [o], k')) r
  | some _, _ => none
  | none, [] => some []
  | none, .kwPrint :: .value o :: r => (parseGo none r).map (.print (some o) :: ·)
  | none, .kwPrint :: r => (parseGo none r).map (.print none :: ·)
  | none, .kwPrintln :: .value o :: r => (parseGo none r).map (.println (some o) :: ·)
  | none, .kwPrintln :: r => (parseGo none r).map (.println none :: ·)
  | none, .kwPrintf f :: r =>
    if f = "" then none
    else match fieldHeads f.toList with
      | none => none
      | some fs =>
        match countPositional fs with
        | 0 => (parseGo none r).map (.printf f [] false :: ·)
        | k + 1 => parseGo (some (f, [], k)) r
  | none, .value _ :: _ => none
  | none, .other s :: r => (parseGo none r).map (s :: ·)

def parseItems (items : List Item) : Option (List Stmt) := parseGo none items

/-! ## The sink (`StdOutOutput`), `VmIo`, and the end of `Machine.run` -/

structure St where
  env : Env
  result : Value
  /-- `VmIo._unnamed` -/
  unnamed : List Value
  /-- `StdOutOutput._line_pending` (one sink per process: `bind_instance`) -/
  pending : Bool
  deriving Repr, DecidableEq

/-- `StdOutOutput.out` -/
def sinkOut (c : Chunk) (pending : Bool) : List Event :=
  (if pending then [Event.out (.lit separator)] else []) ++ [Event.out c]

/-- `StdOutOutput.newline` -/
def sinkNewline : List Event := [.out (.lit lineEnd)]

/-- one instruction; `none` = it raises -/
def exec (i : Instr) (s : St) : Option (List Event × St) :=
  match i with
  | .eval o => (evalOp s.env o).map fun v => ([], { s with result := v })
  | .outLiteral v => some ([], { s with unnamed := s.unnamed ++ [v] })
  | .outRegister => some ([], { s with unnamed := s.unnamed ++ [s.result] })
  | .outPrint =>
    -- the most recent value only: a routine called while an enclosing `printf` is still
    -- collecting its values must not disturb them
    match s.unnamed.getLast? with
    | none => some ([], s)
    | some v =>
      some (sinkOut (.val v) s.pending, { s with unnamed := s.unnamed.dropLast, pending := true })
  | .outPrintEnd => some (sinkNewline, { s with pending := false })
  | .outPrintf f r =>
    match fillNamed s.env f with
    | none => none
    | some (f', named) =>
      -- the last `k` values (`k` = positional fields); `fillNamed = some _` implies `vmCount = some _`
      let first := s.unnamed.length - (vmCount f).getD 0
      if r then none
      else some (sinkOut (.fmt f' (s.unnamed.drop first) named) s.pending,
                 { s with unnamed := s.unnamed.take first, pending := true })
  | .store true n => some ([], { s with env := s.env.setReg n s.result })
  | .store false n => some ([], { s with env := s.env.setVar n s.result })
  | .device l => some ([.dev l], s)

structure Run where
  events : List Event
  st : St
  /-- the program ran to its end (no instruction raised) -/
  ok : Bool
  deriving Repr, DecidableEq

/-- the main loop of `Machine.run` on a straight-line program -/
def runInstrs : List Instr → St → Run
  | [], s => ⟨[], s, true⟩
  | i :: is, s =>
    match exec i s with
    | none => ⟨[], s, false⟩
    | some (ev, s') =>
      let r := runInstrs is s'
      ⟨ev ++ r.events, r.st, r.ok⟩

/-- the loop of `VmIo.flush` over the values still accumulated -/
def flushVals : List Value → Bool → List Event × Bool
  | [], p => ([], p)
  | v :: vs, p => (sinkOut (.val v) p ++ (flushVals vs true).1, (flushVals vs true).2)

/-- `VmIo.flush`: leftover values, then `StdOutOutput.flush` (end a pending line), then reset -/
def flush (s : St) : List Event × St :=
  let r := flushVals s.unnamed s.pending
  (r.1 ++ (if r.2 then [Event.out (.lit flushLineEnd)] else []),
   { s with unnamed := [], pending := false })

/-- `Machine.run`: the loop, then `flush`; after an exception the accumulator is discarded and
the pending line is ended all the same -/
def machineRun (prog : List Instr) (s : St) : List Event × St :=
  let r := runInstrs prog s
  let f := flush (if r.ok then r.st else { r.st with unnamed := [] })
  (r.events ++ f.1, f.2)

/-- `Machine.reset()` followed by `run`: fresh registers and variables, empty accumulator; the
sink is shared by every job of the process, so its state is what the previous run left -/
def freshSt (env0 : Env) (pending : Bool) : St := ⟨env0, .none, [], pending⟩

/-- several jobs one after the other in one process -/
def runJobs (env0 : Env) : List (List Instr) → Bool → List Event
  | [], _ => []
  | p :: ps, pending =>
    let r := machineRun p (freshSt env0 pending)
    r.1 ++ runJobs env0 ps r.2.pending

end Bardolph.Out
