import Bardolph.Model.Lex
import Bardolph.Model.Instr
import Bardolph.Model.Output
/-!
# `ParseTok` — a token-level model of the whole compiler front end

An executable, total, fuel-indexed mirror of `Parser.parse(text)` (`bardolph/parser/parse.py`,
`expr_parser.py`, `loop_parser.py`, `matrix_parser.py`, `io_parser.py`, `sub_parser.py`,
`context.py`, `code_gen.py`, `token.py`, `lib/symbol_table.py`, `controller/routine.py`) from
the token list of `Lex.tokens` to the parser's outcome.

Conventions

* every Python routine returning a bool is a function `St → Res Unit`: `ok` = `True`,
  `fail` = a falsy result (`False`, and the `None` of `_param_decl`), `raised k` = a Python
  exception of class `k` would escape, `oof` = the model's fuel ran out;
* `trigger_error` appends `(line of the current token, text)` to `St.errors`;
* code is emitted into `St.code` (the parser's `CodeGen`) or `St.inner` (the scratch `CodeGen` of
  `LoopParser._pre_loop_list`); jump instructions are patched by index where Python patches the
  `Instruction` object (`if_else`, `if_end`, `fix_break_addrs`);
* an instruction the typed `Instr` cannot express is `Instr.bad <its exact wire text>`;
* the loop stack keeps the `None` markers of `Context._suspend_loops`.

What is NOT modelled: Python's recursion limit — a text nested a few hundred levels deep
(`'if 1 ' * 330 + 'hue 5'`, a thousand parentheses) makes `Parser.parse` hit `RecursionError`,
which it now reports as `Line n: Too many nested levels.`; the model accepts such a text.  The
depth at which this happens depends on the caller's stack, not on the text alone.  Also not
modelled: `str.isdecimal`/`\d` on non-ASCII digits.
-/
namespace Bardolph.ParseTok
open Bardolph

/-! ## Tokens -/

/-- `TokenTypes` -/
inductive TT where
  | all | and_ | as_ | assign | at_ | begin_ | break_ | breakpoint | column | compare | cycle
  | default | define | else_ | end_ | eof | error | from_ | get | group | if_ | in_
  | literalString | location | logical | mark | name | not_ | null | number | off | on | or_
  | print | printf | println | pause | raw | row | register | repeat_ | return_ | rgb | set
  | stage | syntaxError | timePattern | to | units | unknown | while_ | with_ | wait | zone
  deriving DecidableEq, Repr, Inhabited

def TT.ofString : String → TT
  | "ALL" => .all | "AND" => .and_ | "AS" => .as_ | "ASSIGN" => .assign | "AT" => .at_
  | "BEGIN" => .begin_ | "BREAK" => .break_ | "BREAKPOINT" => .breakpoint | "COLUMN" => .column
  | "COMPARE" => .compare | "CYCLE" => .cycle | "DEFAULT" => .default | "DEFINE" => .define
  | "ELSE" => .else_ | "END" => .end_ | "EOF" => .eof | "ERROR" => .error | "FROM" => .from_
  | "GET" => .get | "GROUP" => .group | "IF" => .if_ | "IN" => .in_
  | "LITERAL_STRING" => .literalString | "LOCATION" => .location | "LOGICAL" => .logical
  | "MARK" => .mark | "NAME" => .name | "NOT" => .not_ | "NULL" => .null | "NUMBER" => .number
  | "OFF" => .off | "ON" => .on | "OR" => .or_ | "PRINT" => .print | "PRINTF" => .printf
  | "PRINTLN" => .println | "PAUSE" => .pause | "RAW" => .raw | "ROW" => .row
  | "REGISTER" => .register | "REPEAT" => .repeat_ | "RETURN" => .return_ | "RGB" => .rgb
  | "SET" => .set | "STAGE" => .stage | "SYNTAX_ERROR" => .syntaxError
  | "TIME_PATTERN" => .timePattern | "TO" => .to | "UNITS" => .units | "UNKNOWN" => .unknown
  | "WHILE" => .while_ | "WITH" => .with_ | "WAIT" => .wait | "ZONE" => .zone
  | _ => .unknown

/-- `token_type.name.lower()` -/
def TT.lower : TT → String
  | .all => "all" | .and_ => "and" | .as_ => "as" | .assign => "assign" | .at_ => "at"
  | .begin_ => "begin" | .break_ => "break" | .breakpoint => "breakpoint" | .column => "column"
  | .compare => "compare" | .cycle => "cycle" | .default => "default" | .define => "define"
  | .else_ => "else" | .end_ => "end" | .eof => "eof" | .error => "error" | .from_ => "from"
  | .get => "get" | .group => "group" | .if_ => "if" | .in_ => "in"
  | .literalString => "literal_string" | .location => "location" | .logical => "logical"
  | .mark => "mark" | .name => "name" | .not_ => "not" | .null => "null" | .number => "number"
  | .off => "off" | .on => "on" | .or_ => "or" | .print => "print" | .printf => "printf"
  | .println => "println" | .pause => "pause" | .raw => "raw" | .row => "row"
  | .register => "register" | .repeat_ => "repeat" | .return_ => "return" | .rgb => "rgb"
  | .set => "set" | .stage => "stage" | .syntaxError => "syntax_error"
  | .timePattern => "time_pattern" | .to => "to" | .units => "units" | .unknown => "unknown"
  | .while_ => "while" | .with_ => "with" | .wait => "wait" | .zone => "zone"

/-- `TokenTypes.has_string` -/
def TT.hasString : TT → Bool
  | .error | .literalString | .mark | .name | .number | .register | .timePattern => true
  | _ => false

/-- `TokenTypes.is_executable` -/
def TT.isExecutable : TT → Bool
  | .assign | .breakpoint | .get | .if_ | .off | .on | .print | .printf | .println | .pause
  | .register | .repeat_ | .set | .stage | .units | .while_ | .wait => true
  | _ => false

structure Tok where
  ty : TT
  content : String
  line : Nat
  deriving Repr, Inhabited, DecidableEq

def Tok.ofLex (t : Lex.Token) : Tok := ⟨TT.ofString t.type, t.content, t.line⟩

/-- `Token(TokenTypes.EOF)`: no content, line number 0 -/
def eofTok : Tok := ⟨.eof, "", 0⟩

/-- `str(token)` -/
def Tok.str (t : Tok) : String := if t.ty.hasString then t.content else t.ty.lower

/-- `token.is_mark(m)` -/
def Tok.isMark (t : Tok) (m : String) : Bool := t.ty == .mark && t.content == m

/-- `Token.is_binop` -/
def Tok.isBinop (t : Tok) : Bool :=
  t.ty == .compare ||
  (t.ty == .mark && (t.content == "+" || t.content == "-" || t.content == "*" ||
    t.content == "/" || t.content == "%" || t.content == "^")) ||
  t.ty == .and_ || t.ty == .or_

/-- `Token.prec`: a table lookup on the token's CONTENT, −1 when absent -/
def precOfContent : String → Int
  | "not" => 1 | "or" => 2 | "and" => 3
  | "==" => 4 | "<=" => 4 | ">=" => 4 | "!=" => 4 | "<" => 4 | ">" => 4
  | "+" => 5 | "-" => 5 | "*" => 6 | "/" => 6 | "%" => 6 | "^" => 7
  | _ => -1

def Tok.prec (t : Tok) : Int := precOfContent t.content

/-- `Token.assoc is Assoc.RIGHT` -/
def Tok.isRight (t : Tok) : Bool := t.ty == .not_ || t.isMark "^"

/-- `ExpressionParser._do_op`: the operator of a token's content -/
def operatorOfContent : String → Option Operator
  | "+" => some .add | "-" => some .sub | "*" => some .mul | "/" => some .div | "%" => some .mod
  | "^" => some .pow | "and" => some .and | "or" => some .or | "<" => some .lt | "<=" => some .lte
  | ">" => some .gt | ">=" => some .gte | "==" => some .eq | "!=" => some .noteq
  | _ => none

/-! ## Numbers: `int(text)` and `float(text)` on a NUMBER token -/

def isAsciiDigit (c : Char) : Bool := '0' ≤ c && c ≤ '9'

def digitsVal (cs : List Char) : Nat := cs.foldl (fun a c => 10 * a + (c.toNat - 48)) 0

/-- `sys.int_info.default_max_str_digits`: `int(text)` raises `ValueError` beyond this length -/
def maxStrDigits : Nat := 4300

/-- round `a / b` (`b > 0`) to the nearest integer, ties to even -/
def divRoundHalfEven (a b : Nat) : Nat :=
  let q := a / b
  let r := a % b
  if 2 * r < b then q else if 2 * r > b then q + 1 else if q % 2 == 0 then q else q + 1

/-- the IEEE binary64 value nearest to `num / den` (`den > 0`), ties to even; `none` = infinity -/
def toDouble (num den : Nat) : Option Rat :=
  if num == 0 then some 0 else
  -- `l` with `2^l ≤ num/den < 2^(l+1)`
  let l0 : Int := (Nat.log2 num : Int) - (Nat.log2 den : Int)
  let geq (l : Int) : Bool :=       -- `num/den ≥ 2^l`
    if l ≥ 0 then num ≥ den * 2 ^ l.toNat else num * 2 ^ (-l).toNat ≥ den
  let l : Int := if geq l0 then l0 else l0 - 1
  let e : Int := max (l - 52) (-1074)
  let m : Nat :=
    if e ≥ 0 then divRoundHalfEven num (den * 2 ^ e.toNat)
    else divRoundHalfEven (num * 2 ^ (-e).toNat) den
  if e > 971 || (e == 971 && m ≥ 2 ^ 53) then none
  else if e ≥ 0 then some ((m * 2 ^ e.toNat : Nat) : Rat)
  else some ((m : Rat) / ((2 ^ (-e).toNat : Nat) : Rat))

inductive NumLit where
  | int (n : Nat)
  | float (q : Rat)
  | inf
  | valueError
  deriving Repr

/-- `int(text) if Lex.is_int(text) else float(text)` for a text of the form `[0-9]*\.?[0-9]*`;
any other text (the lexer produces none as a NUMBER) is answered `valueError` -/
def parseNumber (text : String) : NumLit :=
  let cs := text.toList
  if cs.all isAsciiDigit then
    -- `Lex._INT` matches (also the empty text, on which `int` raises)
    if cs.isEmpty || cs.length > maxStrDigits then .valueError else .int (digitsVal cs)
  else
    let ip := cs.takeWhile isAsciiDigit
    match cs.dropWhile isAsciiDigit with
    | '.' :: fp =>
      if fp.all isAsciiDigit && !(ip.isEmpty && fp.isEmpty) then
        match toDouble (digitsVal (ip ++ fp)) (10 ^ fp.length) with
        | some q => .float q
        | none => .inf
      else .valueError
    | _ => .valueError

/-! ## Compile-time values, symbols, context -/

/-- a value known at compile time: a VM value, or a float infinity (a literal of more than 308
digits), which `Val` cannot hold -/
inductive CVal where
  | v (x : Val)
  | inf (neg : Bool)
  deriving Repr, Inhabited

inductive SymKind where
  | macro | var | routine
  deriving DecidableEq, Repr, Inhabited

structure Sym where
  kind : SymKind
  /-- macro value (`None` for variables) -/
  val : CVal := .v .none
  /-- `Routine.params` -/
  params : List String := []
  deriving Repr, Inhabited

abbrev Table := List (String × Sym)

def Table.get (t : Table) (n : String) : Option Sym := t.lookup n

/-- `self._op_code` as far as the parser sets it -/
inductive OpC where
  | nop | color | power
  deriving DecidableEq, Repr, Inhabited

def OpC.lower : OpC → String
  | .nop => "nop" | .color => "color" | .power => "power"

def OpC.instr : OpC → Instr
  | .nop => .nop | .color => .color | .power => .power

structure St where
  cur : Tok
  rest : List Tok
  globals : Table := []
  locals : Table := []
  /-- `Context._loop_stack`, top first; `none` is the marker of `_suspend_loops`, `some l` a
  `_LoopContext` whose `break_list` holds the indices (into `code`) of the `break` jumps -/
  loops : List (Option (List Nat)) := []
  inRoutine : Bool := false
  inMatrix : Bool := false
  code : Array Instr := #[]
  inner : Array Instr := #[]
  errors : List (Nat × String) := []
  opCode : OpC := .nop
  deriving Inhabited

inductive Res (α : Type) where
  | ok (a : α) (st : St)
  | fail (st : St)
  | raised (kind : String) (st : St)
  | oof
  deriving Inhabited

abbrev M (α : Type) := St → Res α

@[inline] def M.pure (a : α) : M α := fun st => .ok a st

@[inline] def M.bind (m : M α) (f : α → M β) : M β := fun st =>
  match m st with
  | .ok a st' => f a st'
  | .fail st' => .fail st'
  | .raised k st' => .raised k st'
  | .oof => .oof

instance : Monad M where
  pure := M.pure
  bind := M.bind

def getSt : M St := fun st => .ok st st
def modifySt (f : St → St) : M Unit := fun st => .ok () (f st)
def raise (kind : String) : M α := fun st => .raised kind st
def outOfFuel : M α := fun _ => .oof

/-- record `Line <line of the current token>: msg` -/
def St.addError (st : St) (msg : String) : St :=
  { st with errors := st.errors ++ [(st.cur.line, msg)] }

/-- `trigger_error(message)`: returns `False` -/
def triggerError (msg : String) : M α := fun st => .fail (st.addError msg)

/-- `token_error(fmt)`: `fmt.format(str(current token))`, the format given as prefix and suffix -/
def tokenError (pre post : String) : M α := fun st =>
  triggerError (pre ++ st.cur.str ++ post) st

/-- run `m`; if it fails, continue with `h` on the state it left (Python `if not m(): return h()`) -/
def orElseFail (m : M α) (h : M α) : M α := fun st =>
  match m st with
  | .fail st' => h st'
  | r => r

/-! ### tokens -/

/-- the state change of `next_token()` and whether it returned `True` -/
def advance (st : St) : St × Bool :=
  if st.cur.ty == .eof then (st, true)          -- `current_token != TokenTypes.EOF` is false
  else
    match st.rest with
    | t :: r => ({ st with cur := t, rest := r }, true)
    | [] =>
      -- `StopIteration`
      let st1 := { st with cur := eofTok }
      (st1.addError "Unexpected end of source.", false)

/-- `return self.next_token()` / `if not self.next_token()` -/
def nextToken : M Unit := fun st =>
  let (st', ok) := advance st
  if ok then .ok () st' else .fail st'

/-- `self.next_token()` with the result dropped -/
def skipToken : M Unit := fun st => .ok () (advance st).1

/-! ### `Context` -/

/-- `Context.get_symbol`: locals first, then globals -/
def St.getSymbol (st : St) (n : String) : Option Sym :=
  match st.locals.get n with
  | some s => some s
  | none => st.globals.get n

def St.hasSymbol (st : St) (n : String) : Bool := (st.getSymbol n).isSome

/-- `has_symbol_typed(name, *types)` -/
def St.hasSymbolTyped (st : St) (n : String) (kinds : List SymKind) : Bool :=
  match st.getSymbol n with
  | some s => kinds.contains s.kind
  | none => false

/-- `_global_of_type` -/
def St.globalOfType (st : St) (n : String) (k : SymKind) : Option Sym :=
  match st.globals.get n with
  | some s => if s.kind == k then some s else none
  | none => none

def St.getRoutine (st : St) (n : String) : Option Sym := st.globalOfType n .routine
def St.hasRoutine (st : St) (n : String) : Bool := (st.getRoutine n).isSome
/-- `get_macro`: a parameter or local variable of the routine being compiled hides a macro of
the same name -/
def St.getMacro (st : St) (n : String) : Option Sym :=
  if (st.locals.get n).isSome then none else st.globalOfType n .macro
/-- `Context.routine_exists`: the name was given to a routine (built-in or the script's) at some
point of this compile, whatever has taken the name since (`globals` keeps every entry, newest
first) -/
def St.routineExists (st : St) (n : String) : Bool :=
  st.globals.any fun e => e.1 == n && e.2.kind == .routine

/-- `add_variable(name)` -/
def addVariable (n : String) : M Unit := modifySt fun st =>
  if st.inRoutine then { st with locals := (n, { kind := .var }) :: st.locals }
  else { st with globals := (n, { kind := .var }) :: st.globals }

/-- `add_global(name, SymbolType.MACRO, value)` -/
def addMacro (n : String) (v : CVal) : M Unit := modifySt fun st =>
  { st with globals := (n, { kind := .macro, val := v }) :: st.globals }

/-- `add_routine(Routine(name))` -/
def addRoutine (n : String) (params : List String) : M Unit := modifySt fun st =>
  { st with globals := (n, { kind := .routine, params := params }) :: st.globals }

/-- `routine.add_param(p)` on the `Routine` object registered under `n` -/
def addParam (n p : String) : M Unit := modifySt fun st =>
  match st.getRoutine n with
  | some s => { st with globals := (n, { s with params := s.params ++ [p] }) :: st.globals }
  | none => st

/-- `Parser.assignable`: a macro is a constant; no assignment and no loop makes a variable of its
name -/
def assignable (n : String) : M Unit := do
  if (← getSt).hasSymbolTyped n [.macro] then
    triggerError ("Attempt to assign to constant \"" ++ n ++ "\"")

/-- `_resume_loops` -/
def resumeLoops (l : List (Option (List Nat))) : List (Option (List Nat)) :=
  (l.dropWhile Option.isSome).drop 1

def enterRoutine : M Unit := modifySt fun st =>
  { st with inRoutine := true, loops := none :: st.loops }

def exitRoutine : M Unit := modifySt fun st =>
  { st with inRoutine := false, locals := [], loops := resumeLoops st.loops }

def enterMatrix : M Unit := modifySt fun st =>
  { st with inMatrix := true, loops := none :: st.loops }

def exitMatrix : M Unit := modifySt fun st =>
  { st with inMatrix := false, loops := resumeLoops st.loops }

def enterLoop : M Unit := modifySt fun st => { st with loops := some [] :: st.loops }

/-- `in_loop()` -/
def St.inLoop (st : St) : Bool :=
  match st.loops with
  | some _ :: _ => true
  | _ => false

/-- `exit_loop()`: `deque.pop()` -/
def exitLoop : M Unit := fun st =>
  match st.loops with
  | _ :: r => .ok () { st with loops := r }
  | [] => .raised "IndexError" st

/-- `add_break(inst)`: `self._loop_stack[-1].break_list.append(inst)` -/
def addBreak (idx : Nat) : M Unit := fun st =>
  match st.loops with
  | some l :: r => .ok () { st with loops := some (l ++ [idx]) :: r }
  | none :: _ => .raised "AttributeError" st
  | [] => .raised "IndexError" st

/-! ### `CodeGen` -/

/-- which `CodeGen` object a routine writes to -/
inductive CG where
  | main | inner
  deriving DecidableEq, Repr, Inhabited

def emitTo (cg : CG) (i : Instr) : M Unit := modifySt fun st =>
  match cg with
  | .main => { st with code := st.code.push i }
  | .inner => { st with inner := st.inner.push i }

def emit (i : Instr) : M Unit := emitTo .main i

def emitListTo (cg : CG) (is : List Instr) : M Unit := modifySt fun st =>
  match cg with
  | .main => { st with code := st.code ++ is.toArray }
  | .inner => { st with inner := st.inner ++ is.toArray }

def emitList (is : List Instr) : M Unit := emitListTo .main is

/-- `current_offset` of the main code -/
def offset : M Nat := fun st => .ok st.code.size st

def patch (idx : Nat) (f : Instr → Instr) : M Unit := modifySt fun st =>
  { st with code := st.code.modify idx f }

/-- `_JumpMarker`: the index of the jump to patch (Python keeps the object), its condition, and
the offset recorded with it -/
structure Marker where
  jumpIdx : Nat
  cond : JumpCond
  offset : Nat

def condWire : JumpCond → String
  | .always => "ALWAYS" | .ifFalse => "IF_FALSE" | .ifTrue => "IF_TRUE" | .indirect => "INDIRECT"

/-- a jump whose `param1` is still `None` -/
def unpatched (c : JumpCond) : Instr := .bad ("JUMP|J:" ++ condWire c ++ "|")

/-- `if_true_start()` -/
def ifTrueStart : M Marker := do
  let n ← offset
  emit (unpatched .ifFalse)
  return ⟨n, .ifFalse, n + 1⟩

/-- `if_else(marker)` (the marker is mutated in Python; here the new one is returned) -/
def ifElse (m : Marker) : M Marker := do
  let n ← offset
  patch m.jumpIdx fun _ => .jump m.cond ((n : Int) - (m.offset : Int) + 2)
  emit (unpatched .always)
  return ⟨n, .always, n + 1⟩

/-- `if_end(marker)` -/
def ifEnd (m : Marker) : M Unit := do
  let n ← offset
  patch m.jumpIdx fun _ => .jump m.cond ((n : Int) - (m.offset : Int) + 1)

/-- `jump_back(marker)` with `marker = mark()` taken at offset `top` -/
def jumpBack (top : Nat) : M Unit := do
  let n ← offset
  emit (.jump .always ((top : Int) - (n : Int)))

/-- `inst.param1 = offset - inst.param1` -/
def fixBreak (off : Int) : Instr → Instr
  | .jump c p => .jump c (off - p)
  | i => i

/-- `fix_break_addrs(code_gen)` -/
def fixBreakAddrs : M Unit := fun st =>
  match st.loops with
  | some l :: _ =>
    let off : Int := st.code.size
    .ok () { st with code := l.foldl (fun code idx => code.modify idx (fixBreak off)) st.code }
  | none :: _ => .raised "AttributeError" st
  | [] => .raised "IndexError" st

def _root_.Bardolph.Dst.toSrc : Dst → Src
  | .reg r => .reg r
  | .var n => .var n
  | .loopVar l => .loopVar l

/-- `CodeGen.push(operand)` / the pushes of `binop`: `PUSHQ` for `int`, `float` (hence `bool`)
and `UnitMode`, `PUSH` for everything else -/
def pushOp : Src → Instr
  | .lit (.int i) => .pushq (.int i)
  | .lit (.num q) => .pushq (.num q)
  | .lit (.bool b) => .pushq (.bool b)
  | .lit (.mode m) => .pushq (.mode m)
  | s => .push s

def binop (o : Operator) (a b : Src) : List Instr := [pushOp a, pushOp b, .op o]

/-- `test_op` -/
def testOp (o : Operator) (a b : Src) : List Instr := binop o a b ++ [.pop (.reg .result)]

/-- `_op_equals` -/
def opEquals (o : Operator) (d : Dst) (change : Src) : List Instr :=
  [pushOp d.toSrc, pushOp change, .op o, .pop d]

def int (i : Int) : Src := .lit (.int i)

/-- the common shape of `iter_lights`, `iter_sets`, `iter_members` appended to a `CodeGen`
(offsets are relative, so the position does not matter) -/
def iterCode (start : List Instr) (testSrc : Src) (code next : List Instr) : List Instr :=
  let body := code ++ next
  start ++ [Instr.move (.reg .result) (.loopVar .current)] ++
    testOp .noteq testSrc (.lit (.operand .null)) ++
    -- if_end: current_offset - marker.offset + 1
    [Instr.jump .ifFalse ((body.length : Int) + 1 + 1)] ++ body ++
    -- jump_back: marker.offset - current_offset
    [Instr.jump .always (-((body.length : Int) + 6))]

def iterLights (code : List Instr) : List Instr :=
  iterCode [.moveq (.operand .light) (.reg .operand), .disc] (.loopVar .current) code
    [.moveq (.operand .light) (.reg .operand), .dnext (.loopVar .current)]

def iterSets (o : Operand) (code : List Instr) : List Instr :=
  iterCode [.moveq (.operand o) (.reg .operand), .disc] (.reg .result) code
    [.moveq (.operand o) (.reg .operand), .dnext (.loopVar .current)]

def iterMembers (o : Operand) (code : List Instr) : List Instr :=
  iterCode [.moveq (.operand o) (.reg .operand), .discm (.loopVar .first)] (.loopVar .current)
    code [.moveq (.operand o) (.reg .operand), .dnextm (.loopVar .first) (.loopVar .current)]

/-- `inner_code`: `plus_equals(LoopVar.COUNTER); push(LoopVar.CURRENT)` -/
def countAndPush : List Instr :=
  opEquals .add (.loopVar .counter) (int 1) ++ [.push (.loopVar .current)]

/-! ## Literals, constants -/

def cvalOfNum : NumLit → Option CVal
  | .int n => some (.v (.int n))
  | .float q => some (.v (.num q))
  | .inf => some (.inf false)
  | .valueError => none

def timeSpecError : M α := tokenError "Invalid time specification: \"" "\""

/-- `_current_literal()`; a TIME_PATTERN token that is no valid pattern, and a NUMBER token that
`int()` refuses (`ValueError`, caught), leave an error message and give `None` -/
def currentLiteral : M (Option CVal) := fun st =>
  match st.cur.ty with
  | .number =>
    match cvalOfNum (parseNumber st.cur.str) with
    | some c => .ok (some c) st
    | none =>
      -- `except ValueError: self.token_error('Number is too long: "{}"')`, result dropped
      .ok none (st.addError ("Number is too long: \"" ++ st.cur.str ++ "\""))
  | .literalString => .ok (some (.v (.str st.cur.str))) st
  | .timePattern =>
    match TP.fromString st.cur.str with
    | some p => .ok (some (.v (.pat p))) st
    | none =>
      -- `self._time_spec_error()` with its result dropped
      .ok none (st.addError ("Invalid time specification: \"" ++ st.cur.str ++ "\""))
  | _ => .ok none st

/-- `_current_constant()` -/
def currentConstant : M (Option CVal) := do
  match ← currentLiteral with
  | some v => return some v
  | none =>
    let st ← getSt
    if st.cur.ty != .name then return none
    match st.getMacro st.cur.str with
    | some s => return some s.val
    | none => return none

/-- `_current_str()` -/
def currentStr : M String := do
  match ← currentConstant with
  | some (.v (.str s)) => return s
  | _ => return ""

/-- `Register.from_string(name)` -/
def regOfName (n : String) : Option Reg :=
  match n.toUpper with
  | "BLUE" => some .blue | "BRIGHTNESS" => some .brightness | "DEFAULT" => some .default
  | "DISC_FORWARD" => some .discForward | "DURATION" => some .duration
  | "FIRST_COLUMN" => some .firstColumn | "FIRST_ROW" => some .firstRow
  | "FIRST_ZONE" => some .firstZone | "GREEN" => some .green | "HUE" => some .hue
  | "LAST_COLUMN" => some .lastColumn | "LAST_ROW" => some .lastRow
  | "LAST_ZONE" => some .lastZone | "KELVIN" => some .kelvin | "MATRIX" => some .matrix
  | "MAT_BODY" => some .matBody | "MAT_TIP" => some .matTip | "NAME" => some .name
  | "OPERAND" => some .operand | "PC" => some .pc | "POWER" => some .power | "RED" => some .red
  | "RESULT" => some .result | "SATURATION" => some .saturation | "TIME" => some .time
  | "UNIT_MODE" => some .unitMode | _ => none

/-- `_current_time_pattern()` -/
def St.currentTimePattern (st : St) : Option TP.Pat :=
  match st.cur.ty with
  | .timePattern => TP.fromString st.cur.str
  | .name =>
    match st.getMacro st.cur.str with
    | some { val := .v (.pat p), .. } => some p
    | _ => none
  | _ => none

/-- `_at_rvalue(include_reg)` -/
def St.atRvalue (st : St) (includeReg : Bool := true) : Bool :=
  if st.cur.isMark "{" || st.cur.isMark "[" || st.cur.isMark "-" then true
  else match st.cur.ty with
    | .literalString | .number => true
    | .register => includeReg
    | .name => !st.hasRoutine st.cur.str
    | _ => false

/-! ## Rvalues, calls, expressions (`_rvalue` family, `_call_routine`, `ExpressionParser`) -/

/-- where `_rvalue` delivers: a destination, or `OpCode.PUSH` (the evaluation stack) -/
inductive Dest where
  | to (d : Dst)
  | push
  deriving Inhabited

def result : Dst := .reg .result

/-- Python's `value is not dest` for the operands `_rvalue` compares: a register with the same
register; a name with the destination name only when both are the same OBJECT, which for the
token texts means a one-character name (CPython shares one-character strings) -/
def sameObject : Src → Dst → Bool
  | .reg r, .reg r' => r == r'
  | .var n, .var n' => n == n' && n.length == 1
  | _, _ => false

def moveqC (c : CVal) (d : Dst) : Instr :=
  match c with
  | .v x => .moveq x d
  | .inf _ => .bad "float-inf"

def pushqC (c : CVal) : Instr :=
  match c with
  | .v x => .pushq x
  | .inf _ => .bad "float-inf"

/-- `value *= -1`, `none` when `value` is not an `int`/`float` -/
def negC : CVal → Option CVal
  | .v (.int i) => some (.v (.int (-i)))
  | .v (.num q) => some (.v (.num (-q)))
  | .inf n => some (.inf (!n))
  | _ => none

/-- the end of `_rvalue` for a constant -/
def deliverConst (c : CVal) (dest : Dest) (cg : CG) : M Unit :=
  match dest with
  | .push => emitTo cg (pushqC c)
  | .to d => emitTo cg (moveqC c d)

/-- the end of `_rvalue` for a variable or register -/
def deliverSrc (s : Src) (dest : Dest) (cg : CG) : M Unit :=
  match dest with
  | .push => emitTo cg (.push s)
  | .to d => if sameObject s d then pure () else emitTo cg (.move s d)

/-- `_rvalue` once the constant value of the current token (if any) is known -/
def rvalueValue (uminus : Bool) (dest : Dest) (cg : CG) (value : Option CVal) : M Bool := do
  if uminus && (match value with | some c => (negC c).isNone | none => true) then
    triggerError "Outside expressions, a minus is allowed only for numbers."
  else
  match value with
  | some c =>
    let c := if uminus then (negC c).getD c else c
    deliverConst c dest cg
    nextToken
    return true
  | none =>
    let st ← getSt
    match st.cur.ty with
    | .name =>
      let name := st.cur.str
      if st.hasSymbolTyped name [.var] then
        deliverSrc (.var name) dest cg
        nextToken
        return true
      else if st.hasSymbol name then tokenError "Not a value: \"" "\""
      else tokenError "Unknown: \"" "\""
    | .register =>
      match regOfName st.cur.str with
      | some r =>
        deliverSrc (.reg r) dest cg
        nextToken
        return true
      | none =>
        -- `_current_reg()` gave `None` (no REGISTER token of the lexer does)
        emitTo cg (match dest with
          | .push => .bad "PUSH||"
          | .to _ => .bad "MOVE-None")
        nextToken
        return true
    | .not_ => return false
    | _ => tokenError "Cannot use " " as a value."

/-- the part of `_rvalue` after the `{` / `[` tests that does not recurse; `false` = the token is
`not` (handled by the caller) -/
def rvalueSimple (dest : Dest) (cg : CG) : M Bool := do
  let uminus := (← getSt).cur.isMark "-"
  (if uminus then skipToken else pure ())
  let value ← currentConstant
  rvalueValue uminus dest cg value

mutual
  /-- `_rvalue(dest, code_gen)` -/
  def rvalue : Nat → Dest → CG → M Unit
    | 0, _, _ => outOfFuel
    | f + 1, dest, cg => do
      let st ← getSt
      if st.cur.isMark "{" then
        nextToken
        -- `_rvalue_curly` / `_rvalue_expr`
        expression f
        match dest with
        | .to d => emitTo cg (.pop d)
        | .push => pure ()
        if !(← getSt).cur.isMark "}" then
          tokenError "Expected closing curly brace, got " "."
        nextToken
      else if st.cur.isMark "[" then
        -- `_rvalue_fn_call` → `_call_routine` (bracketed)
        skipToken
        callNamed f true
        match dest with
        | .push => emitTo cg (.push (.reg .result))
        | .to d => if d == result then pure () else emitTo cg (.move (.reg .result) d)
      else
        if ← rvalueSimple dest cg then pure ()
        else
          -- `_rvalue_not`
          skipToken
          expression f
          emitTo cg (.op .not)
          match dest with
          | .to d => emitTo cg (.pop d)
          | .push => pure ()

  /-- `_call_routine` after the optional `[` -/
  def callNamed : Nat → Bool → M Unit
    | 0, _ => outOfFuel
    | f + 1, bracketed => do
      let st ← getSt
      match st.getRoutine st.cur.str with
      | none => tokenError "Unknown name: \"" "\""
      | some r =>
        let name := st.cur.str
        emit .ctx
        skipToken
        callParams f r.params
        emit (.jsr name)
        if bracketed then
          if !(← getSt).cur.isMark "]" then
            triggerError "No closing bracket for function call."
          skipToken
        emit .endCtx

  /-- the parameter loop of `_call_routine` -/
  def callParams : Nat → List String → M Unit
    | 0, _ => outOfFuel
    | _ + 1, [] => pure ()
    | f + 1, p :: ps => do
      if (← getSt).cur.isMark "]" then triggerError ("Missing parameter " ++ p)
      rvalue f (.to result) .main
      emit (.param p (.reg .result))
      callParams f ps

  /-- `ExpressionParser.expression` -/
  def expression : Nat → M Unit
    | 0 => outOfFuel
    | f + 1 => do
      atom f
      climb f 0

  /-- `ExpressionParser._expression(min_prec)`: the outer loop -/
  def climb : Nat → Int → M Unit
    | 0, _ => outOfFuel
    | f + 1, minPrec => do
      let op := (← getSt).cur
      if op.isBinop && op.prec ≥ minPrec then
        skipToken
        atom f
        inner f op
        -- `_do_op(op)`
        match operatorOfContent op.content with
        | some o => emit (.op o)
        | none => tokenError "Invalid operand " " in expression."
        climb f minPrec
      else pure ()

  /-- the inner loop of `_expression` -/
  def inner : Nat → Tok → M Unit
    | 0, _ => outOfFuel
    | f + 1, op => do
      let t := (← getSt).cur
      if (t.isBinop && t.prec > op.prec) || (t.isRight && t.prec == op.prec) then
        climb f t.prec
        inner f op
      else pure ()

  /-- `ExpressionParser._atom` -/
  def atom : Nat → M Unit
    | 0 => outOfFuel
    | f + 1 => do
      let t := (← getSt).cur
      if t.isMark "(" then
        skipToken
        expression f
        if !(← getSt).cur.isMark ")" then tokenError "Unmatched parenthesis: " ""
        nextToken
      else if t.isMark "+" || t.isMark "-" then
        skipToken
        atom f
        if t.isMark "-" then emitList [.pushq (.int (-1)), .op .mul]
      else rvalue f .push .main
end

/-- fuel that the rvalue family and the small loops never exhaust (see `Proofs/ParseTokRv.lean`) -/
def rvFuel (st : St) : Nat := 6 * st.rest.length + 8

/-- `self._code_gen`, swapped with the scratch generator -/
def St.swapCode (st : St) : St := { st with code := st.inner, inner := st.code }

/-- `saved = self._code_gen; self._code_gen = code_gen; try: return m() finally: … = saved` -/
def withScratch (m : M Unit) : M Unit := fun st =>
  match m st.swapCode with
  | .ok a st' => .ok a st'.swapCode
  | .fail st' => .fail st'.swapCode
  | .raised k st' => .raised k st'.swapCode
  | .oof => .oof

/-- `self._rvalue(dest, code_gen)` as the statement routines call it.  When the loop parser hands
in its scratch generator, `_rvalue` makes it the parser's own for the duration of the call, so that
an expression in braces, a call in brackets and `not` are compiled into it as well (inside, the
local `code_gen` — the parameter `cg` of `rvalue` — is always the parser's own generator). -/
def rvalueTop (dest : Dest := .to result) (cg : CG := .main) : M Unit := fun st =>
  match cg with
  | .main => rvalue (rvFuel st) dest .main st
  | .inner => withScratch (rvalue (rvFuel st) dest .main) st

/-- `self._call_routine()` -/
def callRoutine : M Unit := fun st =>
  if st.cur.isMark "[" then callNamed (rvFuel st) true (advance st).1
  else callNamed (rvFuel st) false st

/-! ## Statements that do not contain statements -/

/-- `_range(first, last)` (parser and matrix parser have the same one) -/
def rangeRegs (first last : Reg) : M Unit := do
  rvalueTop (.to (.reg first))
  if (← getSt).atRvalue false then rvalueTop (.to (.reg last))
  else emit (.moveq .none (.reg last))

/-- `_string_to_reg` -/
def stringToReg (r : Reg) : M Unit := do
  if r != .name then triggerError "Quoted value not allowed here."
  emit (.moveq (.str (← getSt).cur.str) (.reg .name))
  nextToken

/-- `_process_time_patterns`: the `or` loop -/
def timePatternsMore : Nat → M Unit
  | 0 => outOfFuel
  | f + 1 => do
    if (← getSt).cur.ty == .or_ then
      skipToken
      match (← getSt).currentTimePattern with
      | none => timeSpecError
      | some p =>
        emit (.timePattern false (.pat p))
        skipToken
        timePatternsMore f
    else pure ()

def timePatternsLoop : M Unit := fun st => timePatternsMore (rvFuel st) st

def processTimePatterns : M Unit := do
  match (← getSt).currentTimePattern with
  | none => timeSpecError
  | some p =>
    emit (.timePattern true (.pat p))
    skipToken
    timePatternsLoop

/-- `_time` -/
def timeStmt : M Unit := do
  skipToken
  if (← getSt).cur.ty == .at_ then
    skipToken
    processTimePatterns
  else rvalueTop (.to (.reg .time))

/-- `_set_reg` -/
def setReg : M Unit := do
  let st ← getSt
  match regOfName st.cur.str with
  | none => tokenError "Expected register, got \"" "\""
  | some r =>
    if r == .time then timeStmt
    else if st.cur.ty == .default then
      -- `OpCode.DEFAULT` does not exist (the branch is dead: the token is a REGISTER)
      raise "AttributeError"
    else
      skipToken
      if (← getSt).cur.ty == .literalString then stringToReg r
      else rvalueTop (.to (.reg r))

/-- `_set_units` -/
def setUnits : M Unit := do
  skipToken
  let mode ← match (← getSt).cur.ty with
    | .raw => pure UnitMode.raw
    | .rgb => pure UnitMode.rgb
    | .logical => pure UnitMode.logical
    | _ => tokenError "Invalid parameter \"" "\" for units."
  emit (.moveq (.mode mode) (.reg .unitMode))
  nextToken

/-- `_wait` -/
def waitStmt : M Unit := do
  emit .wait
  nextToken

/-- `_get_color` -/
def getColor : M Unit := do
  skipToken
  if !(← getSt).atRvalue false then tokenError "Needed light name, got " ""
  rvalueTop
  emit (.move (.reg .result) (.reg .name))
  emit .getColor

/-- `_pause` -/
def pauseStmt : M Unit := do
  emit .pause
  skipToken

/-- `_breakpoint` -/
def breakpointStmt : M Unit := do
  emit .breakpoint
  nextToken

/-- `IoParser._out_rvalue` -/
def outRvalue : M Unit := do
  rvalueTop
  emit (.out .register (.reg .result))

/-- `IoParser.print` -/
def printStmt : M Unit := do
  skipToken
  if (← getSt).atRvalue then
    outRvalue
    emit (.out .print (.lit .none))

/-- `IoParser.println` -/
def printlnStmt : M Unit := do
  printStmt
  emit (.out .printEnd (.lit .none))

def outRvalues : Nat → M Unit
  | 0 => pure ()
  | n + 1 => do
    outRvalue
    outRvalues n

/-- `IoParser.printf` after the keyword -/
def printfRest : M Unit := do
  let fmt ← currentStr
  if fmt.length == 0 then tokenError "Expected format specifier, got " ""
  skipToken
  match Out.fieldHeads fmt.toList with
  | none => triggerError ("Bad format specifier \"" ++ fmt ++ "\": ")
  | some fields =>
    outRvalues (Out.countPositional fields)
    emit (.out .printf (.lit (.str fmt)))

/-- `IoParser.printf` -/
def printfStmt : M Unit := do
  skipToken
  printfRest

/-- `_assignment` -/
def assignment : M Unit := do
  skipToken
  let st ← getSt
  if st.cur.ty != .name then tokenError "Expected name for assignment, got \"" "\""
  let dest := st.cur.str
  assignable dest
  skipToken
  rvalueTop (.to (.var dest))
  addVariable dest

/-- `_macro_definition` -/
def macroDefinition (name : String) : M Unit := do
  let value ← match ← currentLiteral with
    | some v => pure v
    | none =>
      let st ← getSt
      match st.getMacro st.cur.str with
      | none => tokenError "Macro needs constant, got \"" "\""
      | some s => pure s.val
  addMacro name value
  emit (match value with
    | .v x => .constant name x
    | .inf _ => .bad "float-inf")
  nextToken

/-- `_detect_routine_start` -/
def St.detectRoutineStart (st : St) : Bool :=
  (st.cur.ty == .name && st.hasRoutine st.cur.str) || st.cur.ty.isExecutable || st.cur.isMark "[" ||
    st.cur.ty == .begin_ || st.cur.ty == .with_

/-- `routine.add_param(name); add_variable(name); next_token()` -/
def declParam (routine name : String) : M Unit := do
  addParam routine name
  addVariable name
  skipToken

/-- the `while` loop of `_param_decl`; a duplicate name leaves a message and returns `None` -/
def paramDeclMore (routine : String) : Nat → M Unit
  | 0 => outOfFuel
  | f + 1 => do
    let st ← getSt
    if st.cur.ty == .name && !st.hasRoutine st.cur.str then
      let name := st.cur.str
      let has := match st.getRoutine routine with
        | some s => s.params.contains name
        | none => false
      if has then tokenError "Duplicate parameter name: \"" "\""
      else
        declParam routine name
        paramDeclMore routine f
    else pure ()

def paramDeclLoop (routine : String) : M Unit := fun st =>
  paramDeclMore routine (rvFuel st) st

/-- `_param_decl(routine)` -/
def paramDecl (routine : String) : M Unit := do
  let name := (← getSt).cur.str
  declParam routine name
  paramDeclLoop routine

/-- `_return` -/
def returnStmt : M Unit := do
  if !(← getSt).inRoutine then triggerError "\"return\" is allowed only inside a routine."
  skipToken
  if (← getSt).atRvalue then rvalueTop (.to result)
  else emit (.moveq .none result)
  emit .ret

/-- `_break` -/
def breakStmt : M Unit := do
  if !(← getSt).inLoop then triggerError "Encountered \"break\" not inside loop."
  let n ← offset
  emit (.jump .always n)
  addBreak n
  nextToken

/-- `_mark` -/
def markStmt : M Unit := do
  let t := (← getSt).cur
  if t.isMark "{" then triggerError "A mathematical expression is not allowed here."
  else if t.isMark "[" then callRoutine
  else tokenError "Unexpected character " ""

def syntaxError : M α := tokenError "Unexpected input \"" "\""

/-! ### operands -/

/-- `_all_operand` -/
def allOperand : M Unit := do
  let st ← getSt
  if st.inMatrix then triggerError "Use of \"all\" is not allowed in this context."
  emit (.moveq (.operand .all) (.reg .operand))
  emit st.opCode.instr
  nextToken

/-- `_default_operand` -/
def defaultOperand : M Unit := do
  let st ← getSt
  if st.opCode != .color then triggerError "\"default\" is allowed only with \"set\"."
  emit (.moveq (.operand .default) (.reg .operand))
  emit st.opCode.instr
  nextToken

/-- `_var_operand` -/
def varOperand : M Unit := do
  let st ← getSt
  let name := st.cur.str
  if !st.hasSymbolTyped name [.macro, .var] then tokenError "Undefined: " ""
  emit (.move (.var name) (.reg .name))
  nextToken

/-- the name part of `_operand`: a string constant, or a variable -/
def operandName : M Unit := do
  let constStr ← currentStr
  if constStr.length > 0 then
    emit (.moveq (.str constStr) (.reg .name))
    skipToken
  else if (← getSt).cur.ty == .name then varOperand
  else if (← getSt).inMatrix then
    triggerError "Use of \"set\" not allowed in this context. Try \"stage\"."
  else tokenError "Needed a device, location, or group, got \"" "\"."

/-- the optional `group` / `location` in front of an operand -/
def operandKind : M Operand := do
  match (← getSt).cur.ty with
  | .group => do skipToken; pure Operand.group
  | .location => do skipToken; pure Operand.location
  | _ => pure Operand.light

/-- `_zone_range` / `_set_zones` -/
def zoneRange : M Unit := do
  let st ← getSt
  if st.opCode != .color then triggerError ("Zones not supported for " ++ st.opCode.lower)
  skipToken
  if !(← getSt).atRvalue false then tokenError "Expected zone number, got \"" "\""
  rangeRegs .firstZone .lastZone

/-- `MatrixParser._rows` / `_columns` after the "more than once" test -/
def matrixRange (what : String) (first last : Reg) : M Unit := do
  skipToken
  if !(← getSt).atRvalue false then tokenError what ""
  else rangeRegs first last

/-- `MatrixParser._inline_operand`: the loop over `row` / `column` -/
def inlineMore : Nat → Bool → Bool → M (Bool × Bool)
  | 0, _, _ => outOfFuel
  | f + 1, hasRows, hasCols => do
    match (← getSt).cur.ty with
    | .row =>
      if hasRows then triggerError "\"row\" supplied more than once."
      else
        matrixRange "Expected range for rows, got " .firstRow .lastRow
        inlineMore f true hasCols
    | .column =>
      if hasCols then triggerError "column supplied more than once."
      else
        matrixRange "Expected a range for columns, got " .firstColumn .lastColumn
        inlineMore f hasRows true
    | _ => return (hasRows, hasCols)

def inlineLoop : M (Bool × Bool) := fun st => inlineMore (rvFuel st) false false st

def inlineOperand : M Unit := do
  emit (.moveq (.operand .matrix) (.reg .operand))
  let (hasRows, hasCols) ← inlineLoop
  if !hasRows then
    emitList [.moveq .none (.reg .firstRow), .moveq .none (.reg .lastRow)]
  if !hasCols then
    emitList [.moveq .none (.reg .firstColumn), .moveq .none (.reg .lastColumn)]

/-! ### `LoopParser`: everything before the loop body -/

inductive LoopType where
  | all | counted | groups | infinite | list | locations | while_ | with_
  deriving DecidableEq, Repr, Inhabited

def LoopType.isUnbounded : LoopType → Bool
  | .infinite | .while_ => true
  | _ => false

def LoopType.isIter : LoopType → Bool
  | .all | .groups | .list | .locations => true
  | _ => false

/-- the `LoopParser` object's attributes -/
structure LoopInfo where
  ty : LoopType
  indexVar : Option String := none
  lightVar : Option String := none
  deriving Inhabited

/-- `_detect_loop_type` -/
def detectLoopType : M LoopType := do
  let st ← getSt
  let known : Option LoopType := match st.cur.ty with
    | .while_ => some .while_ | .with_ => some .with_ | .in_ => some .list | .all => some .all
    | .group => some .groups | .location => some .locations | _ => none
  match known with
  | none => return if st.atRvalue then .counted else .infinite
  | some t =>
    if t != .all && t != .with_ then skipToken
    return t

def takeInner : M (List Instr) := fun st => .ok st.inner.toList { st with inner := #[] }

/-- `_push_light_names(inner_coder, operand)` -/
def pushLightNames (lt : LoopType) (o : Operand) : M Unit := do
  if lt == .list then
    orElseFail (rvalueTop (.to (.loopVar .first)) .inner)
      (tokenError "Needed name of a group or location, got \"" "\"")
    emitListTo .inner (iterMembers o countAndPush)
  else emitListTo .inner (iterLights countAndPush)

/-- one item of `_pre_loop_list`, written into the (emptied) scratch `CodeGen` -/
def preLoopItem (lt : LoopType) : M Unit := do
  modifySt fun st => { st with inner := #[] }
  let operand : Option Operand := match (← getSt).cur.ty with
    | .all => some .light | .group => some .group | .location => some .location | _ => none
  match operand with
  | some o =>
    skipToken
    pushLightNames lt o
  | none =>
    rvalueTop (.to result) .inner
    emitListTo .inner ([.push (.reg .result)] ++ opEquals .add (.loopVar .counter) (int 1))

/-- `_pre_loop_and` -/
def preLoopAnd : M Unit := do
  skipToken
  let st ← getSt
  if st.cur.ty != .group && st.cur.ty != .location && !st.atRvalue then
    tokenError "Needed lights after \"and\", got \"" "\"."

/-- `_pre_loop_list`: each level writes its item into a fresh scratch `CodeGen`, lets the items
after `and` append themselves to the main code first, then appends its own -/
def preLoopList (lt : LoopType) : Nat → M Unit
  | 0 => outOfFuel
  | f + 1 => do
    let st ← getSt
    if st.cur.ty == .as_ then pure ()
    else
      preLoopItem lt
      let mine ← takeInner
      if (← getSt).cur.ty == .and_ then
        -- (`operand == Operand.ALL` never holds: `all` maps to `Operand.LIGHT`)
        preLoopAnd
        preLoopList lt f
      emitList mine

def preLoopListTop (lt : LoopType) : M Unit := fun st => preLoopList lt (rvFuel st) st

/-- `_pre_loop_as` -/
def preLoopAs : M String := do
  if (← getSt).cur.ty != .as_ then tokenError "Expected \"as\" or \"and\", got \"" "\""
  skipToken
  let st ← getSt
  if st.cur.ty != .name then tokenError "Expected name for lights, got \"" "\""
  assignable st.cur.str
  addVariable st.cur.str
  nextToken
  return st.cur.str

/-- `_calc_counter` -/
def calcCounter : M Unit := do
  emitList (binop .sub (.loopVar .last) (.loopVar .first))
  emit (.pop (.loopVar .counter))
  emitList (testOp .lt (.loopVar .counter) (int 0))
  let m ← ifTrueStart
  emitList (opEquals .mul (.loopVar .counter) (int (-1)))
  emit (.moveq (.int (-1)) (.loopVar .incr))
  let m ← ifElse m
  emit (.moveq (.int 1) (.loopVar .incr))
  ifEnd m
  emitList (opEquals .add (.loopVar .counter) (int 1))

/-- `_calc_incr` -/
def calcIncr : M Unit := do
  emitList (testOp .noteq (.loopVar .counter) (int 1))
  let m ← ifTrueStart
  emitList (binop .sub (.loopVar .last) (.loopVar .first))
  emitList (binop .sub (.loopVar .counter) (int 1))
  emitList [.op .div, .pop (.loopVar .incr)]
  let m ← ifElse m
  emit (.moveq (.int 0) (.loopVar .incr))
  ifEnd m

/-- `_index_var_range` -/
def indexVarRange (lt : LoopType) (indexVar : String) : M Unit := do
  rvalueTop (.to (.loopVar .first))
  if (← getSt).cur.ty != .to then tokenError "Needed \"to\", got \"" "\""
  skipToken
  rvalueTop (.to (.loopVar .last))
  emit (.move (.loopVar .first) (.var indexVar))
  if lt == .with_ then calcCounter else calcIncr

/-- `_cycle_var_range` -/
def cycleVarRange (lt : LoopType) (indexVar : String) : M Unit := do
  if lt == .with_ then triggerError "repeat with cycle missing number of iterations"
  if !(← getSt).atRvalue then emit (.moveq (.int 0) (.loopVar .first))
  else rvalueTop (.to (.loopVar .first))
  emit (.move (.loopVar .first) (.var indexVar))
  emitList (testOp .eq (.loopVar .counter) (int 0))
  let empty ← ifTrueStart
  emit (.moveq (.int 0) (.loopVar .incr))
  let empty ← ifElse empty
  emitList (testOp .eq (.reg .unitMode) (.lit (.mode .raw)))
  let m ← ifTrueStart
  emit (.pushq (.int 65536))
  let m ← ifElse m
  emit (.pushq (.int 360))
  ifEnd m
  emit (.push (.loopVar .counter))
  emit (.op .div)
  emit (.pop (.loopVar .incr))
  ifEnd empty

/-- `_pre_loop_with`; the index variable is declared after its range has been parsed (before
`repeat with i in …` is rejected: only `from` and `cycle` may follow the index variable) -/
def preLoopWith (info : LoopInfo) : M LoopInfo := do
  -- `_init_index_var`
  let st ← getSt
  if st.cur.ty != .name then tokenError "Not a variable name: \"" "\""
  let indexVar := st.cur.str
  assignable indexVar
  nextToken
  let info := { info with indexVar := some indexVar }
  match (← getSt).cur.ty with
  | .from_ =>
    skipToken
    indexVarRange info.ty indexVar
    addVariable indexVar
    return info
  | .cycle =>
    skipToken
    cycleVarRange info.ty indexVar
    addVariable indexVar
    return info
  | _ => tokenError "Needed \"from\" or \"cycle\", got \"" "\""

/-- `_pre_loop` -/
def preLoop (lt : LoopType) : M LoopInfo := do
  let info : LoopInfo := { ty := lt }
  if lt.isUnbounded then pure info
  else
  if lt == .counted then rvalueTop (.to (.loopVar .counter))
  let info ←
    if lt == .all || lt == .list then do
      emit (.moveq (.int 0) (.loopVar .counter))
      preLoopListTop lt
      let v ← preLoopAs
      pure { info with lightVar := some v }
    else if lt == .groups || lt == .locations then do
      emit (.moveq (.int 0) (.loopVar .counter))
      -- `_push_set_names`
      emitList (iterSets (if lt == .groups then .group else .location) countAndPush)
      let v ← preLoopAs
      pure { info with lightVar := some v }
    else pure info
  if (← getSt).cur.ty == .with_ then
    skipToken
    preLoopWith info
  else return info

/-- `_loop_test` -/
def loopTest (lt : LoopType) : M Unit :=
  match lt with
  | .infinite => emit (.moveq (.bool true) result)
  | .while_ => rvalueTop
  | _ => emitList (testOp .gt (.loopVar .counter) (int 0))

/-- `_loop_post` -/
def loopPost (info : LoopInfo) : M Unit := do
  if info.ty == .infinite || info.ty == .while_ then pure ()
  else
    emitList (opEquals .sub (.loopVar .counter) (int 1))
    match info.indexVar with
    | some v => emitList (opEquals .add (.var v) (.loopVar .incr))
    | none => pure ()

/-! ## Statements that contain statements -/

/-- `LoopParser.repeat` between `enter_loop()` and `fix_break_addrs()`, around the parse of the
loop body (`command_seq`) -/
def repeatBody (commandSeq : M Unit) : M Unit := do
  emit .loop
  let lt ← detectLoopType
  let info ← preLoop lt
  let top ← offset
  loopTest info.ty
  let exit ← ifTrueStart
  -- `_loop_body`
  (if info.ty.isIter then
    emit (match info.lightVar with
      | some v => .pop (.var v)
      | none => .bad "POP||")
   else pure ())
  commandSeq
  loopPost info
  jumpBack top
  ifEnd exit

/-- the end of `LoopParser.repeat` -/
def closeLoop : M Unit := do
  fixBreakAddrs
  emit .endLoop
  exitLoop

/-- `LoopParser.repeat` after the keyword -/
def repeatRest (commandSeq : M Unit) : M Unit := do
  enterLoop
  repeatBody commandSeq
  closeLoop

/-- `_routine_definition` between `enter_routine()` and the body -/
def routineHead (name : String) (withParams : Bool) : M Unit := do
  emit (.routine name)
  addRoutine name []
  (if withParams then do
    skipToken
    paramDecl name
   else pure ())

/-- `END name; exit_routine()` -/
def finishRoutine (name : String) (st : St) : St :=
  let st := { st with code := st.code.push (.end_ name) }
  { st with inRoutine := false, locals := [], loops := resumeLoops st.loops }

/-- `_block_operand` after the nesting test -/
def blockOperand (commandSeq : M Unit) : M Unit := do
  enterMatrix
  commandSeq
  exitMatrix

/-- `result = m(); <fin>; return result`: `fin` runs whether `m` returned `True` or `False` -/
def andFinally (m : M Unit) (fin : St → St) : M Unit := fun st =>
  match m st with
  | .ok _ st' => .ok () (fin st')
  | .fail st' => .fail (fin st')
  | r => r

/-- `_routine_definition` after the nesting test; `body` parses the routine body -/
def routinePart (name : String) (withParams : Bool) (body : M Unit) : M Unit := do
  enterRoutine
  routineHead name withParams
  -- the body's result is returned after `END` and `exit_routine()`
  andFinally body (finishRoutine name)

/-- `_already_defined`: the name is a routine (built-in or the script's) or a macro -/
def St.alreadyDefined (st : St) (n : String) : Bool :=
  st.routineExists n || (st.getMacro n).isSome

/-- `_definition` after the name -/
def definitionRest (name : String) (body : M Unit) : M Unit := do
  let st ← getSt
  if st.detectRoutineStart then
    if st.alreadyDefined name then tokenError "Already defined: \"" "\""
    -- `_routine_definition`
    else if st.inRoutine then triggerError "Nested definition not allowed."
    else routinePart name (st.cur.ty == .with_) body
  else if st.alreadyDefined name then triggerError ("Already defined: \"" ++ name ++ "\"")
  else macroDefinition name

/-- `_definition` after the keyword -/
def definitionNamed (body : M Unit) : M Unit := do
  let st ← getSt
  if st.cur.ty != .name then tokenError "Expected name for definition, got: " ""
  else
    skipToken
    definitionRest st.cur.str body

mutual
  /-- `_command`: dispatch on the type of the current token -/
  def command : Nat → M Unit
    | 0 => outOfFuel
    | f + 1 => do
      match (← getSt).cur.ty with
      | .assign => assignment
      | .break_ => breakStmt
      | .breakpoint => breakpointStmt
      | .define => definition f
      | .get => getColor
      | .if_ => ifStmt f
      | .mark => markStmt
      | .name => callRoutine
      | .null => syntaxError
      | .off => do
        emit (.moveq (.bool false) (.reg .power))
        action f .power
      | .on => do
        emit (.moveq (.bool true) (.reg .power))
        action f .power
      | .pause => pauseStmt
      | .print => printStmt
      | .printf => printfStmt
      | .println => printlnStmt
      | .return_ => returnStmt
      | .register => setReg
      | .repeat_ => repeatStmt f
      | .set => action f .color
      | .stage =>
        let st ← getSt
        if st.inMatrix || st.inRoutine then action f .color
        else triggerError "Use of \"stage\" is not allowed in this context."
      | .units => setUnits
      | .wait => waitStmt
      | _ => syntaxError

  /-- `command_seq` -/
  def commandSeq : Nat → M Unit
    | 0 => outOfFuel
    | f + 1 => do
      if (← getSt).cur.ty != .begin_ then command f
      else
        -- `compound_command`
        skipToken
        compoundMore f

  /-- the loop of `compound_command` -/
  def compoundMore : Nat → M Unit
    | 0 => outOfFuel
    | f + 1 => do
      let t := (← getSt).cur.ty
      if t == .end_ then nextToken
      else if t == .eof then triggerError "End of file before \"end\"."
      else
        command f
        compoundMore f

  /-- `_if` -/
  def ifStmt : Nat → M Unit
    | 0 => outOfFuel
    | f + 1 => do
      skipToken
      rvalueTop
      let m ← ifTrueStart
      commandSeq f
      let m ← if (← getSt).cur.ty == .else_ then do
          let m ← ifElse m
          skipToken
          commandSeq f
          pure m
        else pure m
      ifEnd m

  /-- `LoopParser.repeat` -/
  def repeatStmt : Nat → M Unit
    | 0 => outOfFuel
    | f + 1 => do
      skipToken
      repeatRest (commandSeq f)

  /-- `_definition` -/
  def definition : Nat → M Unit
    | 0 => outOfFuel
    | f + 1 => do
      skipToken
      definitionNamed (commandSeq f)

  /-- `_action(op_code)` -/
  def action : Nat → OpC → M Unit
    | 0, _ => outOfFuel
    | f + 1, opCode => do
      let st ← getSt
      let actionTok := st.cur.ty
      modifySt fun st => { st with opCode := opCode }
      if !(st.inMatrix || actionTok == .stage) then emit .wait
      skipToken
      match (← getSt).cur.ty with
      | .all => allOperand
      | .default => defaultOperand
      | _ =>
        -- `_operand_list(action_token)`
        if actionTok == .stage then
          -- only `set` takes a block: `stage` names no light to send the result to
          if (← getSt).cur.ty == .begin_ then triggerError "Nesting not allowed here."
          else
            matrixOperandList f
            emit .color
        else
          operandThenMore f opCode

  /-- `_operand_list` for `set`/`on`/`off`: one operand, the instruction, then `and …` -/
  def operandThenMore : Nat → OpC → M Unit
    | 0, _ => outOfFuel
    | f + 1, opCode => do
      operand f
      modifySt fun st => { st with opCode := opCode }
      emit opCode.instr
      if (← getSt).cur.ty == .and_ then
        skipToken
        operandThenMore f opCode
      else pure ()

  /-- `_operand` -/
  def operand : Nat → M Unit
    | 0 => outOfFuel
    | f + 1 => do
      let kind ← operandKind
      operandName
      let st ← getSt
      -- the instruction that loads NAME (the one `operandName` has just emitted): a matrix block
      -- repeats it after `END matrix`, commands inside the block may have loaded other names
      let nameInst : Instr := st.code.back?.getD .nop
      if st.cur.ty == .zone then do
        zoneRange
        emit (.moveq (.operand .mzLight) (.reg .operand))
      else if st.cur.ty == .begin_ || st.cur.ty == .column || st.cur.ty == .row then
        if kind != .light then tokenError "\"" " not allowed with groups or locations."
        else if st.opCode != .color then
          triggerError ("Rows and columns not supported for " ++ st.opCode.lower)
        else do
          -- `MatrixParser.matrix_spec`
          emit .matrix
          matrixOperandList f
          (if st.cur.ty != .begin_ then emit .color else pure ())
          emit .endMatrix
          (if st.cur.ty == .begin_ then emit nameInst else pure ())
          emit (.moveq (.operand .matrixLight) (.reg .operand))
      else emit (.moveq (.operand kind) (.reg .operand))

  /-- `MatrixParser.operand_list` -/
  def matrixOperandList : Nat → M Unit
    | 0 => outOfFuel
    | f + 1 => do
      let st ← getSt
      if st.cur.ty == .begin_ then
        -- `_block_operand`
        if st.inMatrix then triggerError "Nesting not allowed here."
        else blockOperand (commandSeq f)
      else inlineOperand
end

/-! ## The whole parse -/


/-- `_body`: the loop -/
def body : Nat → Nat → M Unit
  | 0, _ => outOfFuel
  | n + 1, fuel => do
    if (← getSt).cur.ty == .eof then pure ()
    else
      command fuel
      body n fuel

inductive Outcome where
  /-- `parse` returned `True`, no message -/
  | accept (prog : List Instr)
  /-- `parse` returned `False` with messages `(line, text without the "Line n: " prefix)` -/
  | reject (messages : List (Nat × String))
  /-- returned `False` with no message at all -/
  | silentFail
  /-- a Python exception of this class would escape -/
  | raised (kind : String)
  | outOfFuel
  /-- `parse` returned `True` although messages were recorded -/
  | acceptWithErrors (prog : List Instr) (messages : List (Nat × String))
  deriving Inhabited

/-- parameter names of the built-in routines (`bardolph_math`, registered by `_load_runtime`) -/
def builtins : List (String × List String) :=
  [("acos", ["x"]), ("asin", ["x"]), ("atan", ["x"]), ("ceil", ["x"]), ("cos", ["x"]),
   ("cycle", ["theta"]), ("floor", ["x"]), ("random", ["min", "max"]), ("round", ["x"]),
   ("sin", ["x"]), ("sqrt", ["x"]), ("tan", ["x"]), ("trunc", ["x"])]

def initialGlobals : Table :=
  builtins.map fun (n, ps) => (n, { kind := .routine, params := ps })

/-- the state after `parse`'s preamble for a token stream (which ends with the EOF token) -/
def initState (toks : List Tok) : St :=
  -- `self._current_token = Token(UNKNOWN); self.next_token()`
  (advance { cur := ⟨.unknown, "", 0⟩, rest := toks ++ [eofTok], globals := initialGlobals }).1

def outcomeOf : Res Unit → Outcome
  | .ok _ st =>
    if st.errors.isEmpty then .accept st.code.toList
    else .acceptWithErrors st.code.toList st.errors
  | .fail st => if st.errors.isEmpty then .silentFail else .reject st.errors
  | .raised k _ => .raised k
  | .oof => .outOfFuel

/-- `_script()` = `_body() and _eof()` on a token list, with statement fuel `fuel` -/
def bodyLoop (fuel : Nat) : M Unit := fun st => body (st.rest.length + 1) fuel st

def script (fuel : Nat) : M Unit := do
  bodyLoop fuel
  if (← getSt).cur.ty != .eof then triggerError "Didn't get to end of file."

def parseTokens (toks : List Tok) : Outcome :=
  outcomeOf (script (8 * toks.length + 16) (initState toks))

/-- `Parser().parse(text)` -/
def parse (text : String) : Outcome := parseTokens ((Lex.tokens text).map Tok.ofLex)

end Bardolph.ParseTok
