/-!
Model of `bardolph/lib/job_control.py` (property C08).

Two layers.

* **Specification** (`Spec`, `specStep`, `specRun`): a deque with `enqBack`, `enqFront`, `clear`,
  `start` (pops the head, only when nothing runs) and `done`.
* **Implementation model**: an interleaving transition system with ONE TRANSITION PER SOURCE
  LINE of `JobControl` and `Agent` (exactly the line events `sys.settrace` reports for the real
  code; `Pc.label` is the `qualname:relative line` of the line the thread is about to execute).
  Any number of client threads (`Tid.client n`, each with a program `List Op`), one thread per
  agent (`Tid.job a`), bodies that keep running, finish or raise as the scheduler's `Choice`
  says.  The re-entrant lock is explicit (`owner`, `count`); `acquire` on a lock somebody else
  holds is a stutter step (the 1 s time-out of `_acquire_lock` is modelled as "always
  eventually acquired").

`step v s t c` = thread `t` executes the line it stands at.  It is factored as
`act` (a table: pc ↦ next pc and one *effect* on the shared state, possibly after reading the
shared state) and `apply` (what each effect does), so that the table reads like the source.

`Variant.pinned` is the code as it was before the two `fix:` commits (unlocked `clear_queue`,
`stop_current` testing `_active_agent` outside the lock); `Variant.fixed` is the tree as it
stands.  The property theorems are about `.fixed`; `.pinned` exists to exhibit the defects.

The ghost field `events` logs the linearisation points; nothing reads it.

Modelling decisions (also listed in the evidence): background agents are keyed by agent
identity, their names (`lbl`) are assumed distinct; internal errors (`AttributeError`,
`IndexError`, `KeyError`, `RuntimeError` from a foreign `release`, a second `execute()` of one
agent) are not unwound: the thread stays where it is and is recorded in the ghost list `errs`
(effect `crash`) — unreachable in `.fixed` (theorem `C08_no_internal_error`).
-/
namespace Bardolph.JC

inductive Variant where
  | pinned | fixed
  deriving DecidableEq, Repr

inductive Tid where
  | client (n : Nat)
  | job (a : Nat)
  deriving DecidableEq, Repr

/-- one call a client thread makes -/
inductive Op where
  | add (lbl : Nat) | insert (lbl : Nat) | spawn (lbl : Nat)
  | clear | stopJob (name : Nat) | stopCurrent | stopBackground
  | hasJobs | isRunning (name : Nat)
  deriving DecidableEq, Repr

/-- what the body of a job does at a step -/
inductive Choice where
  | run | fin | raise
  deriving DecidableEq, Repr

inductive Event where
  | enq (back : Bool) (a : Nat)   -- `append_fn(agent)`
  | clear                          -- `self._queue.clear()`
  | start (a : Nat)                -- `self._active_agent = self._queue.popleft()`
  | done (a : Nat)                 -- `self._active_agent = None` in a's completion callback
  | tstart (a : Nat)               -- `self._thread.start()`
  | bodyBegin (a : Nat) | bodyEnd (a : Nat) (raised : Bool)
  | bgAdd (a : Nat) | bgDel (a : Nat)
  | stop (a : Nat)                 -- `request_stop` delivered to a's job
  | ret (t : Tid) (v : Bool)       -- value returned by has_jobs / is_running / stop_*
  deriving DecidableEq, Repr

/-! ## Specification: the deque -/

structure Spec where
  queue : List Nat
  running : Option Nat
  deriving DecidableEq, Repr

def Spec.init : Spec := ⟨[], none⟩

/-- one specification step; `none` = the event is not allowed in this state.  Events that are
not deque operations leave the state alone. -/
def specStep (s : Spec) : Event → Option Spec
  | .enq true a => some { s with queue := s.queue ++ [a] }
  | .enq false a => some { s with queue := a :: s.queue }
  | .clear => some { s with queue := [] }
  | .start a =>
    match s.running, s.queue with
    | none, b :: rest => if a = b then some ⟨rest, some a⟩ else none
    | _, _ => none
  | .done a => if s.running = some a then some { s with running := none } else none
  | _ => some s

def specRun (s : Spec) : List Event → Option Spec
  | [] => some s
  | e :: es => (specStep s e).bind (specRun · es)

/-! ## Program counters -/

/-- who called `_run_next_job` -/
inductive RnK where
  | enq (a : Nat)      -- `_enqueue_job`, its local `agent`
  | done               -- `_on_execution_done`
  deriving DecidableEq, Repr

/-- who called `Agent.execute` -/
inductive ExK where
  | rn (k : RnK) | spawn
  deriving DecidableEq, Repr

/-- who called `Agent.__init__` -/
inductive InitK where
  | enq (back : Bool) | spawn
  deriving DecidableEq, Repr

/-- who called `_acquire_lock` -/
inductive AcqK where
  | enq (back : Bool) (lbl : Nat) | rn (k : RnK) | spawn (lbl : Nat) | done | bgdone | clear
  | stopBg | stopJob (name : Nat) | stopCur | pstopCur
  deriving DecidableEq, Repr

/-- who called `_release_lock` -/
inductive RelK where
  | rn (k : RnK) | spawn (a : Nat) | done | bgdone | clear
  | stopBg | stopJob (r : Bool) | stopCur (r : Bool) | pstopCur
  deriving DecidableEq, Repr

/-- who reads `Agent.name` -/
inductive NameK where
  | spawn | isRun (name : Nat) | stopJob (name : Nat) | bgdone
  deriving DecidableEq, Repr

/-- who called `Agent.request_stop` -/
inductive ReqK where
  | stopBg (rest : List Nat) | stopJobA | stopJobB | stopCur | pstopCur
  deriving DecidableEq, Repr

/-- who called `Agent.is_running` -/
inductive AirK where
  | stopCur | pstopCur
  deriving DecidableEq, Repr

/-- the line a thread is about to execute (with the locals that matter) -/
inductive Pc where
  -- not inside the controller
  | idle            -- client between calls (finished when its program is empty)
  | unborn          -- agent without a Thread object
  | created         -- Thread object made, not started
  | boot            -- thread started, has not reached `_execute_and_call` yet
  | dead            -- thread ended
  -- add_job / insert_job / _enqueue_job
  | add1 (back : Bool) (lbl : Nat)
  | enq1 (back : Bool) (lbl : Nat) | enq2 (back : Bool) (lbl : Nat)
  | enq3 (back : Bool) (lbl : Nat) | enq4 (back : Bool) (lbl : Nat)
  | enq5 (back : Bool) (a : Nat) | enq6 (a : Nat) | enq7 (a : Nat) | enq9 (a : Nat)
  | enq10 (a : Nat)
  -- Agent.__init__ (lines 1..4)
  | init (i : Nat) (a : Nat) (k : InitK)
  -- _acquire_lock / _release_lock
  | acq1 (k : AcqK) | acq4 (k : AcqK)
  | rel1 (k : RelK)
  -- _run_next_job
  | rn1 (k : RnK) | rn2 (k : RnK) | rn3 (k : RnK) | rn4 (k : RnK) | rn5 (k : RnK)
  | rn7 (k : RnK)
  -- Agent.execute (lines 1..3)
  | ex1 (self : Nat) (k : ExK) | ex2 (self : Nat) (k : ExK) | ex3 (self : Nat) (k : ExK)
  -- spawn_job
  | sp1 (lbl : Nat) | sp2 (lbl : Nat) | sp3 (lbl : Nat) | sp4 (lbl : Nat)
  | sp5 (a : Nat) | sp6 (a : Nat) | sp8 (a : Nat) | sp9 (a : Nat)
  -- Agent.name
  | name2 (self : Nat) (k : NameK)
  -- Agent._execute_and_call (the thread of agent a is `Tid.job a`)
  | xc1 | xc2 | body | xc4
  -- _on_execution_done
  | od1 | od2 | od3 | od5 | od6
  -- _on_background_done
  | bd1 | bd2 | bd3 | bd5
  -- clear_queue (fixed)
  | cl1 | cl2 | cl3 | cl5
  -- clear_queue (pinned)
  | pcl1
  -- has_jobs
  | hj1 | hj2 | hj1b (r : Bool)
  -- is_running
  | ir1 (name : Nat) | ir2 | ir3 (name : Nat)
  -- stop_job
  | sj1 (name : Nat) | sj2 (name : Nat) | sj3 (name : Nat) | sj4 (name : Nat)
  | sj5 (name : Nat) | sj6 | sj7 | sj8 (name : Nat) | sj9 (b : Nat) | sj10
  | sj12 (r : Bool) | sj13 (r : Bool)
  -- Agent.request_stop
  | req1 (self : Nat) (k : ReqK)
  -- stop_background (and get_background)
  | sb1 | sb2 | sb3 | sb4 | sb7 | gb1 | gb3 | sb8 | sb9f | sb9 (rest : List Nat)
  | sb10 (a : Nat) (rest : List Nat) | sb12 | sb13
  -- Agent.is_running (line 1 is reported twice when `_thread` is set)
  | air1 (self : Nat) (k : AirK) | air1b (self : Nat) (k : AirK)
  -- stop_current (fixed)
  | sc1 | sc2 | sc3 | sc4 | sc5 (ag : Option Nat) | sc6 (a : Nat) | sc7 | sc9 (r : Bool)
  | sc10 (r : Bool)
  -- stop_current (pinned)
  | ps1 | ps2 | ps3 | ps4 | ps6 | ps7 | ps8
  deriving DecidableEq, Repr

def Pc.label : Pc → String
  | .idle => "idle" | .unborn => "unborn" | .created => "created" | .boot => "boot"
  | .dead => "dead"
  | .add1 true _ => "JobControl.add_job:1" | .add1 false _ => "JobControl.insert_job:1"
  | .enq1 .. => "JobControl._enqueue_job:1" | .enq2 .. => "JobControl._enqueue_job:2"
  | .enq3 .. => "JobControl._enqueue_job:3" | .enq4 .. => "JobControl._enqueue_job:4"
  | .enq5 .. => "JobControl._enqueue_job:5" | .enq6 .. => "JobControl._enqueue_job:6"
  | .enq7 .. => "JobControl._enqueue_job:7" | .enq9 .. => "JobControl._enqueue_job:9"
  | .enq10 .. => "JobControl._enqueue_job:10"
  | .init i _ _ => "Agent.__init__:" ++ toString i
  | .acq1 _ => "JobControl._acquire_lock:1" | .acq4 _ => "JobControl._acquire_lock:4"
  | .rel1 _ => "JobControl._release_lock:1"
  | .rn1 _ => "JobControl._run_next_job:1" | .rn2 _ => "JobControl._run_next_job:2"
  | .rn3 _ => "JobControl._run_next_job:3" | .rn4 _ => "JobControl._run_next_job:4"
  | .rn5 _ => "JobControl._run_next_job:5" | .rn7 _ => "JobControl._run_next_job:7"
  | .ex1 .. => "Agent.execute:1" | .ex2 .. => "Agent.execute:2" | .ex3 .. => "Agent.execute:3"
  | .sp1 _ => "JobControl.spawn_job:1" | .sp2 _ => "JobControl.spawn_job:2"
  | .sp3 _ => "JobControl.spawn_job:3" | .sp4 _ => "JobControl.spawn_job:4"
  | .sp5 _ => "JobControl.spawn_job:5" | .sp6 _ => "JobControl.spawn_job:6"
  | .sp8 _ => "JobControl.spawn_job:8" | .sp9 _ => "JobControl.spawn_job:9"
  | .name2 .. => "Agent.name:2"
  | .xc1 => "Agent._execute_and_call:1" | .xc2 => "Agent._execute_and_call:2"
  | .body => "body" | .xc4 => "Agent._execute_and_call:4"
  | .od1 => "JobControl._on_execution_done:1" | .od2 => "JobControl._on_execution_done:2"
  | .od3 => "JobControl._on_execution_done:3" | .od5 => "JobControl._on_execution_done:5"
  | .od6 => "JobControl._on_execution_done:6"
  | .bd1 => "JobControl._on_background_done:1" | .bd2 => "JobControl._on_background_done:2"
  | .bd3 => "JobControl._on_background_done:3" | .bd5 => "JobControl._on_background_done:5"
  | .cl1 => "JobControl.clear_queue:1" | .cl2 => "JobControl.clear_queue:2"
  | .cl3 => "JobControl.clear_queue:3" | .cl5 => "JobControl.clear_queue:5"
  | .pcl1 => "JobControl.clear_queue:1"
  | .hj1 => "JobControl.has_jobs:1" | .hj2 => "JobControl.has_jobs:2"
  | .hj1b _ => "JobControl.has_jobs:1"
  | .ir1 _ => "JobControl.is_running:1" | .ir2 => "JobControl.is_running:2"
  | .ir3 _ => "JobControl.is_running:3"
  | .sj1 _ => "JobControl.stop_job:1" | .sj2 _ => "JobControl.stop_job:2"
  | .sj3 _ => "JobControl.stop_job:3" | .sj4 _ => "JobControl.stop_job:4"
  | .sj5 _ => "JobControl.stop_job:5" | .sj6 => "JobControl.stop_job:6"
  | .sj7 => "JobControl.stop_job:7" | .sj8 _ => "JobControl.stop_job:8"
  | .sj9 _ => "JobControl.stop_job:9" | .sj10 => "JobControl.stop_job:10"
  | .sj12 _ => "JobControl.stop_job:12" | .sj13 _ => "JobControl.stop_job:13"
  | .req1 .. => "Agent.request_stop:1"
  | .sb1 => "JobControl.stop_background:1" | .sb2 => "JobControl.stop_background:2"
  | .sb3 => "JobControl.stop_background:3" | .sb4 => "JobControl.stop_background:4"
  | .sb7 => "JobControl.stop_background:7"
  | .gb1 => "JobControl.get_background:1" | .gb3 => "JobControl.get_background:3"
  | .sb8 => "JobControl.stop_background:8" | .sb9f => "JobControl.stop_background:9"
  | .sb9 _ => "JobControl.stop_background:9" | .sb10 .. => "JobControl.stop_background:10"
  | .sb12 => "JobControl.stop_background:12" | .sb13 => "JobControl.stop_background:13"
  | .air1 .. => "Agent.is_running:1" | .air1b .. => "Agent.is_running:1"
  | .sc1 => "JobControl.stop_current:1" | .sc2 => "JobControl.stop_current:2"
  | .sc3 => "JobControl.stop_current:3" | .sc4 => "JobControl.stop_current:4"
  | .sc5 _ => "JobControl.stop_current:5" | .sc6 _ => "JobControl.stop_current:6"
  | .sc7 => "JobControl.stop_current:7" | .sc9 _ => "JobControl.stop_current:9"
  | .sc10 _ => "JobControl.stop_current:10"
  | .ps1 => "JobControl.stop_current:1" | .ps2 => "JobControl.stop_current:2"
  | .ps3 => "JobControl.stop_current:3" | .ps4 => "JobControl.stop_current:4"
  | .ps6 => "JobControl.stop_current:6" | .ps7 => "JobControl.stop_current:7"
  | .ps8 => "JobControl.stop_current:8"

/-! ## State -/

structure AgentInfo where
  lbl : Nat          -- the name given by the caller
  bg : Bool          -- made by spawn_job (callback `_on_background_done`)
  deriving DecidableEq, Repr

structure Thread where
  pc : Pc
  todo : List Op
  deriving Repr

structure State where
  queue : List Nat                -- `_queue` (agent ids, head = left)
  active : Option Nat             -- `_active_agent`
  bg : List Nat                   -- `_background` (insertion order; key = the agent's name)
  owner : Option Tid              -- `_lock`
  count : Nat
  next : Nat                      -- number of Agent objects made so far
  info : Nat → AgentInfo
  thr : Tid → Thread
  events : List Event             -- ghost: linearisation points, in order
  errs : List Tid                 -- ghost: threads in which an internal error escaped

def init (progs : Nat → List Op) : State where
  queue := []
  active := none
  bg := []
  owner := none
  count := 0
  next := 0
  info := fun _ => ⟨0, false⟩
  thr := fun
    | .client n => ⟨.idle, progs n⟩
    | .job _ => ⟨.unborn, []⟩
  events := []
  errs := []

/-- effects on the shared state -/
inductive Eff where
  | nop
  | acquire | release
  | alloc (lbl : Nat) (bg : Bool)
  | enq (back : Bool) (a : Nat)
  | pop
  | actNone (a : Nat)
  | clear
  | bgAdd (a : Nat) | bgDel (a : Nat)
  | mkThread (a : Nat) | startThread (a : Nat)
  | emit (es : List Event)
  | crash                          -- an internal error escapes (see the header)
  deriving Repr

structure Act where
  pc : Pc
  eff : Eff := .nop
  popTodo : Bool := false

def firstPc (v : Variant) : Op → Pc
  | .add l => .add1 true l
  | .insert l => .add1 false l
  | .spawn l => .sp1 l
  | .clear => match v with | .fixed => .cl1 | .pinned => .pcl1
  | .stopJob n => .sj1 n
  | .stopCurrent => match v with | .fixed => .sc1 | .pinned => .ps1
  | .stopBackground => .sb1
  | .hasJobs => .hj1
  | .isRunning n => .ir1 n

/-- `Thread.is_alive()` of agent a's thread -/
def alive (s : State) (a : Nat) : Bool :=
  match (s.thr (.job a)).pc with
  | .unborn | .created | .dead => false
  | _ => true

/-- `Agent._thread is not None` -/
def hasThread (s : State) (a : Nat) : Bool :=
  match (s.thr (.job a)).pc with
  | .unborn => false
  | _ => true

def lookupBg (s : State) (name : Nat) : Option Nat :=
  s.bg.find? fun b => (s.info b).lbl == name

def canAcquire (s : State) (t : Tid) : Bool :=
  match s.owner with
  | none => true
  | some u => u == t

def retEv (t : Tid) (v : Bool) : Eff := .emit [.ret t v]

/-- where `_acquire_lock` returns to (`if self._acquire_lock():` is true) -/
def afterAcq : AcqK → Pc
  | .enq b l => .enq3 b l | .rn k => .rn2 k | .spawn l => .sp3 l | .done => .od2
  | .bgdone => .bd2 | .clear => .cl2 | .stopBg => .sb3 | .stopJob n => .sj3 n
  | .stopCur => .sc3 | .pstopCur => .ps3

/-- where `_release_lock` returns to -/
def afterRel : RelK → Pc
  | .rn (.enq a) => .enq9 a | .rn .done => .dead | .spawn a => .sp9 a | .done => .od6
  | .bgdone => .dead | .clear => .idle | .stopBg => .sb13 | .stopJob r => .sj13 r
  | .stopCur r => .sc10 r | .pstopCur => .ps7

/-- The table: what the line at `pc` does when thread `t` executes it in state `s`. -/
def act (v : Variant) (s : State) (t : Tid) (c : Choice) : Pc → Act
  -- threads outside the controller
  | .idle =>
    match (s.thr t).todo with
    | [] => ⟨.idle, .nop, false⟩
    | op :: _ => ⟨firstPc v op, .nop, true⟩
  | .unborn => ⟨.unborn, .nop, false⟩
  | .created => ⟨.created, .nop, false⟩
  | .dead => ⟨.dead, .nop, false⟩
  | .boot => ⟨.xc1, .nop, false⟩
  -- def add_job(self, job, name=None):
  --     return self._enqueue_job(job, self._queue.append, name)
  | .add1 b l => ⟨.enq1 b l, .nop, false⟩
  -- def _enqueue_job(self, job, append_fn, name):
  --  1  agent = None
  | .enq1 b l => ⟨.enq2 b l, .nop, false⟩
  --  2  if self._acquire_lock():
  | .enq2 b l => ⟨.acq1 (.enq b l), .nop, false⟩
  --  3  try:
  | .enq3 b l => ⟨.enq4 b l, .nop, false⟩
  --  4  agent = Agent(job, self._on_execution_done, name)
  | .enq4 b l => ⟨.init 1 s.next (.enq b), .alloc l false, false⟩
  --  Agent.__init__: 1 self._job = job; 2 self._callback = callback; 3 self._thread = None
  --  4 self._name = name or ...
  | .init i a k =>
    if i < 4 then ⟨.init (i + 1) a k, .nop, false⟩
    else match k with
      | .enq b => ⟨.enq5 b a, .nop, false⟩
      | .spawn => ⟨.sp5 a, .nop, false⟩
  --  5  append_fn(agent)
  | .enq5 b a => ⟨.enq6 a, .enq b a, false⟩
  --  6  if self._active_agent is None:
  | .enq6 a => if s.active.isNone then ⟨.enq7 a, .nop, false⟩ else ⟨.enq9 a, .nop, false⟩
  --  7  self._run_next_job()
  | .enq7 a => ⟨.rn1 (.enq a), .nop, false⟩
  --  9  self._lock.release()        (in `finally:`)
  | .enq9 a => if s.owner = some t then ⟨.enq10 a, .release, false⟩ else ⟨.enq9 a, .crash, false⟩
  -- 10  return agent
  | .enq10 _ => ⟨.idle, .nop, false⟩
  -- def _acquire_lock(self):
  --  1  if not self._lock.acquire(True, 1.0):      (waits while another thread owns the lock)
  | .acq1 k => if canAcquire s t then ⟨.acq4 k, .acquire, false⟩ else ⟨.acq1 k, .nop, false⟩
  --  4  return True
  | .acq4 k => ⟨afterAcq k, .nop, false⟩
  -- def _release_lock(self):  1  self._lock.release()
  | .rel1 k => if s.owner = some t then ⟨afterRel k, .release, false⟩ else ⟨.rel1 k, .crash, false⟩
  -- def _run_next_job(self):
  --  1  if self._acquire_lock():
  | .rn1 k => ⟨.acq1 (.rn k), .nop, false⟩
  --  2  try:
  | .rn2 k => ⟨.rn3 k, .nop, false⟩
  --  3  if self._active_agent is None and len(self._queue) > 0:
  | .rn3 k => if s.active.isNone && !s.queue.isEmpty then ⟨.rn4 k, .nop, false⟩
              else ⟨.rn7 k, .nop, false⟩
  --  4  self._active_agent = self._queue.popleft()
  | .rn4 k => if s.queue.isEmpty then ⟨.rn4 k, .crash, false⟩ else ⟨.rn5 k, .pop, false⟩
  --  5  self._active_agent.execute()
  | .rn5 k =>
    match s.active with
    | some a => ⟨.ex1 a (.rn k), .nop, false⟩
    | none => ⟨.rn5 k, .crash, false⟩
  --  7  self._release_lock()          (in `finally:`)
  | .rn7 k => ⟨.rel1 (.rn k), .nop, false⟩
  -- def execute(self):
  --  1  self._thread = threading.Thread(target=self._execute_and_call)
  | .ex1 a k =>
    if (s.thr (.job a)).pc = .unborn then ⟨.ex2 a k, .mkThread a, false⟩
    else ⟨.ex1 a k, .crash, false⟩     -- a second execute() on the same agent: outside the model
  --  2  self._thread.start()
  | .ex2 a k =>
    if (s.thr (.job a)).pc = .created then ⟨.ex3 a k, .startThread a, false⟩
    else ⟨.ex2 a k, .crash, false⟩
  --  3  return self
  | .ex3 a k =>
    match k with
    | .rn k => ⟨.rn7 k, .nop, false⟩
    | .spawn => ⟨.sp8 a, .nop, false⟩
  -- def spawn_job(self, job, name):
  --  1  agent = None
  | .sp1 l => ⟨.sp2 l, .nop, false⟩
  --  2  if self._acquire_lock():
  | .sp2 l => ⟨.acq1 (.spawn l), .nop, false⟩
  --  3  try:
  | .sp3 l => ⟨.sp4 l, .nop, false⟩
  --  4  agent = Agent(job, self._on_background_done, name)
  | .sp4 l => ⟨.init 1 s.next .spawn, .alloc l true, false⟩
  --  5  self._background[agent.name] = agent      (first half: evaluate agent.name)
  | .sp5 a => ⟨.name2 a .spawn, .nop, false⟩
  --  6  agent.execute()
  | .sp6 a => ⟨.ex1 a .spawn, .nop, false⟩
  --  8  self._release_lock()         (in `finally:`)
  | .sp8 a => ⟨.rel1 (.spawn a), .nop, false⟩
  --  9  return agent
  | .sp9 _ => ⟨.idle, .nop, false⟩
  -- Agent.name:  2  return self._name     (and the rest of the calling line)
  | .name2 a k =>
    match k with
    | .spawn => ⟨.sp6 a, .bgAdd a, false⟩
    | .isRun n => if (s.info a).lbl = n then ⟨.ir2, .nop, false⟩ else ⟨.ir3 n, .nop, false⟩
    | .stopJob n => if (s.info a).lbl = n then ⟨.sj6, .nop, false⟩ else ⟨.sj8 n, .nop, false⟩
    | .bgdone => if a ∈ s.bg then ⟨.bd5, .bgDel a, false⟩ else ⟨.name2 a .bgdone, .crash, false⟩
  -- def _execute_and_call(self):
  --  1  try:
  | .xc1 => ⟨.xc2, .nop, false⟩
  --  2  self._job.execute()
  | .xc2 =>
    match t with
    | .job a =>
      match c with
      | .run => ⟨.body, .emit [.bodyBegin a], false⟩
      | .fin => ⟨.xc4, .emit [.bodyBegin a, .bodyEnd a false], false⟩
      | .raise => ⟨.xc4, .emit [.bodyBegin a, .bodyEnd a true], false⟩
    | .client _ => ⟨.xc2, .crash, false⟩
  | .body =>
    match t with
    | .job a =>
      match c with
      | .run => ⟨.body, .nop, false⟩
      | .fin => ⟨.xc4, .emit [.bodyEnd a false], false⟩
      | .raise => ⟨.xc4, .emit [.bodyEnd a true], false⟩
    | .client _ => ⟨.body, .crash, false⟩
  --  4  self._callback(self)           (in `finally:`, also on the exception path)
  | .xc4 =>
    match t with
    | .job a => if (s.info a).bg then ⟨.bd1, .nop, false⟩ else ⟨.od1, .nop, false⟩
    | .client _ => ⟨.xc4, .crash, false⟩
  -- def _on_execution_done(self, _):
  --  1  if self._acquire_lock():
  | .od1 => ⟨.acq1 .done, .nop, false⟩
  --  2  try:
  | .od2 => ⟨.od3, .nop, false⟩
  --  3  self._active_agent = None
  | .od3 =>
    match t with
    | .job a => ⟨.od5, .actNone a, false⟩
    | .client _ => ⟨.od3, .crash, false⟩
  --  5  self._release_lock()
  | .od5 => ⟨.rel1 .done, .nop, false⟩
  --  6  self._run_next_job()
  | .od6 => ⟨.rn1 .done, .nop, false⟩
  -- def _on_background_done(self, agent):
  --  1  if self._acquire_lock():
  | .bd1 => ⟨.acq1 .bgdone, .nop, false⟩
  --  2  try:
  | .bd2 => ⟨.bd3, .nop, false⟩
  --  3  del self._background[agent.name]       (first half: evaluate agent.name)
  | .bd3 =>
    match t with
    | .job a => ⟨.name2 a .bgdone, .nop, false⟩
    | .client _ => ⟨.bd3, .crash, false⟩
  --  5  self._release_lock()
  | .bd5 => ⟨.rel1 .bgdone, .nop, false⟩
  -- def clear_queue(self):   (fixed)  1 if self._acquire_lock(): 2 try: 3 self._queue.clear()
  --  5 self._release_lock()
  | .cl1 => ⟨.acq1 .clear, .nop, false⟩
  | .cl2 => ⟨.cl3, .nop, false⟩
  | .cl3 => ⟨.cl5, .clear, false⟩
  | .cl5 => ⟨.rel1 .clear, .nop, false⟩
  -- def clear_queue(self):   (pinned)  1 self._queue.clear()
  | .pcl1 => ⟨.idle, .clear, false⟩
  -- def has_jobs(self):
  --  1  return (len(self._queue) > 0 or len(self._background) > 0 or
  --  2          self._active_agent is not None)
  | .hj1 => if !s.queue.isEmpty || !s.bg.isEmpty then ⟨.idle, retEv t true, false⟩
            else ⟨.hj2, .nop, false⟩
  | .hj2 => ⟨.hj1b s.active.isSome, .nop, false⟩
  | .hj1b r => ⟨.idle, retEv t r, false⟩
  -- def is_running(self, name):
  --  1  if self._active_agent is not None and self._active_agent.name == name:
  | .ir1 n =>
    match s.active with
    | some a => ⟨.name2 a (.isRun n), .nop, false⟩
    | none => ⟨.ir3 n, .nop, false⟩
  --  2  return True
  | .ir2 => ⟨.idle, retEv t true, false⟩
  --  3  return name in self._background
  | .ir3 n => ⟨.idle, retEv t (lookupBg s n).isSome, false⟩
  -- def stop_job(self, name):
  --  1  result = False
  | .sj1 n => ⟨.sj2 n, .nop, false⟩
  --  2  if self._acquire_lock():
  | .sj2 n => ⟨.acq1 (.stopJob n), .nop, false⟩
  --  3  try:
  | .sj3 n => ⟨.sj4 n, .nop, false⟩
  --  4  if (self._active_agent is not None and
  | .sj4 n => if s.active.isSome then ⟨.sj5 n, .nop, false⟩ else ⟨.sj8 n, .nop, false⟩
  --  5          self._active_agent.name == name):
  | .sj5 n =>
    match s.active with
    | some a => ⟨.name2 a (.stopJob n), .nop, false⟩
    | none => ⟨.sj5 n, .crash, false⟩
  --  6  self._active_agent.request_stop()
  | .sj6 =>
    match s.active with
    | some a => ⟨.req1 a .stopJobA, .nop, false⟩
    | none => ⟨.sj6, .crash, false⟩
  --  7  result = True
  | .sj7 => ⟨.sj12 true, .nop, false⟩
  --  8  elif name in self._background:
  | .sj8 n =>
    match lookupBg s n with
    | some b => ⟨.sj9 b, .nop, false⟩
    | none => ⟨.sj12 false, .nop, false⟩
  --  9  self._background[name].request_stop()
  | .sj9 b => if b ∈ s.bg then ⟨.req1 b .stopJobB, .nop, false⟩ else ⟨.sj9 b, .crash, false⟩
  -- 10  result = True
  | .sj10 => ⟨.sj12 true, .nop, false⟩
  -- 12  self._release_lock()
  | .sj12 r => ⟨.rel1 (.stopJob r), .nop, false⟩
  -- 13  return result
  | .sj13 r => ⟨.idle, retEv t r, false⟩
  -- Agent.request_stop:  1  self._job.request_stop()
  | .req1 a k =>
    match k with
    | .stopBg rest => ⟨.sb9 rest, .emit [.stop a], false⟩
    | .stopJobA => ⟨.sj7, .emit [.stop a], false⟩
    | .stopJobB => ⟨.sj10, .emit [.stop a], false⟩
    | .stopCur => ⟨.sc7, .emit [.stop a], false⟩
    | .pstopCur => ⟨.ps6, .emit [.stop a], false⟩
  -- def stop_background(self):
  --  1 result = False  2 if self._acquire_lock():  3 result = True  4 try:
  --  7 agents = self.get_background()   [get_background: 1 if self._background is None:
  --  3 return self._background.values()]   8 if agents is not None:
  --  9 for agent in list(agents).copy():   10 agent.request_stop()   12 self._release_lock()
  -- 13 return result
  | .sb1 => ⟨.sb2, .nop, false⟩
  | .sb2 => ⟨.acq1 .stopBg, .nop, false⟩
  | .sb3 => ⟨.sb4, .nop, false⟩
  | .sb4 => ⟨.sb7, .nop, false⟩
  | .sb7 => ⟨.gb1, .nop, false⟩
  | .gb1 => ⟨.gb3, .nop, false⟩
  | .gb3 => ⟨.sb8, .nop, false⟩
  | .sb8 => ⟨.sb9f, .nop, false⟩
  | .sb9f =>
    match s.bg with
    | [] => ⟨.sb12, .nop, false⟩
    | a :: rest => ⟨.sb10 a rest, .nop, false⟩
  | .sb9 l =>
    match l with
    | [] => ⟨.sb12, .nop, false⟩
    | a :: rest => ⟨.sb10 a rest, .nop, false⟩
  | .sb10 a rest => ⟨.req1 a (.stopBg rest), .nop, false⟩
  | .sb12 => ⟨.rel1 .stopBg, .nop, false⟩
  | .sb13 => ⟨.idle, retEv t true, false⟩
  -- Agent.is_running:  1  return self._thread is not None and self._thread.is_alive()
  | .air1 a k =>
    if hasThread s a then ⟨.air1b a k, .nop, false⟩
    else match k with
      | .stopCur => ⟨.sc9 false, .nop, false⟩
      | .pstopCur => ⟨.ps8, .nop, false⟩
  | .air1b a k =>
    match k with
    | .stopCur => if alive s a then ⟨.sc6 a, .nop, false⟩ else ⟨.sc9 false, .nop, false⟩
    | .pstopCur => if alive s a then ⟨.ps2, .nop, false⟩ else ⟨.ps8, .nop, false⟩
  -- def stop_current(self):   (fixed)
  --  1 result = False  2 if self._acquire_lock():  3 try:  4 agent = self._active_agent
  --  5 if agent is not None and agent.is_running():  6 agent.request_stop()  7 result = True
  --  9 self._release_lock()  10 return result
  | .sc1 => ⟨.sc2, .nop, false⟩
  | .sc2 => ⟨.acq1 .stopCur, .nop, false⟩
  | .sc3 => ⟨.sc4, .nop, false⟩
  | .sc4 => ⟨.sc5 s.active, .nop, false⟩
  | .sc5 ag =>
    match ag with
    | some a => ⟨.air1 a .stopCur, .nop, false⟩
    | none => ⟨.sc9 false, .nop, false⟩
  | .sc6 a => ⟨.req1 a .stopCur, .nop, false⟩
  | .sc7 => ⟨.sc9 true, .nop, false⟩
  | .sc9 r => ⟨.rel1 (.stopCur r), .nop, false⟩
  | .sc10 r => ⟨.idle, retEv t r, false⟩
  -- def stop_current(self):   (pinned)
  --  1 if self._active_agent is not None and self._active_agent.is_running():
  --  2 if self._acquire_lock():  3 try:  4 self._active_agent.request_stop()
  --  6 self._release_lock()  7 return True  8 return False
  | .ps1 =>
    match s.active with
    | some a => ⟨.air1 a .pstopCur, .nop, false⟩
    | none => ⟨.ps8, .nop, false⟩
  | .ps2 => ⟨.acq1 .pstopCur, .nop, false⟩
  | .ps3 => ⟨.ps4, .nop, false⟩
  | .ps4 =>
    match s.active with
    | some a => ⟨.req1 a .pstopCur, .nop, false⟩
    | none => ⟨.ps4, .crash, false⟩
  | .ps6 => ⟨.rel1 .pstopCur, .nop, false⟩
  | .ps7 => ⟨.idle, retEv t true, false⟩
  | .ps8 => ⟨.idle, retEv t false, false⟩

def setPc (s : State) (t : Tid) (pc : Pc) (popTodo : Bool) : State :=
  { s with thr := fun u =>
      if u = t then ⟨pc, if popTodo then (s.thr t).todo.tail else (s.thr t).todo⟩ else s.thr u }

def setJobPc (s : State) (a : Nat) (pc : Pc) : State :=
  { s with thr := fun u => if u = .job a then ⟨pc, (s.thr u).todo⟩ else s.thr u }

/-- what an effect does to the shared state (thread `t` is the one executing) -/
def apply (s : State) (t : Tid) : Eff → State
  | .nop => s
  | .acquire => { s with owner := some t, count := s.count + 1 }
  | .release =>
    if s.count ≤ 1 then { s with owner := none, count := 0 }
    else { s with count := s.count - 1 }
  | .alloc l b =>
    { s with next := s.next + 1, info := fun a => if a = s.next then ⟨l, b⟩ else s.info a }
  | .enq back a =>
    { s with queue := if back then s.queue ++ [a] else a :: s.queue,
             events := s.events ++ [.enq back a] }
  | .pop =>
    match s.queue with
    | [] => s
    | a :: rest => { s with queue := rest, active := some a, events := s.events ++ [.start a] }
  | .actNone a => { s with active := none, events := s.events ++ [.done a] }
  | .clear => { s with queue := [], events := s.events ++ [.clear] }
  | .bgAdd a => { s with bg := s.bg ++ [a], events := s.events ++ [.bgAdd a] }
  | .bgDel a => { s with bg := s.bg.erase a, events := s.events ++ [.bgDel a] }
  | .mkThread a => setJobPc s a .created
  | .startThread a =>
    { setJobPc s a .boot with events := s.events ++ [.tstart a] }
  | .emit es => { s with events := s.events ++ es }
  | .crash => { s with errs := t :: s.errs }

/-- thread `t` executes the line it stands at -/
def step (v : Variant) (s : State) (t : Tid) (c : Choice) : State :=
  let a := act v s t c (s.thr t).pc
  apply (setPc s t a.pc a.popTodo) t a.eff

/-- states reachable from `init progs` by any interleaving with any body behaviour -/
inductive Reach (v : Variant) (progs : Nat → List Op) : State → Prop where
  | init : Reach v progs (init progs)
  | step {s} (t : Tid) (c : Choice) : Reach v progs s → Reach v progs (step v s t c)

def run (v : Variant) (s : State) : List (Tid × Choice) → State
  | [] => s
  | (t, c) :: rest => run v (step v s t c) rest

theorem Reach.run {v progs s} (h : Reach v progs s) (sched : List (Tid × Choice)) :
    Reach v progs (run v s sched) := by
  induction sched generalizing s with
  | nil => exact h
  | cons x xs ih => exact ih (Reach.step x.1 x.2 h)

/-! ## Observations -/

/-- `has_jobs()` evaluated atomically -/
def hasJobs (s : State) : Bool := !s.queue.isEmpty || !s.bg.isEmpty || s.active.isSome

/-- `is_running(name)` evaluated atomically -/
def isRunning (s : State) (name : Nat) : Bool :=
  (match s.active with
   | some a => (s.info a).lbl == name
   | none => false) || (lookupBg s name).isSome

def bodyRunning (s : State) (a : Nat) : Prop := (s.thr (.job a)).pc = .body

/-- no client thread is inside a controller call and no job thread is alive -/
def Quiescent (s : State) : Prop :=
  (∀ n, (s.thr (.client n)).pc = .idle) ∧
  (∀ a, (s.thr (.job a)).pc = .unborn ∨ (s.thr (.job a)).pc = .dead)

end Bardolph.JC
