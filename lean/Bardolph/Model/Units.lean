import Bardolph.Generated.Units
/-!
Model of the unit handling of Bardolph over exact rationals (core `Rat`):

* `bardolph/controller/units.py` — the six colour conversions, `time_raw`, `time_logical`,
  with their ε tests;
* Python's `round` (half to even), `%` on floats, `int()` truncation, and
  `colorsys.rgb_to_hsv` / `hsv_to_rgb` re-implemented over ℚ;
* `bardolph/lib/param_helper.py` — `param_8/16/32`, `param_color`;
* the part of `machine.py:Registers` that unit switching touches, `_switch_unit_mode`,
  `_as_raw_color`, `_as_raw_time`, `_assure_units`;
* what each transmitting VM handler finally hands to a device (`emit`), through the device
  wrappers of `lifx_lan_light.py`, `light_set.py`, `lifx_lan_api.py` and
  `color_matrix.py:_standardize_raw`.

Every numeric literal comes from `Bardolph.Generated.Units`, i.e. from the Python source as
it is now.  `max`/`min` are written as `if` so that the proofs do not depend on which `Max`
instance is in scope.
-/
namespace Bardolph.Units
open Bardolph.Generated.Units

/-! ## Python arithmetic -/

/-- `max(a, b)` on numbers -/
def rmax (a b : Rat) : Rat := if a ≤ b then b else a
/-- `min(a, b)` on numbers -/
def rmin (a b : Rat) : Rat := if a ≤ b then a else b

/-- Python `round(x)` for a number: nearest integer, ties to the even one -/
def roundHalfEven (x : Rat) : Int :=
  let f := x.floor
  let d := x - (f : Rat)
  if d < 1 / 2 then f
  else if 1 / 2 < d then f + 1
  else if f % 2 = 0 then f else f + 1

/-- Python `x % m` for `m > 0`: the result has the sign of `m` -/
def pyMod (x m : Rat) : Rat := x - m * (((x / m).floor : Int) : Rat)

/-- Python `int(x)`: truncation towards zero -/
def trunc (x : Rat) : Int := if 0 ≤ x then x.floor else -((-x).floor)

/-- `round(max(lo, min(x, hi)))` — the body shared by `param_8/16/32` -/
def paramN (lo hi : Nat) (x : Rat) : Int := roundHalfEven (rmax lo (rmin x hi))

def param8 (x : Rat) : Int := paramN param8Lo param8Hi x
def param16 (x : Rat) : Int := paramN param16Lo param16Hi x
def param32 (x : Rat) : Int := paramN param32Lo param32Hi x

/-- `ColorMatrix._standardize_raw` on one component -/
def standardize (x : Rat) : Int :=
  if x < (stdLoTest : Rat) then (stdLo : Int)
  else if (stdHiTest : Rat) < x then (stdHi : Int)
  else roundHalfEven x

/-! ## colorsys over ℚ -/

/-- `colorsys.rgb_to_hsv` -/
def rgbToHsv (r g b : Rat) : Rat × Rat × Rat :=
  let maxc := rmax (rmax r g) b
  let minc := rmin (rmin r g) b
  if minc = maxc then (0, 0, maxc)
  else
    let rangec := maxc - minc
    let s := rangec / maxc
    let rc := (maxc - r) / rangec
    let gc := (maxc - g) / rangec
    let bc := (maxc - b) / rangec
    let h := if r = maxc then bc - gc else if g = maxc then 2 + rc - bc else 4 + gc - rc
    (pyMod (h / 6) 1, s, maxc)

/-- `colorsys.hsv_to_rgb` -/
def hsvToRgb (h s v : Rat) : Rat × Rat × Rat :=
  if s = 0 then (v, v, v)
  else
    let i := trunc (h * 6)
    let f := h * 6 - (i : Rat)
    let p := v * (1 - s)
    let q := v * (1 - s * f)
    let t := v * (1 - s * (1 - f))
    match i % 6 with
    | 0 => (v, t, p)
    | 1 => (q, v, p)
    | 2 => (p, v, t)
    | 3 => (p, q, v)
    | 4 => (t, p, v)
    | _ => (v, p, q)

/-! ## units.py -/

inductive Mode where
  | logical | raw | rgb
  deriving DecidableEq, Repr, Inhabited

/-- a colour as the VM passes it around: three components and kelvin -/
structure Color where
  c0 : Rat
  c1 : Rat
  c2 : Rat
  k : Rat
  deriving DecidableEq, Repr, Inhabited

def eps : Rat := (epsilonNum : Rat) / (epsilonDen : Rat)

def timeRaw (t : Rat) : Rat := t * (timeRawFactor : Rat)

def timeLogical (t : Rat) : Rat :=
  if -eps < t ∧ t < eps then (timeLogicalZero : Rat) else t / (timeLogicalDivisor : Rat)

def pctToRaw (p : Rat) : Rat :=
  if -eps < p ∧ p < eps then (pctZero : Rat) else p / (pctDivisor : Rat) * (pctScale : Rat)

def hueToRaw (d : Rat) : Rat :=
  if (-eps < d ∧ d < eps) ∨ ((l2rWrapLo : Rat) - eps < d ∧ d < (l2rWrapHi : Rat) + eps) then
    (l2rHueZero : Rat)
  else pyMod d (l2rHueModulus : Rat) / (l2rHueDivisor : Rat) * (l2rHueScale : Rat)

def logicalToRaw (c : Color) : Color :=
  ⟨hueToRaw c.c0, pctToRaw c.c1, pctToRaw c.c2, c.k⟩

def rawToLogical (c : Color) : Color :=
  let h := c.c0 / (r2lHueDivisor : Rat) * (r2lHueScale : Rat)
  let s := if (r2lSatCap : Rat) ≤ c.c1 then (r2lSatFull : Rat)
           else c.c1 / (r2lSatDivisor : Rat) * (r2lSatScale : Rat)
  let b := if (r2lBriCap : Rat) ≤ c.c2 then (r2lBriFull : Rat)
           else c.c2 / (r2lBriDivisor : Rat) * (r2lBriScale : Rat)
  ⟨rmax h r2lHueFloor, rmax s r2lSatFloor, rmax b r2lBriFloor, rmax c.k r2lKelvinFloor⟩

/-- `make_raw` inside `rgb_to_raw` -/
def makeRaw (x : Rat) : Rat :=
  ((roundHalfEven (rmax (g2rLo : Rat) (rmin (x * (g2rScale : Rat)) (g2rHi : Rat))) : Int) : Rat)

/-- the fractions of full intensity `rgb_to_raw` / `rgb_to_logical` hand to colorsys
(a negative percentage counts as 0) -/
def rgbFraction (floor divisor : Nat) (pct : Rat) : Rat := rmax (floor : Rat) (pct / (divisor : Rat))

def rgbToRaw (c : Color) : Color :=
  let (h, s, v) := rgbToHsv (rgbFraction g2rFloor g2rDivisor c.c0) (rgbFraction g2rFloor g2rDivisor c.c1)
    (rgbFraction g2rFloor g2rDivisor c.c2)
  ⟨makeRaw h, makeRaw s, makeRaw v, c.k⟩

def rgbToLogical (c : Color) : Color :=
  let (h, s, v) := rgbToHsv (rgbFraction g2lFloor g2lDivisor c.c0) (rgbFraction g2lFloor g2lDivisor c.c1)
    (rgbFraction g2lFloor g2lDivisor c.c2)
  ⟨h * (g2lHueScale : Rat), s * (g2lSatScale : Rat), v * (g2lBriScale : Rat), c.k⟩

def rawToRgb (c : Color) : Color :=
  let (r, g, b) := hsvToRgb (c.c0 / (r2gDivisor : Rat)) (c.c1 / (r2gDivisor : Rat))
    (c.c2 / (r2gDivisor : Rat))
  ⟨r * (r2gRedScale : Rat), g * (r2gGreenScale : Rat), b * (r2gBlueScale : Rat), c.k⟩

def logicalToRgb (c : Color) : Color :=
  let (r, g, b) := hsvToRgb (c.c0 / (l2gHueDivisor : Rat)) (c.c1 / (l2gSatDivisor : Rat))
    (c.c2 / (l2gBriDivisor : Rat))
  ⟨r * (l2gRedScale : Rat), g * (l2gGreenScale : Rat), b * (l2gBlueScale : Rat), c.k⟩

/-- the conversion functions by their Python names (`None` = identity) -/
def fnByName : String → Option (Color → Color)
  | "None" => some id
  | "logical_to_raw" => some logicalToRaw
  | "logical_to_rgb" => some logicalToRgb
  | "raw_to_logical" => some rawToLogical
  | "raw_to_rgb" => some rawToRgb
  | "rgb_to_logical" => some rgbToLogical
  | "rgb_to_raw" => some rgbToRaw
  | _ => none

def Mode.pyName : Mode → String
  | .logical => "LOGICAL"
  | .raw => "RAW"
  | .rgb => "RGB"

/-- the name of the function the model uses for a pair of modes -/
def convName : Mode → Mode → String
  | .logical, .raw => "logical_to_raw"
  | .logical, .rgb => "logical_to_rgb"
  | .raw, .logical => "raw_to_logical"
  | .raw, .rgb => "raw_to_rgb"
  | .rgb, .logical => "rgb_to_logical"
  | .rgb, .raw => "rgb_to_raw"
  | _, _ => "None"

/-- `units.convert_fn(src, dst)` / `Machine._convert_units_fn(src, dst)` -/
def convert : Mode → Mode → Color → Color
  | .logical, .raw => logicalToRaw
  | .logical, .rgb => logicalToRgb
  | .raw, .logical => rawToLogical
  | .raw, .rgb => rawToRgb
  | .rgb, .logical => rgbToLogical
  | .rgb, .raw => rgbToRaw
  | _, _ => id

def allModes : List Mode := [.logical, .raw, .rgb]

/-- the model's conversion table in the form of `Generated.convertFn` -/
def modelConvertFn : List (String × String × String) :=
  allModes.flatMap fun a => allModes.map fun b => (a.pyName, b.pyName, convName a b)

/-! ## Registers and unit switching (`machine.py`) -/

/-- the `time` register holds a number or a time-of-day pattern -/
inductive TimeReg where
  | num (t : Rat)
  | pattern
  deriving DecidableEq, Repr, Inhabited

structure Regs where
  hue : Rat
  saturation : Rat
  brightness : Rat
  kelvin : Rat
  red : Rat
  green : Rat
  blue : Rat
  duration : Rat
  time : TimeReg
  power : Bool
  unitMode : Mode
  deriving DecidableEq, Repr, Inhabited

/-- `Registers.get_color` -/
def Regs.getColor (r : Regs) : Color :=
  if r.unitMode = .rgb then ⟨r.red, r.green, r.blue, r.kelvin⟩
  else ⟨r.hue, r.saturation, r.brightness, r.kelvin⟩

/-- `Registers.store_color` -/
def Regs.storeColor (r : Regs) (c : Color) : Regs :=
  if r.unitMode = .rgb then { r with red := c.c0, green := c.c1, blue := c.c2, kelvin := c.k }
  else { r with hue := c.c0, saturation := c.c1, brightness := c.c2, kelvin := c.k }

def TimeReg.map (f : Rat → Rat) : TimeReg → TimeReg
  | .num t => .num (f t)
  | .pattern => .pattern

/-- `Machine._switch_unit_mode` -/
def switchUnitMode (r : Regs) (to : Mode) : Regs :=
  if r.unitMode = to then r
  else
    let src := r.unitMode
    let c := r.getColor
    let r1 := ({ r with unitMode := to } : Regs).storeColor (convert src to c)
    if to = .raw then
      { r1 with duration := timeRaw r1.duration, time := r1.time.map timeRaw }
    else if src = .raw then
      { r1 with duration := timeLogical r1.duration, time := r1.time.map timeLogical }
    else r1

/-- a chain of `units …` commands -/
def switchChain (r : Regs) (ms : List Mode) : Regs := ms.foldl switchUnitMode r

/-- `Machine._as_raw_color` of the colour registers -/
def asRawColor (r : Regs) : Color :=
  match r.unitMode with
  | .raw => r.getColor
  | .rgb => rgbToRaw r.getColor
  | .logical => logicalToRaw r.getColor

/-- `Machine._as_raw_time` -/
def asRawTime (m : Mode) (t : Rat) : Rat :=
  match m with
  | .raw => t
  | _ => timeRaw t

/-- `Machine._assure_units`: a raw colour read from a light, in the units in force -/
def assureUnits (m : Mode) (c : Color) : Color :=
  match m with
  | .raw => c
  | .logical => rawToLogical c
  | .rgb => rawToRgb c

/-- `Machine._wait`: the pause handed to the clock, in seconds (`none`: no pause, or a
wait for a time of day) -/
def delaySeconds (r : Regs) : Option Rat :=
  match r.time with
  | .pattern => none
  | .num t => if 0 < t then some (if r.unitMode = .raw then t / 1000 else t) else none

/-! ## What a command hands to the device -/

/-- the command kinds that transmit a colour, a power level or a duration -/
inductive Kind where
  | light | group | location | all | zone | matrixCell
  | powerLight | powerGroup | powerLocation | powerAll
  deriving DecidableEq, Repr

structure Wire where
  /-- hue, saturation, brightness, kelvin as transmitted -/
  color : Option (Int × Int × Int × Int)
  power : Option Int
  duration : Int
  deriving DecidableEq, Repr

/-- `param_color` -/
def paramColor (c : Color) : Int × Int × Int × Int :=
  (param16 c.c0, param16 c.c1, param16 c.c2, param16 c.k)

def standardizeColor (c : Color) : Int × Int × Int × Int :=
  (standardize c.c0, standardize c.c1, standardize c.c2, standardize c.k)

def intColor (c : Int × Int × Int × Int) : Color := ⟨c.1, c.2.1, c.2.2.1, c.2.2.2⟩

/-- `Registers.get_power` -/
def Regs.getPower (r : Regs) : Int := if r.power then (powerOn : Int) else (powerOff : Int)

/-- the colour a `set` hands to the device: `_as_raw_color` then `param_color` -/
def wireColor (r : Regs) : Int × Int × Int × Int := paramColor (asRawColor r)

/-- the duration a `set`/`on`/`off` hands to the device: `_as_raw_time` then `param_32` -/
def wireDuration (r : Regs) : Int := param32 (asRawTime r.unitMode r.duration)

/-- handler by handler, through the wrappers -/
def emit (kind : Kind) (r : Regs) : Wire :=
  match kind with
  | .light | .group | .location | .zone =>
    -- Light.set_color / MultizoneLight.set_zone_colors: param_color, param_32
    ⟨some (paramColor (asRawColor r)), none, param32 (asRawTime r.unitMode r.duration)⟩
  | .all =>
    -- LightSet.set_color_all_lights: param_color, param_32, rounded_color;
    -- LifxLanApi.set_color_all_lights: param_color, param_32 again
    let c1 := paramColor (asRawColor r)
    let c2 := paramColor (intColor c1)
    let d1 := param32 (asRawTime r.unitMode r.duration)
    ⟨some c2, none, param32 d1⟩
  | .matrixCell =>
    -- the staged cell is converted by _as_raw_matrix and standardised by get_colors
    ⟨some (standardizeColor (asRawColor r)), none, param32 (asRawTime r.unitMode r.duration)⟩
  | .powerLight | .powerGroup | .powerLocation =>
    -- Light.set_power: param_16, param_32
    ⟨none, some (param16 r.getPower), param32 (asRawTime r.unitMode r.duration)⟩
  | .powerAll =>
    -- LightSet.set_power_all_lights: param_bool, param_32; LifxLanApi: param_16, param_32
    let p : Int := if r.getPower ≠ 0 then 1 else 0
    ⟨none, some (param16 p), param32 (param32 (asRawTime r.unitMode r.duration))⟩

/-- the handler table in the form of `Generated.vmHandlerHelpers` -/
def modelHandlerHelpers : List (String × String) :=
  [("_color_all", "_as_raw_color,get_color,_as_raw_time"),
   ("_color_light", "_as_raw_color,get_color,_as_raw_time"),
   ("_color_matrix_light", "_as_raw_matrix,_as_raw_time"),
   ("_color_mz_light", "_as_raw_color,get_color,_as_raw_time"),
   ("_color_multiple", "_as_raw_color,get_color,_as_raw_time"),
   ("_color_default", "_as_raw_color,get_color"),
   ("_power_all", "_as_raw_time,get_power"),
   ("_power_light", "_as_raw_time,get_power"),
   ("_power_multiple", "get_power,_as_raw_time")]

/-- the wrapper table in the form of `Generated.wrapperHelpers` -/
def modelWrapperHelpers : List (String × String) :=
  [("Light.set_color", "param_color,param_32"),
   ("Light.set_power", "param_16,param_32"),
   ("MultizoneLight.set_zone_colors", "param_color,param_16,param_16,param_32"),
   ("MatrixLight.set_matrix", "param_32"),
   ("LightSet.set_color_all_lights", "param_color,param_32,rounded_color"),
   ("LightSet.set_power_all_lights", "param_bool,param_32"),
   ("LifxLanApi.set_color_all_lights", "param_color,param_32"),
   ("LifxLanApi.set_power_all_lights", "param_16,param_32")]

end Bardolph.Units
