import Bardolph.Model.Ast
import Bardolph.Model.Vm
/-!
Source-level semantics of Bardolph scripts: what the *source* says, written from the manual
(`docs/language.rst`), independent of instructions, offsets, frames and the evaluation stack.

It is the specification side of C01/C03/C04/C15/C18: statements take effect once each time
control reaches them, in program order; `if` chooses by truth; the repeat forms run the
documented number of passes with the documented values; `break` leaves the innermost loop;
a call evaluates its arguments in the caller's scope, runs the body with private parameters,
and resumes after the call; `return` ends the current call from any depth.

What a single command does to the lights (unit conversion, group fan-out, zones, matrix) is
shared with the VM model (`Vm.State.doColor` …) — that is the subject of C07/C14/C15, not
of the control-flow properties.
-/
namespace Bardolph
namespace Sem
open Vm

inductive Outcome where
  | normal
  | brk
  | ret
  | fault (what : String)
  | uninterpreted (what : String)
  | outOfFuel
  deriving Repr, DecidableEq, Inhabited

structure Routine where
  params : List String
  body : Block
  deriving Inhabited

/-- semantic state: the device/register part is a `Vm.State` (its `stack`, `eval`, `pc` are
not used), plus the current activation's locals and the routines defined so far -/
structure S where
  vm : Vm.State
  locals : Option Dict := none          -- `some` inside a routine call
  routines : List (String × Routine) := []
  result : Val := .none                 -- value delivered by the last `return`
  deriving Inhabited

def S.lookup (s : S) (n : String) : Val :=
  match s.vm.constants.get n with
  | some v => v
  | none =>
    match s.locals.bind (·.get n) with
    | some v => v
    | none => (s.vm.globals.get n).getD .none

/-- assignment: a parameter or local of the current call; else an existing global; else a new
local (or a new global at top level) -/
def S.assign (s : S) (n : String) (v : Val) : S :=
  match s.locals with
  | some d =>
    if d.has n then { s with locals := some (d.put n v) }
    else if s.vm.globals.has n then { s with vm := { s.vm with globals := s.vm.globals.put n v } }
    else { s with locals := some (d.put n v) }
  | none => { s with vm := { s.vm with globals := s.vm.globals.put n v } }

def S.setReg (s : S) (r : Reg) (v : Val) : S := { s with vm := s.vm.setReg r v }
def S.emit (s : S) (e : Event) : S := { s with vm := s.vm.emit e }

/-- run a VM command handler on the device part; a fault there is a fault here -/
def S.device (s : S) (f : Vm.State → Vm.State) : Outcome × S :=
  let vm' := f s.vm
  match vm'.status with
  | .fault w => (.fault w, { s with vm := { vm' with status := .running } })
  | .uninterpreted w => (.uninterpreted w, { s with vm := { vm' with status := .running } })
  | _ => (.normal, { s with vm := vm' })

abbrev R := Except Outcome (Val × S)      -- evaluation of a value: result or abnormal outcome

def numToCount (v : Val) : Option Rat := v.asNum.map (·.1)

/-- number of passes for a count `n`: as long as the remaining count is positive -/
def passCount (n : Rat) : Nat := if n ≤ 0 then 0 else n.ceil.toNat

/-- what a full turn of `cycle` is, by unit mode -/
def turnOf (m : UnitMode) : Int := if m == .raw then 65536 else 360

/-- the increment of `with v from x to y` over `cnt` values: both ends included, a single value
is the first one (`none`: the arithmetic fails) -/
def interpIncr (cnt x y : Val) : Option Val :=
  if Val.beq cnt (.int 1) then some (.int 0)
  else (Vm.binOp .sub y x).bind fun d =>
    (Vm.binOp .sub cnt (.int 1)).bind fun m => Vm.binOp .div d m

/-- the increment of `with v cycle`: a full turn divided among `cnt` values; nothing to divide
among no values -/
def cycleIncr (m : UnitMode) (cnt : Val) : Option Val :=
  if Val.beq cnt (.int 0) then some (.int 0) else Vm.binOp .div (.int (turnOf m)) cnt

def withVarOf : WithClause → String
  | .fromTo v _ _ => v
  | .cycle v _ => v

mutual
  /-- value of an expression; calls may change the state -/
  def evalExpr : Nat → Expr → S → Except Outcome (Val × S)
    | 0, _, _ => .error .outOfFuel
    | _ + 1, .lit v, s => .ok (v, s)
    | _ + 1, .var n, s =>
      match s.lookup n with
      | .none => .error (.fault "undefined variable in expression")
      | v => .ok (v, s)
    | _ + 1, .reg r, s =>
      match s.vm.regs r with
      | .none => .error (.fault "empty register in expression")
      | v => .ok (v, s)
    | f + 1, .call name ps as, s =>
      match callRoutine f name ps as s with
      | .ok (v, s') =>
        match v with
        | .none => .error (.fault "routine delivered nothing")
        | _ => .ok (v, s')
      | .error o => .error o
    | f + 1, .un minus e, s =>
      match evalExpr f e s with
      | .ok (v, s') =>
        if minus then
          match Vm.binOp .mul v (.int (-1)) with
          | some r => .ok (r, s')
          | none => .error (.fault "arithmetic error")
        else .ok (v, s')
      | .error o => .error o
    | f + 1, .paren e, s => evalExpr f e s
    | f + 1, .bin op a b, s =>
      match evalExpr f a s with
      | .error o => .error o
      | .ok (x, s1) =>
        match evalExpr f b s1 with
        | .error o => .error o
        | .ok (y, s2) =>
          match op with
          | .and => .ok (.bool (x.truthy && y.truthy), s2)
          | .or => .ok (.bool (x.truthy || y.truthy), s2)
          | .pow =>
            match y.asNum with
            | some (q, _) =>
              if q.den != 1 && x.asNum.isSome then .error (.uninterpreted "fractional power")
              else match Vm.binOp op x y with
                | some r => .ok (r, s2)
                | none => .error (.fault "arithmetic error")
            | none => .error (.fault "arithmetic error")
          | _ =>
            match Vm.binOp op x y with
            | some r => .ok (r, s2)
            | none => .error (.fault "arithmetic error")

  /-- value of a value position -/
  def evalRv : Nat → Rv → S → Except Outcome (Val × S)
    | 0, _, _ => .error .outOfFuel
    | _ + 1, .lit v, s => .ok (v, s)
    | _ + 1, .var n, s => .ok (s.lookup n, s)
    | _ + 1, .reg r, s => .ok (s.vm.regs r, s)
    | f + 1, .expr e, s => evalExpr f e s
    | f + 1, .call name ps as, s => callRoutine f name ps as s

  /-- arguments are evaluated left to right in the caller's scope -/
  def evalArgs : Nat → List String → Args → S → Except Outcome (Dict × S)
    | 0, _, _, _ => .error .outOfFuel
    | f + 1, p :: ps, .cons a rest, s =>
      match evalRv f a s with
      | .error o => .error o
      | .ok (v, s1) =>
        match evalArgs f ps rest s1 with
        | .error o => .error o
        | .ok (d, s2) => .ok ((p, v) :: d, s2)
    | _ + 1, _, _, s => .ok ([], s)

  /-- a call: private parameters, body, resume after the call with the caller's locals -/
  def callRoutine : Nat → String → List String → Args → S → Except Outcome (Val × S)
    | 0, _, _, _, _ => .error .outOfFuel
    | f + 1, name, ps, as, s =>
      match evalArgs f ps as s with
      | .error o => .error o
      | .ok (args, s1) =>
        match s1.routines.find? (·.1 == name) with
        | some (_, rt) =>
          let callee : S := { s1 with locals := some args, result := .none }
          match execBlock f rt.body callee with
          | (.normal, s2) => .ok (s2.result, { s2 with locals := s1.locals, result := .none })
          | (.ret, s2) => .ok (s2.result, { s2 with locals := s1.locals, result := .none })
          | (.brk, _) => .error (.fault "break outside loop")
          | (o, _) => .error o
        | none =>
          match Vm.builtinParams name with
          | some names =>
            match Vm.callBuiltin name (names.map fun n => (args.get n).getD .none) s1.vm.draws with
            | .val v =>
              let vm := if name == "random" then { s1.vm with draws := s1.vm.draws + 1 } else s1.vm
              .ok (v, { s1 with vm := vm })
            | .fault w => .error (.fault w)
            | .uninterpreted w => .error (.uninterpreted w)
          | none => .error (.fault ("unknown routine " ++ name))

  def execBlock : Nat → Block → S → Outcome × S
    | 0, _, s => (.outOfFuel, s)
    | _ + 1, .nil, s => (.normal, s)
    | f + 1, .cons st rest, s =>
      match execStmt f st s with
      | (.normal, s') => execBlock f rest s'
      | r => r

  /-- one pass after another: `binds` are the bindings made at the start of each remaining pass
  (the light/group/location name of a loop over names); `idx` is the index variable with its
  increment.  The index variable is an ordinary variable: it has been given its first value
  before the first pass, and after every pass that runs to its end the increment is added to
  whatever it then holds.  `break` ends the loop at once (nothing is added). -/
  def execPasses : Nat → List (List (String × Val)) → Option (String × Val) → Block → S → Outcome × S
    | 0, _, _, _, s => (.outOfFuel, s)
    | _ + 1, [], _, _, s => (.normal, s)
    | f + 1, binds :: rest, idx, body, s =>
      let s1 := binds.foldl (fun st (n, v) => st.assign n v) s
      match execBlock f body s1 with
      | (.normal, s2) =>
        match idx with
        | none => execPasses f rest idx body s2
        | some (v, incr) =>
          match Vm.binOp .add (s2.lookup v) incr with
          | some x => execPasses f rest idx body (s2.assign v x)
          | none => (.fault "arithmetic error", s2)
      | (.brk, s2) => (.normal, s2)
      | r => r

  def execWhile : Nat → Option Rv → Block → S → Outcome × S
    | 0, _, _, s => (.outOfFuel, s)
    | f + 1, c, body, s =>
      let test : Except Outcome (Bool × S) :=
        match c with
        | none => .ok (true, s)
        | some rv => match evalRv f rv s with
          | .ok (v, s') => .ok (v.truthy, s')
          | .error o => .error o
      match test with
      | .error o => (o, s)
      | .ok (false, s1) => (.normal, s1)
      | .ok (true, s1) =>
        match execBlock f body s1 with
        | (.normal, s2) => execWhile f c body s2
        | (.brk, s2) => (.normal, s2)
        | r => r

  def execOperands : Nat → ActKind → Operands → S → Outcome × S
    | 0, _, _, s => (.outOfFuel, s)
    | _ + 1, _, .nil, s => (.normal, s)
    | f + 1, k, .cons o rest, s =>
      match execOperand f k o s with
      | (.normal, s') => execOperands f k rest s'
      | r => r

  def execOperand : Nat → ActKind → Operand_ → S → Outcome × S
    | 0, _, _, s => (.outOfFuel, s)
    | f + 1, k, o, s =>
      let name (n : NameSpec) (st : S) : S :=
        match n with
        | .str x => st.setReg .name (.str x)
        | .var x => st.setReg .name (st.lookup x)
      let fire (st : S) : Outcome × S :=
        st.device (if k == .set then Vm.State.doColor else Vm.State.doPower)
      match o with
      | .light n => fire ((name n s).setReg .operand (.operand .light))
      | .group n => fire ((name n s).setReg .operand (.operand .group))
      | .location n => fire ((name n s).setReg .operand (.operand .location))
      | .zone n r =>
        match evalRange f r .firstZone .lastZone (name n s) with
        | .error o => (o, s)
        | .ok s1 => fire (s1.setReg .operand (.operand .mzLight))
      | .matrixInline n rows cols cf =>
        let (o1, s1) := (name n s).device fun vm => Vm.execInstr default vm .matrix
        if o1 != .normal then (o1, s1)
        else
          match evalMatrixRanges f rows cols cf (s1.setReg .operand (.operand .matrix)) with
          | .error o => (o, s1)
          | .ok s2 =>
            match s2.device Vm.State.doColor with
            | (.normal, s3) => fire (s3.setReg .operand (.operand .matrixLight))
            | r => r
      | .matrixBlock n body =>
        let (o1, s1) := (name n s).device fun vm => Vm.execInstr default vm .matrix
        if o1 != .normal then (o1, s1)
        else
          match execBlock f body s1 with
          -- the block's result goes to the block's own light, whatever the body named
          | (.normal, s2) => fire ((name n s2).setReg .operand (.operand .matrixLight))
          | r => r

  def evalRange : Nat → Range → Reg → Reg → S → Except Outcome S
    | 0, _, _, _, _ => .error .outOfFuel
    | f + 1, r, first, last, s =>
      match evalRv f r.first s with
      | .error o => .error o
      | .ok (a, s1) =>
        match r.last with
        | none => .ok ((s1.setReg first a).setReg last .none)
        | some l =>
          match evalRv f l (s1.setReg first a) with
          | .error o => .error o
          | .ok (b, s2) => .ok (s2.setReg last b)

  def evalMatrixRanges : Nat → Option Range → Option Range → Bool → S → Except Outcome S
    | 0, _, _, _, _ => .error .outOfFuel
    | f + 1, rows, cols, cf, s =>
      let doRows (st : S) : Except Outcome S :=
        match rows with
        | some r => evalRange f r .firstRow .lastRow st
        | none => .ok st
      let doCols (st : S) : Except Outcome S :=
        match cols with
        | some r => evalRange f r .firstColumn .lastColumn st
        | none => .ok st
      let both : Except Outcome S :=
        if cf then (match doCols s with | .ok s1 => doRows s1 | .error o => .error o)
        else (match doRows s with | .ok s1 => doCols s1 | .error o => .error o)
      match both with
      | .error o => .error o
      | .ok s1 =>
        let s2 := if rows.isNone then (s1.setReg .firstRow .none).setReg .lastRow .none else s1
        .ok (if cols.isNone then (s2.setReg .firstColumn .none).setReg .lastColumn .none else s2)

  def execStmt : Nat → Stmt → S → Outcome × S
    | 0, _, s => (.outOfFuel, s)
    | f + 1, st, s =>
      match st with
      | .setReg r v =>
        match evalRv f v s with
        | .ok (x, s1) => (.normal, s1.setReg r x)
        | .error o => (o, s)
      | .units m => s.device fun vm => vm.switchMode m
      | .wait => s.device fun vm => Vm.execInstr default vm .wait
      | .actAll k =>
        let s1 := match k with
          | .on => s.setReg .power (.bool true)
          | .off => s.setReg .power (.bool false)
          | .set => s
        match s1.device fun vm => Vm.execInstr default vm .wait with
        | (.normal, s2) =>
          (s2.setReg .operand (.operand .all)).device
            (if k == .set then Vm.State.doColor else Vm.State.doPower)
        | r => r
      | .setDefault w =>
        match (if w then s.device fun vm => Vm.execInstr default vm .wait else ((.normal, s) : Outcome × S)) with
        | (.normal, s2) => (s2.setReg .operand (.operand .default)).device Vm.State.doColor
        | r => r
      | .action k w ops =>
        let s1 := match k with
          | .on => s.setReg .power (.bool true)
          | .off => s.setReg .power (.bool false)
          | .set => s
        -- `w`: the command waits for its turn on the time line; inside a matrix block
        -- (`w = false`) it does not, the block as a whole has waited
        match (if w then s1.device fun vm => Vm.execInstr default vm .wait else ((.normal, s1) : Outcome × S)) with
        | (.normal, s2) => execOperands f k ops s2
        | r => r
      | .get name =>
        match evalRv f name s with
        | .ok (n, s1) => ((s1.setReg .result n).setReg .name n).device Vm.State.doGetColor
        | .error o => (o, s)
      | .timeAt ps =>
        match ps with
        | [] => (.normal, s)
        | p :: rest => (.normal, s.setReg .time (.pat (rest.foldl TP.Pat.union p)))
      | .assign n v =>
        match evalRv f v s with
        | .ok (x, s1) => (.normal, s1.assign n x)
        | .error o => (o, s)
      | .defMacro _ _ => (.normal, s)      -- a macro acts at compile time only (see `Vm.execInstr`)
      | .defRoutine n ps body =>
        -- a definition takes effect for the whole script (routines are extracted at load
        -- time); executing it does nothing
        (.normal, { s with routines := s.routines })
      | .call name ps as =>
        match callRoutine f name ps as s with
        | .ok (_, s1) => (.normal, s1)
        | .error o => (o, s)
      | .ret v =>
        match v with
        | none => (.ret, { s with result := .none })
        | some rv =>
          match evalRv f rv s with
          | .ok (x, s1) => (.ret, { s1 with result := x })
          | .error o => (o, s)
      | .ite c t e =>
        match evalRv f c s with
        | .error o => (o, s)
        | .ok (x, s1) =>
          if x.truthy then execBlock f t s1
          else match e with
            | some b => execBlock f b s1
            | none => (.normal, s1)
      | .brk => (.brk, s)
      | .print v =>
        match evalRv f v s with
        | .ok (x, s1) => (.normal, s1.emit (.out x))
        | .error o => (o, s)
      | .println v =>
        match v with
        | none => (.normal, s.emit .newline)
        | some rv =>
          match evalRv f rv s with
          | .ok (x, s1) => (.normal, (s1.emit (.out x)).emit .newline)
          | .error o => (o, s)
      | .printf fmt as =>
        match evalOutArgs f as s with
        | .error o => (o, s)
        | .ok (vals, s1) =>
          let cs := (fmt.replace "\\n" "\n").toList
          let named := (Vm.fieldNames cs).map fun n =>
            (n, match s1.lookup n with
                | .none => (match Vm.regByName n with
                    | some r => s1.vm.regs r
                    | none => .none)
                | v => v)
          (.normal, s1.emit (.outFmt fmt vals named))
      | .stage rows cols cf =>
        match evalMatrixRanges f rows cols cf (s.setReg .operand (.operand .matrix)) with
        | .error o => (o, s)
        | .ok s1 => s1.device Vm.State.doColor
      | .repeat_ h body => execLoop f h body s

  def evalOutArgs : Nat → Args → S → Except Outcome (List Val × S)
    | 0, _, _ => .error .outOfFuel
    | _ + 1, .nil, s => .ok ([], s)
    | f + 1, .cons a rest, s =>
      match evalRv f a s with
      | .error o => .error o
      | .ok (v, s1) =>
        match evalOutArgs f rest s1 with
        | .error o => .error o
        | .ok (vs, s2) => .ok (v :: vs, s2)

  /-- names visited by `repeat in … and …`, in visiting order: those of the first source first.
  The sources themselves are EVALUATED from the last to the first (the generated code pushes the
  names to visit last first, so that the first is on top), each member of a group or location
  once, in name order; a source that is a group, a location or `all` leaves its kind in the
  `operand` register (the discovery instructions are told what to walk through that register) -/
  def iterNames : Nat → List IterItem → S → Except Outcome (List String × S)
    | 0, _, _ => .error .outOfFuel
    | _ + 1, [], s => .ok ([], s)
    | f + 1, item :: rest, s =>
      match iterNames f rest s with
      | .error o => .error o
      | .ok (ys, s1) =>
        let one : Except Outcome (List String × S) :=
          match item with
          | .all => .ok (s1.vm.lightNames, s1.setReg .operand (.operand .light))
          | .light n =>
            match evalRv f n s1 with
            | .ok (.str x, s2) => .ok ([x], s2)
            | .ok (_, _) => .error (.fault "light name is not a string")
            | .error o => .error o
          | .group n =>
            match evalRv f n s1 with
            | .ok (.str g, s2) =>
              .ok (Vm.dedupSorted ((s2.vm.groupLights g).getD []), s2.setReg .operand (.operand .group))
            | .ok (_, _) => .error (.fault "group name is not a string")
            | .error o => .error o
          | .location n =>
            match evalRv f n s1 with
            | .ok (.str g, s2) =>
              .ok (Vm.dedupSorted ((s2.vm.locationLights g).getD []),
                s2.setReg .operand (.operand .location))
            | .ok (_, _) => .error (.fault "location name is not a string")
            | .error o => .error o
        match one with
        | .error o => .error o
        | .ok (xs, s2) => .ok (xs ++ ys, s2)

  /-- the `with` clause of a loop whose number of passes is the count `cnt`: the operands are
  evaluated (once, whatever the count), the index variable is given its first value, and the
  increment is delivered (`none`: it cannot be computed) -/
  def evalWith : Nat → WithClause → Val → S → Except Outcome (Option Val × S)
    | 0, _, _, _ => .error .outOfFuel
    | f + 1, .fromTo v a b, cnt, s =>
      match evalRv f a s with
      | .error o => .error o
      | .ok (x, s1) =>
        match evalRv f b s1 with
        | .error o => .error o
        | .ok (y, s2) => .ok (interpIncr cnt x y, s2.assign v x)
    | f + 1, .cycle v start, cnt, s =>
      let st0 : Except Outcome (Val × S) :=
        match start with
        | none => .ok (.int 0, s)
        | some rv => evalRv f rv s
      match st0 with
      | .error o => .error o
      | .ok (x, s1) => .ok (cycleIncr s1.vm.mode cnt, s1.assign v x)

  def execLoop : Nat → LoopHdr → Block → S → Outcome × S
    | 0, _, _, s => (.outOfFuel, s)
    | f + 1, h, body, s =>
      match h with
      | .forever => execWhile f none body s
      | .while_ c => execWhile f (some c) body s
      | .count n =>
        match evalRv f n s with
        | .error o => (o, s)
        | .ok (x, s1) =>
          match numToCount x with
          | some q => execPasses f (List.replicate (passCount q) []) none body s1
          | none => (.fault "count is not a number", s1)
      | .range v a b =>
        match evalRv f a s with
        | .error o => (o, s)
        | .ok (x, s1) =>
          match evalRv f b s1 with
          | .error o => (o, s1)
          | .ok (y, s2) =>
            -- the index variable has its first value whatever follows
            let s3 := s2.assign v x
            match numToCount x, numToCount y with
            | some p, some q =>
              let step : Val := if q < p then .int (-1) else .int 1
              let k := passCount ((if q < p then p - q else q - p) + 1)
              execPasses f (List.replicate k []) (some (v, step)) body s3
            | _, _ => (.fault "range bound is not a number", s3)
      | .interp n v a b =>
        match evalRv f n s with
        | .error o => (o, s)
        | .ok (cnt, s1) =>
          match numToCount cnt with
          | none => (.fault "count is not a number", s1)
          | some q =>
            -- the increment is computed from the count as given; the number of passes from
            -- the count as it is counted down
            match evalWith f (.fromTo v a b) cnt s1 with
            | .error o => (o, s1)
            | .ok (none, s2) => (.fault "arithmetic error", s2)
            | .ok (some i, s2) => execPasses f (List.replicate (passCount q) []) (some (v, i)) body s2
      | .cycle n v start =>
        match evalRv f n s with
        | .error o => (o, s)
        | .ok (cnt, s1) =>
          match numToCount cnt with
          | none => (.fault "count is not a number", s1)
          | some q =>
            match evalWith f (.cycle v start) cnt s1 with
            | .error o => (o, s1)
            | .ok (none, s2) => (.fault "arithmetic error", s2)
            | .ok (some i, s2) => execPasses f (List.replicate (passCount q) []) (some (v, i)) body s2
      -- the discovery instructions are told what to walk through the `operand` register
      | .all lv w => iterLoop f s.vm.lightNames lv w body (s.setReg .operand (.operand .light))
      | .groups lv w => iterLoop f s.vm.groupNames lv w body (s.setReg .operand (.operand .group))
      | .locations lv w =>
        iterLoop f s.vm.locationNames lv w body (s.setReg .operand (.operand .location))
      | .iter items lv w =>
        match iterNames f items s with
        | .error o => (o, s)
        | .ok (names, s1) => iterLoop f names lv w body s1

  /-- a loop over names: one pass per name, the name bound to `lv` at the start of the pass; a
  `with` clause spreads its range over the number of names -/
  def iterLoop : Nat → List String → String → Option WithClause → Block → S → Outcome × S
    | 0, _, _, _, _, s => (.outOfFuel, s)
    | f + 1, names, lv, w, body, s =>
      match w with
      | none => execPasses f (names.map fun n => [(lv, .str n)]) none body s
      | some wc =>
        match evalWith f wc (.int names.length) s with
        | .error o => (o, s)
        | .ok (none, s1) => (.fault "arithmetic error", s1)
        | .ok (some i, s1) =>
          execPasses f (names.map fun n => [(lv, .str n)]) (some (withVarOf wc, i)) body s1
end

mutual
  /-- routine definitions are collected from the whole script before it runs (the loader moves
  them out of line), wherever they appear: at top level, inside `if` / `repeat` bodies, inside the
  bodies of matrix blocks -/
  def collect : Block → List (String × Routine)
    | .nil => []
    | .cons (.defRoutine n ps body) rest => (n, ⟨ps, body⟩) :: collect rest
    | .cons (.ite _ t (some e)) rest => collect t ++ collect e ++ collect rest
    | .cons (.ite _ t none) rest => collect t ++ collect rest
    | .cons (.repeat_ _ body) rest => collect body ++ collect rest
    | .cons (.action _ _ ops) rest => collectOps ops ++ collect rest
    | .cons _ rest => collect rest
  def collectOps : Operands → List (String × Routine)
    | .nil => []
    | .cons (.matrixBlock _ body) rest => collect body ++ collectOps rest
    | .cons _ rest => collectOps rest
end

def run (fuel : Nat) (prog : Block) (lights : List Light) : Outcome × S :=
  let s0 : S := { vm := Vm.init lights, routines := (collect prog).reverse }
  execBlock fuel prog s0

end Sem
end Bardolph
