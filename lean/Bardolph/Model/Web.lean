/-!
# Model of the web front end (`web/web_app.py`, `web/front_end.py`) — property C20

Strings are lists of characters (`Str`), so that the theorems are by plain list induction;
the driver converts at the boundary.

* `escape` is Python's `html.escape(s, quote=True)`: five sequential `str.replace` calls, `&`
  first.  `unescape` undoes exactly those five entities (what `queue_script` relies on when it
  opens `html.unescape(script_control.file_name)`).
* `Entry` is one dictionary of `manifest.json`; `loadManifest` is `WebApp._load_manifest`
  (a dict keyed by the *raw* path: a later entry with the same path replaces the value and keeps
  the position); `Script` is `ScriptControl` (five fields escaped at construction).
* `JC` abstracts `JobControl`: the active job, the queue, the background table.  A job carries
  the name it was given to job control under (the ScriptControl's escaped path), the file name
  it was built from, and a serial number (the order of `ScriptJob.from_file` calls).
* `handle` is one request (the `FrontEnd` method behind each route), `complete` is a job
  finishing, `route` is the URL map of the blueprint.  The `log` of a state is a ghost history:
  every job handed to job control (with the request path that caused it), every `request_stop`
  delivered, every snapshot written.

The model mirrors the code as it stands after the `fix:` commits for C20.
-/
namespace Bardolph.Web

abbrev Str := List Char

/-! ## html.escape / html.unescape -/

/-- `str.replace(c, by)` for a one-character pattern -/
def replaceChar (c : Char) (by_ : Str) : Str → Str
  | [] => []
  | x :: r => if x = c then by_ ++ replaceChar c by_ r else x :: replaceChar c by_ r

def entAmp : Str := ['&', 'a', 'm', 'p', ';']
def entLt : Str := ['&', 'l', 't', ';']
def entGt : Str := ['&', 'g', 't', ';']
def entQuot : Str := ['&', 'q', 'u', 'o', 't', ';']
def entApos : Str := ['&', '#', 'x', '2', '7', ';']

/-- `html.escape(s)`, in the standard library's order (`&` must come first) -/
def escape (s : Str) : Str :=
  replaceChar '\'' entApos (replaceChar '"' entQuot (replaceChar '>' entGt
    (replaceChar '<' entLt (replaceChar '&' entAmp s))))

/-- the five character references `html.escape` produces, decoded again (the part of
`html.unescape` that matters for strings produced by `escape`) -/
def unescape : Str → Str
  | '&' :: 'a' :: 'm' :: 'p' :: ';' :: r => '&' :: unescape r
  | '&' :: 'l' :: 't' :: ';' :: r => '<' :: unescape r
  | '&' :: 'g' :: 't' :: ';' :: r => '>' :: unescape r
  | '&' :: 'q' :: 'u' :: 'o' :: 't' :: ';' :: r => '"' :: unescape r
  | '&' :: '#' :: 'x' :: '2' :: '7' :: ';' :: r => '\'' :: unescape r
  | c :: r => c :: unescape r
  | [] => []

/-! ## Default path and title -/

def lsSuffix : Str := ['.', 'l', 's']

/-- `if path[-3:] == ".ls": path = path[:-3]` -/
def stripLs (f : Str) : Str :=
  if f.drop (f.length - 3) = lsSuffix then f.take (f.length - 3) else f

/-- ASCII letters (the model's `str.title()` is exact on ASCII; other characters are treated
as uncased and left alone) -/
def isUpperA (c : Char) : Bool := 'A'.toNat ≤ c.toNat && c.toNat ≤ 'Z'.toNat
def isLowerA (c : Char) : Bool := 'a'.toNat ≤ c.toNat && c.toNat ≤ 'z'.toNat
def isCasedA (c : Char) : Bool := isUpperA c || isLowerA c
def upperA (c : Char) : Char := if isLowerA c then Char.ofNat (c.toNat - 32) else c
def lowerA (c : Char) : Char := if isUpperA c then Char.ofNat (c.toNat + 32) else c

/-- `str.title()`: a cased character is upper-cased when the previous character is uncased (or
there is none), lower-cased otherwise -/
def titleCase : Bool → Str → Str
  | _, [] => []
  | prevCased, c :: r => (if prevCased then lowerA c else upperA c) :: titleCase (isCasedA c) r

def dashToSpace (c : Char) : Char := if c = '_' ∨ c = '-' then ' ' else c

/-- one dictionary of the manifest; an absent optional string key is the empty string (the code
reads `script_config.get('path', '')` and tests `len(path) == 0`) -/
structure Entry where
  fileName : Str
  path : Str := []
  title : Str := []
  background : Str := []
  color : Str := []
  icon : Str := ['l', 'i', 't', 'B', 'u', 'l', 'b']
  runBackground : Bool := false
  deriving DecidableEq, Repr

/-- `WebApp.get_script_path` -/
def scriptPath (e : Entry) : Str :=
  if e.path.length = 0 then stripLs e.fileName else e.path

/-- `WebApp.get_script_title` -/
def scriptTitle (e : Entry) : Str :=
  if e.title.length = 0 then titleCase false ((scriptPath e).map dashToSpace) else e.title

/-! ## ScriptControl and the script table -/

/-- `ScriptControl` (without `running`, which is filled in on every copy handed out) -/
structure Script where
  fileName : Str
  path : Str
  title : Str
  background : Str
  color : Str
  icon : Str
  runBackground : Bool
  deriving DecidableEq, Repr

def mkScript (e : Entry) : Script where
  fileName := escape e.fileName
  path := escape (scriptPath e)
  title := escape (scriptTitle e)
  background := escape e.background
  color := escape e.color
  icon := e.icon
  runBackground := e.runBackground

abbrev Table := List (Str × Script)

/-- `self._scripts[path] = new_script` on an insertion-ordered dict -/
def upsert (k : Str) (v : Script) : Table → Table
  | [] => [(k, v)]
  | (k', v') :: r => if k' = k then (k', v) :: r else (k', v') :: upsert k v r

def loadManifest (m : List Entry) : Table :=
  m.foldl (fun t e => upsert (scriptPath e) (mkScript e) t) []

def lookup (t : Table) (p : Str) : Option Script :=
  match t with
  | [] => none
  | (k, v) :: r => if k = p then some v else lookup r p

/-! ## Job control -/

structure Job where
  id : Nat
  name : Str
  file : Str
  deriving DecidableEq, Repr

structure JC where
  active : Option Job := none
  queue : List Job := []
  background : List Job := []
  deriving DecidableEq, Repr

namespace JC

/-- `JobControl.is_running(name)` -/
def isRunning (jc : JC) (name : Str) : Bool :=
  (match jc.active with
   | some a => a.name == name
   | none => false) || jc.background.any (·.name == name)

/-- `_run_next_job` -/
def runNext (jc : JC) : JC :=
  match jc.active, jc.queue with
  | none, j :: q => { jc with active := some j, queue := q }
  | _, _ => jc

/-- `add_job`: append, then start the head of the queue when nothing is active -/
def addJob (jc : JC) (j : Job) : JC :=
  let jc' := { jc with queue := jc.queue ++ [j] }
  if jc'.active.isNone then jc'.runNext else jc'

/-- `spawn_job` -/
def spawn (jc : JC) (j : Job) : JC := { jc with background := jc.background ++ [j] }

/-- the job with this serial number finishes: `_on_execution_done` for the active job (then the
next queued job starts), `_on_background_done` for a background job; nothing otherwise -/
def complete (jc : JC) (id : Nat) : JC :=
  match jc.active with
  | some a =>
    if a.id = id then ({ jc with active := none }).runNext
    else { jc with background := jc.background.filter (·.id ≠ id) }
  | none => { jc with background := jc.background.filter (·.id ≠ id) }

/-- the job `stop_job(name)` delivers `request_stop` to: the active one if it has that name,
else the background one of that name -/
def named (jc : JC) (name : Str) : List Job :=
  match jc.active with
  | some a => if a.name = name then [a] else (jc.background.find? (·.name = name)).toList
  | none => (jc.background.find? (·.name = name)).toList

/-- the jobs running now: the active one and the background ones -/
def running (jc : JC) : List Job := jc.active.toList ++ jc.background

end JC

/-! ## Requests, responses, state -/

inductive Request
  | index
  | run (path : Str)
  | stop (path : Str)
  | stopCurrent
  | stopAll
  | off
  | status
  | capture
  deriving DecidableEq, Repr

/-- a `ScriptControl` copy as handed to a template -/
structure View where
  script : Script
  running : Bool
  deriving DecidableEq, Repr

inductive Response
  /-- `index.html` with `scripts=` -/
  | index (scripts : List View)
  /-- `action.html` with `script=`, `icon=`, `message=` -/
  | action (script : View) (icon : Str) (message : Str)
  /-- `status.html` with `data=`: names of the current, the queued and the background jobs -/
  | status (current : Option Str) (queued : List Str) (background : List Str)
  deriving DecidableEq, Repr

inductive Event
  /-- a job was built from `job.file` and handed to job control (`spawn_job` if `bg`, else
  `add_job`) while serving a request for `reqPath` -/
  | started (reqPath : Str) (job : Job) (bg : Bool)
  /-- `request_stop` was delivered to this job -/
  | stopReq (job : Job)
  /-- `WebApp.snapshot()` wrote `__snapshot__.ls` -/
  | snapshot
  deriving DecidableEq, Repr

structure State where
  table : Table
  jc : JC := {}
  nextId : Nat := 0
  log : List Event := []
  deriving Repr

def init (m : List Entry) : State := { table := loadManifest m }

def view (s : State) (sc : Script) : View := ⟨sc, s.jc.isRunning sc.path⟩

/-- `WebApp.get_script_control(path)` -/
def scriptControl (s : State) (p : Str) : Option View := (lookup s.table p).map (view s)

/-- `WebApp.get_script_list()` -/
def scriptList (s : State) : List View := s.table.map fun kv => view s kv.2

/-- `WebApp.queue_script`: build the job from the (unescaped) file name, name it by the
ScriptControl's path, spawn or queue -/
def queueScript (s : State) (reqPath : Str) (sc : Script) : State :=
  let j : Job := ⟨s.nextId, sc.path, unescape sc.fileName⟩
  { s with
    jc := if sc.runBackground then s.jc.spawn j else s.jc.addJob j
    nextId := s.nextId + 1
    log := s.log ++ [.started reqPath j sc.runBackground] }

def requestStops (s : State) (js : List Job) : State :=
  { s with log := s.log ++ js.map .stopReq }

/-- `WebApp.stop_current` → `JobControl.stop_current` -/
def stopCurrent (s : State) : State := requestStops s s.jc.active.toList

/-- `WebApp.stop_all`: clear the queue, stop the current job, stop every background job -/
def stopAll (s : State) : State :=
  let s' := { s with jc := { s.jc with queue := [] } }
  requestStops (requestStops s' s'.jc.active.toList) s'.jc.background

def indexPage (s : State) : Response := .index (scriptList s)

def pOff : Str := ['o', 'f', 'f']
def pStopCurrent : Str := ['s', 't', 'o', 'p', '-', 'c', 'u', 'r', 'r', 'e', 'n', 't']
def pStopAll : Str := ['s', 't', 'o', 'p', '-', 'a', 'l', 'l']
def msgStarted : Str := ['S', 't', 'a', 'r', 't', 'e', 'd']
def msgStopRequested : Str :=
  ['S', 't', 'o', 'p', ' ', 'R', 'e', 'q', 'u', 'e', 's', 't', 'e', 'd']
def msgRequested : Str := ['R', 'e', 'q', 'u', 'e', 's', 't', 'e', 'd']

/-- `render_action`, falling back to the index page when the manifest has no entry for the
special path -/
def actionOrIndex (s : State) (v : Option View) (msg : Str) : Response :=
  match v with
  | some v => .action v v.script.icon msg
  | none => indexPage s

/-- one request -/
def handle (s : State) : Request → State × Response
  | .index => (s, indexPage s)
  | .run p =>
    match scriptControl s p with
    | none => (s, indexPage s)
    | some v =>
      if v.running then (s, .action v v.script.icon msgStarted)
      else (queueScript s p v.script, .action v v.script.icon msgStarted)
  | .stop p =>
    match scriptControl s p with
    | none => (s, indexPage s)
    | some v =>
      if v.running then
        (requestStops s (s.jc.named v.script.path), .action v v.script.icon msgStopRequested)
      else (s, indexPage s)
  | .stopCurrent =>
    let s' := stopCurrent s
    (s', actionOrIndex s' (scriptControl s pStopCurrent) msgRequested)
  | .stopAll =>
    let s' := stopAll s
    (s', actionOrIndex s' (scriptControl s pStopAll) msgRequested)
  | .off =>
    match scriptControl s pOff with
    | none => (s, indexPage s)
    | some v =>
      if v.running then (s, .action v v.script.icon [])
      else (queueScript (stopCurrent s) pOff v.script, .action v v.script.icon [])
  | .status =>
    (s, .status (s.jc.active.map (·.name)) (s.jc.queue.map (·.name))
      (s.jc.background.map (·.name)))
  | .capture =>
    let s' := { s with log := s.log ++ [.snapshot] }
    (s', indexPage s')

/-- an input of a history: a request, or the completion of the job with a serial number -/
inductive Input
  | req (r : Request)
  | complete (id : Nat)
  deriving DecidableEq, Repr

def step (s : State) : Input → State
  | .req r => (handle s r).1
  | .complete id => { s with jc := s.jc.complete id }

def run (s : State) (inputs : List Input) : State := inputs.foldl step s

/-! ## URL map of the blueprint -/

def hasSlash (s : Str) : Bool := s.any (· == '/')

/-- the blueprint's rules; fixed rules win over `/<script_path>`, and a `<script_path>`
segment is non-empty and contains no `/` -/
def route (url : Str) : Option Request :=
  if url = ['/'] then some .index
  else if url = '/' :: ['c', 'a', 'p', 't', 'u', 'r', 'e'] then some .capture
  else if url = '/' :: pOff then some .off
  else if url = '/' :: ['s', 't', 'a', 't', 'u', 's'] then some .status
  else if url = '/' :: pStopCurrent then some .stopCurrent
  else if url = '/' :: pStopAll then some .stopAll
  else
    match url with
    | '/' :: 's' :: 't' :: 'o' :: 'p' :: '/' :: p =>
      if p ≠ [] ∧ hasSlash p = false then some (.stop p) else none
    | '/' :: p => if p ≠ [] ∧ hasSlash p = false then some (.run p) else none
    | _ => none

end Bardolph.Web
