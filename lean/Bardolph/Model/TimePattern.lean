import Bardolph.Generated.TimePattern
/-!
Model of `bardolph/lib/time_pattern.py` and of the `TIME_PATTERN` instruction of the VM
(`machine.py:_time_pattern`).

* Characters are first classified (`tag`); the regular expression `REGEX_SPEC` is modelled
  over the classified string as an ordered, backtracking list of alternatives, exactly in
  the order of the regular expression's alternation.
* All loop bounds and validity bounds come from `Bardolph.Generated.TimePattern`, i.e.
  from the Python source as it is now.
* A pattern value is a list of alternatives `(hour set, minute set)`; `union` appends.
* Python object identity matters for `use_is_pure`, so the VM part has an explicit heap.
-/
namespace Bardolph.TP
open Bardolph.Generated.TimePattern

/-- one classified character of the input -/
inductive T where
  | star | colon | dig (d : Fin 10) | ws | other
  deriving DecidableEq, Repr

/-- one character of a pattern field -/
inductive PC where
  | star | dig (d : Fin 10)
  deriving DecidableEq, Repr

def tag (c : Char) : T :=
  if c = '*' then .star
  else if c = ':' then .colon
  else if '0' ≤ c ∧ c ≤ '9' then .dig (Fin.ofNat 10 (c.toNat - 48))
  else if c = ' ' ∨ c = '\t' ∨ c = '\n' ∨ c = '\r' ∨ c = '\x0b' ∨ c = '\x0c' then .ws
  -- `#` (a comment) and `]` (the end of a bracketed call) end a pattern as white space does:
  -- the look-ahead `(?=(\s|[#\]]|$))` treats the three alike, so they share the class
  else if c = '#' ∨ c = ']' then .ws
  else .other

def embed : PC → T
  | .star => .star
  | .dig d => .dig d

/-- `(\*|\*\d|\d\*|\d\d?)` : ordered alternatives, each with the text it consumed and the rest -/
def hourAlts (s : List T) : List (List PC × List T) :=
  (match s with | .star :: r => [([.star], r)] | _ => []) ++
  (match s with | .star :: .dig d :: r => [([.star, .dig d], r)] | _ => []) ++
  (match s with | .dig d :: .star :: r => [([.dig d, .star], r)] | _ => []) ++
  (match s with | .dig d :: .dig e :: r => [([.dig d, .dig e], r)] | _ => []) ++
  (match s with | .dig d :: r => [([.dig d], r)] | _ => [])

/-- `(\d\d|\d\*|\*\d|\*)` -/
def minAlts (s : List T) : List (List PC × List T) :=
  (match s with | .dig d :: .dig e :: r => [([.dig d, .dig e], r)] | _ => []) ++
  (match s with | .dig d :: .star :: r => [([.dig d, .star], r)] | _ => []) ++
  (match s with | .star :: .dig d :: r => [([.star, .dig d], r)] | _ => []) ++
  (match s with | .star :: r => [([.star], r)] | _ => [])

/-- `(?=(\s|[#\]]|$))`; `#` and `]` are in the class `ws` (see `tag`) -/
def lookOk : List T → Bool
  | [] => true
  | .ws :: _ => true
  | _ => false

/-- `REGEX.match(s)` : the two groups of the first successful backtracking match -/
def regexMatch (s : List T) : Option (List PC × List PC) :=
  (hourAlts s).findSome? fun (h, r) =>
    match r with
    | .colon :: r' =>
      (minAlts r').findSome? fun (m, rest) => if lookOk rest then some (h, m) else none
    | _ => none

def hoursValid : List PC → Bool
  | [.star] => true
  | [.star, .dig _] => true
  | [.dig d, .star] => hourTens.contains d.val
  | [.dig d] => d.val < hourValidBound
  | [.dig d, .dig e] => 10 * d.val + e.val < hourValidBound
  | _ => false

def minutesValid : List PC → Bool
  | [.star] => true
  | [.star, .dig _] => true
  | [.dig d, .star] => minuteTens.contains d.val
  | [.dig d, .dig e] => 10 * d.val + e.val < minuteValidBound
  | _ => false

/-- `_number_match(number, pattern)` for a two-character pattern -/
def numberMatch (n : Nat) : List PC → Bool
  | [a, b] => (a = .star || a = .dig (Fin.ofNat 10 (n / 10))) && (b = .star || b = .dig (Fin.ofNat 10 n))
  | _ => false

def hourSet : List PC → List Nat
  | [.star] => List.range hours24
  | [.dig d] => [d.val]
  | p => (List.range hourLoopEnd).filter (numberMatch · p)

def minuteSet : List PC → List Nat
  | [.star] => List.range minutes60
  | p => (List.range minuteLoopEnd).filter (numberMatch · p)

/-- a pattern value: alternatives, each an hour set and a minute set -/
structure Pat where
  alts : List (List Nat × List Nat)
  deriving Repr, DecidableEq

def Pat.ofFields (h m : List PC) : Pat := ⟨[(hourSet h, minuteSet m)]⟩

def Pat.matches (p : Pat) (h m : Nat) : Bool :=
  p.alts.any fun (hs, ms) => hs.contains h && ms.contains m

def Pat.union (p q : Pat) : Pat := ⟨p.alts ++ q.alts⟩

/-- `TimePattern.from_string` on a classified string -/
def fromTagged (s : List T) : Option Pat :=
  match regexMatch s with
  | some (h, m) => if hoursValid h && minutesValid m then some (Pat.ofFields h m) else none
  | none => none

def fromString (s : String) : Option Pat := fromTagged (s.toList.map tag)

/-! ### `Clock.wait_until`

`while not pattern.match(*self._hour_minute()): if not self.wait(): return` — the wall clock is
read before every tick, whatever it reads then (minute after minute, several ticks within one
minute, a clock that has been stepped in between).  `readings` are the successive results of
`_hour_minute()`; the result is the number of ticks the call waits for before it returns because
of a match, `none` if none of the readings matches. -/
def waitUntil (p : Pat) : List (Nat × Nat) → Option Nat
  | [] => none
  | (h, m) :: rest => if p.matches h m then some 0 else (waitUntil p rest).map (· + 1)

/-! ### the VM's `TIME_PATTERN` instruction, with object identity

Pattern objects live in a heap; the program's instructions (and macros) refer to them by
address.  `INIT` copies the referenced object into a fresh cell and points the `time`
register at the copy; `UNION` updates the object the `time` register points at. -/

inductive TpInstr where
  | init (a : Nat)
  | union (a : Nat)
  deriving Repr, DecidableEq

structure TpState where
  heap : List Pat
  time : Option Nat      -- address held by the `time` register (if it holds a pattern)
  deriving Repr

def TpState.step (st : TpState) : TpInstr → TpState
  | .init a =>
    match st.heap[a]? with
    | some p => { heap := st.heap ++ [p], time := some st.heap.length }
    | none => st
  | .union a =>
    match st.time, st.heap[a]? with
    | some t, some q =>
      match st.heap[t]? with
      | some p => { st with heap := st.heap.set t (p.union q) }
      | none => st
    | _, _ => st

def TpState.run (st : TpState) (is : List TpInstr) : TpState := is.foldl TpState.step st

end Bardolph.TP
