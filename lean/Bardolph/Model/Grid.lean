import Bardolph.Model.Vm
/-!
`ColorMatrix` (`bardolph/controller/color_matrix.py`) as the Python keeps it: a list of rows,
each a list of cells, a cell being `None` or a colour.  `Vm.Matrix` records the stages and
answers `cell` by searching them; this file has the literal double `for` loop of
`overlay_color`, `find_replace(None, default)` and `as_list`, so that the two readings can be
proved equal (`Props/C15.lean`).
-/
namespace Bardolph

/-- `ColorMatrix._mat`: rows of cells -/
abbrev Grid := List (List (Option (List Val)))

namespace Grid

/-- `ColorMatrix.new_from_constant(height, width, None)` (what `MATRIX` creates) -/
def new (h w : Nat) : Grid := List.replicate h (List.replicate w none)

/-- `self._mat[row][column]`; `none` where Python raises `IndexError` -/
def get? (g : Grid) (r c : Nat) : Option (Option (List Val)) := g[r]?.bind (·[c]?)

/-- `self._mat[row][column] = v`; `none` where Python raises `IndexError` -/
def setCell (g : Grid) (r c : Nat) (v : Option (List Val)) : Option Grid :=
  match g[r]? with
  | none => none
  | some row => if c < row.length then some (g.set r (row.set c v)) else none

/-- the inner loop of `overlay_color`: `for column in range(left, left + n)` -/
def overlayRow (g : Grid) (r left n : Nat) (color : List Val) : Option Grid :=
  (List.range' left n).foldlM (fun g c => setCell g r c (some color)) g

/-- the outer loop: `for row in range(top, top + n)` -/
def overlayRows (g : Grid) (top n left k : Nat) (color : List Val) : Option Grid :=
  (List.range' top n).foldlM (fun g r => overlayRow g r left k color) g

/-- `overlay_color` on a normalised rectangle: both bounds inclusive
(`range(rect.top, rect.bottom + 1)`, `range(rect.left, rect.right + 1)`) -/
def overlay (g : Grid) (top bottom left right : Nat) (color : List Val) : Option Grid :=
  overlayRows g top (bottom + 1 - top) left (right + 1 - left) color

/-- all stages of a `set … begin … end` block, oldest first -/
def overlayAll (g : Grid) (stages : List Vm.Stage) : Option Grid :=
  stages.foldlM (fun g s => overlay g s.top s.bottom s.left s.right s.color) g

/-- `find_replace(None, default)` -/
def findReplaceNone (g : Grid) (default : List Val) : Grid :=
  g.map fun row => row.map fun cell => if cell.isNone then some default else cell

/-- `as_list`: row by row -/
def asList (g : Grid) : List (Option (List Val)) := g.flatten

end Grid
end Bardolph
