import Bardolph.Generated.Retry
/-!
# Model of the fault handling between the VM and the network (property C12)

Mirrors, after the `fix:` commits,

* `bardolph/lib/retry.py` — `tries n` over a fault oracle (`attempt`, `tries`);
* `bardolph/controller/lifx_lan_light.py` / `lifx_lan_api.py` — which wrapper method issues
  which network request, and under which `@tries` decorator (`request`; the decorator table is
  `Generated.Retry.decorated`, regenerated from the source on every run — a method that is not
  in the table is modelled *without* retry: one attempt, `WorkflowException` propagates);
* `bardolph/vm/machine.py` — the command handlers' missing-name and capability tests
  (`colorLightSteps`, `colorMzSteps`, `colorMatrixLightSteps`, `groupSteps`, `getReq`, …) in
  front of Python's attribute lookup (`callSteps`: a method the object does not have, or any
  method of `None`, raises `AttributeError`), and the catch-all of `Machine.run` (`run`);
* `LifxLanApi.get_lights` / `_build_light`, the three wrapper constructors and
  `LightSet.discover` (`buildLight`, `apiGetLights`, `discover`).

A *fault oracle* is, per (device label, network method), a list of Booleans consumed one per
attempt (`true` = the attempt raises `WorkflowException`; an exhausted list means success) or
the flag `always`.  The label `"*"` stands for the LAN-level calls.  Every attempt is recorded
in `World.events` together with the payload sent (an abstract colour number: what the colour
registers held) and its outcome.

Core Lean only.
-/
namespace Bardolph.Faults
open Bardolph.Generated

/-! ## Exceptions, oracles, the simulated network -/

/-- the exception classes that matter: `WorkflowException` (lifxlan), `LightException`
(bardolph), `AttributeError`, `TypeError` -/
inductive Ex
  | workflow | light | attribute | type
deriving DecidableEq, Repr

/-- result of a Python call: a value or a raised exception -/
inductive Res (α : Type)
  | val (a : α)
  | exc (e : Ex)
deriving DecidableEq, Repr

def Res.isExc {α : Type} : Res α → Bool
  | .val _ => false
  | .exc _ => true

/-- the fault script of one (label, method): `seq` is consumed one Boolean per attempt -/
structure Oracle where
  seq : List Bool
  always : Bool
deriving DecidableEq, Repr

def Oracle.quiet : Oracle := ⟨[], false⟩

/-- does the next attempt fail, and the oracle afterwards -/
def Oracle.next (o : Oracle) : Bool × Oracle :=
  if o.always then (true, o)
  else match o.seq with
    | [] => (false, o)
    | b :: r => (b, { o with seq := r })

/-- one attempt of one request as seen on the (simulated) wire -/
structure Event where
  label : String
  meth : String
  payload : Nat
  failed : Bool
deriving DecidableEq, Repr

/-- the network: fault scripts, the colour each device would report, the attempts so far
(chronological) -/
structure World where
  faults : String → String → Oracle
  colour : String → Nat
  events : List Event

/-- what a *delivered* request does to the colours the devices report -/
def effect (l m : String) (p : Nat) (colour : String → Nat) : String → Nat :=
  if m = "set_color" then fun l' => if l' = l then p else colour l'
  else if m = "set_color_all_lights" then fun _ => p
  else colour

/-- one attempt of request `m` to `l` with payload `p`; `true` = it raised
`WorkflowException` -/
def attempt (l m : String) (p : Nat) (w : World) : Bool × World :=
  let r := (w.faults l m).next
  (r.1,
   { faults := fun l' m' => if l' = l ∧ m' = m then r.2 else w.faults l' m'
     colour := if r.1 then w.colour else effect l m p w.colour
     events := w.events ++ [⟨l, m, p, r.1⟩] })

/-- `retry.py`: `tries(n, WorkflowException, fail_value)` around a function that makes one
attempt per call.  `true` = an attempt succeeded (its value is returned), `false` = the fail
value is returned after `n` failed attempts.  Never raises. -/
def tries : Nat → String → String → Nat → World → Bool × World
  | 0, _, _, _, w => (false, w)
  | n + 1, l, m, p, w =>
    match attempt l m p w with
    | (false, w') => (true, w')
    | (true, w') => tries n l m p w'

/-! ## Wrapper methods -/

/-- a call of a wrapper method: defining class and method name (the key of the decorator
table), target label, the network request it issues, the payload -/
structure Req where
  cls : String
  meth : String
  label : String
  net : String
  payload : Nat
deriving DecidableEq, Repr

/-- the number of tries of the `@tries` decorator on `cls.meth`, if it has one -/
def retryOf (cls meth : String) : Option Nat :=
  (Retry.decorated.find? fun e => e.1 == cls && e.2.1 == meth).map (·.2.2.1)

/-- the fail value of the decorator on `cls.meth` is `None` -/
def failIsNone (cls meth : String) : Bool :=
  ((Retry.decorated.find? fun e => e.1 == cls && e.2.1 == meth).map (·.2.2.2)).getD "None"
    == "None"

/-- a wrapper method call: `val true` answered, `val false` the fail value; an undecorated
method makes one attempt and lets `WorkflowException` through -/
def request (r : Req) (w : World) : Res Bool × World :=
  match retryOf r.cls r.meth with
  | some n =>
    let t := tries n r.label r.net r.payload w
    (.val t.1, t.2)
  | none =>
    match attempt r.label r.net r.payload w with
    | (false, w') => (.val true, w')
    | (true, w') => (.exc .workflow, w')

/-! ## The light directory as the handlers see it -/

inductive Kind
  | plain | multizone | matrix
deriving DecidableEq, Repr

structure Dev where
  label : String
  kind : Kind
  group : String
  location : String
deriving DecidableEq, Repr

abbrev Dir := List Dev

def Dir.find (dir : Dir) (name : String) : Option Dev := List.find? (fun d => d.label == name) dir

/-- members of a group / location in directory order (the harness sends the directory sorted
by label, which is the order of the repository's `SortedList`) -/
def Dir.groupOf (dir : Dir) (g : String) : List Dev := List.filter (fun d => d.group == g) dir
def Dir.locationOf (dir : Dir) (l : String) : List Dev := List.filter (fun d => d.location == l) dir

/-- Python attribute lookup on the wrapper classes: `Light` has the four basic methods,
`MultizoneLight` and `MatrixLight` add theirs -/
def hasMethod (k : Kind) (m : String) : Bool :=
  m == "get_color" || m == "set_color" || m == "get_power" || m == "set_power" ||
  (k == .multizone && (m == "get_zone_colors" || m == "set_zone_colors")) ||
  (k == .matrix && (m == "set_matrix" || m == "get_matrix" || m == "_get_size"))

/-- the class that defines a method (key of the decorator table) -/
def defClass (m : String) : String :=
  if m == "get_zone_colors" || m == "set_zone_colors" then "MultizoneLight"
  else if m == "set_matrix" || m == "get_matrix" || m == "_get_size" then "MatrixLight"
  else "Light"

/-! ## VM command handlers -/

/-- what a handler does, in order: wrapper calls, or an exception raised by the handler's own
Python code -/
inductive Step
  | req (r : Req)
  | raise (e : Ex)
deriving DecidableEq, Repr

/-- `light.meth(…)` in Python: `None` and objects without the method raise `AttributeError` -/
def callSteps (t : Option Dev) (meth net : String) (p : Nat) : List Step :=
  match t with
  | none => [.raise .attribute]
  | some d =>
    if hasMethod d.kind meth then [.req ⟨defClass meth, meth, d.label, net, p⟩]
    else [.raise .attribute]

/-- `_color_light`: `light = self._get_named_light(); if light is not None: light.set_color(…)` -/
def colorLightSteps (t : Option Dev) (p : Nat) : List Step :=
  match t with
  | none => []
  | some d => callSteps (some d) "set_color" "set_color" p

/-- `_power_light` -/
def powerLightSteps (t : Option Dev) (p : Nat) : List Step :=
  match t with
  | none => []
  | some d => callSteps (some d) "set_power" "set_power" p

/-- `_color_mz_light`: `if light is not None and self._zone_check(light): light.set_zone_colors(…)` -/
def colorMzSteps (t : Option Dev) (p : Nat) : List Step :=
  match t with
  | none => []
  | some d =>
    if d.kind = .multizone then callSteps (some d) "set_zone_colors" "set_zone_color" p else []

/-- `_color_matrix_light` after the fix: `if light is not None and isinstance(light, MatrixLight)` -/
def colorMatrixLightSteps (t : Option Dev) (p : Nat) : List Step :=
  match t with
  | none => []
  | some d =>
    if d.kind = .matrix then callSteps (some d) "set_matrix" "set_tile_state" p else []

/-- `_color_matrix_light` on the pinned tree: only the `None` test -/
def colorMatrixLightStepsPinned (t : Option Dev) (p : Nat) : List Step :=
  match t with
  | none => []
  | some d => callSteps (some d) "set_matrix" "set_tile_state" p

/-- `_color_multiple` / `_power_multiple`: every member gets the call, whatever the earlier
ones returned.  (An empty member list is the "unknown group" warning.) -/
def groupSteps (members : List Dev) (meth : String) (p : Nat) : List Step :=
  members.flatMap fun d => callSteps (some d) meth meth p

/-- `_color_all` / `_power_all` → `LightSet.set_*_all_lights` → `LifxLanApi.set_*_all_lights` -/
def allSteps (meth : String) (p : Nat) : List Step :=
  [.req ⟨"LifxLanApi", meth, "*", meth, p⟩]

/-- `_get_color`: missing → warning; multizone / matrix → warning; else `light.get_color()` -/
def getReq (t : Option Dev) : Option Req :=
  match t with
  | none => none
  | some d =>
    if d.kind = .plain then some ⟨"Light", "get_color", d.label, "get_color", 0⟩ else none

/-- the light-touching commands of a compiled script (`reg` stands for any sequence of
register assignments that leaves colour `v` in the colour registers) -/
inductive Cmd
  | reg (v : Nat)
  | colorAll
  | colorLight (name : String)
  | colorGroup (name : String)
  | colorLocation (name : String)
  | colorZone (name : String)
  | matrix (name : String)
  | colorMatrixLight (name : String)
  | powerAll (on : Bool)
  | powerLight (name : String) (on : Bool)
  | powerGroup (name : String) (on : Bool)
  | powerLocation (name : String) (on : Bool)
  | get (name : String)
deriving DecidableEq, Repr

/-- commands whose effect does not depend on data returned by a device -/
def Cmd.noReturnData : Cmd → Bool
  | .get _ => false
  | _ => true

def powerPayload (on : Bool) : Nat := if on then 65535 else 0

/-- the wrapper calls (and raises) of one command, given the directory and the colour
registers.  `get` is handled in `step`; `matrix` (the `MATRIX` instruction) only tests the
light's presence and class to choose the size of the staged matrix and sends nothing. -/
def stepsOf (dir : Dir) (reg : Nat) : Cmd → List Step
  | .reg _ => []
  | .colorAll => allSteps "set_color_all_lights" reg
  | .colorLight n => colorLightSteps (dir.find n) reg
  | .colorGroup g => groupSteps (dir.groupOf g) "set_color" reg
  | .colorLocation l => groupSteps (dir.locationOf l) "set_color" reg
  | .colorZone n => colorMzSteps (dir.find n) reg
  | .matrix _ => []
  | .colorMatrixLight n => colorMatrixLightSteps (dir.find n) reg
  | .powerAll on => allSteps "set_power_all_lights" (powerPayload on)
  | .powerLight n on => powerLightSteps (dir.find n) (powerPayload on)
  | .powerGroup g on => groupSteps (dir.groupOf g) "set_power" (powerPayload on)
  | .powerLocation l on => groupSteps (dir.locationOf l) "set_power" (powerPayload on)
  | .get _ => []

/-- run a handler's steps; the first exception ends it -/
def execSteps : List Step → World → Res Unit × World
  | [], w => (.val (), w)
  | .raise e :: _, w => (.exc e, w)
  | .req r :: rest, w =>
    match request r w with
    | (.val _, w') => execSteps rest w'
    | (.exc e, w') => (.exc e, w')

/-- the colour that ends up in the registers when `get_color` returns its fail value -/
def failColour : Nat := 0

/-- one command: result, colour registers afterwards, network afterwards -/
def step (dir : Dir) (c : Cmd) (reg : Nat) (w : World) : Res Unit × Nat × World :=
  match c with
  | .reg v => (.val (), v, w)
  | .get n =>
    match getReq (dir.find n) with
    | none => (.val (), reg, w)
    | some r =>
      match request r w with
      | (.val true, w') => (.val (), w'.colour r.label, w')
      | (.val false, w') => (.val (), failColour, w')
      | (.exc e, w') => (.exc e, reg, w')
  | c =>
    let r := execSteps (stepsOf dir reg c) w
    (r.1, reg, r.2)

/-- how `Machine.run` ended -/
inductive Outcome
  | completed
  | aborted (e : Ex) (index : Nat)
deriving DecidableEq, Repr

/-- `Machine.run`: commands in order; an exception is caught by the catch-all, logged, and
ends the script (`index` = number of commands completed before) -/
def runFrom (dir : Dir) : Nat → List Cmd → Nat → World → Outcome × Nat × World
  | _, [], reg, w => (.completed, reg, w)
  | i, c :: cs, reg, w =>
    match step dir c reg w with
    | (.val _, reg', w') => runFrom dir (i + 1) cs reg' w'
    | (.exc e, reg', w') => (.aborted e i, reg', w')

def run (dir : Dir) (cs : List Cmd) (reg : Nat) (w : World) : Outcome × Nat × World :=
  runFrom dir 0 cs reg w

/-- the attempts addressed to one label -/
def eventsAt (l : String) (w : World) : List Event := w.events.filter fun e => e.label == l

/-- the single-target handlers by kind of operand, for the totality statement -/
inductive OperandKind
  | colorLight | colorZone | colorMatrixLight | powerLight | getColor | matrix
deriving DecidableEq, Repr

/-- the outcome of a single-target handler for an absent (`none`) or present target -/
def handler (op : OperandKind) (t : Option Dev) (reg : Nat) (w : World) : Res Unit × World :=
  match op with
  | .colorLight => execSteps (colorLightSteps t reg) w
  | .colorZone => execSteps (colorMzSteps t reg) w
  | .colorMatrixLight => execSteps (colorMatrixLightSteps t reg) w
  | .powerLight => execSteps (powerLightSteps t reg) w
  | .matrix => (.val (), w)
  | .getColor =>
    match getReq t with
    | none => (.val (), w)
    | some r =>
      match request r w with
      | (.val _, w') => (.val (), w')
      | (.exc e, w') => (.exc e, w')

/-! ## Discovery -/

/-- an unprotected call on the lifxlan object (`impl.get_product_features()`,
`LifxLAN.get_lights()`): a fault is a `WorkflowException` for the caller -/
def rawCall (l m : String) (w : World) : Res Unit × World :=
  match attempt l m 0 w with
  | (false, w') => (.val (), w')
  | (true, w') => (.exc .workflow, w')

/-- `Light.__init__`: label, group and location are cached by lifxlan; then
`self.product_features = impl.get_product_features()` -/
def lightInit (d : Dev) (w : World) : Res Unit × World := rawCall d.label "get_product_features" w

/-- what a constructor does when a decorated query returned its fail value:
after the fixes it raises `LightException`; on the pinned tree `MultizoneLight.__init__`
evaluated `len(None)` (`TypeError`) and `MatrixLight.__init__` went on with unknown size -/
inductive InitPolicy
  | fixed | pinned
deriving DecidableEq, Repr

/-- `MultizoneLight.__init__`: `Light.__init__`, then `len(self.get_zone_colors())` -/
def multizoneInit (pol : InitPolicy) (d : Dev) (w : World) : Res Unit × World :=
  match lightInit d w with
  | (.exc e, w') => (.exc e, w')
  | (.val _, w') =>
    match request ⟨"MultizoneLight", "get_zone_colors", d.label, "get_color_zones", 0⟩ w' with
    | (.val true, w'') => (.val (), w'')
    | (.val false, w'') =>
      if failIsNone "MultizoneLight" "get_zone_colors" then
        (match pol with
         | .fixed => (.exc .light, w'')
         | .pinned => (.exc .type, w''))
      else (.val (), w'')
    | (.exc e, w'') => (.exc e, w'')

/-- `MatrixLight.__init__`: `Light.__init__`, then `_get_size()` (a `GetDeviceChain` request) -/
def matrixInit (pol : InitPolicy) (d : Dev) (w : World) : Res Unit × World :=
  match lightInit d w with
  | (.exc e, w') => (.exc e, w')
  | (.val _, w') =>
    match request ⟨"MatrixLight", "_get_size", d.label, "get_device_chain", 0⟩ w' with
    | (.val true, w'') => (.val (), w'')
    | (.val false, w'') =>
      (match pol with
       | .fixed => (.exc .light, w'')
       | .pinned => (.val (), w''))
    | (.exc e, w'') => (.exc e, w'')

/-- `LifxLanApi._build_light` -/
def buildLight (pol : InitPolicy) (d : Dev) (w : World) : Res Unit × World :=
  match rawCall d.label "get_product_features" w with
  | (.exc e, w') => (.exc e, w')
  | (.val _, w') =>
    if d.kind = .multizone then multizoneInit pol d w'
    else
      match rawCall d.label "get_product_features" w' with
      | (.exc e, w'') => (.exc e, w'')
      | (.val _, w'') =>
        if d.kind = .matrix then matrixInit pol d w'' else lightInit d w''

/-- the list comprehension `[self._build_light(impl) for impl in …]` -/
def buildAll (pol : InitPolicy) : List Dev → World → Res Unit × World
  | [], w => (.val (), w)
  | d :: ds, w =>
    match buildLight pol d w with
    | (.val _, w') => buildAll pol ds w'
    | (.exc e, w') => (.exc e, w')

/-- `LifxLanApi.get_lights`: `WorkflowException` from anywhere inside the `try` becomes
`LightException`; nothing else is caught -/
def apiGetLights (pol : InitPolicy) (net : List Dev) (w : World) : Res Unit × World :=
  match rawCall "*" "get_lights" w with
  | (.exc _, w') => (.exc .light, w')
  | (.val _, w') =>
    match buildAll pol net w' with
    | (.val _, w'') => (.val (), w'')
    | (.exc .workflow, w'') => (.exc .light, w'')
    | (.exc e, w'') => (.exc e, w'')

/-- the directory with its two counters -/
structure LightSet where
  lights : Dir
  successes : Nat
  failures : Nat
deriving DecidableEq, Repr

/-- `self._lights[name] = light` (+ memberships): replace the entry of that name or add it -/
def upsert (dir : Dir) (d : Dev) : Dir :=
  if dir.any (fun x => x.label == d.label) then
    dir.map fun x => if x.label == d.label then d else x
  else dir ++ [d]

inductive DiscOutcome
  | ok | failed | raised (e : Ex)
deriving DecidableEq, Repr

/-- `LightSet.discover`: `get_lights()` returns the complete list before the loop that
updates the directory starts; `LightException` → count a failure, return `False` -/
def discover (pol : InitPolicy) (ls : LightSet) (net : List Dev) (w : World) :
    DiscOutcome × LightSet × World :=
  match apiGetLights pol net w with
  | (.val _, w') =>
    (.ok, { ls with lights := net.foldl upsert ls.lights, successes := ls.successes + 1 }, w')
  | (.exc .light, w') => (.failed, { ls with failures := ls.failures + 1 }, w')
  | (.exc e, w') => (.raised e, ls, w')

end Bardolph.Faults
