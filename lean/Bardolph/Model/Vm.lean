import Bardolph.Model.Output
import Bardolph.Model.Instr
import Bardolph.Model.Conv
/-!
The Bardolph virtual machine (`bardolph/vm/machine.py`, `call_stack.py`, `vm_math.py`,
`vm_discover.py`, `vm_io.py`, `eval_stack.py`) together with the part of the light
directory and of the device wrappers it talks to, as one small-step function.

The model mirrors the repository as it stands after the `fix:` commits (see
`known_findings.json`).  An operation on which the Python VM raises an exception (caught by
the catch-all in `Machine.run`, which aborts the script) is `Status.fault` here.
-/
namespace Bardolph
namespace Vm

/-! ### dictionaries -/
abbrev Dict := List (String × Val)

def Dict.get (d : Dict) (k : String) : Option Val := (d.find? (·.1 == k)).map (·.2)
def Dict.has (d : Dict) (k : String) : Bool := d.any (·.1 == k)
def Dict.put (d : Dict) (k : String) (v : Val) : Dict :=
  if d.any (·.1 == k) then d.map fun (k', v') => if k' == k then (k', v) else (k', v')
  else d ++ [(k, v)]

/-! ### frames (`call_stack.py`) -/
inductive Frame where
  /-- `LoopFrame`: only its loop variables are its own; everything else is the enclosing
  activation's -/
  | loop (vars : List (LoopVar × Val)) (evalHeight : Nat)
  /-- a `StackFrame` pushed by `CTX`, not yet entered: its parameters are being filled -/
  | pending (params : Dict)
  /-- an entered routine activation (after `JSR`): parameters and locals share one dictionary -/
  | call (locals : Dict) (ret : Nat)
  deriving Repr, Inhabited

/-! ### lights and devices -/
inductive LightKind where
  | plain
  | multizone (zones : Nat)
  | matrix (height width : Nat)
  deriving Repr, DecidableEq, Inhabited

structure Light where
  name : String
  group : String
  location : String
  kind : LightKind
  color : List Int := [0, 0, 0, 0]     -- what `get_color` answers (raw)
  power : Int := 0
  deriving Repr, Inhabited

/-! ### events reaching the outside world -/
inductive Event where
  | setColor (light : String) (color : List Int) (duration : Int)
  | setPower (light : String) (power : Int) (duration : Int)
  | setZones (light : String) (first last : Int) (color : List Int) (duration : Int)
  | setTile (light : String) (cells : List (List Int)) (duration : Int) (width height : Nat)
  | allColor (color : List Int) (duration : Int)
  | allPower (power : Int) (duration : Int)
  | getColor (light : String)
  | pause (seconds : Val)
  | waitUntil (p : TP.Pat)
  | out (v : Val)
  | outFmt (fmt : String) (positional : List Val) (named : List (String × Val))
  | newline
  | flush
  | stdout (text : String)          -- written to stdout directly (breakpoint)
  | warn (what : String)            -- a logged warning; not compared, kept for diagnosis
  deriving Repr, Inhabited

/-! ### colour matrix register -/
structure Stage where
  top : Nat
  bottom : Nat
  left : Nat
  right : Nat
  color : List Val
  deriving Repr, Inhabited

/-- `ColorMatrix` created by `MATRIX`: all cells `None`, then overlaid stage by stage -/
structure Matrix where
  height : Nat
  width : Nat
  stages : List Stage      -- oldest first
  deriving Repr, Inhabited

def Matrix.cell (m : Matrix) (r c : Nat) : Option (List Val) :=
  (m.stages.reverse.find? fun s => s.top ≤ r && r ≤ s.bottom && s.left ≤ c && c ≤ s.right).map
    (·.color)

inductive Status where
  | running
  | halted
  | fault (what : String)
  | uninterpreted (what : String)
  deriving Repr, Inhabited, DecidableEq

structure State where
  pc : Int := 0
  regs : Reg → Val
  defaultColor : Option (List Val) := none
  matrix : Option Matrix := none
  stack : List Frame := []          -- top first; the root frame is implicit
  globals : Dict := []
  constants : Dict := []
  eval : List Val := []             -- top first
  unnamed : List Val := []          -- `VmIo._unnamed`, oldest first
  lights : List Light := []         -- sorted by name
  trace : List Event := []          -- newest first
  status : Status := .running
  draws : Nat := 0                  -- number of `random` calls so far (for the stubbed PRNG)
  deriving Inhabited

/-- `Registers.__init__` -/
def initRegs : Reg → Val
  | .blue | .brightness | .duration | .green | .hue | .kelvin | .red | .saturation | .time =>
    .num 0
  | .discForward | .power => .bool false
  | .firstZone | .lastZone | .pc => .int 0
  | .operand => .operand .null
  | .unitMode => .mode .logical
  | _ => .none

def init (lights : List Light) : State := { regs := initRegs, lights := lights }

def State.setReg (s : State) (r : Reg) (v : Val) : State :=
  { s with regs := fun r' => if r' = r then v else s.regs r' }

def State.emit (s : State) (e : Event) : State := { s with trace := e :: s.trace }
def State.fault (s : State) (what : String) : State := { s with status := .fault what }

/-! ### variables -/

/-- the dictionary of the enclosing activation (`frame.vars`): the nearest entered call frame
below, else the globals -/
def activation (stack : List Frame) : Option Dict :=
  match stack with
  | [] => none
  | .call locals _ :: _ => some locals
  | _ :: rest => activation rest

def State.getVariable (s : State) (name : String) : Val :=
  match s.constants.get name with
  | some v => v
  | none =>
    match (activation s.stack).bind (·.get name) with
    | some v => v
    | none => (s.globals.get name).getD .none

def State.getLoopVar (s : State) (l : LoopVar) : Val :=
  match s.stack with
  | .loop vars _ :: _ => ((vars.find? (·.1 == l)).map (·.2)).getD .none
  | _ => .none

/-- replace the dictionary of the nearest entered call frame -/
def setActivation (stack : List Frame) (d : Dict) : List Frame :=
  match stack with
  | [] => []
  | .call _ ret :: rest => .call d ret :: rest
  | f :: rest => f :: setActivation rest d

/-- `CallStack.put_variable` for a name -/
def State.putVariable (s : State) (name : String) (v : Val) : State :=
  -- `params` of the top frame: a loop frame shares its parent's
  let rec owner : List Frame → Option Frame
    | [] => none
    | .loop _ _ :: rest => owner rest
    | f :: _ => some f
  match owner s.stack with
  | some (.pending params) =>
    if params.has name then
      match s.stack with
      | .pending _ :: rest => { s with stack := .pending (params.put name v) :: rest }
      | _ => s
    else if s.globals.has name then { s with globals := s.globals.put name v }
    else
      match activation s.stack with
      | some d => { s with stack := setActivation s.stack (d.put name v) }
      | none => { s with globals := s.globals.put name v }
  | some (.call locals _) =>
    if locals.has name then { s with stack := setActivation s.stack (locals.put name v) }
    else if s.globals.has name then { s with globals := s.globals.put name v }
    else { s with stack := setActivation s.stack (locals.put name v) }
  | _ => { s with globals := s.globals.put name v }

def State.putLoopVar (s : State) (l : LoopVar) (v : Val) : State :=
  match s.stack with
  | .loop vars ht :: rest =>
    let vars' := if vars.any (·.1 == l) then vars.map fun (k, x) => if k == l then (k, v) else (k, x)
                 else vars ++ [(l, v)]
    { s with stack := .loop vars' ht :: rest }
  | _ => s.fault "loop variable outside loop frame"

def State.read (s : State) : Src → Val
  | .reg r => s.regs r
  | .var n => s.getVariable n
  | .loopVar l => s.getLoopVar l
  | .lit v => v

def State.put (s : State) (d : Dst) (v : Val) : State :=
  match d with
  | .reg r => s.setReg r v
  | .var n => s.putVariable n v
  | .loopVar l => s.putLoopVar l v

/-! ### colours, units -/

def State.mode (s : State) : UnitMode :=
  match s.regs .unitMode with
  | .mode m => m
  | _ => .logical

/-- `Registers.get_color` -/
def State.getColor (s : State) : List Val :=
  if s.mode == .rgb then [s.regs .red, s.regs .green, s.regs .blue, s.regs .kelvin]
  else [s.regs .hue, s.regs .saturation, s.regs .brightness, s.regs .kelvin]

def State.storeColor (s : State) (c : List Val) : State :=
  match c with
  | [a, b, c, d] =>
    if s.mode == .rgb then (((s.setReg .red a).setReg .green b).setReg .blue c).setReg .kelvin d
    else (((s.setReg .hue a).setReg .saturation b).setReg .brightness c).setReg .kelvin d
  | _ => s

def numOf (v : Val) : Option Rat := v.asNum.map (·.1)

/-- `units.logical_to_raw` (kelvin passes through) -/
def logicalToRaw (c : List Val) : Option (List Val) :=
  match c with
  | [h, s, b, k] =>
    match numOf h, numOf s, numOf b with
    | some h, some s, some b =>
      some [.num (Conv.hueToRaw h), .num (Conv.pctToRaw s), .num (Conv.pctToRaw b), k]
    | _, _, _ => none
  | _ => none

def rawToLogical (c : List Val) : Option (List Val) :=
  match c with
  | [h, s, b, k] =>
    match numOf h, numOf s, numOf b, k.asNum with
    | some h, some s, some b, some (kq, kf) =>
      some [.num (Conv.rawHueToLogical h), .num (Conv.rawPctToLogical s),
            .num (Conv.rawPctToLogical b), if kq < 0 then .num 0 else Val.mkNum kq kf]
    | _, _, _, _ => none
  | _ => none

def rgbToHsvList (c : List Val) : Option (Rat × Rat × Rat × Val) :=
  match c with
  | [r, g, b, k] =>
    match numOf r, numOf g, numOf b with
    | some r, some g, some b =>
      let (h, s, v) := Conv.rgbToHsv (max 0 (r / 100)) (max 0 (g / 100)) (max 0 (b / 100))
      some (h, s, v, k)
    | _, _, _ => none
  | _ => none

/-- `units.rgb_to_raw`: components rounded and clamped, kelvin passes through -/
def rgbToRaw (c : List Val) : Option (List Val) :=
  (rgbToHsvList c).map fun (h, s, v, k) =>
    let mk (x : Rat) : Val := .int (Val.roundHalfEven (max 0 (min (x * 65535) 65535)))
    [mk h, mk s, mk v, k]

def rgbToLogical (c : List Val) : Option (List Val) :=
  (rgbToHsvList c).map fun (h, s, v, k) => [.num (h * 360), .num (s * 100), .num (v * 100), k]

def hsvToRgbList (h s v : Rat) (k : Val) : List Val :=
  let (r, g, b) := Conv.hsvToRgb h s v
  [.num (r * 100), .num (g * 100), .num (b * 100), k]

def rawToRgb (c : List Val) : Option (List Val) :=
  match c with
  | [h, s, b, k] =>
    match numOf h, numOf s, numOf b with
    | some h, some s, some b => some (hsvToRgbList (h / 65535) (s / 65535) (b / 65535) k)
    | _, _, _ => none
  | _ => none

def logicalToRgb (c : List Val) : Option (List Val) :=
  match c with
  | [h, s, b, k] =>
    match numOf h, numOf s, numOf b with
    | some h, some s, some b => some (hsvToRgbList (h / 360) (s / 100) (b / 100) k)
    | _, _, _ => none
  | _ => none

/-- `units.convert_fn` / `Machine._convert_units_fn` -/
def convert (src dst : UnitMode) (c : List Val) : Option (List Val) :=
  match src, dst with
  | .logical, .raw => logicalToRaw c
  | .logical, .rgb => logicalToRgb c
  | .raw, .logical => rawToLogical c
  | .raw, .rgb => rawToRgb c
  | .rgb, .logical => rgbToLogical c
  | .rgb, .raw => rgbToRaw c
  | _, _ => some c

/-- `_as_raw_color` -/
def State.asRawColor (s : State) (c : List Val) : Option (List Val) := convert s.mode .raw c

/-- `units.time_raw` / `_as_raw_time`: `None` stays `None` -/
def State.asRawTime (s : State) (v : Val) : Option Val :=
  if s.mode == .raw then some v
  else match v with
    | .none => some .none
    | _ => (numOf v).map fun q => .num (q * 1000)

/-- `units.time_logical` -/
def timeLogical (v : Val) : Option Val :=
  match v with
  | .none => some .none
  | _ => (numOf v).map fun q => .num (if Conv.nearZero q then 0 else q / 1000)

/-- `param_color` at the device wrapper: every component clamped and rounded -/
def wireColor (c : List Val) : Option (List Int) :=
  c.mapM fun v => (numOf v).map Conv.param16

def wire32 (v : Val) : Option Int := (numOf v).map Conv.param32
def wire16 (v : Val) : Option Int := (numOf v).map Conv.param16

/-! ### the light directory as the VM sees it -/

def State.light? (s : State) (name : Val) : Option Light :=
  match name with
  | .str n => s.lights.find? (·.name == n)
  | _ => none

def dedupSorted : List String → List String
  | [] => []
  | [a] => [a]
  | a :: b :: rest => if a == b then dedupSorted (b :: rest) else a :: dedupSorted (b :: rest)

/-- insertion sort (names are few); Python compares strings by code point -/
def sortNames (xs : List String) : List String :=
  xs.foldl (fun acc x => (acc.takeWhile (· < x)) ++ [x] ++ (acc.dropWhile (· < x))) []

def State.lightNames (s : State) : List String := dedupSorted (sortNames (s.lights.map (·.name)))
def State.groupNames (s : State) : List String := dedupSorted (sortNames (s.lights.map (·.group)))
def State.locationNames (s : State) : List String :=
  dedupSorted (sortNames (s.lights.map (·.location)))
def State.groupLights (s : State) (g : String) : Option (List String) :=
  let ms := sortNames ((s.lights.filter (·.group == g)).map (·.name))
  if ms.isEmpty then none else some ms
def State.locationLights (s : State) (l : String) : Option (List String) :=
  let ms := sortNames ((s.lights.filter (·.location == l)).map (·.name))
  if ms.isEmpty then none else some ms

/-- `SortedList.next`: the first element strictly greater -/
def nextName (xs : List String) (v : String) : Option String := xs.find? (v < ·)
/-- `SortedList.prev`: the last element strictly smaller -/
def prevName (xs : List String) (v : String) : Option String := (xs.filter (· < v)).getLast?

def State.updLight (s : State) (name : String) (f : Light → Light) : State :=
  { s with lights := s.lights.map fun l => if l.name == name then f l else l }

/-! ### command handlers -/

/-- send colour and duration to one light (`Light.set_color`) -/
def State.sendColor (s : State) (name : String) (raw : List Val) (dur : Val) : State :=
  match wireColor raw, wire32 dur with
  | some c, some d => (s.emit (.setColor name c d)).updLight name fun l => { l with color := c }
  | _, _ => s.fault "set_color: non-numeric colour or duration"

def State.sendPower (s : State) (name : String) (power : Int) (dur : Val) : State :=
  match wire32 dur with
  | some d => (s.emit (.setPower name power d)).updLight name fun l => { l with power := power }
  | none => s.fault "set_power: non-numeric duration"

def State.colorMultiple (s : State) (names : List String) : State :=
  match s.asRawColor s.getColor, s.asRawTime (s.regs .duration) with
  | some raw, some dur => names.foldl (fun st n => if st.status == .running then st.sendColor n raw dur else st) s
  | _, _ => s.fault "colour conversion"

def State.powerLevel (s : State) : Int := if (s.regs .power).truthy then 65535 else 0

def State.powerMultiple (s : State) (names : List String) : State :=
  match s.asRawTime (s.regs .duration) with
  | some dur =>
    names.foldl (fun st n => if st.status == .running then st.sendPower n s.powerLevel dur else st) s
  | none => s.fault "duration conversion"

def natOf (v : Val) : Option Nat :=
  match v with
  | .int i => if i ≥ 0 then some i.toNat else none
  | .bool b => some (if b then 1 else 0)
  | _ => none

/-- `_normalize_rect` for one axis -/
def normAxis (first last : Val) (extent : Nat) : Option (Nat × Nat) :=
  match first, last with
  | .none, .none => if extent == 0 then none else some (0, extent - 1)
  | .none, l => (natOf l).map fun n => (n, n)
  | f, .none => (natOf f).map fun n => (n, n)
  | f, l => match natOf f, natOf l with
    | some a, some b => some (a, b)
    | _, _ => none

/-- `Machine._color` -/
def State.doColor (s : State) : State :=
  match s.regs .operand with
  | .operand .all =>
    match s.asRawColor s.getColor, s.asRawTime (s.regs .duration) with
    | some raw, some dur =>
      match wireColor raw, wire32 dur with
      | some c, some d =>
        { (s.emit (.allColor c d)) with lights := s.lights.map fun l => { l with color := c } }
      | _, _ => s.fault "set_color_all: non-numeric"
    | _, _ => s.fault "colour conversion"
  | .operand .default =>
    match s.asRawColor s.getColor with
    | some raw => { s with defaultColor := some raw }
    | none => s.fault "colour conversion"
  | .operand .light =>
    match s.light? (s.regs .name) with
    | none => s.emit (.warn "light not found")
    | some l => s.colorMultiple [l.name]
  | .operand .group =>
    match s.regs .name with
    | .str g =>
      match s.groupLights g with
      | none => s.emit (.warn "unknown group")
      | some names => s.colorMultiple names
    | _ => s.emit (.warn "unknown group")
  | .operand .location =>
    match s.regs .name with
    | .str g =>
      match s.locationLights g with
      | none => s.emit (.warn "unknown location")
      | some names => s.colorMultiple names
    | _ => s.emit (.warn "unknown location")
  | .operand .matrix =>
    match s.matrix with
    | none => s      -- the target is unknown or has no matrix: nothing to stage into
    | some m =>
      match normAxis (s.regs .firstRow) (s.regs .lastRow) m.height,
            normAxis (s.regs .firstColumn) (s.regs .lastColumn) m.width with
      | some (t, b), some (l, r) =>
        if t ≤ b && l ≤ r && (b ≥ m.height || r ≥ m.width) then
          s.fault "matrix index out of range"
        else
          { s with matrix := some { m with stages := m.stages ++ [⟨t, b, l, r, s.getColor⟩] } }
      | _, _ => s.fault "matrix range is not a non-negative integer"
  | .operand .matrixLight =>
    match s.light? (s.regs .name) with
    | none => s.emit (.warn "light not found")
    | some l =>
      match l.kind, s.matrix with
      | .matrix h w, some m =>
        -- the cells of the matrix register — this light's own matrix unless a routine called
        -- inside the block opened a block of its own on another matrix light
        let cells := (List.range m.height).flatMap fun r => (List.range m.width).map fun c => m.cell r c
        let conv (c : Option (List Val)) : Option (List Int) :=
          match c with
          | none => wireColor (s.defaultColor.getD [.int 0, .int 0, .int 0, .int 0])
          | some col => (s.asRawColor col).bind wireColor
        match cells.mapM conv, (s.asRawTime (s.regs .duration)).bind wire32 with
        | some cs, some d => s.emit (.setTile l.name cs d w h)
        | _, _ => s.fault "matrix conversion"
      -- a matrix light, but no matrix (a routine called inside the block opened a block of its
      -- own on a light without one): nothing is sent
      | .matrix _ _, none => s
      | _, _ => s.emit (.warn "not a matrix light")
  | .operand .mzLight =>
    match s.light? (s.regs .name) with
    | none => s.emit (.warn "light not found")
    | some l =>
      match l.kind with
      | .multizone _ =>
        let first := s.regs .firstZone
        let last := match s.regs .lastZone with | .none => first | v => v
        match s.asRawColor s.getColor, s.asRawTime (s.regs .duration), Val.add last (.int 1) with
        | some raw, some dur, some endv =>
          match wireColor raw, wire32 dur, wire16 first, wire16 endv with
          | some c, some d, some a, some b => s.emit (.setZones l.name a b c d)
          | _, _, _, _ => s.fault "zone command: non-numeric"
        | _, _, _ => s.fault "zone command conversion"
      | _ => s.emit (.warn "not multi-zone")
  | _ => s.fault "COLOR with unsupported operand"

/-- `Machine._power` -/
def State.doPower (s : State) : State :=
  match s.regs .operand with
  | .operand .all =>
    match (s.asRawTime (s.regs .duration)).bind wire32 with
    | some d =>
      let p : Int := if (s.regs .power).truthy then 1 else 0
      { (s.emit (.allPower p d)) with
        lights := s.lights.map fun l => { l with power := s.powerLevel } }
    | none => s.fault "duration conversion"
  | .operand .light =>
    match s.light? (s.regs .name) with
    | none => s.emit (.warn "light not found")
    | some l => s.powerMultiple [l.name]
  | .operand .group =>
    match s.regs .name with
    | .str g =>
      match s.groupLights g with
      | none => s.emit (.warn "unknown group")
      | some names => s.powerMultiple names
    | _ => s.emit (.warn "unknown group")
  | .operand .location =>
    match s.regs .name with
    | .str g =>
      match s.locationLights g with
      | none => s.emit (.warn "unknown location")
      | some names => s.powerMultiple names
    | _ => s.emit (.warn "unknown location")
  | _ => s.fault "POWER with unsupported operand"

/-- `Machine._get_color` -/
def State.doGetColor (s : State) : State :=
  match s.light? (s.regs .name) with
  | none => s.emit (.warn "light not found")
  | some l =>
    match l.kind with
    | .plain =>
      let raw := l.color.map Val.int
      let s := s.emit (.getColor l.name)
      match convert .raw s.mode raw with
      | some c => s.storeColor c
      | none => s.fault "get conversion"
    | _ => s.emit (.warn "multi-colour light")

/-- `Machine._switch_unit_mode` -/
def State.switchMode (s : State) (to : UnitMode) : State :=
  let from_ := s.mode
  if from_ == to then s
  else
    let original := s.getColor
    let s1 := s.setReg .unitMode (.mode to)
    match convert from_ to original with
    | none => s.fault "unit switch: non-numeric colour"
    | some c =>
      let s2 := s1.storeColor c
      -- a time-of-day pattern in the `time` register has no units
      let keepTime (f : Val → Option Val) (t : Val) : Option Val :=
        match t with
        | .pat _ => some t
        | _ => f t
      if to == .raw then
        match s.asRawTime (s.regs .duration), keepTime s.asRawTime (s.regs .time) with
        | some d, some t => (s2.setReg .duration d).setReg .time t
        | _, _ => s.fault "unit switch: non-numeric time"
      else if from_ == .raw then
        match timeLogical (s.regs .duration), keepTime timeLogical (s.regs .time) with
        | some d, some t => (s2.setReg .duration d).setReg .time t
        | _, _ => s.fault "unit switch: non-numeric time"
      else s2

/-! ### arithmetic (`vm_math.py`) -/

def binOp (o : Operator) (a b : Val) : Option Val :=
  match o with
  | .add => Val.add a b
  | .sub => Val.sub a b
  | .mul => Val.mul a b
  | .div => Val.div a b
  | .mod => Val.mod a b
  | .pow => Val.pow a b
  | .eq => some (.bool (Val.beq a b))
  | .noteq => some (.bool (!Val.beq a b))
  | .lt => Val.cmp .lt a b
  | .lte => Val.cmp .le a b
  | .gt => Val.cmp .gt a b
  | .gte => Val.cmp .ge a b
  | _ => none

def State.doOp (s : State) (o : Operator) : State :=
  match o with
  | .uadd => s
  | .usub =>
    match s.eval with
    | a :: rest => match Val.neg a with
      | some v => { s with eval := v :: rest }
      | none => s.fault "unary minus on a non-number"
    | [] => s.fault "eval stack underflow"
  | .not =>
    match s.eval with
    | a :: rest => { s with eval := .bool (!a.truthy) :: rest }
    | [] => s.fault "eval stack underflow"
  | .and | .or =>
    match s.eval with
    | b :: a :: rest =>
      let r := if o == .and then a.truthy && b.truthy else a.truthy || b.truthy
      { s with eval := .bool r :: rest }
    | _ => s.fault "eval stack underflow"
  | _ =>
    match s.eval with
    | b :: a :: rest =>
      match o, a.asNum, b.asNum with
      | .pow, some (_, _), some (y, _) =>
        if y.den != 1 then { s with status := .uninterpreted "fractional power" }
        else match binOp o a b with
          | some v => { s with eval := v :: rest }
          | none => s.fault "arithmetic error"
      | _, _, _ =>
        match binOp o a b with
        | some v => { s with eval := v :: rest }
        | none => s.fault "arithmetic error"
    | _ => s.fault "eval stack underflow"

/-! ### built-in functions (`runtime/bardolph_math.py`) -/

def isqrt? (n : Nat) : Option Nat :=
  let r := Nat.sqrt n
  if r * r == n then some r else none

/-- the deterministic stand-in for `random.randint` installed by the harness
(`harness/progs.py: stub_random`): the k-th draw from `[a, b]` is `a + (7a + 13b + k) mod (b-a+1)` -/
def stubDraw (a b : Int) (k : Nat) : Int := a + Int.emod (7 * a + 13 * b + k) (b - a + 1)

def builtinParams : String → Option (List String)
  | "round" | "trunc" | "floor" | "ceil" | "sqrt" | "sin" | "cos" | "tan" | "asin" | "acos"
  | "atan" => some ["x"]
  | "cycle" => some ["theta"]
  | "random" => some ["min", "max"]
  | _ => none

inductive BuiltinResult where
  | val (v : Val)
  | fault (what : String)
  | uninterpreted (what : String)

def callBuiltin (name : String) (args : List Val) (draws : Nat) : BuiltinResult :=
  match name, args with
  | "round", [x] => match x with
    | .int i => .val (.int i)
    | .bool b => .val (.int (if b then 1 else 0))
    | .num q => .val (.int (Val.roundHalfEven q))
    | _ => .fault "round of a non-number"
  | "trunc", [x] => match x.asNum with
    | some (q, _) => .val (.int (Conv.truncR q))
    | none => .fault "trunc of a non-number"
  | "floor", [x] => match x.asNum with
    | some (q, _) => .val (.int q.floor)
    | none => .fault "floor of a non-number"
  | "ceil", [x] => match x.asNum with
    | some (q, _) => .val (.int q.ceil)
    | none => .fault "ceil of a non-number"
  | "sqrt", [x] => match x.asNum with
    | some (q, _) =>
      if q < 0 then .val (.int (-1))
      else match isqrt? q.num.toNat, isqrt? q.den with
        | some a, some b => .val (.num ((a : Rat) / b))
        | _, _ => .uninterpreted "sqrt of a non-square"
    | none => .fault "sqrt of a non-number"
  | "cycle", [x] => match x.asNum with
    | some (q, _) => if q ≥ 0 && q < 360 then .val x else .val (.num (Val.ratMod q 360))
    | none => .fault "cycle of a non-number"
  | "random", [a, b] => match a.asInt, b.asInt with
    | some lo, some hi =>
      if lo ≤ hi then .val (.int (stubDraw lo hi draws)) else .fault "random: empty range"
    | _, _ => .fault "random of non-integers"
  | n, _ =>
    if (builtinParams n).isSome then .uninterpreted ("transcendental builtin " ++ n)
    else .fault ("unknown routine " ++ n)

/-! ### the image: relocated code and routine table (`loader.py`) -/

structure Image where
  code : Array Instr
  routines : List (String × Nat)      -- user routines: name ↦ entry address
  deriving Inhabited

def Image.routine? (img : Image) (n : String) : Option Nat :=
  (img.routines.find? (·.1 == n)).map (·.2)

/-! ### one step -/

def popLoops : List Frame → List Frame
  | .loop _ _ :: rest => popLoops rest
  | st => st

/-- the evaluation-stack height recorded by the outermost loop frame that `unwind_loops`
leaves (`none` when the top frame is not a loop frame) -/
def unwindHeight : List Frame → Option Nat
  | .loop _ h :: rest => some ((unwindHeight rest).getD h)
  | _ => none

/-- `EvalStack.trim`: keep the bottom `h` values (the list has the top first) -/
def trimEval (eval : List Val) (h : Nat) : List Val := eval.drop (eval.length - h)

/-- `Machine._return` : unwind loop frames (restoring the evaluation stack to the height it
had when the outermost of them was entered), jump to the frame's return address, pop it -/
def State.doReturn (s : State) : State :=
  let eval := match unwindHeight s.stack with
    | some h => trimEval s.eval h
    | none => s.eval
  match popLoops s.stack with
  | .call _ ret :: rest => { s with stack := rest, pc := ret, eval := eval }
  | _ => s.fault "return outside a routine"

def State.names (s : State) : Option (List String) :=
  match s.regs .operand with
  | .operand .group => some s.groupNames
  | .operand .location => some s.locationNames
  | .operand .light => some s.lightNames
  | _ => none

def State.members (s : State) (set : Val) : Option (List String) :=
  match s.regs .operand, set with
  | .operand .group, .str g => s.groupLights g
  | .operand .location, .str l => s.locationLights l
  | _, _ => none

def fwd (s : State) : Bool := (s.regs .discForward).truthy

def pickFirst (s : State) (xs : List String) : Val :=
  match (if fwd s then xs.head? else xs.getLast?) with
  | some n => .str n
  | none => .operand .null

def stepName (s : State) (xs : List String) (cur : Val) : Option Val :=
  match cur with
  | .str c =>
    match (if fwd s then nextName xs c else prevName xs c) with
    | some n => some (.str n)
    | none => some (.operand .null)
  | _ => none

/-- the value a `PRINTF` named field resolves to: register of that name, else variable -/
def regByName : String → Option Reg
  | "blue" => some .blue | "brightness" => some .brightness | "default" => some .default
  | "disc_forward" => some .discForward | "duration" => some .duration
  | "first_column" => some .firstColumn | "first_row" => some .firstRow
  | "first_zone" => some .firstZone | "green" => some .green | "hue" => some .hue
  | "last_column" => some .lastColumn | "last_row" => some .lastRow
  | "last_zone" => some .lastZone | "kelvin" => some .kelvin | "matrix" => some .matrix
  | "mat_body" => some .matBody | "mat_tip" => some .matTip | "name" => some .name
  | "operand" => some .operand | "pc" => some .pc | "power" => some .power | "red" => some .red
  | "result" => some .result | "saturation" => some .saturation | "time" => some .time
  | "unit_mode" => some .unitMode | _ => none

/-- the replacement fields of a format string as `printf` sees them
(`bardolph/lib/format_fields.py`; the model is `Out.fieldHeads` of `Model/Output.lean`): the
names the VM looks up — the first part of each named field's name, `x` for `{x.real}` and
`{x[0]}`, fields nested in a format spec included.  A format `Formatter().parse` rejects has no
fields here (the compiler does not let it through). -/
def fieldNames (cs : List Char) : List String :=
  match Out.fieldHeads cs with
  | some hs => Out.namedNames hs
  | none => []

/-- the number of positional fields (auto-numbered or numbered, nested ones included): as many
values as the compiler has read for the `printf` -/
def positionalCount (cs : List Char) : Nat :=
  match Out.fieldHeads cs with
  | some hs => Out.countPositional hs
  | none => 0

def execInstr (img : Image) (s : State) (i : Instr) : State :=
  match i with
  | .nop | .endCtx => s
  | .breakpoint => s.emit (.stdout "At breakpoint.\n")
  | .pause => s.emit (.warn "pause")
  | .stop => { s with status := .halted }
  | .routine _ => s.fault "ROUTINE executed"
  | .bad w => s.fault ("bad instruction " ++ w)
  -- `Machine._constant` stores into `Machine._constants`, but the call stack was handed a fresh
  -- dictionary (`CallStack.reset`: `constants or {}` with the still empty dictionary), so no
  -- lookup ever sees a run-time constant: macros act at compile time only
  | .constant _ _ => s
  | .moveq v d =>
    match d, v with
    | .reg .unitMode, .mode m => s.switchMode m
    | .reg .unitMode, _ => s.fault "unit mode is not a mode"
    | _, _ => s.put d v
  | .move src d => s.put d (s.read src)
  | .push src =>
    match src with
    | .lit v => { s with eval := v :: s.eval }
    | _ =>
      match s.read src with
      | .none => s.fault "pushing None onto eval stack"
      | v => { s with eval := v :: s.eval }
  | .pushq v => { s with eval := v :: s.eval }
  | .pop d =>
    match s.eval with
    | v :: rest => ({ s with eval := rest }).put d v
    | [] => s.fault "eval stack underflow"
  | .op o => s.doOp o
  | .jump c off =>
    let r := (s.regs .result).truthy
    let take := match c with
      | .always => true
      | .ifFalse => !r
      | .ifTrue => r
      | .indirect => false
    if c == .indirect then s.fault "indirect jump"
    else if take then { s with pc := s.pc + off } else { s with pc := s.pc + 1 }
  | .loop => { s with stack := .loop [] s.eval.length :: s.stack }
  | .endLoop =>
    match s.stack with
    | .loop _ h :: rest => { s with stack := rest, eval := trimEval s.eval h }
    | _ => s.fault "END_LOOP without loop frame"
  | .ctx => { s with stack := .pending [] :: s.stack }
  | .param n src =>
    match s.stack with
    | .pending ps :: rest => { s with stack := .pending (ps.put n (s.read src)) :: rest }
    | _ => s.fault "PARAM without CTX"
  | .jsr name =>
    match s.stack with
    | .pending ps :: rest =>
      match img.routine? name with
      | some addr => { s with stack := .call ps (s.pc + 1).toNat :: rest, pc := addr }
      | none =>
        match builtinParams name with
        | some names =>
          let args := names.map fun n => (ps.get n).getD .none
          match callBuiltin name args s.draws with
          | .val v =>
            let s := if name == "random" then { s with draws := s.draws + 1 } else s
            { (s.setReg .result v) with stack := rest, pc := s.pc + 1 }
          | .fault w => s.fault w
          | .uninterpreted w => { s with status := .uninterpreted w }
        | none => s.fault ("unknown routine " ++ name)
    | _ => s.fault "JSR without CTX"
  | .ret => s.doReturn
  | .end_ _ => s.doReturn
  | .endMatrix => { s with pc := s.pc + 1 }
  | .color => s.doColor
  | .power => s.doPower
  | .getColor => s.doGetColor
  | .matrix =>
    match s.light? (s.regs .name) with
    | some l =>
      match l.kind with
      | .matrix h w => { s with matrix := some ⟨h, w, []⟩ }
      | _ => { (s.emit (.warn "not matrix type")) with matrix := none }
    | none => { (s.emit (.warn "light not found")) with matrix := none }
  | .wait =>
    match s.regs .time with
    | .pat p => s.emit (.waitUntil p)
    | t =>
      match t.asNum with
      | some (q, _) =>
        if q > 0 then
          if s.mode == .raw then s.emit (.pause (.num (q / 1000))) else s.emit (.pause t)
        else s
      | none => s.fault "time is not a number"
  | .disc =>
    match s.names with
    | some xs => s.setReg .result (match (if fwd s then xs.head? else xs.getLast?) with
        | some n => .str n
        | none => .operand .null)
    | none => s.fault "DISC with incorrect operand"
  | .discm a =>
    match s.members (s.read a) with
    | some xs => s.setReg .result (pickFirst s xs)
    | none => s.setReg .result (.operand .null)
  | .dnext a =>
    match s.names with
    | some xs =>
      match stepName s xs (s.read a) with
      | some v => s.setReg .result v
      | none => s.fault "DNEXT with a non-string position"
    | none => s.fault "DNEXT with incorrect operand"
  | .dnextm a b =>
    match s.members (s.read a) with
    | some xs =>
      match stepName s xs (s.read b) with
      | some v => s.setReg .result v
      | none => s.fault "DNEXTM with a non-string position"
    | none => s.setReg .result (.operand .null)
  | .out io a =>
    match io with
    | .literal => { s with unnamed := s.unnamed ++ [s.read a] }
    | .register => { s with unnamed := s.unnamed ++ [s.read a] }
    | .print =>
      match s.unnamed.getLast? with
      | some v => { (s.emit (.out v)) with unnamed := s.unnamed.dropLast }
      | none => s
    | .printEnd => s.emit .newline
    | .printf =>
      match a with
      | .lit (.str fmt) =>
        -- `\\n` in the source text is a line break; fields are counted after the replacement
        let cs := (fmt.replace "\\n" "\n").toList
        let named := (fieldNames cs).map fun n =>
          (n, match s.getVariable n with
              | .none => (match regByName n with
                  | some r => s.regs r
                  | none => .none)
              | v => v)
        let k := positionalCount cs
        let first := s.unnamed.length - k
        { (s.emit (.outFmt fmt (s.unnamed.drop first) named)) with unnamed := s.unnamed.take first }
      | _ => s.fault "PRINTF without a format string"
  | .timePattern isInit p =>
    match isInit, p, s.regs .time with
    | true, v, _ => s.setReg .time v
    | false, .pat q, .pat p0 => s.setReg .time (.pat (p0.union q))
    | false, _, _ => s.fault "UNION on a non-pattern"

/-- one iteration of the loop in `Machine.run` -/
def step (img : Image) (s : State) : State :=
  if s.status != .running then s
  else if s.pc < 0 then s.fault "pc negative"
  else
    match img.code[s.pc.toNat]? with
    | none => { s with status := .halted }
    | some .stop => { s with status := .halted }
    | some i =>
      let s' := execInstr img s i
      if s'.status != .running then s'
      else
        match i with
        | .end_ _ | .endMatrix | .jsr _ | .jump _ _ => s'
        | _ => { s' with pc := s'.pc + 1 }

/-- what `Machine.run` does after the loop ended normally: flush pending output -/
def finish (s : State) : State :=
  match s.status with
  | .halted =>
    let s1 := s.unnamed.foldl (fun st v => st.emit (.out v)) s
    { (s1.emit .flush) with unnamed := [] }
  | .fault _ =>
    -- the catch-all of `Machine.run`: pending values are dropped, the sink is flushed
    { (s.emit .flush) with unnamed := [] }
  | _ => s

def run (img : Image) (fuel : Nat) (s : State) : State :=
  match fuel with
  | 0 => s
  | n + 1 =>
    if s.status != .running then s else run img n (step img s)

end Vm
end Bardolph
