import Bardolph.Model.Val
/-!
Unit conversion as the VM uses it (`bardolph/controller/units.py`, `lib/param_helper.py`,
`colorsys`) over exact rationals.  Floats are modelled by `Rat`; see DESIGN §3.2 for how
the float/ℚ gap is measured instead of assumed away.
-/
namespace Bardolph.Conv
open Bardolph

/-- `_EPSILON = 1.0 / 65536.0 / 2.0` -/
def epsilon : Rat := 1 / 65536 / 2

def nearZero (x : Rat) : Bool := -epsilon < x && x < epsilon

/-- `_pct_to_raw` -/
def pctToRaw (p : Rat) : Rat := if nearZero p then 0 else p / 100 * 65535

/-- hue part of `logical_to_raw` -/
def hueToRaw (h : Rat) : Rat :=
  if nearZero h || (360 - epsilon < h && h < 360 + epsilon) then 0
  else Val.ratMod h 360 / 360 * 65535

def rawHueToLogical (r : Rat) : Rat := max (r / 65535 * 360) 0
def rawPctToLogical (r : Rat) : Rat := max (if r ≥ 65535 then 100 else r / 65535 * 100) 0

def max3 (a b c : Rat) : Rat := max a (max b c)
def min3 (a b c : Rat) : Rat := min a (min b c)

/-- `colorsys.rgb_to_hsv` -/
def rgbToHsv (r g b : Rat) : Rat × Rat × Rat :=
  let maxc := max3 r g b
  let minc := min3 r g b
  let rangec := maxc - minc
  let v := maxc
  if minc == maxc then (0, 0, v)
  else
    let s := rangec / maxc
    let rc := (maxc - r) / rangec
    let gc := (maxc - g) / rangec
    let bc := (maxc - b) / rangec
    let h := if r == maxc then bc - gc else if g == maxc then 2 + rc - bc else 4 + gc - rc
    (Val.ratMod (h / 6) 1, s, v)

/-- Python `int(x)`: truncation toward zero -/
def truncR (x : Rat) : Int := if x ≥ 0 then x.floor else x.ceil

/-- `colorsys.hsv_to_rgb` -/
def hsvToRgb (h s v : Rat) : Rat × Rat × Rat :=
  if s == 0 then (v, v, v)
  else
    let i := truncR (h * 6)
    let f := h * 6 - i
    let p := v * (1 - s)
    let q := v * (1 - s * f)
    let t := v * (1 - s * (1 - f))
    match Int.fmod i 6 with
    | 0 => (v, t, p)
    | 1 => (q, v, p)
    | 2 => (p, v, t)
    | 3 => (p, q, v)
    | 4 => (t, p, v)
    | _ => (v, p, q)

/-- `round(max(0, min(param, hi)))` on a rational that stands for an int or a float -/
def clampRound (hi : Int) (x : Rat) : Int :=
  Val.roundHalfEven (max 0 (min x hi))

def param16 (x : Rat) : Int := clampRound 65535 x
def param32 (x : Rat) : Int := clampRound 4294967295 x

end Bardolph.Conv
