import Bardolph.Model.TimePattern
import Bardolph.Generated.LexTables
/-!
The lexer (`bardolph/parser/lex.py`): per line, `re.finditer` over the ordered alternation

  time pattern | comparison | string literal | number | name | punctuation | anything else

then: abbreviation (`H S B K`), `#` starts a comment to the end of the line, punctuation is
a MARK, otherwise the word is classified (keyword — lower case only, register word, the five
regular expressions in `classifyOrder`, else ERROR).

The seven regular expressions are modelled by hand below (greedy quantifiers with exactly the
backtracking that matters); their SOURCE STRINGS are pinned by `Props/C16.lean` against the
generated tables, so a change of a regular expression in the Python source breaks an
agreement theorem.  Word lists and orders come from `Bardolph.Generated.LexTables`.
White space is ASCII white space (Python's `\s` also accepts other Unicode spaces).
-/
namespace Bardolph.Lex
open Bardolph.Generated

structure Token where
  type : String        -- the `TokenTypes` member name
  content : String
  line : Nat
  deriving Repr, DecidableEq, Inhabited

def isWs (c : Char) : Bool :=
  c = ' ' || c = '\t' || c = '\n' || c = '\r' || c = '\x0b' || c = '\x0c'

def isDigit (c : Char) : Bool := '0' ≤ c && c ≤ '9'
def isNameStart (c : Char) : Bool := ('a' ≤ c && c ≤ 'z') || ('A' ≤ c && c ≤ 'Z') || c = '_'
def isNameChar (c : Char) : Bool := isNameStart c || isDigit c

/-- `TimePattern.REGEX_SPEC` at the start of `s`: length of the match -/
def scanTimePattern (s : List Char) : Option Nat :=
  (TP.regexMatch (s.map TP.tag)).map fun (h, m) => h.length + 1 + m.length

/-- `==|<=|>=|!=|[<>]` -/
def scanCmp : List Char → Option Nat
  | '=' :: '=' :: _ => some 2
  | '<' :: '=' :: _ => some 2
  | '>' :: '=' :: _ => some 2
  | '!' :: '=' :: _ => some 2
  | '<' :: _ => some 1
  | '>' :: _ => some 1
  | _ => none

/-- body of a string literal after the opening quote: greedy `([^"]|(?<=\\)")*` followed by
the closing quote.  `prev` is the character before the current position.  Returns the length
of body + closing quote.  An escaped quote is taken as content first; if no closing quote
follows, the LAST escaped quote closes the literal instead (backtracking). -/
def scanStringBody : Char → List Char → Option Nat
  | _, [] => none
  | prev, '"' :: rest =>
    if prev = '\\' then
      match scanStringBody '"' rest with
      | some n => some (n + 1)
      | none => some 1
    else some 1
  | _, c :: rest => (scanStringBody c rest).map (· + 1)

/-- `"([^"]|(?<=\\)")*"` -/
def scanString : List Char → Option Nat
  | '"' :: rest => (scanStringBody '"' rest).map (· + 1)
  | _ => none

/-- `[0-9]*\.?[0-9]+` -/
def scanNumber (s : List Char) : Option Nat :=
  let d1 := (s.takeWhile isDigit).length
  match s.drop d1 with
  | '.' :: rest =>
    let d2 := (rest.takeWhile isDigit).length
    if d2 > 0 then some (d1 + 1 + d2) else if d1 > 0 then some d1 else none
  | _ => if d1 > 0 then some d1 else none

/-- `[a-zA-Z_][a-zA-Z0-9_]*` -/
def scanName : List Char → Option Nat
  | c :: rest => if isNameStart c then some (1 + (rest.takeWhile isNameChar).length) else none
  | [] => none

/-- `==|<=|>=|[\[\]\(\){}+\-*<>/%#:\^]` -/
def scanNonAlnum : List Char → Option Nat
  | '=' :: '=' :: _ => some 2
  | '<' :: '=' :: _ => some 2
  | '>' :: '=' :: _ => some 2
  | c :: _ => if "[](){}+-*<>/%#:^".toList.contains c then some 1 else none
  | [] => none

/-- `[^\s]+` -/
def scanDefault (s : List Char) : Option Nat :=
  let n := (s.takeWhile (!isWs ·)).length
  if n > 0 then some n else none

/-- the ordered alternation at one position -/
def scanAt (s : List Char) : Option Nat :=
  (scanTimePattern s).orElse fun _ => (scanCmp s).orElse fun _ => (scanString s).orElse fun _ =>
  (scanNumber s).orElse fun _ => (scanName s).orElse fun _ => (scanNonAlnum s).orElse fun _ =>
  scanDefault s

/-- `finditer`: the matched substrings of one line, left to right -/
def splitLine : Nat → List Char → List (List Char)
  | 0, _ => []
  | _, [] => []
  | fuel + 1, c :: rest =>
    match scanAt (c :: rest) with
    | some n => if n = 0 then splitLine fuel rest else (c :: rest).take n :: splitLine fuel ((c :: rest).drop n)
    | none => splitLine fuel rest

def unabbreviate (w : String) : String :=
  match LexTables.abbreviations.find? (·.1 == w) with
  | some (_, full) => full
  | none => w

/-- does the whole regular expression match at the START of the word (`re.match`)? -/
def classifyBy : String → List Char → Bool
  | "COMPARE", w => (scanCmp w).isSome
  | "TIME_PATTERN", w => (scanTimePattern w).isSome
  | "LITERAL_STRING", w => (scanString w).isSome
  | "NUMBER", w => (scanNumber w).isSome
  | "NAME", w => (scanName w).isSome
  | _, _ => false

def isLower (w : String) : Bool := w.toList.all fun c => !('A' ≤ c && c ≤ 'Z')

/-- `Lex._token_type` -/
def tokenType (w : String) : String :=
  if isLower w && LexTables.keywords.contains w then w.toUpper
  else if LexTables.registerWords.contains w then "REGISTER"
  else (LexTables.classifyOrder.find? fun t => classifyBy t w.toList).getD "ERROR"

def replaceEscapedQuotes : List Char → List Char
  | '\\' :: '"' :: rest => '"' :: replaceEscapedQuotes rest
  | c :: rest => c :: replaceEscapedQuotes rest
  | [] => []

/-- tokens of one line (`#` cuts the line) -/
def lineTokens (lineNo : Nat) : List (List Char) → List Token
  | [] => []
  | m :: rest =>
    let u := unabbreviate (String.ofList m)
    if u == "#" then []
    else if u.length == 1 && LexTables.nonAlnumList.toList.contains (u.toList.headD ' ') then
      ⟨"MARK", u, lineNo⟩ :: lineTokens lineNo rest
    else
      let t := tokenType u
      let content :=
        if t == "LITERAL_STRING" then
          String.ofList (replaceEscapedQuotes ((u.toList.drop 1).dropLast))
        else u
      ⟨t, content, lineNo⟩ :: lineTokens lineNo rest

/-- `Lex(text).tokens()` without the final EOF token -/
def tokens (text : String) : List Token :=
  ((text.splitOn "\n").zipIdx.map fun (line, i) =>
    lineTokens (i + 1) (splitLine (line.length + 1) line.toList)).flatten

end Bardolph.Lex
