import Bardolph.Generated.Clock
import Bardolph.Model.TimePattern
/-!
# Model of `bardolph/lib/clock.py` and of the `WAIT` instruction (property C10)

Time is exact (`Rat`, seconds).  The clock object is `(origin, cue)` = `(_start_time,
_cue_time)`.  The script thread and the clock thread are modelled by a labelled transition
system whose labels are the *observable events* of the real code, each stamped with the
instant at which it happens:

```
callPause d   pause_for: self._cue_time += delay
read          pause_for: `while self.et() < self._cue_time` evaluated with now = t
              wait_until: `_hour_minute()` read at t and matched against the pattern
enter         wait(): `self._event.wait()` called (blocks unless the flag is set)
tick          fire(): `self._event.set()`   — wakes the thread if it is blocked in `enter`
clear         fire(): `self._event.clear()`
callUntil p   wait_until(p) called
reset         wait_until: the final `self.reset()` (cue := 0, origin := now = t)
```

A trace is any list of stamped events with non-decreasing stamps: work of arbitrary length
between calls is the gap between a return and the next `call…`; the thread being held up is
a gap between `tick` and the following `read`, or between `read` and `enter`; the tick
sequence is arbitrary.  Comparison operators and the literal constants are the values
regenerated from the Python source (`Bardolph.Generated.Clock`).
-/
namespace Bardolph.Clock
open Bardolph.Generated.Clock

abbrev Time := Rat

/-- `Clock._start_time`, `Clock._cue_time` -/
structure Clk where
  origin : Time
  cue : Time
  deriving Repr, DecidableEq

/-- `Clock.reset` at instant `now` -/
def Clk.reset (_c : Clk) (now : Time) : Clk := ⟨now, (resetCue : Nat)⟩

/-- `Clock.et` evaluated at instant `now` -/
def Clk.et (c : Clk) (now : Time) : Time := now - c.origin

/-- the instant at which the pending delay is due -/
def Clk.due (c : Clk) : Time := c.origin + c.cue

/-- `self._cue_time += delay` -/
def Clk.addCue (c : Clk) (d : Time) : Clk := { c with cue := c.cue + d }

/-- the loop test of `pause_for`, `self.et() < self._cue_time`, evaluated at `now` -/
def Clk.mustWait (c : Clk) (now : Time) : Bool :=
  if pauseLoopStrict then decide (c.et now < c.cue) else decide (c.et now ≤ c.cue)

/-! ## The `WAIT` instruction -/

/-- content of the `time` register -/
inductive TimeReg where
  | num (x : Rat)
  | pat (p : TP.Pat)

inductive WaitAct where
  | nothing
  | delay (d : Rat)
  | until_ (p : TP.Pat)
  deriving DecidableEq

/-- `Machine._wait`: a pattern waits for the time of day; a number greater than zero is a
delay, in raw units divided by `rawDivisor` -/
def waitChoice (t : TimeReg) (raw : Bool) : WaitAct :=
  match t with
  | .pat p => .until_ p
  | .num x =>
    if (if waitTestStrict then decide (x > 0) else decide (x ≥ 0)) then
      .delay (if raw then x / (rawDivisor : Nat) else x)
    else .nothing

/-- `units.time_raw` -/
def timeRaw (logical : Rat) : Rat := logical * (timeRawFactor : Nat)

/-! ## Time of day -/

def hourOf (t : Time) : Nat := ((t.floor % 86400) / 3600).toNat
def minuteOf (t : Time) : Nat := (((t.floor % 86400) % 3600) / 60).toNat

/-! ## The stamped-event transition system -/

inductive Phase where
  | idle
  | pRead | pEnter | pWait
  | uRead (p : TP.Pat) | uEnter (p : TP.Pat) | uWait (p : TP.Pat) | uReset
  deriving DecidableEq

inductive Ev where
  | callPause (d : Rat)
  | callUntil (p : TP.Pat)
  | read | enter | tick | clear | reset

/-- a completed call: kind, instant of return, whether the thread ever blocked in it -/
structure Ret where
  isUntil : Bool
  at_ : Time
  blocked : Bool
  deriving DecidableEq, Repr

structure St where
  clk : Clk
  phase : Phase
  now : Time
  flag : Bool        -- the `threading.Event`'s flag
  blocked : Bool     -- the current call has blocked in `Event.wait`
  rets : List Ret    -- completed calls, latest first

def init (t₀ : Time) : St := ⟨⟨t₀, 0⟩, .idle, t₀, false, false, []⟩

def step (s : St) (e : Ev) (t : Time) : Option St :=
  if t < s.now then none else
  let s := { s with now := t }
  match e, s.phase with
  | .callPause d, .idle => some { s with clk := s.clk.addCue d, phase := .pRead, blocked := false }
  | .callUntil p, .idle => some { s with phase := .uRead p, blocked := false }
  | .read, .pRead =>
    if s.clk.mustWait t then some { s with phase := .pEnter }
    else some { s with phase := .idle, rets := ⟨false, t, s.blocked⟩ :: s.rets }
  | .read, .uRead p =>
    if p.matches (hourOf t) (minuteOf t) then some { s with phase := .uReset }
    else some { s with phase := .uEnter p }
  | .enter, .pEnter =>
    if s.flag then some { s with phase := .pRead } else some { s with phase := .pWait, blocked := true }
  | .enter, .uEnter p =>
    if s.flag then some { s with phase := .uRead p }
    else some { s with phase := .uWait p, blocked := true }
  | .tick, .pWait => some { s with phase := .pRead, flag := true }
  | .tick, .uWait p => some { s with phase := .uRead p, flag := true }
  | .tick, _ => some { s with flag := true }
  | .clear, _ => some { s with flag := false }
  | .reset, .uReset =>
    some { s with clk := if untilResets then s.clk.reset t else s.clk, phase := .idle,
                  rets := ⟨true, t, s.blocked⟩ :: s.rets }
  | _, _ => none

def runFrom (s : St) : List (Ev × Time) → Option St
  | [] => some s
  | (e, t) :: rest => match step s e t with
    | some s' => runFrom s' rest
    | none => none

def run (t₀ : Time) (tr : List (Ev × Time)) : Option St := runFrom (init t₀) tr

/-- index of the first event the model cannot take (for the driver) -/
def firstReject (s : St) : List (Ev × Time) → Nat → Option Nat
  | [], _ => none
  | (e, t) :: rest, i => match step s e t with
    | some s' => firstReject s' rest (i + 1)
    | none => some i

/-! ## Specification side: the time line of a trace

Written from the property text only: the time line starts at the script's start `t₀`; every
delay value is added to the sum; the return of a time-of-day wait (`reset` at `t`) restarts
the line at `t` with an empty sum.  Nothing else — no tick, no amount of work, no lateness —
enters it. -/

structure Line where
  base : Time
  sum : Rat
  deriving DecidableEq, Repr

def Line.due (l : Line) : Time := l.base + l.sum

def lineStep (l : Line) : Ev × Time → Line
  | (.callPause d, _) => { l with sum := l.sum + d }
  | (.reset, t) => ⟨t, 0⟩
  | _ => l

def timelineFrom (l : Line) (tr : List (Ev × Time)) : Line := tr.foldl lineStep l

def timeline (t₀ : Time) (tr : List (Ev × Time)) : Line := timelineFrom ⟨t₀, 0⟩ tr

/-- the delay values requested in a trace, in order -/
def delaysOf : List (Ev × Time) → List Rat
  | [] => []
  | (.callPause d, _) :: rest => d :: delaysOf rest
  | _ :: rest => delaysOf rest

def hasReset : List (Ev × Time) → Bool
  | [] => false
  | (.reset, _) :: _ => true
  | _ :: rest => hasReset rest

def sumList : List Rat → Rat
  | [] => 0
  | x :: xs => x + sumList xs

end Bardolph.Clock
