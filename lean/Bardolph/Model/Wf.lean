import Bardolph.Model.Loader
/-!
A checker for compiled images (property C05).

`wfImage img = true` says, statically and for *all* paths through the instruction graph:

* the image is `JUMP main; (ROUTINE f … END f)*; main…` (or just `main…` when there is no
  routine), the routine table holds exactly the entry addresses of those bodies;
* every relative jump stays inside its own segment (main, or one routine body) or lands
  exactly on the segment's end;
* every program point has ONE abstract frame stack (a list of `loop`/`pend` markers above the
  current activation) on all paths: `LOOP` pushes `loop`, `END_LOOP` needs `loop` on top and
  pops it, `CTX` pushes `pend`, `PARAM` needs `pend` on top, `JSR` needs `pend` on top, names a
  routine that exists (user or built-in), is followed by `END_CTX` and leaves the stack popped;
  the two ends of every jump have the same abstract stack; the stack is empty at the end of
  every segment; `RETURN` happens only inside a routine and with no `pend` marker open;
* `MATRIX … END matrix` brackets are not nested and are closed at the end of a segment;
* there are no `ROUTINE` markers inside a body, no unreadable instructions.

`Props/C05.lean` proves that this implies the run-time statement of the property for every
execution of the VM model.
-/
namespace Bardolph
namespace Wf
open Vm

inductive Kind where
  | loop | pend
  deriving DecidableEq, Repr, Inhabited

/-- abstract state at a program point: frame markers above the activation (top first) and
whether a `MATRIX` bracket is open -/
structure Abs where
  frames : List Kind
  inMatrix : Bool
  deriving DecidableEq, Repr, Inhabited

def Abs.empty : Abs := ⟨[], false⟩

def builtinNames : List String :=
  ["round", "trunc", "floor", "ceil", "sqrt", "sin", "cos", "tan", "asin", "acos", "atan",
   "cycle", "random"]

/-- effect of one instruction on the abstract state for its fall-through successor; `none`
when the instruction is not allowed in this state.  `inRoutine` = the segment is a routine
body; `known` = names a `JSR` may use. -/
def transfer (inRoutine : Bool) (known : List String) (next : Option Instr) (a : Abs) :
    Instr → Option Abs
  | .loop => some { a with frames := .loop :: a.frames }
  | .endLoop =>
    match a.frames with
    | .loop :: rest => some { a with frames := rest }
    | _ => none
  | .ctx => some { a with frames := .pend :: a.frames }
  | .param _ _ =>
    match a.frames with
    | .pend :: _ => some a
    | _ => none
  | .jsr name =>
    match a.frames, next with
    | .pend :: rest, some .endCtx =>
      if known.contains name then some { a with frames := rest } else none
    | _, _ => none
  | .ret => if inRoutine && !a.frames.contains .pend then some a else none
  | .end_ _ => none          -- only as the last instruction of a routine body (checked there)
  | .routine _ => none
  | .bad _ => none
  | .stop => none
  | .matrix => if a.inMatrix then none else some { a with inMatrix := true }
  | .endMatrix => if a.inMatrix then some { a with inMatrix := false } else none
  | .jump .indirect _ => none
  | _ => some a

/-- forward scan of one segment `[lo, hi)`: the abstract state before every instruction
(`hi - lo + 1` entries, the last one is the state at the segment's end) -/
def scan (inRoutine : Bool) (known : List String) (code : Array Instr) :
    Nat → Nat → Abs → Option (List Abs)
  | 0, _, a => some [a]
  | n + 1, pc, a =>
    match code[pc]? with
    | none => none
    | some i =>
      match transfer inRoutine known code[pc + 1]? a i with
      | none => none
      | some a' => (scan inRoutine known code n (pc + 1) a').map (a :: ·)

/-- all jumps of the segment `[lo, hi)` land in `[lo, hi]` on a point with the same state -/
def jumpsOk (code : Array Instr) (lo hi : Nat) (abs : List Abs) : Bool :=
  (List.range (hi - lo)).all fun k =>
    match code[lo + k]? with
    | some (Instr.jump _ off) =>
      let t : Int := (lo + k : Nat) + off
      decide (lo ≤ t) && decide (t ≤ hi) && abs[k]? == abs[(t - lo).toNat]?
    | _ => true

/-- one segment is well-formed; returns its abstract states -/
def segmentOk (inRoutine : Bool) (known : List String) (code : Array Instr) (lo hi : Nat) :
    Bool :=
  match scan inRoutine known code (hi - lo) lo Abs.empty with
  | none => false
  | some abs => abs.getLast? == some Abs.empty && jumpsOk code lo hi abs

/-- routine bodies `ROUTINE f; body; END f` laid out from `pc` up to `stop` (exclusive):
list of (name, first body address, address of END) -/
def routineSpans (code : Array Instr) : Nat → Nat → Nat → Option (List (String × Nat × Nat))
  | 0, pc, stop => if pc == stop then some [] else none
  | fuel + 1, pc, stop =>
    if pc == stop then some []
    else
      match code[pc]? with
      | some (.routine name) =>
        -- find the matching END
        let rec findEnd : Nat → Nat → Option Nat
          | 0, _ => none
          | f + 1, q =>
            if q ≥ stop then none
            else match code[q]? with
              | some (.end_ n) => if n == name then some q else findEnd f (q + 1)
              | some _ => findEnd f (q + 1)
              | none => none
        match findEnd (stop - pc) (pc + 1) with
        | some q => (routineSpans code fuel (q + 1) stop).map ((name, pc + 1, q) :: ·)
        | none => none
      | _ => none

def wfImage (img : Image) : Bool :=
  let code := img.code
  let n := code.size
  match img.routines with
  | [] =>
    segmentOk false builtinNames code 0 n
  | _ =>
    match code[0]? with
    | some (Instr.jump JumpCond.always off) =>
      let m := off.toNat
      if off ≥ 1 && m ≤ n then
        match routineSpans code n 1 m with
        | some spans =>
          let known := builtinNames ++ spans.map (·.1)
          -- the routine table is exactly the spans' entry addresses (last definition wins)
          img.routines.all (fun (name, addr) =>
            (spans.reverse.find? (·.1 == name)).map (·.2.1) == some addr) &&
          spans.all (fun (name, _, _) => img.routines.any (·.1 == name)) &&
          spans.all (fun (_, lo, hi) => segmentOk true known code lo hi) &&
          segmentOk false known code m n
        | none => false
      else false
    | _ => false

end Wf
end Bardolph
