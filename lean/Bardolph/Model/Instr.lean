import Bardolph.Model.Val
/-!
Instructions of the Bardolph VM (`bardolph/vm/vm_codes.py`, `instruction.py`), typed.

Python instructions carry two dynamically typed parameters; the VM decides what to do by
`isinstance` tests.  The serialiser in the harness and `Driver/Vm.lean` turn each
`Instruction(op_code, param0, param1)` into the constructor below following exactly those
tests (a `Register` is a register read, a `str`/`LoopVar` a variable read, …).  Anything
the VM would not understand becomes `Instr.bad`, on which the model VM faults like the
Python VM does.
-/
namespace Bardolph

inductive Reg where
  | blue | brightness | default | discForward | duration | firstColumn | firstRow | firstZone
  | green | hue | lastColumn | lastRow | lastZone | kelvin | matrix | matBody | matTip | name
  | operand | pc | power | red | result | saturation | time | unitMode
  deriving DecidableEq, Repr, Inhabited

inductive LoopVar where
  | counter | current | exitJmp | first | incr | last
  deriving DecidableEq, Repr, Inhabited

inductive Operator where
  | add | and | div | eq | lt | lte | gt | gte | mod | mul | not | noteq | or | pow | sub
  | uadd | usub
  deriving DecidableEq, Repr, Inhabited

inductive JumpCond where
  | always | ifFalse | ifTrue | indirect
  deriving DecidableEq, Repr, Inhabited

inductive IoOp where
  | literal | print | printEnd | printf | register
  deriving DecidableEq, Repr, Inhabited

/-- where a value is read from -/
inductive Src where
  | reg (r : Reg)
  | var (n : String)
  | loopVar (l : LoopVar)
  | lit (v : Val)
  deriving Repr, Inhabited

/-- where a value is stored -/
inductive Dst where
  | reg (r : Reg)
  | var (n : String)
  | loopVar (l : LoopVar)
  deriving Repr, Inhabited, DecidableEq

inductive Instr where
  | breakpoint
  | color
  | constant (n : String) (v : Val)
  | ctx
  | disc
  | discm (a : Src)
  | dnext (a : Src)
  | dnextm (a b : Src)
  | end_ (name : String)
  | endMatrix
  | endCtx
  | endLoop
  | getColor
  | jsr (name : String)
  | jump (c : JumpCond) (off : Int)
  | loop
  | matrix
  | move (s : Src) (d : Dst)
  | moveq (v : Val) (d : Dst)
  | nop
  | op (o : Operator)
  | out (io : IoOp) (a : Src)
  | param (n : String) (s : Src)
  | pause
  | pop (d : Dst)
  | power
  | push (s : Src)
  | pushq (v : Val)
  | ret
  | routine (name : String)
  | stop
  | timePattern (init : Bool) (p : Val)
  | wait
  | bad (what : String)
  deriving Repr, Inhabited

abbrev Program := List Instr

end Bardolph
