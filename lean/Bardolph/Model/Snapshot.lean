import Bardolph.Model.Ast
import Bardolph.Model.Vm
/-!
The capture command (`bardolph/controller/snapshot.py: ScriptSnapshot`): the script text it
writes for a population in a given raw state, and the same script as an AST.
-/
namespace Bardolph
namespace Snapshot
open Vm

/-- what the capture reads from one light -/
inductive Captured where
  | plain (name : String) (color : List Int) (power : Int)
  | multizone (name : String) (zones : List (List Int))
  | matrix (name : String) (height width : Nat) (cells : List (List Int))
  deriving Repr, Inhabited

def Captured.name : Captured → String
  | .plain n _ _ => n
  | .multizone n _ => n
  | .matrix n _ _ _ => n

def regWords : List String := ["hue", "saturation", "brightness", "kelvin"]

/-- `Snapshot.color`: four `setting` calls, each `"{} {:.0f} "` -/
def settingsText (c : List Int) : String :=
  String.join ((regWords.zip c).map fun (w, v) => w ++ " " ++ toString v ++ " ")

def quoted (n : String) : String := "\"" ++ n ++ "\""

def lightText : Captured → String
  | .plain n c p =>
    settingsText c ++ (if p != 0 then "on " else "off ") ++ quoted n ++ "\n" ++
      "set " ++ quoted n ++ "\n"
  | .multizone n zones =>
    String.join (zones.zipIdx.map fun (z, i) =>
      settingsText z ++ "set " ++ quoted n ++ " zone " ++ toString i ++ "\n")
  | .matrix n _ w cells =>
    "set " ++ quoted n ++ " begin\n" ++
    String.join (cells.zipIdx.map fun (c, k) =>
      settingsText c ++ "stage row " ++ toString (k / w) ++ " column " ++ toString (k % w) ++ "\n") ++
    "end\n"

/-- lights are visited in name order (`light_set.get_light_names()`) -/
def ordered (ls : List Captured) : List Captured :=
  (Vm.sortNames (ls.map (·.name))).filterMap fun n => ls.find? (·.name == n)

def scriptText (ls : List Captured) : String :=
  "units raw\n" ++ String.join ((ordered ls).map lightText) ++
    (if ls.isEmpty then "# No lights found.\n" else "")

/-! ### the same script as an AST -/

def lit (i : Int) : Rv := .lit (.int i)

def settingsAst (c : List Int) : List Stmt :=
  ([Reg.hue, .saturation, .brightness, .kelvin].zip c).map fun (r, v) => .setReg r (lit v)

def lightAst : Captured → List Stmt
  | .plain n c p =>
    settingsAst c ++
      [.action (if p != 0 then .on else .off) true (.cons (.light (.str n)) .nil),
       .action .set true (.cons (.light (.str n)) .nil)]
  | .multizone n zones =>
    (zones.zipIdx.map fun (z, i) =>
      settingsAst z ++ [Stmt.action .set true (.cons (.zone (.str n) ⟨lit i, none⟩) .nil)]).flatten
  | .matrix n _ w cells =>
    [.action .set true (.cons (.matrixBlock (.str n) (Block.ofList
      ((cells.zipIdx.map fun (c, k) =>
        settingsAst c ++ [Stmt.stage (some ⟨lit (k / w : Nat), none⟩) (some ⟨lit (k % w : Nat), none⟩)
          false]).flatten))) .nil)]

def scriptAst (ls : List Captured) : Block :=
  Block.ofList (Stmt.units .raw :: ((ordered ls).map lightAst).flatten)

end Snapshot
end Bardolph
