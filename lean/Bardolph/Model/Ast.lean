import Bardolph.Model.Instr
/-!
Abstract syntax of Bardolph scripts, as produced by the script generator of the harness
(`harness/progs.py`) and consumed by the model code generator (`Gen`) and the source-level
semantics (`Sem`).

The tree is *resolved*: macros are replaced by their constant value, and every call carries
the parameter names of the routine it calls (the parser knows them from the definition).
-/
namespace Bardolph

mutual
  /-- an expression inside curly braces -/
  inductive Expr where
    | lit (v : Val)                      -- number literal or numeric macro
    | var (n : String)
    | reg (r : Reg)
    | call (f : String) (params : List String) (args : Args)
    | un (minus : Bool) (e : Expr)       -- unary - (true) or + (false)
    | bin (op : Operator) (a b : Expr)
    | paren (e : Expr)
  /-- a value position: literal, variable, register, `{expr}` or `[call]` -/
  inductive Rv where
    | lit (v : Val)
    | var (n : String)
    | reg (r : Reg)
    | expr (e : Expr)
    | call (f : String) (params : List String) (args : Args)
  inductive Args where
    | nil
    | cons (a : Rv) (rest : Args)
end

deriving instance Inhabited for Expr
deriving instance Inhabited for Rv
deriving instance Inhabited for Args

def Args.toList : Args → List Rv
  | .nil => []
  | .cons a r => a :: r.toList

def Args.ofList : List Rv → Args
  | [] => .nil
  | a :: r => .cons a (Args.ofList r)

/-- a light / group / location name: constant string or a variable holding one -/
inductive NameSpec where
  | str (s : String)
  | var (n : String)
  deriving Inhabited, Repr

/-- `first [last]` -/
structure Range where
  first : Rv
  last : Option Rv
  deriving Inhabited

inductive ActKind where
  | set | on | off
  deriving DecidableEq, Repr, Inhabited

/-- the `with` clause of a loop -/
inductive WithClause where
  | fromTo (v : String) (a b : Rv)
  | cycle (v : String) (start : Option Rv)
  deriving Inhabited

/-- one source of names in `repeat in … and …` -/
inductive IterItem where
  | light (n : Rv)              -- a single light (name given as an rvalue: string literal / var)
  | group (n : Rv)
  | location (n : Rv)
  | all
  deriving Inhabited

inductive LoopHdr where
  | forever
  | count (n : Rv)
  | while_ (c : Rv)
  | range (v : String) (a b : Rv)                 -- repeat with v from a to b
  | interp (n : Rv) (v : String) (a b : Rv)       -- repeat n with v from a to b
  | cycle (n : Rv) (v : String) (start : Option Rv)
  | all (lv : String) (w : Option WithClause)
  | groups (lv : String) (w : Option WithClause)
  | locations (lv : String) (w : Option WithClause)
  | iter (items : List IterItem) (lv : String) (w : Option WithClause)
  deriving Inhabited

mutual
  inductive Stmt where
    | setReg (r : Reg) (v : Rv)
    | units (m : UnitMode)
    | actAll (k : ActKind)
    /-- `set default`; `w`: a `WAIT` of its own (see `action`) -/
    | setDefault (w : Bool)
    /-- `on`/`off`/`set` with operands.  `w`: the command has a `WAIT` of its own — true everywhere
    but (lexically) inside a matrix block, which is ONE command on the time line
    (`parse.py: _action`: `if not (in_matrix() or …): WAIT`).  The field is determined by the
    position of the statement in the script: `Block.lexical` sets it; the driver's reader
    applies that to every script it reads. -/
    | action (k : ActKind) (w : Bool) (ops : Operands)
    | get (name : Rv)
    | wait
    | timeAt (ps : List TP.Pat)
    | assign (n : String) (v : Rv)
    | defMacro (n : String) (v : Val)
    | defRoutine (n : String) (params : List String) (body : Block)
    | call (f : String) (params : List String) (args : Args)
    | ret (v : Option Rv)
    | ite (c : Rv) (t : Block) (e : Option Block)
    | repeat_ (h : LoopHdr) (body : Block)
    | brk
    | print (v : Rv)
    | println (v : Option Rv)
    | printf (fmt : String) (args : Args)
    | stage (rows cols : Option Range) (colsFirst : Bool)
  inductive Block where
    | nil
    | cons (s : Stmt) (rest : Block)
  /-- one operand of set/on/off -/
  inductive Operand_ where
    | light (n : NameSpec)
    | group (n : NameSpec)
    | location (n : NameSpec)
    | zone (n : NameSpec) (r : Range)
    | matrixInline (n : NameSpec) (rows cols : Option Range) (colsFirst : Bool)
    | matrixBlock (n : NameSpec) (body : Block)
  inductive Operands where
    | nil
    | cons (o : Operand_) (rest : Operands)
end

deriving instance Inhabited for Stmt
deriving instance Inhabited for Block
deriving instance Inhabited for Operand_
deriving instance Inhabited for Operands

def Block.ofList : List Stmt → Block
  | [] => .nil
  | s :: r => .cons s (Block.ofList r)

def Operands.ofList : List Operand_ → Operands
  | [] => .nil
  | s :: r => .cons s (Operands.ofList r)

/-! ### the `WAIT` flag of commands, as the parser's context decides it

`context.py`: `enter_matrix` sets `in_matrix`, `exit_matrix` clears it (blocks do not nest);
`enter_routine` / `exit_routine` leave it as it is — so the body of a routine defined inside a
matrix block is compiled without `WAIT`s wherever it is later called from, and the body of a routine
defined outside with them, also when it is called from inside a block. -/
mutual
  def Stmt.lexical (m : Bool) : Stmt → Stmt
    | .setDefault _ => .setDefault (!m)
    | .action k _ ops => .action k (!m) (Operands.lexical m ops)
    | .defRoutine n ps body => .defRoutine n ps (Block.lexical m body)
    | .ite c t none => .ite c (Block.lexical m t) none
    | .ite c t (some e) => .ite c (Block.lexical m t) (some (Block.lexical m e))
    | .repeat_ h body => .repeat_ h (Block.lexical m body)
    | .setReg r v => .setReg r v
    | .units u => .units u
    | .actAll k => .actAll k
    | .get v => .get v
    | .wait => .wait
    | .timeAt ps => .timeAt ps
    | .assign n v => .assign n v
    | .defMacro n v => .defMacro n v
    | .call f ps as => .call f ps as
    | .ret v => .ret v
    | .brk => .brk
    | .print v => .print v
    | .println v => .println v
    | .printf fmt as => .printf fmt as
    | .stage rows cols cf => .stage rows cols cf
  def Block.lexical (m : Bool) : Block → Block
    | .nil => .nil
    | .cons s rest => .cons (Stmt.lexical m s) (Block.lexical m rest)
  def Operand_.lexical (m : Bool) : Operand_ → Operand_
    | .matrixBlock n body => .matrixBlock n (Block.lexical true body)
    | .light n => .light n
    | .group n => .group n
    | .location n => .location n
    | .zone n r => .zone n r
    | .matrixInline n rows cols cf => .matrixInline n rows cols cf
  def Operands.lexical (m : Bool) : Operands → Operands
    | .nil => .nil
    | .cons o rest => .cons (Operand_.lexical m o) (Operands.lexical m rest)
end

end Bardolph
