import Bardolph.Model.Instr
import Bardolph.Generated.ExprTables
/-!
The expression parser (`bardolph/parser/expr_parser.py`): precedence climbing driven by
`Token.prec`, `Token.assoc` and `Token.is_binop`, emitting postfixOf code.  The three tables
come from `Bardolph.Generated.ExprTables`, i.e. from the Python source as it is now.

Atoms (numbers, names, registers, bracketed calls) are abstracted to "a token carrying the
code `_rvalue(PUSH)` emits for it"; `not` is followed by a whole expression (`_rvalue_not`).
`Props/C02Bridge.lean` proves that `ParseTok`'s expression routines agree with this model.
-/
namespace Bardolph.ExprParse
open Bardolph Bardolph.Generated

inductive Tok where
  | atom (code : List Instr)
  | lparen
  | rparen
  | op (sym : String)          -- any operator symbol, also `+`/`-` in unary position
  deriving Inhabited, Repr

/-- `Token.prec`: −1 for anything that is not in the table -/
def precOf (sym : String) : Int :=
  match ExprTables.prec.find? (·.1 == sym) with
  | some (_, p) => p
  | none => -1

def tokPrec : Tok → Int
  | .op s => precOf s
  | _ => -1

/-- `Token.assoc is Assoc.RIGHT` -/
def isRight : Tok → Bool
  | .op s => ExprTables.rightAssoc.contains s
  | _ => false

/-- `Token.is_binop` for operator tokens (comparison operators are COMPARE tokens) -/
def isBinop : Tok → Bool
  | .op s =>
    ["==", "<=", ">=", "!=", "<", ">"].contains s ||
      (s.length == 1 && (ExprTables.binopChars.toList.any fun c => String.singleton c == s)) ||
      ExprTables.binopWords.contains s
  | _ => false

def operatorByName : String → Option Operator
  | "ADD" => some .add | "SUB" => some .sub | "MUL" => some .mul | "DIV" => some .div
  | "MOD" => some .mod | "POW" => some .pow | "AND" => some .and | "OR" => some .or
  | "LT" => some .lt | "LTE" => some .lte | "GT" => some .gt | "GTE" => some .gte
  | "EQ" => some .eq | "NOTEQ" => some .noteq | _ => none

/-- `_do_op` -/
def doOp (sym : String) : Option Instr :=
  match ExprTables.operatorOf.find? (·.1 == sym) with
  | some (_, name) => (operatorByName name).map Instr.op
  | none => none

/-- parser state: remaining tokens and the code emitted so far -/
abbrev St := List Tok × List Instr

mutual
  /-- `expression()` = `_atom() and _expression(0)` -/
  def expression : Nat → St → Option St
    | 0, _ => none
    | f + 1, st =>
      match atom f st with
      | some st1 => climb f 0 st1
      | none => none

  /-- `_expression(min_prec)`: the outer while loop -/
  def climb : Nat → Int → St → Option St
    | 0, _, _ => none
    | f + 1, minPrec, (toks, code) =>
      match toks with
      | t :: rest =>
        if isBinop t && tokPrec t ≥ minPrec then
          match atom f (rest, code) with
          | none => none
          | some st1 =>
            match inner f t st1 with
            | none => none
            | some (toks2, code2) =>
              match t with
              | .op sym =>
                match doOp sym with
                | some ins => climb f minPrec (toks2, code2 ++ [ins])
                | none => none
              | _ => none
        else some (toks, code)
      | [] => some (toks, code)

  /-- the inner while loop after the right operand's first atom -/
  def inner : Nat → Tok → St → Option St
    | 0, _, _ => none
    | f + 1, op, (toks, code) =>
      match toks with
      | t :: _ =>
        if (isBinop t && tokPrec t > tokPrec op) || (isRight t && tokPrec t == tokPrec op) then
          match climb f (tokPrec t) (toks, code) with
          | some st1 => inner f op st1
          | none => none
        else some (toks, code)
      | [] => some (toks, code)

  /-- `_atom()` -/
  def atom : Nat → St → Option St
    | 0, _ => none
    | f + 1, (toks, code) =>
      match toks with
      | .lparen :: rest =>
        match expression f (rest, code) with
        | some (.rparen :: rest2, code2) => some (rest2, code2)
        | _ => none
      | .op "-" :: rest =>
        match atom f (rest, code) with
        | some (rest2, code2) => some (rest2, code2 ++ [.pushq (.int (-1)), .op .mul])
        | none => none
      | .op "+" :: rest => atom f (rest, code)
      | .op "not" :: rest =>
        -- `_rvalue(PUSH)` → `_rvalue_not`: a whole expression follows, then `OP NOT`
        match expression f (rest, code) with
        | some (rest2, code2) => some (rest2, code2 ++ [.op .not])
        | none => none
      | .atom c :: rest => some (rest, code ++ c)
      | _ => none
end

/-- parse a complete expression: all tokens consumed -/
def parse (toks : List Tok) : Option (List Instr) :=
  match expression (4 * toks.length + 4) (toks, []) with
  | some ([], code) => some code
  | _ => none

/-! ### expression trees and their documented rendering -/

inductive Tree where
  | atom (code : List Instr)
  | neg (t : Tree)
  | pos (t : Tree)
  | bin (sym : String) (l r : Tree)
  | paren (t : Tree)
  deriving Inhabited, Repr

/-- the value-defining postfixOf code of a tree -/
def postfixOf : Tree → List Instr
  | .atom c => c
  | .neg t => postfixOf t ++ [.pushq (.int (-1)), .op .mul]
  | .pos t => postfixOf t
  | .bin sym l r => postfixOf l ++ postfixOf r ++ (match doOp sym with | some i => [i] | none => [])
  | .paren t => postfixOf t

/-- does the child need parentheses under the documented grammar?  Left child of `op`: when
it binds less tightly, or equally tightly and `op` groups right to left.  Right child: when
it binds less tightly, or equally tightly and `op` groups left to right. -/
def needsParen (parent : String) (child : Tree) (isLeft : Bool) : Bool :=
  match child with
  | .bin c _ _ =>
    let rightAssoc := ExprTables.rightAssoc.contains parent
    precOf c < precOf parent ||
      (precOf c == precOf parent && (if isLeft then rightAssoc else !rightAssoc))
  | _ => false

/-- minimal parenthesisation (explicit `paren` nodes add redundant ones) -/
def render : Tree → List Tok
  | .atom c => [.atom c]
  | .neg t =>
    match t with
    | .bin _ _ _ => [.op "-", .lparen] ++ render t ++ [.rparen]
    | _ => .op "-" :: render t
  | .pos t =>
    match t with
    | .bin _ _ _ => [.op "+", .lparen] ++ render t ++ [.rparen]
    | _ => .op "+" :: render t
  | .bin sym l r =>
    (if needsParen sym l true then [.lparen] ++ render l ++ [.rparen] else render l) ++
    [.op sym] ++
    (if needsParen sym r false then [.lparen] ++ render r ++ [.rparen] else render r)
  | .paren t => [.lparen] ++ render t ++ [.rparen]

end Bardolph.ExprParse
