import Bardolph.Model.TimePattern
/-!
Values of the Bardolph VM and Python's arithmetic on them.

Python mixes unbounded `int`, IEEE `float`, `bool`, `str`, `None` and enum members in the same
registers, variables and on the evaluation stack; printing, `/`, `round` and truth tests
observe the difference, so the model keeps it: `Val.int` is a Python int, `Val.num` a Python
float (modelled by an exact rational), `Val.bool` a Python bool (which *is* an int in
arithmetic).  An operation the Python runtime rejects with an exception is `none` here
(`Option Val`), never a default value.
-/
namespace Bardolph

inductive UnitMode where
  | logical | raw | rgb
  deriving DecidableEq, Repr, Inhabited

inductive Operand where
  | all | light | group | location | matrix | default | matrixLight | mzLight | null
  deriving DecidableEq, Repr, Inhabited

inductive Val where
  | int (i : Int)
  | num (q : Rat)
  | bool (b : Bool)
  | str (s : String)
  | none
  | operand (o : Operand)
  | mode (m : UnitMode)
  | pat (p : TP.Pat)
  deriving Repr, Inhabited

namespace Val

/-- Python `==` between two VM values (never raises). -/
def beq : Val → Val → Bool
  | .int a, .int b => a == b
  | .int a, .num b => (a : Rat) == b
  | .num a, .int b => a == (b : Rat)
  | .num a, .num b => a == b
  | .bool a, .bool b => a == b
  | .bool a, .int b => (if a then 1 else 0) == b
  | .int a, .bool b => a == (if b then 1 else 0)
  | .bool a, .num b => (if a then (1 : Rat) else 0) == b
  | .num a, .bool b => a == (if b then (1 : Rat) else 0)
  | .str a, .str b => a == b
  | .none, .none => true
  | .operand a, .operand b => a == b
  | .mode a, .mode b => a == b
  | .pat a, .pat b => a == b        -- object identity in Python; patterns are never compared
  | _, _ => false

/-- numeric view: Python numbers (bool counts as int) as a rational plus "is it a float" -/
def asNum : Val → Option (Rat × Bool)
  | .int i => some (i, false)
  | .num q => some (q, true)
  | .bool b => some (if b then 1 else 0, false)
  | _ => Option.none

def asInt : Val → Option Int
  | .int i => some i
  | .bool b => some (if b then 1 else 0)
  | _ => Option.none

/-- build the result of an arithmetic operation: an int stays an int, anything float is float -/
def mkNum (q : Rat) (isFloat : Bool) : Val :=
  if isFloat then .num q else .int q.num

/-- Python `bool(v)` -/
def truthy : Val → Bool
  | .int i => i != 0
  | .num q => q != 0
  | .bool b => b
  | .str s => s != ""
  | .none => false
  | .operand _ => true
  | .mode _ => true
  | .pat _ => true

/-- `math.floor` of a rational as a Python int -/
def floorR (q : Rat) : Int := q.floor

/-- Python `round(x)` for a float: round half to even -/
def roundHalfEven (q : Rat) : Int :=
  let f := q.floor
  let r := q - f
  if r < 1/2 then f
  else if r > 1/2 then f + 1
  else if f % 2 == 0 then f else f + 1

/-- Python's `a % b` on rationals (sign of the divisor) -/
def ratMod (a b : Rat) : Rat := a - b * ((a / b).floor : Rat)

def add (a b : Val) : Option Val :=
  match a, b with
  | .str x, .str y => some (.str (x ++ y))
  | _, _ =>
    match a.asNum, b.asNum with
    | some (x, fx), some (y, fy) => some (mkNum (x + y) (fx || fy))
    | _, _ => Option.none

def sub (a b : Val) : Option Val :=
  match a.asNum, b.asNum with
  | some (x, fx), some (y, fy) => some (mkNum (x - y) (fx || fy))
  | _, _ => Option.none

def mul (a b : Val) : Option Val :=
  match a, b with
  | .str x, .int n => some (.str (String.join (List.replicate n.toNat x)))
  | .int n, .str x => some (.str (String.join (List.replicate n.toNat x)))
  | _, _ =>
    match a.asNum, b.asNum with
    | some (x, fx), some (y, fy) => some (mkNum (x * y) (fx || fy))
    | _, _ => Option.none

/-- true division: always a float; division by zero raises -/
def div (a b : Val) : Option Val :=
  match a.asNum, b.asNum with
  | some (x, _), some (y, _) => if y == 0 then Option.none else some (.num (x / y))
  | _, _ => Option.none

def mod (a b : Val) : Option Val :=
  match a.asNum, b.asNum with
  | some (x, fx), some (y, fy) =>
    if y == 0 then Option.none
    else if fx || fy then some (.num (ratMod x y))
    else some (.int (Int.fmod x.num y.num))
  | _, _ => Option.none

/-- `a ** b`.  Integer exponents are exact; a non-integer exponent is a transcendental
function of the operands and is not interpreted by the model (`none`, which the driver
reports as `uninterpreted`, never as a value). -/
def pow (a b : Val) : Option Val :=
  match a.asNum, b.asNum with
  | some (x, fx), some (y, fy) =>
    if y.den == 1 then
      let e := y.num
      if e ≥ 0 then some (mkNum (x ^ e.toNat) (fx || fy))
      else if x == 0 then Option.none
      else some (.num (1 / (x ^ (-e).toNat)))
    else Option.none
  | _, _ => Option.none

inductive Cmp where
  | lt | le | gt | ge
  deriving DecidableEq, Repr

def cmp (c : Cmp) (a b : Val) : Option Val :=
  let test (o : Ordering) : Bool :=
    match c with
    | .lt => o == .lt
    | .le => o != .gt
    | .gt => o == .gt
    | .ge => o != .lt
  match a, b with
  | .str x, .str y => some (.bool (test (compare x y)))
  | _, _ =>
    match a.asNum, b.asNum with
    | some (x, _), some (y, _) =>
      some (.bool (test (if x < y then .lt else if x == y then .eq else .gt)))
    | _, _ => Option.none

/-- unary minus -/
def neg : Val → Option Val
  | .int i => some (.int (-i))
  | .num q => some (.num (-q))
  | .bool b => some (.int (if b then -1 else 0))
  | _ => Option.none

end Val
end Bardolph
