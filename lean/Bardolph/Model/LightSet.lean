/-!
Model of `bardolph/lib/sorted_list.py` (`SortedList`) and of the light directory
`bardolph/controller/light_set.py` (`LightSet`), property C13.

* `SortedList` is a Python `list` of strings kept sorted through the `bisect` module.  The
  two binary searches are written out by hand (`bisectGo`, with the loop of CPython's
  `bisect_left` / `bisect_right`: `mid = (lo + hi) // 2`) and every operation is stated in
  terms of the position they return, as in the source.  Python compares `str` by code point,
  which is the order of Lean's `String`.
* Python `dict`s keep insertion order: assigning to an existing key keeps its place, a new
  key goes to the end, `del` removes.  `Dict` is an association list with exactly these
  operations, so that `get_lights()` (dict order) is an observable of the model too.
* The directory state is what `LightSet` holds: `_lights` (name ↦ light; a light carries the
  group and location it reported and its birth time), `_light_names`, `_groups`,
  `_locations`, and the two discovery counters.  `now` is the clock read by `Light.get_age`.
* `LifxLanApi.get_lights` builds every `Light` before `LightSet.discover` touches its
  state, and turns any `WorkflowException` into the `LightException` that `discover`
  catches; so a discovery either processes a whole snapshot or (`discoverFail`) changes
  nothing but the failure counter.
-/
namespace Bardolph.LS

/-! ## SortedList -/

/-- the loop shared by `bisect_left` and `bisect_right`: `goRight a[mid]` ⇒ `lo = mid + 1`,
otherwise `hi = mid`.  `fuel` bounds the number of iterations (`hi - lo ≤ fuel`). -/
def bisectGo (goRight : String → Bool) (l : List String) : Nat → Nat → Nat → Nat
  | 0, lo, _ => lo
  | fuel + 1, lo, hi =>
    if lo < hi then
      let mid := (lo + hi) / 2
      if goRight (l.getD mid "") then bisectGo goRight l fuel (mid + 1) hi
      else bisectGo goRight l fuel lo mid
    else lo

/-- `bisect.bisect_left(l, x)`: `if a[mid] < x: lo = mid + 1 else: hi = mid` -/
def bisectLeft (l : List String) (x : String) : Nat :=
  bisectGo (fun a => decide (a < x)) l l.length 0 l.length

/-- `bisect.bisect_right(l, x)` (= `bisect.bisect`): `if x < a[mid]: hi = mid else: lo = mid + 1` -/
def bisectRight (l : List String) (x : String) : Nat :=
  bisectGo (fun a => !decide (x < a)) l l.length 0 l.length

/-- `SortedList._index_of` -/
def indexOf (l : List String) (x : String) : Option Nat :=
  let pos := bisectLeft l x
  if l[pos]? = some x then some pos else none

/-- `SortedList.has` -/
def has (l : List String) (x : String) : Bool := (indexOf l x).isSome

/-- `SortedList.add`: `bisect.insort` (= `insort_right`) unless already present -/
def add (l : List String) (x : String) : List String :=
  match indexOf l x with
  | some _ => l
  | none =>
    let pos := bisectRight l x
    l.take pos ++ x :: l.drop pos

/-- `SortedList.remove`: removing an absent value is allowed -/
def remove (l : List String) (x : String) : List String :=
  match indexOf l x with
  | some pos => l.eraseIdx pos
  | none => l

def first (l : List String) : Option String := l.head?

def last (l : List String) : Option String := l.getLast?

/-- `SortedList.next` -/
def next (l : List String) (x : String) : Option String :=
  if l.isEmpty then none else l[bisectRight l x]?

/-- `SortedList.prev` -/
def prev (l : List String) (x : String) : Option String :=
  if l.isEmpty then none
  else
    let pos := bisectLeft l x
    if pos = 0 then none else l[pos - 1]?

/-- insertion into a sorted list, after equal elements (what a stable sort does) -/
def insertOrd (x : String) : List String → List String
  | [] => [x]
  | a :: t => if x < a then x :: a :: t else a :: insertOrd x t

/-- Python's `sorted(xs)` -/
def sortStr (xs : List String) : List String := xs.foldr insertOrd []

/-- `SortedList(initial)` for a non-string iterable -/
def ofList (xs : List String) : List String := sortStr xs

/-! ### iteration as the VM performs it (`disc` … `dnext` …), with removals in between -/

/-- Backward iteration: start at `last`, step with `prev` from the current value.  Before
each step the values `rem i` (i = index of the element just visited, from 0) are removed
from the list, modelling lights that expire while the loop body runs.  `fuel` bounds the
number of visits. -/
def walkPrev (rem : Nat → List String) : Nat → Nat → List String → Option String → List String
  | 0, _, _, _ => []
  | _, _, _, none => []
  | fuel + 1, i, l, some c =>
    let l' := (rem i).foldl remove l
    c :: walkPrev rem fuel (i + 1) l' (prev l' c)

/-- Forward iteration: start at `first`, step with `next`. -/
def walkNext (rem : Nat → List String) : Nat → Nat → List String → Option String → List String
  | 0, _, _, _ => []
  | _, _, _, none => []
  | fuel + 1, i, l, some c =>
    let l' := (rem i).foldl remove l
    c :: walkNext rem fuel (i + 1) l' (next l' c)

/-- the whole backward iteration over `l` -/
def iterBack (rem : Nat → List String) (fuel : Nat) (l : List String) : List String :=
  walkPrev rem fuel 0 l (last l)

/-- the whole forward iteration over `l` -/
def iterFwd (rem : Nat → List String) (fuel : Nat) (l : List String) : List String :=
  walkNext rem fuel 0 l (first l)

/-! ## Python dictionaries with string keys -/

abbrev Dict (β : Type) := List (String × β)

namespace Dict
variable {β : Type}

def keys (d : Dict β) : List String := d.map (·.1)

def get (d : Dict β) (k : String) : Option β :=
  match d with
  | [] => none
  | (k', v) :: t => if k' = k then some v else get t k

/-- `d[k] = v` -/
def set (d : Dict β) (k : String) (v : β) : Dict β :=
  match d with
  | [] => [(k, v)]
  | (k', v') :: t => if k' = k then (k, v) :: t else (k', v') :: set t k v

/-- `del d[k]` (the key is known to be present where the source uses it) -/
def del (d : Dict β) (k : String) : Dict β := d.filter (fun p => p.1 ≠ k)

def contains (d : Dict β) (k : String) : Bool := d.any (fun p => p.1 = k)

end Dict

/-! ## LightSet -/

/-- what the directory knows of one light -/
structure LightRec where
  group : String
  location : String
  birth : Nat
  deriving DecidableEq, Repr

structure State where
  now : Nat
  lights : Dict LightRec
  names : List String
  groups : Dict (List String)
  locations : Dict (List String)
  okDiscovers : Nat
  failDiscovers : Nat
  deriving Repr

def init : State := ⟨0, [], [], [], [], 0, 0⟩

/-- `LightSet._remove_memberships`: remove the light from every member list, then delete the
lists that are empty -/
def removeMemberships (name : String) (d : Dict (List String)) : Dict (List String) :=
  (d.map (fun p => (p.1, remove p.2 name))).filter (fun p => !p.2.isEmpty)

/-- the second half of `_update_memberships`: `SortedList(name)` under a new key, or `add` -/
def addMember (name key : String) (d : Dict (List String)) : Dict (List String) :=
  if d.contains key then d.map (fun p => if p.1 = key then (p.1, add p.2 name) else p)
  else d ++ [(key, [name])]

/-- `LightSet._update_memberships` -/
def updateMemberships (name key : String) (d : Dict (List String)) : Dict (List String) :=
  addMember name key (removeMemberships name d)

/-- a population snapshot: what `get_lights()` returns, in order: (name, group, location) -/
abbrev Snapshot := List (String × String × String)

/-- the body of the loop in `LightSet.discover` for one light -/
def discoverOne (s : State) (e : String × String × String) : State :=
  { s with
    names := add s.names e.1
    lights := s.lights.set e.1 ⟨e.2.1, e.2.2, s.now⟩
    groups := updateMemberships e.1 e.2.1 s.groups
    locations := updateMemberships e.1 e.2.2 s.locations }

/-- a successful `LightSet.discover()` -/
def discover (snap : Snapshot) (s : State) : State :=
  let s' := snap.foldl discoverOne s
  { s' with okDiscovers := s'.okDiscovers + 1 }

/-- `LightSet.discover()` when `get_lights()` raises -/
def discoverFail (s : State) : State := { s with failDiscovers := s.failDiscovers + 1 }

def advance (δ : Nat) (s : State) : State := { s with now := s.now + δ }

/-- `light.get_age() > max_age` -/
def expired (now : Nat) (maxAge : Int) (r : LightRec) : Bool :=
  decide (((now : Int) - (r.birth : Int)) > maxAge)

/-- `LightSet._garbage_collect` with `max_age = int(settings['light_gc_time'])`: first the
memberships of every expired light are removed, then their names and proxies -/
def expire (maxAge : Int) (s : State) : State :=
  let targets := (s.lights.filter (fun p => expired s.now maxAge p.2)).map (·.1)
  { s with
    groups := targets.foldl (fun d n => removeMemberships n d) s.groups
    locations := targets.foldl (fun d n => removeMemberships n d) s.locations
    names := targets.foldl remove s.names
    lights := targets.foldl Dict.del s.lights }

inductive Op where
  | discover (snap : Snapshot)
  | discoverFail
  | advance (δ : Nat)
  | expire (maxAge : Int)
  deriving Repr

def step (s : State) : Op → State
  | .discover snap => discover snap s
  | .discoverFail => discoverFail s
  | .advance δ => advance δ s
  | .expire m => expire m s

/-- the directory after a history of operations, starting from a fresh `LightSet()` -/
def run (history : List Op) : State := history.foldl step init

/-- `LightSet.refresh()` = `discover(); _garbage_collect()` -/
def refresh (snap : Option Snapshot) (maxAge : Int) (s : State) : State :=
  expire maxAge (match snap with | some sn => discover sn s | none => discoverFail s)

/-! ### the public getters -/

def getLightNames (s : State) : List String := s.names
def getLightCount (s : State) : Nat := s.lights.length
def getLights (s : State) : List (String × LightRec) := s.lights
def getLight (s : State) (n : String) : Option LightRec := s.lights.get n
def getGroupNames (s : State) : List String := ofList s.groups.keys
def getGroupLights (s : State) (g : String) : Option (List String) := s.groups.get g
def getLocationNames (s : State) : List String := ofList s.locations.keys
def getLocationLights (s : State) (g : String) : Option (List String) := s.locations.get g

/-! ### the Boolean consistency checker

`invB` decides the invariant `Inv` of `Props/C13.lean` (proved there: `invB s = true ↔ Inv s`).
The driver applies it to directory states read off the implementation. -/

/-- strictly increasing: sorted and duplicate-free -/
def sortedB : List String → Bool
  | [] => true
  | a :: t => t.all (fun b => decide (a < b)) && sortedB t

def nodupB : List String → Bool
  | [] => true
  | a :: t => !t.contains a && nodupB t

/-- member lists well formed -/
def memWfB (d : Dict (List String)) : Bool :=
  nodupB d.keys && d.all (fun p => sortedB p.2 && !p.2.isEmpty)

/-- every listed member is a known light that reported this key -/
def memSoundB (proj : LightRec → String) (lights : Dict LightRec) (d : Dict (List String)) : Bool :=
  d.all fun p => p.2.all fun n => lights.any fun q => q.1 = n && proj q.2 = p.1

/-- every known light is listed under the key it reported -/
def memCompleteB (proj : LightRec → String) (lights : Dict LightRec) (d : Dict (List String)) : Bool :=
  lights.all fun q => d.any fun p => p.1 = proj q.2 && p.2.contains q.1

def invParts (s : State) : List (String × Bool) :=
  [("names-sorted-nodup", sortedB s.names),
   ("names-are-known", s.names.all fun n => s.lights.keys.contains n),
   ("known-are-named", s.lights.keys.all fun n => s.names.contains n),
   ("lights-keys-distinct", nodupB s.lights.keys),
   ("groups-wf", memWfB s.groups),
   ("groups-sound", memSoundB (·.group) s.lights s.groups),
   ("groups-complete", memCompleteB (·.group) s.lights s.groups),
   ("locations-wf", memWfB s.locations),
   ("locations-sound", memSoundB (·.location) s.lights s.locations),
   ("locations-complete", memCompleteB (·.location) s.lights s.locations)]

def invB (s : State) : Bool := (invParts s).all (·.2)

end Bardolph.LS
