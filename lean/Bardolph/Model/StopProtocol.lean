/-!
# The stop protocol between a job thread, its clock thread(s) and a requester (property C09)

Statement-level transition system of one `ScriptJob`/`Machine`/`Clock` triple, mirroring the
code as it stands after the `fix:` commits (clock.py: `wait_until` honours `wait()`'s result,
`start()` arms `_keep_going` and clears the event before it spawns the thread, the clock
thread sets the event when it leaves its loop).  One label per source statement that touches
shared state or decides control flow; the scheduler's line events are mapped onto these labels
by the harness.  What the model does not contain is resolved by the label itself:
the instruction fetched (`mExec kind`), the outcome of the time tests (`mPauseTest`,
`mUntilTest`) and whether the program is exhausted (`mLoopExit` with the flag still set).

```
M  (ScriptJob.execute)  e0  mReset        self._machine.reset()                kr := T
   (Machine.run)        m2  mArm          self._keep_running = True            kr := T
   (Clock.start)        s0  mStartReset   self.reset()
                        s1  mArmClock     self._keep_going = True              kg := T
                        s2  mClear        self._event.clear()                  flag := F
                        s3  mSpawn        threading.Thread(...).start()        spawn K
   (Machine.run)        m4  mLoopGo       while self._keep_running and pc<len  needs kr
                            mLoopExit                                           → m9
                        m5  mExec k       fn()     cmd: device command | delay → p1 | until → u1
                        m6  mAdvance      pc update                            → m4
   (Clock.pause_for)    p1  mPauseTest b  while self.et() < self._cue_time     b → wait | ¬b → m6
   (Clock.wait_until)   u1  mUntilTest b  while not pattern.match(h, m)        b → wait | ¬b → u5
                        u5  mUntilReset   self.reset()                         → m6
   (Clock.wait)         w2  mWaitTest     if self._keep_going:                 kg → w3 | w4
                        w3  mEventWait    self._event.wait()                   flag → w4 | blocks (ww)
                        w4  mWaitRet      return self._keep_going              kg → loop test | m6
   (Machine.run)        m9  mClockStop    self._keep_going = False  (clock.stop())   kg := F
                        m10 mFlush        self._vm_io.flush()                  → done
                        done mRestart     the same job is executed again       → e0
K  (Clock.run)          k1  kLoop         while self._keep_going:              kg → k2 | k9
                        k2  kSleep        time.sleep(sleep_time)
   (Clock.fire)         k3  kSet          self._event.set()                    flag := T, wakes M
                        k4  kClear        self._event.clear()                  flag := F → k1
   (Clock.run)          k9  kFinal        self._event.set()                    flag := T, wakes M, ends
R  (Machine.stop)       r0  rStopRun      self._keep_running = False           kr := F
   (Clock.stop)         r1  rStopClock    self._keep_going = False             kg := F
                        r0  rNone         (no stop is ever requested for this run)
```
-/
namespace Bardolph.Stop

/-- which loop called `wait()` -/
inductive Ctx where
  | pause | until_
  deriving DecidableEq, Repr

inductive MPc where
  | e0 | m2 | s0 | s1 | s2 | s3 | m4 | m5 | m6 | p1 | u1 | u5
  | w2 (c : Ctx) | w3 (c : Ctx) | ww (c : Ctx) | w4 (c : Ctx)
  | m9 | m10 | done
  deriving DecidableEq, Repr

inductive KPc where
  | none | ka | k1 | k2 | k3 | k4 | k9 | done
  deriving DecidableEq, Repr

inductive RPc where
  | r0 | r1 | done
  deriving DecidableEq, Repr

inductive Kind where
  | cmd | delay | until_ | other
  deriving DecidableEq, Repr

inductive Label where
  | mReset | mArm | mStartReset | mArmClock | mClear | mSpawn
  | mLoopGo | mLoopExit | mExec (k : Kind) | mAdvance
  | mPauseTest (b : Bool) | mUntilTest (b : Bool) | mUntilReset
  | mWaitTest | mEventWait | mWaitRet
  | mClockStop | mFlush | mRestart
  | kArm (i : Bool)
  | kLoop (i : Bool) | kSleep (i : Bool) | kSet (i : Bool) | kClear (i : Bool) | kFinal (i : Bool)
  | rStopRun | rStopClock
  | rNone                  -- the requester never issues a stop for this run
  deriving DecidableEq, Repr

structure State where
  mpc : MPc
  k0 : KPc                 -- the clock thread spawned first
  k1 : KPc                 -- the clock thread spawned second (a later run of the same job)
  rpc : RPc
  kr : Bool                -- Machine._keep_running
  kg : Bool                -- Clock._keep_going
  flag : Bool              -- Clock._event's flag
  -- observables
  cmds : Nat               -- device commands emitted
  exitStopped : Bool       -- the run loop was left with _keep_running false
  cutShort : Bool          -- some wait() returned False in the current run
  -- ghost state for the property statements
  run2 : Bool              -- the job has been started again after a completed run
  stopped : Bool           -- rStopRun has executed during the current run
  armedAtStop : Bool       -- … at a moment when Machine.run had already re-armed the flag
  inProgAtStop : Bool      -- … while an instruction was fetched but not yet executed
  cmdsAfterStop : Nat      -- device commands emitted since
  deriving DecidableEq, Repr

def init : State :=
  { mpc := .e0, k0 := .none, k1 := .none, rpc := .r0, kr := true, kg := true, flag := false,
    cmds := 0, exitStopped := false, cutShort := false, run2 := false, stopped := false,
    armedAtStop := false, inProgAtStop := false, cmdsAfterStop := 0 }

def KPc.live : KPc → Bool
  | .ka | .k1 | .k2 | .k3 | .k4 | .k9 => true
  | _ => false

def State.kpc (s : State) (i : Bool) : KPc := if i then s.k1 else s.k0
def State.setK (s : State) (i : Bool) (p : KPc) : State :=
  if i then { s with k1 := p } else { s with k0 := p }

/-- `Event.set()`: the flag goes up and a thread blocked in `Event.wait()` is released -/
def State.eventSet (s : State) : State :=
  { s with flag := true,
           mpc := match s.mpc with
             | .ww c => .w4 c
             | p => p }

def MPc.isWaiting : MPc → Bool
  | .ww _ => true
  | _ => false

/-- `ScriptJob.execute`/`Machine.run` have passed their `self._keep_running = True` -/
def MPc.armed : MPc → Bool
  | .e0 | .m2 => false
  | _ => true

/-- `Clock.start` has spawned the clock thread of the current run -/
def MPc.afterSpawn : MPc → Bool
  | .e0 | .m2 | .s0 | .s1 | .s2 | .s3 => false
  | _ => true

/-- inside the fetch/execute loop (between the loop test and leaving the loop) -/
def MPc.inLoop : MPc → Bool
  | .m4 | .m5 | .m6 | .p1 | .u1 | .u5 | .w2 _ | .w3 _ | .ww _ | .w4 _ => true
  | _ => false

/-- an instruction is fetched or a delay / time-of-day wait is in progress -/
def MPc.inInstr : MPc → Bool
  | .m5 | .p1 | .u1 | .u5 | .w2 _ | .w3 _ | .ww _ | .w4 _ => true
  | _ => false

/-- inside `wait_until` -/
def MPc.inUntil : MPc → Bool
  | .u1 | .u5 | .w2 .until_ | .w3 .until_ | .ww .until_ | .w4 .until_ => true
  | _ => false

/-- inside `pause_for` -/
def MPc.inPause : MPc → Bool
  | .p1 | .w2 .pause | .w3 .pause | .ww .pause | .w4 .pause => true
  | _ => false

/-- own steps the machine thread still needs, at most, to leave a wait once `_keep_going` is
false (the blocked state counts one: its wake-up is the clock thread's business) -/
def MPc.waitRank : MPc → Nat
  | .u1 | .p1 => 5
  | .w2 _ => 4
  | .w3 _ => 3
  | .ww _ => 2
  | .w4 _ => 1
  | .u5 => 1
  | _ => 0

def step (s : State) : Label → Option State
  | .mReset => if s.mpc = .e0 then some { s with mpc := .m2, kr := true } else none
  | .mArm => if s.mpc = .m2 then some { s with mpc := .s0, kr := true } else none
  | .mStartReset => if s.mpc = .s0 then some { s with mpc := .s1 } else none
  | .mArmClock => if s.mpc = .s1 then some { s with mpc := .s2, kg := true } else none
  | .mClear => if s.mpc = .s2 then some { s with mpc := .s3, flag := false } else none
  | .mSpawn =>
    if s.mpc = .s3 then
      if s.k0 = .none then some { s with mpc := .m4, k0 := .k1 }
      else if s.k1 = .none then some { s with mpc := .m4, k1 := .k1 }
      else none
    else none
  | .mLoopGo => if s.mpc = .m4 ∧ s.kr then some { s with mpc := .m5 } else none
  | .mLoopExit =>
    if s.mpc = .m4 then some { s with mpc := .m9, exitStopped := !s.kr } else none
  | .mExec k =>
    if s.mpc = .m5 then
      match k with
      | .cmd => some { s with mpc := .m6, cmds := s.cmds + 1,
                              cmdsAfterStop := if s.stopped then s.cmdsAfterStop + 1 else s.cmdsAfterStop }
      | .delay => some { s with mpc := .p1 }
      | .until_ => some { s with mpc := .u1 }
      | .other => some { s with mpc := .m6 }
    else none
  | .mAdvance => if s.mpc = .m6 then some { s with mpc := .m4 } else none
  | .mPauseTest b =>
    if s.mpc = .p1 then some { s with mpc := if b then .w2 .pause else .m6 } else none
  | .mUntilTest b =>
    if s.mpc = .u1 then some { s with mpc := if b then .w2 .until_ else .u5 } else none
  | .mUntilReset => if s.mpc = .u5 then some { s with mpc := .m6 } else none
  | .mWaitTest =>
    match s.mpc with
    | .w2 c => some { s with mpc := if s.kg then .w3 c else .w4 c }
    | _ => none
  | .mEventWait =>
    match s.mpc with
    | .w3 c => some { s with mpc := if s.flag then .w4 c else .ww c }
    | _ => none
  | .mWaitRet =>
    match s.mpc with
    | .w4 c =>
      if s.kg then some { s with mpc := match c with | .pause => .p1 | .until_ => .u1 }
      else some { s with mpc := .m6, cutShort := true }
    | _ => none
  | .mClockStop => if s.mpc = .m9 then some { s with mpc := .m10, kg := false } else none
  | .mFlush => if s.mpc = .m10 then some { s with mpc := .done } else none
  | .mRestart =>
    if s.mpc = .done ∧ s.rpc = .done then
      some { s with mpc := .e0, run2 := true, stopped := false, armedAtStop := false,
                    inProgAtStop := false, cmdsAfterStop := 0, exitStopped := false,
                    cutShort := false, cmds := 0 }
    else none
  | .kArm _ => none      -- no such statement any more (the clock thread no longer arms itself)
  | .kLoop i =>
    if s.kpc i = .k1 then some (s.setK i (if s.kg then .k2 else .k9)) else none
  | .kSleep i => if s.kpc i = .k2 then some (s.setK i .k3) else none
  | .kSet i => if s.kpc i = .k3 then some ((s.setK i .k4).eventSet) else none
  | .kClear i => if s.kpc i = .k4 then some { s.setK i .k1 with flag := false } else none
  | .kFinal i => if s.kpc i = .k9 then some ((s.setK i .done).eventSet) else none
  | .rStopRun =>
    if s.rpc = .r0 then
      some { s with rpc := .r1, kr := false, stopped := true, armedAtStop := s.mpc.armed,
                    inProgAtStop := decide (s.mpc = .m5), cmdsAfterStop := 0 }
    else none
  | .rStopClock => if s.rpc = .r1 then some { s with rpc := .done, kg := false } else none
  | .rNone => if s.rpc = .r0 then some { s with rpc := .done } else none

def runFrom (s : State) : List Label → Option State
  | [] => some s
  | l :: rest => match step s l with
    | some s' => runFrom s' rest
    | none => none

/-- index of the first label that is not enabled, with the state reached so far -/
def firstReject (s : State) : List Label → Nat → Option (Nat × State)
  | [], _ => none
  | l :: rest, i => match step s l with
    | some s' => firstReject s' rest (i + 1)
    | none => some (i, s)

/-- the states after each label (for the driver: flag values along the run) -/
def traceFrom (s : State) : List Label → List State
  | [] => []
  | l :: rest => match step s l with
    | some s' => s' :: traceFrom s' rest
    | none => []

inductive Reachable : State → Prop
  | init : Reachable init
  | step {s s' : State} (l : Label) : Reachable s → step s l = some s' → Reachable s'

/-- labels of the machine thread -/
def Label.isM : Label → Bool
  | .kArm _ | .kLoop _ | .kSleep _ | .kSet _ | .kClear _ | .kFinal _ | .rStopRun
  | .rStopClock | .rNone => false
  | _ => true

/-- labels of a clock thread -/
def Label.isK : Label → Bool
  | .kArm _ | .kLoop _ | .kSleep _ | .kSet _ | .kClear _ | .kFinal _ => true
  | _ => false

/-! ## The code before the fixes (for the witnesses of B1, B3, B4)

`stepV v` differs from `step` exactly where the tree before the corresponding `fix:` commit
differs: without `armInStart` the statements `mArmClock` does nothing and the clock thread
starts at its own `self._keep_going = True` (`KPc.ka`, label `kArm`); without `finalSet`
`start()` does not clear the event and the clock thread ends without a final `set`; without
`untilHonours` `wait_until` ignores `wait()`'s result. -/

structure Variant where
  armInStart : Bool      -- c0f21d6
  finalSet : Bool        -- d0d6252
  untilHonours : Bool    -- f1c3df5
  deriving DecidableEq, Repr

def fixed : Variant := ⟨true, true, true⟩
def pinned : Variant := ⟨false, false, false⟩

def stepV (v : Variant) (s : State) : Label → Option State
  | .mArmClock =>
    if s.mpc = .s1 then some { s with mpc := .s2, kg := if v.armInStart then true else s.kg }
    else none
  | .mClear =>
    if s.mpc = .s2 then some { s with mpc := .s3, flag := if v.finalSet then false else s.flag }
    else none
  | .mSpawn =>
    if s.mpc = .s3 then
      let start : KPc := if v.armInStart then .k1 else .ka
      if s.k0 = .none then some { s with mpc := .m4, k0 := start }
      else if s.k1 = .none then some { s with mpc := .m4, k1 := start }
      else none
    else none
  | .kArm i =>
    if ¬ v.armInStart ∧ s.kpc i = .ka then some { s.setK i .k1 with kg := true } else none
  | .kFinal i =>
    if s.kpc i = .k9 then
      if v.finalSet then some ((s.setK i .done).eventSet) else some (s.setK i .done)
    else none
  | .mWaitRet =>
    match s.mpc with
    | .w4 c =>
      if s.kg then some { s with mpc := match c with | .pause => .p1 | .until_ => .u1 }
      else match c with
        | .pause => some { s with mpc := .m6, cutShort := true }
        | .until_ =>
          if v.untilHonours then some { s with mpc := .m6, cutShort := true }
          else some { s with mpc := .u1 }
    | _ => none
  | l => step s l

def runFromV (v : Variant) (s : State) : List Label → Option State
  | [] => some s
  | l :: rest => match stepV v s l with
    | some s' => runFromV v s' rest
    | none => none

def allLabels : List Label :=
  [.mReset, .mArm, .mStartReset, .mArmClock, .mClear, .mSpawn, .mLoopGo, .mLoopExit,
   .mExec .cmd, .mExec .delay, .mExec .until_, .mExec .other, .mAdvance,
   .mPauseTest true, .mPauseTest false, .mUntilTest true, .mUntilTest false, .mUntilReset,
   .mWaitTest, .mEventWait, .mWaitRet, .mClockStop, .mFlush, .mRestart,
   .kArm false, .kArm true, .kLoop false, .kLoop true, .kSleep false, .kSleep true,
   .kSet false, .kSet true, .kClear false, .kClear true, .kFinal false, .kFinal true,
   .rStopRun, .rStopClock, .rNone]

/-- no statement of any thread is enabled -/
def deadlockedV (v : Variant) (s : State) : Bool := allLabels.all fun l => (stepV v s l).isNone

/-! ## `stop_all` on the queue (statement level, every operation under the controller lock) -/

namespace Queue

structure JC where
  active : Option Nat
  queue : List Nat
  started : List Nat      -- jobs whose thread has been started, latest first
  stopRequests : List Nat -- jobs that were sent `request_stop`
  deriving DecidableEq, Repr

inductive Op where
  | clearQueue            -- JobControl.clear_queue
  | stopCurrent           -- JobControl.stop_current
  | onDone                -- _on_execution_done: active := None, then _run_next_job
  | runNext               -- _run_next_job
  deriving DecidableEq, Repr

def runNext (j : JC) : JC :=
  match j.active, j.queue with
  | none, q :: rest => { j with active := some q, queue := rest, started := q :: j.started }
  | _, _ => j

def apply (j : JC) : Op → JC
  | .clearQueue => { j with queue := [] }
  | .stopCurrent => match j.active with
    | some a => { j with stopRequests := a :: j.stopRequests }
    | none => j
  | .onDone => runNext { j with active := none }
  | .runNext => runNext j

end Queue

end Bardolph.Stop
