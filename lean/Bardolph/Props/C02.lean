import Bardolph.Model.ExprParse
/-! # C02 — expressions follow the documented precedence, associativity and arithmetic
(theorems: see Props/C02Climb.lean and the agent branches) -/
namespace Bardolph
end Bardolph
