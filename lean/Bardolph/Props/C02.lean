import Bardolph.Model.Gen
import Bardolph.Model.Sem
import Bardolph.Proofs.VmSteps
/-!
# C02 — expressions: postfix code computes the source-level value; arithmetic of the built-ins

Model pieces: `Gen.genExpr` (the postfix code `expr_parser.py` emits for an expression tree),
`Vm` (`PUSH`/`PUSHQ`/`OP`/`POP`, `binOp`, `doOp`), `Sem.evalExpr` (the value the source denotes)
and the built-ins over exact rationals (`Vm.callBuiltin`).  That the parser builds the tree the
documented precedence prescribes is checked by the harness on the real parser (the model's
generator takes the tree as input); what is proved here is that, for a tree of ANY depth, the
code computes the tree's value, in every value position, and that the built-ins have their
documented ranges.
-/
namespace Bardolph
open Vm VmSteps Sem

/-! ## 1. postfix evaluation -/

/-- the value of `x op y` when the source-level evaluation succeeds (the success case of the
`bin` arm of `Sem.evalExpr`): `and`/`or` by truth value, everything else by `Vm.binOp`; `^` with
a non-integer exponent is not a value (uninterpreted) -/
def binVal (op : Operator) (x y : Val) : Option Val :=
  match op with
  | .and => some (.bool (x.truthy && y.truthy))
  | .or => some (.bool (x.truthy || y.truthy))
  | .pow =>
    match y.asNum with
    | some (q, _) => if q.den != 1 && x.asNum.isSome then none else Vm.binOp .pow x y
    | none => none
  | _ => Vm.binOp op x y

theorem evalExpr_bin_ok (f : Nat) (op : Operator) (a b : Expr) (σ σ' : S) (r : Val)
    (h : evalExpr (f + 1) (.bin op a b) σ = .ok (r, σ')) :
    ∃ x σ1 y, evalExpr f a σ = .ok (x, σ1) ∧ evalExpr f b σ1 = .ok (y, σ') ∧
      binVal op x y = some r := by
  simp only [evalExpr] at h
  split at h
  · simp at h
  · rename_i x σ1 ha
    split at h
    · simp at h
    · rename_i y σ2 hb
      refine ⟨x, σ1, y, ha, ?_⟩
      cases op <;> simp [binVal] at h ⊢
      all_goals (repeat' split at h) <;> simp_all

/-- the VM's `OP op` on a stack `y :: x :: rest` computes the same value -/
theorem doOp_binVal (s : State) (op : Operator) (x y r : Val) (rest : List Val)
    (hev : s.eval = y :: x :: rest) (h : binVal op x y = some r) :
    s.doOp op = { s with eval := r :: rest } := by
  cases op
  case pow =>
    simp only [binVal, binOp] at h
    cases hy : y.asNum with
    | none => simp [hy] at h
    | some p =>
      obtain ⟨q, fl⟩ := p
      cases hx : x.asNum with
      | none => simp [hy, hx] at h; simp [State.doOp, hev, binOp, hy, hx, h]
      | some p' => simp [hy, hx] at h; simp [State.doOp, hev, binOp, hy, hx, h]
  all_goals (simp [binVal, binOp] at h <;> simp [State.doOp, hev, binOp, h])

theorem step_binop (img : Image) (s : State) (pc : Nat) (op : Operator) (x y r : Val)
    (rest : List Val) (hs : s.status = .running) (hpc : s.pc = (pc : Int))
    (hi : img.code[pc]? = some (.op op)) (hev : s.eval = y :: x :: rest)
    (hv : binVal op x y = some r) :
    step img s = { s with pc := (pc : Int) + 1, eval := r :: rest } := by
  rw [step_op img s pc op _ hs hpc hi (doOp_binVal s op x y r rest hev hv) hs]
  simp [hpc]

/-- expressions without calls, whose literals are pushed by value (`PUSHQ`: numbers, booleans,
unit modes) — `lit`, `var`, `reg`, `un`, `bin`, `paren` nodes nested to any depth -/
inductive CallFree : Expr → Prop
  | lit (v : Val) : Gen.pushLit v = .pushq v → CallFree (.lit v)
  | var (n : String) : CallFree (.var n)
  | reg (r : Reg) : CallFree (.reg r)
  | un (minus : Bool) (e : Expr) : CallFree e → CallFree (.un minus e)
  | bin (op : Operator) (a b : Expr) : CallFree a → CallFree b → CallFree (.bin op a b)
  | paren (e : Expr) : CallFree e → CallFree (.paren e)

/-- the source-level state and the VM state give names and registers the same meaning -/
def SameEnv (σ : S) (s : State) : Prop := (∀ n, σ.lookup n = s.getVariable n) ∧ σ.vm.regs = s.regs

/-- **postfix_eval.**  For a call-free expression `e` of any depth: if the source-level
evaluation succeeds with value `x`, then from ANY running VM state `s` that gives names and
registers the same meaning and has `genExpr e` at `pc`, exactly `(genExpr e).length` steps
later the machine is the same state with `pc` past the code and `x` pushed — stack height +1,
nothing below touched, no register, variable, frame, trace or device changed — and the
source-level state is unchanged too. -/
theorem C02_postfix_eval (img : Image) (e : Expr) (he : CallFree e) :
    ∀ (fuel : Nat) (σ σ' : S) (x : Val) (s : State) (pc : Nat),
      s.status = .running → s.pc = (pc : Int) → CodeAt img pc (Gen.genExpr e) →
      SameEnv σ s → evalExpr fuel e σ = .ok (x, σ') →
      run img (Gen.genExpr e).length s =
        { s with pc := (pc : Int) + (Gen.genExpr e).length, eval := x :: s.eval } ∧ σ' = σ := by
  induction he with
  | lit v hv =>
    intro fuel σ σ' x s pc hs hpc hc henv h
    cases fuel with
    | zero => simp [evalExpr] at h
    | succ f =>
      simp only [evalExpr, Except.ok.injEq, Prod.mk.injEq] at h
      obtain ⟨rfl, rfl⟩ := h
      simp only [Gen.genExpr, hv, List.length_cons, List.length_nil] at hc ⊢
      rw [run_one _ _ hs, step_pushq img s pc _ hs hpc hc.head]
      refine ⟨by simp, ?_⟩
      first | rfl | trivial
  | var n =>
    intro fuel σ σ' x s pc hs hpc hc henv h
    cases fuel with
    | zero => simp [evalExpr] at h
    | succ f =>
      simp only [evalExpr] at h
      split at h
      · simp at h
      · rename_i hne
        simp only [Except.ok.injEq, Prod.mk.injEq] at h
        obtain ⟨rfl, rfl⟩ := h
        simp only [Gen.genExpr, List.length_cons, List.length_nil] at hc ⊢
        rw [run_one _ _ hs, step_push img s pc (.var n) (σ.lookup n) hs hpc hc.head (by simp)
          (by simp only [State.read]; exact (henv.1 n).symm) hne]
        refine ⟨by simp, ?_⟩
        first | rfl | trivial
  | reg r =>
    intro fuel σ σ' x s pc hs hpc hc henv h
    cases fuel with
    | zero => simp [evalExpr] at h
    | succ f =>
      simp only [evalExpr] at h
      split at h
      · simp at h
      · rename_i hne
        simp only [Except.ok.injEq, Prod.mk.injEq] at h
        obtain ⟨rfl, rfl⟩ := h
        simp only [Gen.genExpr, List.length_cons, List.length_nil] at hc ⊢
        rw [run_one _ _ hs, step_push img s pc (.reg r) (σ.vm.regs r) hs hpc hc.head (by simp)
          (by simp only [State.read]; rw [henv.2]) hne]
        refine ⟨by simp, ?_⟩
        first | rfl | trivial
  | paren e _ ih =>
    intro fuel σ σ' x s pc hs hpc hc henv h
    cases fuel with
    | zero => simp [evalExpr] at h
    | succ f =>
      simp only [evalExpr] at h
      simp only [Gen.genExpr] at hc ⊢
      exact ih f σ σ' x s pc hs hpc hc henv h
  | un minus e _ ih =>
    intro fuel σ σ' x s pc hs hpc hc henv h
    cases fuel with
    | zero => simp [evalExpr] at h
    | succ f =>
      simp only [evalExpr] at h
      split at h
      · rename_i v σ1 hev
        simp only [Gen.genExpr] at hc ⊢
        obtain ⟨hrun, rfl⟩ := ih f σ σ1 v s pc hs hpc hc.left henv hev
        cases minus with
        | false =>
          simp only [Bool.false_eq_true, if_false, Except.ok.injEq, Prod.mk.injEq] at h
          obtain ⟨rfl, rfl⟩ := h
          simpa using hrun
        | true =>
          simp only [if_true] at h hc ⊢
          split at h
          · rename_i r hr
            simp only [Except.ok.injEq, Prod.mk.injEq] at h
            obtain ⟨rfl, rfl⟩ := h
            refine ⟨?_, rfl⟩
            have hc2 := hc.right
            rw [List.length_append, run_add, hrun]
            simp only [List.length_cons, List.length_nil]
            rw [run_succ _ _ _ (by exact hs),
              step_pushq img _ (pc + (Gen.genExpr e).length) _ (by exact hs) (by simp) hc2.head]
            rw [run_one _ _ (by exact hs),
              step_binop img _ (pc + (Gen.genExpr e).length + 1) .mul v (.int (-1)) _ s.eval
                (by exact hs) (by simp) hc2.tail.head (by rfl) (by simpa [binVal] using hr)]
            apply State.ext' <;> simp
            omega
          · simp at h
      · simp at h
  | bin op a b _ _ iha ihb =>
    intro fuel σ σ' r s pc hs hpc hc henv h
    cases fuel with
    | zero => simp [evalExpr] at h
    | succ f =>
      obtain ⟨x, σ1, y, ha, hb, hv⟩ := evalExpr_bin_ok f op a b σ σ' r h
      simp only [Gen.genExpr] at hc ⊢
      obtain ⟨hrunA, rfl⟩ := iha f σ σ1 x s pc hs hpc hc.left.left henv ha
      obtain ⟨hrunB, rfl⟩ := ihb f σ1 σ' y
        { s with pc := (pc : Int) + (Gen.genExpr a).length, eval := x :: s.eval }
        (pc + (Gen.genExpr a).length) hs (by simp) hc.left.right henv hb
      refine ⟨?_, rfl⟩
      have hop := hc.right
      rw [List.length_append, List.length_append, run_add, run_add, hrunA, hrunB]
      simp only [List.length_cons, List.length_nil]
      rw [run_one _ _ (by exact hs),
        step_binop img _ (pc + (Gen.genExpr a).length + (Gen.genExpr b).length) op x y r s.eval
          (by exact hs) (by simp) (by simpa [List.length_append, Nat.add_assoc] using hop.head) (by rfl) hv]
      apply State.ext' <;> simp
      omega

/-- **same_value_everywhere.**  Every value position compiles `{e}` to `⟦e⟧; POP d`
(`Gen.genRv (.expr e) (.to d)`) — `d` a register (a setting, or `result` for an `if`/`while`
condition, a `print` or an argument), a variable (assignment) or a loop variable (count,
bounds).  Whatever `d` is, the value stored — by the VM's one store routine `State.put` — is
the value `x` of `C02_postfix_eval`, and the evaluation stack is left as it was. -/
theorem C02_same_value_everywhere (img : Image) (e : Expr) (he : CallFree e) (d : Dst)
    (fuel : Nat) (σ σ' : S) (x : Val) (s : State) (pc : Nat)
    (hs : s.status = .running) (hpc : s.pc = (pc : Int))
    (hc : CodeAt img pc (Gen.genRv (.expr e) (.to d)))
    (henv : SameEnv σ s) (h : evalExpr fuel e σ = .ok (x, σ')) :
    let t := ({ s with pc := (pc : Int) + (Gen.genExpr e).length }).put d x
    run img (Gen.genRv (.expr e) (.to d)).length s =
      (if t.status = .running then { t with pc := t.pc + 1 } else t) ∧
    (run img (Gen.genRv (.expr e) (.to d)).length s).eval = s.eval ∧ σ' = σ := by
  intro t
  simp only [Gen.genRv] at hc ⊢
  obtain ⟨hrun, rfl⟩ := C02_postfix_eval img e he fuel σ σ' x s pc hs hpc hc.left henv h
  have hstep : run img ((Gen.genExpr e) ++ [Instr.pop d]).length s =
      (if t.status = .running then { t with pc := t.pc + 1 } else t) := by
    rw [List.length_append, run_add, hrun]
    simp only [List.length_cons, List.length_nil]
    rw [run_one _ _ (by exact hs),
      step_pop img _ (pc + (Gen.genExpr e).length) d x s.eval (by exact hs) (by simp)
        hc.right.head (by rfl)]
  refine ⟨hstep, ?_, rfl⟩
  rw [hstep]
  have : t.eval = s.eval := put_eval _ d x
  split <;> simp [this]

/-! ## 2, 4. truth, unary minus, built-ins over exact rationals -/

theorem C02_floor_bracket (q : Rat) : (q.floor : Rat) ≤ q ∧ q < (q.floor : Rat) + 1 := by
  have h1 := Rat.floor_le q
  have h2 := Rat.lt_floor_add_one q
  rw [Rat.intCast_add] at h2
  exact ⟨h1, by simpa using h2⟩

theorem C02_ceil_bracket (q : Rat) : q ≤ (q.ceil : Rat) ∧ (q.ceil : Rat) < q + 1 :=
  ⟨Rat.le_ceil, Rat.ceil_lt⟩

/-- `trunc` rounds toward zero: same sign, magnitude not larger, less than 1 away -/
theorem C02_trunc_bracket (q : Rat) :
    ((Conv.truncR q : Int) : Rat).abs ≤ q.abs ∧ (q - (Conv.truncR q : Int)).abs < 1 ∧
    (0 ≤ q → 0 ≤ Conv.truncR q) ∧ (q ≤ 0 → Conv.truncR q ≤ 0) := by
  have hf := C02_floor_bracket q
  have hc := C02_ceil_bracket q
  by_cases h : 0 ≤ q
  · have h0 : (0 : Int) ≤ q.floor := Rat.le_floor_iff.2 (by simpa using h)
    have h0' : (0 : Rat) ≤ (q.floor : Rat) := by simpa using Rat.intCast_le_intCast.2 h0
    have ht : Conv.truncR q = q.floor := by simp [Conv.truncR, h]
    rw [ht]
    refine ⟨?_, ?_, fun _ => h0, fun h' => ?_⟩
    · rw [Rat.abs_of_nonneg h0', Rat.abs_of_nonneg h]; exact hf.1
    · rw [Rat.abs_of_nonneg (by grind)]; grind
    · have : ((q.floor : Int) : Rat) ≤ ((0 : Int) : Rat) := by simp; grind
      exact Rat.intCast_le_intCast.1 this
  · have hq : q < 0 := by grind
    have h0 : q.ceil ≤ (0 : Int) := Rat.ceil_le_iff.2 (by simp; grind)
    have h0' : (q.ceil : Rat) ≤ 0 := by simpa using Rat.intCast_le_intCast.2 h0
    have ht : Conv.truncR q = q.ceil := by simp [Conv.truncR, h]
    rw [ht]
    refine ⟨?_, ?_, fun h' => absurd h' h, fun _ => h0⟩
    · rw [Rat.abs_of_nonpos h0', Rat.abs_of_nonpos (by grind)]; grind
    · rw [Rat.abs_of_nonpos (by grind)]; grind

/-- `round` (Python's, on floats): a nearest integer, and on a tie the even one -/
theorem C02_round_nearest (q : Rat) :
    (q - (Val.roundHalfEven q : Int)).abs ≤ 1 / 2 ∧
    ((q - (Val.roundHalfEven q : Int)).abs = 1 / 2 → Val.roundHalfEven q % 2 = 0) := by
  have hf := C02_floor_bracket q
  unfold Val.roundHalfEven
  simp only
  have hh : (1 / 2 : Rat) + 1 / 2 = 1 := by grind
  generalize (1 / 2 : Rat) = half at *
  by_cases h1 : q - (q.floor : Rat) < half
  · simp only [h1, if_true]
    rw [Rat.abs_of_nonneg (by grind)]
    exact ⟨by grind, fun h => by grind⟩
  · simp only [h1, if_false]
    by_cases h2 : q - (q.floor : Rat) > half
    · simp only [h2, if_true]
      rw [Rat.intCast_add, Rat.abs_of_nonpos (by simp; grind)]
      simp
      exact ⟨by grind, fun h => by grind⟩
    · simp only [h2, if_false]
      have he : q - (q.floor : Rat) = half := by grind
      by_cases h3 : (q.floor % 2 == 0) = true
      · simp only [h3, if_true]
        rw [Rat.abs_of_nonneg (by grind)]
        exact ⟨by grind, fun _ => by simpa using h3⟩
      · simp only [h3, Bool.false_eq_true, if_false]
        rw [Rat.intCast_add, Rat.abs_of_nonpos (by simp; grind)]
        simp
        refine ⟨by grind, fun _ => ?_⟩
        have : ¬ q.floor % 2 = 0 := by simpa using h3
        omega

/-- `cycle θ = θ % 360` lies in `[0, 360)` and differs from `θ` by a whole number of turns -/
theorem C02_cycle_range (q : Rat) :
    0 ≤ Val.ratMod q 360 ∧ Val.ratMod q 360 < 360 ∧
    ∃ k : Int, q - Val.ratMod q 360 = 360 * (k : Rat) := by
  have hf := C02_floor_bracket (q / 360)
  unfold Val.ratMod
  refine ⟨by grind, by grind, (q / 360).floor, by grind⟩

theorem C02_random_range (lo hi : Int) (k : Nat) (h : lo ≤ hi) :
    lo ≤ stubDraw lo hi k ∧ stubDraw lo hi k ≤ hi := by
  unfold stubDraw
  have hm : 0 < hi - lo + 1 := by omega
  have h1 := Int.emod_nonneg (7 * lo + 13 * hi + k) (Int.ne_of_gt hm)
  have h2 := Int.emod_lt_of_pos (7 * lo + 13 * hi + k) hm
  show lo ≤ lo + (7 * lo + 13 * hi + k) % (hi - lo + 1) ∧
    lo + (7 * lo + 13 * hi + k) % (hi - lo + 1) ≤ hi
  omega

theorem C02_random_onto (lo hi n : Int) (h1 : lo ≤ n) (h2 : n ≤ hi) :
    ∃ k : Nat, stubDraw lo hi k = n := by
  have hm : 0 < hi - lo + 1 := by omega
  refine ⟨(Int.emod ((n - lo) - (7 * lo + 13 * hi)) (hi - lo + 1)).toNat, ?_⟩
  unfold stubDraw
  have hnn := Int.emod_nonneg ((n - lo) - (7 * lo + 13 * hi)) (Int.ne_of_gt hm)
  have hcast : ((Int.emod ((n - lo) - (7 * lo + 13 * hi)) (hi - lo + 1)).toNat : Int) =
      ((n - lo) - (7 * lo + 13 * hi)) % (hi - lo + 1) := Int.toNat_of_nonneg hnn
  rw [hcast]
  show lo + (7 * lo + 13 * hi + ((n - lo) - (7 * lo + 13 * hi)) % (hi - lo + 1)) % (hi - lo + 1) = n
  rw [Int.add_emod_emod]
  have : 7 * lo + 13 * hi + ((n - lo) - (7 * lo + 13 * hi)) = n - lo := by omega
  rw [this, Int.emod_eq_of_lt (by omega) (by omega)]
  omega

theorem C02_truthy_zero :
    Val.truthy (.int 0) = false ∧ Val.truthy (.num 0) = false ∧ Val.truthy (.bool false) = false ∧
    (∀ i : Int, i ≠ 0 → Val.truthy (.int i) = true) ∧
    (∀ q : Rat, q ≠ 0 → Val.truthy (.num q) = true) := by
  refine ⟨by simp [Val.truthy], by simp [Val.truthy], rfl, ?_, ?_⟩
  · intro i hi; simp [Val.truthy, hi]
  · intro q hq; simp [Val.truthy, hq]

/-- multiplying by the integer −1 (what the code of a leading minus does) is arithmetic
negation on every number -/
theorem C02_mul_neg_one (v : Val) (h : v.asNum.isSome = true) :
    Val.mul v (.int (-1)) = Val.neg v := by
  cases v with
  | int i =>
    have : ((i : Rat) * -1).num = -i := by
      have e : (-1 : Rat) = ((-1 : Int) : Rat) := by simp
      rw [e, ← Rat.intCast_mul, Rat.num_intCast]; omega
    simp [Val.mul, Val.neg, Val.asNum, Val.mkNum, this]
  | num q =>
    have : q * -1 = -q := by grind
    simp [Val.mul, Val.neg, Val.asNum, Val.mkNum, this]
  | bool b =>
    cases b
    · simp [Val.mul, Val.neg, Val.asNum, Val.mkNum]
    · simp [Val.mul, Val.neg, Val.asNum, Val.mkNum]
  | _ => simp [Val.asNum] at h

theorem C02_builtin_floor (q : Rat) (k : Nat) : callBuiltin "floor" [.num q] k = .val (.int q.floor) := rfl
theorem C02_builtin_ceil (q : Rat) (k : Nat) : callBuiltin "ceil" [.num q] k = .val (.int q.ceil) := rfl
theorem C02_builtin_trunc (q : Rat) (k : Nat) :
    callBuiltin "trunc" [.num q] k = .val (.int (Conv.truncR q)) := rfl
theorem C02_builtin_round (q : Rat) (k : Nat) :
    callBuiltin "round" [.num q] k = .val (.int (Val.roundHalfEven q)) := rfl
theorem C02_builtin_cycle (q : Rat) (k : Nat) (h : ¬ (0 ≤ q ∧ q < 360)) :
    callBuiltin "cycle" [.num q] k = .val (.num (Val.ratMod q 360)) := by
  simp [callBuiltin, Val.asNum]
  intro h0 h1; exact absurd ⟨h0, h1⟩ h
theorem C02_builtin_random (lo hi : Int) (k : Nat) (h : lo ≤ hi) :
    callBuiltin "random" [.int lo, .int hi] k = .val (.int (stubDraw lo hi k)) := by
  simp [callBuiltin, Val.asInt, h]

/-! ## 3. corollaries: destinations, unary operators, parentheses -/

/-- stored in a register (a setting such as `hue {e}`, or `result` for a condition, `print`,
an argument): the register holds `x`, every other register, the stack of frames, the variables
and the evaluation stack are as before, and the machine runs on after the code -/
theorem C02_value_in_register (img : Image) (e : Expr) (he : CallFree e) (r : Reg)
    (fuel : Nat) (σ σ' : S) (x : Val) (s : State) (pc : Nat)
    (hs : s.status = .running) (hpc : s.pc = (pc : Int))
    (hc : CodeAt img pc (Gen.genRv (.expr e) (.to (.reg r))))
    (henv : SameEnv σ s) (h : evalExpr fuel e σ = .ok (x, σ')) :
    run img (Gen.genRv (.expr e) (.to (.reg r))).length s =
      { s with pc := (pc : Int) + (Gen.genRv (.expr e) (.to (.reg r))).length,
               regs := fun r' => if r' = r then x else s.regs r' } := by
  have h1 := (C02_same_value_everywhere img e he (.reg r) fuel σ σ' x s pc hs hpc hc henv h).1
  rw [h1]
  simp only [State.put, State.setReg, hs, if_true, Gen.genRv, List.length_append,
    List.length_cons, List.length_nil]
  apply State.ext' <;> simp
  omega

/-- **unary_minus.**  A leading minus is compiled to `⟦e⟧; PUSHQ -1; OP MUL`; its value is
`binOp .mul v (-1)` for the value `v` of the operand — on numbers the arithmetic negation
(`C02_mul_neg_one`) — and by `C02_postfix_eval` that is what the code pushes. -/
theorem C02_unary_minus (f : Nat) (e : Expr) (σ σ' : S) (x : Val)
    (h : evalExpr (f + 1) (.un true e) σ = .ok (x, σ')) :
    Gen.genExpr (.un true e) = Gen.genExpr e ++ [.pushq (.int (-1)), .op .mul] ∧
    ∃ v, evalExpr f e σ = .ok (v, σ') ∧ Vm.binOp .mul v (.int (-1)) = some x ∧
      (v.asNum.isSome = true → Val.neg v = some x) := by
  refine ⟨by simp [Gen.genExpr], ?_⟩
  simp only [evalExpr] at h
  split at h
  · rename_i v σ1 hev
    simp only [if_true] at h
    split at h
    · rename_i r hr
      simp only [Except.ok.injEq, Prod.mk.injEq] at h
      obtain ⟨rfl, rfl⟩ := h
      refine ⟨v, hev, hr, fun hn => ?_⟩
      rw [← C02_mul_neg_one v hn]; exact hr
    · simp at h
  · simp at h

/-- a unary plus changes nothing -/
theorem C02_unary_plus (f : Nat) (e : Expr) (σ : S) :
    Gen.genExpr (.un false e) = Gen.genExpr e ∧
    ∀ x σ', evalExpr f e σ = .ok (x, σ') → evalExpr (f + 1) (.un false e) σ = .ok (x, σ') := by
  refine ⟨by simp [Gen.genExpr], ?_⟩
  intro x σ' h
  simp [evalExpr, h]

/-- parentheses only group: same code, same value -/
theorem C02_paren (f : Nat) (e : Expr) (σ : S) :
    Gen.genExpr (.paren e) = Gen.genExpr e ∧ evalExpr (f + 1) (.paren e) σ = evalExpr f e σ := by
  simp [Gen.genExpr, evalExpr]

/-- at top level (no frames) a source-level state built on the VM state agrees with it -/
theorem SameEnv.toplevel (s : State) (h : s.stack = []) : SameEnv { vm := s } s := by
  refine ⟨fun n => ?_, rfl⟩
  simp only [S.lookup, State.getVariable, h, activation]
  rfl


/-! ## non-vacuity -/

section Examples

/-- `(1 + x) * -hue ^ 2 < 3 and true` as a tree -/
def c02ExExpr : Expr :=
  .bin .and
    (.bin .lt
      (.bin .mul (.paren (.bin .add (.lit (.int 1)) (.var "x")))
        (.un true (.bin .pow (.reg .hue) (.lit (.int 2)))))
      (.lit (.num 3)))
    (.lit (.bool true))

example : CallFree c02ExExpr := by
  repeat' constructor

def c02ExState : State := { regs := initRegs, globals := [("x", .int 4)], pc := 0 }
def c02ExImg : Image := ⟨(([] : List Instr) ++ Gen.genExpr c02ExExpr ++ [Instr.stop]).toArray, []⟩

example : CodeAt c02ExImg 0 (Gen.genExpr c02ExExpr) := CodeAt.intro [] (Gen.genExpr c02ExExpr) [Instr.stop] []
example : SameEnv { vm := c02ExState } c02ExState := SameEnv.toplevel c02ExState rfl
theorem c02ExEval : evalExpr 10 c02ExExpr { vm := c02ExState } = .ok (.bool true, { vm := c02ExState }) := by
  simp [evalExpr, c02ExExpr, S.lookup, c02ExState, Dict.get, initRegs, binOp, Val.add, Val.mul, Val.pow,
    Val.cmp, Val.asNum, Val.mkNum, Val.truthy]
  decide +kernel

/-- the theorem applied: the VM run of the generated code leaves exactly the value on the stack -/
example : (run c02ExImg (Gen.genExpr c02ExExpr).length c02ExState).eval = [.bool true] ∧
    (run c02ExImg (Gen.genExpr c02ExExpr).length c02ExState).pc = (Gen.genExpr c02ExExpr).length := by
  have h := (C02_postfix_eval c02ExImg c02ExExpr (by repeat' constructor) 10 { vm := c02ExState }
    { vm := c02ExState } (.bool true) c02ExState 0 rfl rfl
    (CodeAt.intro [] (Gen.genExpr c02ExExpr) [Instr.stop] []) (SameEnv.toplevel c02ExState rfl) c02ExEval).1
  rw [h]
  exact ⟨rfl, by simp⟩

example : Val.roundHalfEven (5 / 2) = 2 ∧ Val.roundHalfEven (7 / 2) = 4 ∧
    Val.roundHalfEven (-5 / 2) = -2 := by decide +kernel
example : Conv.truncR (-7 / 2) = -3 ∧ Conv.truncR (7 / 2) = 3 := by decide +kernel
example : Val.ratMod 725 360 = 5 ∧ Val.ratMod (-90) 360 = 270 := by decide +kernel
example : stubDraw 2 2 0 = 2 ∧ stubDraw 1 3 1 = 3 := by decide +kernel
example : ∃ k, stubDraw 0 100 k = 100 := C02_random_onto 0 100 100 (by omega) (by omega)

end Examples

end Bardolph
