import Bardolph.Proofs.ParseTokNum
/-!
# C06 (and C16/C17) on the token-level parser model `ParseTok`

`ParseTok.parse : String → Outcome` (`Model/ParseTok.lean`) mirrors `Parser().parse(text)` of
`bardolph/parser/parse.py` and its sub-parsers routine by routine; `harness/parsetok_check.py`
compares the two on generated scripts, token soup, mutants, noise and the rule texts (outcome class,
line AND text of every message, the complete instruction list).  The theorems below are about the
model.

* `C06_parse_terminates` — the fuel is never exhausted: the recursive descent terminates.
* `C06_no_silent_no_raise` — for EVERY text the outcome is `accept` (no message recorded) or
  `reject` with at least one message.  Never a silent failure, never an accepted text with
  messages, never an exception (`C06_never_raises`).  (Before repository commit 6029431 an integer
  literal of more than 4300 digits made `int()`'s `ValueError` escape; it is now rejected with
  "Number is too long", see `C06_number_too_long_rejected`.)
* `C06_reject_has_line` — every message carries the number of a line of the text, or 0 (the
  end-of-file token `Token(TokenTypes.EOF)` has line number 0, so "Line 0: …" is what the real
  parser prints when the text ends too early).
* one theorem per documented rule, for an arbitrary parser state, and the rule texts of
  `harness/c06.py` evaluated by the kernel (the two 4301/5000-digit texts are covered by
  `C06_number_too_long_rejected` instead).

C17 (`Props/C17.lean` proves that `Parser.parse` resets every attribute it reads): accordingly
`ParseTok.parse` takes the text and nothing else — there is no parser state to carry over, which is
why no "history-free" theorem is stated (it would be vacuous).

Not modelled: Python's recursion limit.  `'if 1 ' * 330 + 'hue 5'` or 1000 nested parentheses make
the real parser run into `RecursionError`, which `Parser.parse` now turns into the rejection
`Too many nested levels.` (commit 1d8e878; before, the exception escaped); the model accepts them.
-/
namespace Bardolph.ParseTok
open Bardolph

/-! ## Termination, outcomes, line numbers -/

/-- the model on the lines of a text (`Lex.tokens` unfolded) -/
def parseLines (lines : List String) : Outcome :=
  parseTokens (((lines.zipIdx.map fun (line, i) =>
    Lex.lineTokens (i + 1) (Lex.splitLine (line.length + 1) line.toList)).flatten).map Tok.ofLex)

theorem parse_eq_parseLines (text : String) : parse text = parseLines (text.splitOn "\n") := rfl

/-- For every text the compiler model ends in `accept` (no message was recorded) or in `reject`
with at least one message: never a silent failure, never an accepted text with messages, never an
exception, never out of fuel. -/
theorem C06_no_silent_no_raise (text : String) :
    (∃ prog, parse text = .accept prog) ∨ ∃ msgs, parse text = .reject msgs ∧ msgs ≠ [] := by
  unfold parse
  rcases parseTokens_outcome (tokOk_tokens text) with h | ⟨msgs, h1, h2, _⟩
  · exact .inl h
  · exact .inr ⟨msgs, h1, h2⟩

/-- the recursive descent terminates: the fuel `parse` uses is never exhausted -/
theorem C06_parse_terminates (text : String) : parse text ≠ .outOfFuel := by
  rcases C06_no_silent_no_raise text with ⟨p, h⟩ | ⟨m, h, _⟩ <;> (rw [h]; intro h'; cases h')

/-- no exception escapes (since the repository catches `int()`'s `ValueError`) -/
theorem C06_never_raises (text : String) (k : String) : parse text ≠ .raised k := by
  rcases C06_no_silent_no_raise text with ⟨p, h⟩ | ⟨m, h, _⟩ <;> (rw [h]; intro h'; cases h')

/-- every message of a rejection carries the number of a line of the text, or 0 (end of file) -/
theorem C06_reject_has_line (text : String) (msgs : List (Nat × String))
    (h : parse text = .reject msgs) :
    ∀ m ∈ msgs, m.1 = 0 ∨ (1 ≤ m.1 ∧ m.1 ≤ (text.splitOn "\n").length) := by
  unfold parse at h
  rcases parseTokens_outcome (tokOk_tokens text) with ⟨p, h1⟩ | ⟨ms, h1, _, h3⟩
  · rw [h1] at h; cases h
  · rw [h1] at h; cases h
    intro m hm
    rcases h3 m hm with h0 | ⟨t, ht, hl⟩
    · exact .inl h0
    · obtain ⟨l, hl', rfl⟩ := List.mem_map.mp ht
      right
      have := tokens_line hl'
      rw [← hl]; exact this

/-! ## An integer literal of more than 4300 digits: rejected, with two messages

`int()` raises `ValueError` on it; `_current_literal` catches that, leaves "Number is too long" and
returns `None`, and the caller reports in its own words that the token is no value. -/

/-- a NUMBER token that `int()` refuses -/
def tooLong (t : Tok) : Prop := t.ty = .number ∧ cvalOfNum (parseNumber t.content) = none

/-- … is, among the NUMBER tokens of the lexer, exactly an integer of more than 4300 digits
(`number_token_shape`, `parseNumber_shape`) -/
theorem tooLong_iff_digits {text : String} {t : Lex.Token} (h : t ∈ Lex.tokens text)
    (hty : t.type = "NUMBER") (hb : cvalOfNum (parseNumber t.content) = none) :
    t.content.toList.all isAsciiDigit = true ∧ t.content.length > 4300 := by
  have := parseNumber_shape (number_token_shape h hty) hb
  refine ⟨this.1, ?_⟩
  have h2 := this.2
  rw [String.length_toList] at h2
  exact h2

theorem ones_tooLong (n : Nat) (hn : n > 4300) :
    cvalOfNum (parseNumber (String.ofList (List.replicate n '1'))) = none := by
  have hd : isAsciiDigit '1' = true := by decide
  have h1 : (List.replicate n '1').all isAsciiDigit = true := by
    simp [List.all_replicate, hd]
  have h2 : (decide ((List.replicate n '1').length > maxStrDigits)) = true := by
    simp [maxStrDigits]; omega
  unfold parseNumber
  simp only [String.toList_ofList, h1, if_true, h2, Bool.or_true]
  rfl

theorem currentLiteral_tooLong {st : St} (hb : tooLong st.cur) :
    currentLiteral st =
      .ok none (st.addError ("Number is too long: \"" ++ st.cur.content ++ "\"")) := by
  have hs : st.cur.str = st.cur.content := by simp [Tok.str, hb.1, TT.hasString]
  simp [currentLiteral, hb.1, hs, hb.2]

/-- such a literal as a value: rejected with the two messages -/
theorem C06_number_too_long_rejected {st : St} (hb : tooLong st.cur) (f : Nat) (d : Dest) (cg : CG) :
    rvalue (f + 1) d cg st =
      .fail ((st.addError ("Number is too long: \"" ++ st.cur.content ++ "\"")).addError
        ("Cannot use " ++ st.cur.content ++ " as a value.")) := by
  have h1 : ∀ m, st.cur.isMark m = false := fun m => by simp [Tok.isMark, hb.1]
  have hs : st.cur.str = st.cur.content := by simp [Tok.str, hb.1, TT.hasString]
  unfold rvalue
  rw [getSt_bind]
  simp only [h1, Bool.false_eq_true, if_false]
  apply bind_fail
  unfold rvalueSimple
  rw [getSt_bind]
  simp only [h1, Bool.false_eq_true, if_false]
  rw [bind_ok (pure_run () st)]
  have hc : currentConstant st =
      .ok none (st.addError ("Number is too long: \"" ++ st.cur.content ++ "\"")) := by
    unfold currentConstant
    rw [bind_ok (currentLiteral_tooLong hb)]
    dsimp only
    rw [getSt_bind]
    have : ((st.addError ("Number is too long: \"" ++ st.cur.content ++ "\"")).cur.ty != TT.name)
        = true := by
      show (st.cur.ty != TT.name) = true
      rw [hb.1]; rfl
    simp only [this, if_true]
    rfl
  rw [bind_ok hc]
  have hty : (st.addError ("Number is too long: \"" ++ st.cur.content ++ "\"")).cur.ty
      = .number := hb.1
  have hty' : st.cur.ty = .number := hb.1
  simp [rvalueValue, getSt_bind, hty', tokenError, triggerError, St.addError, hs]

/-- a register statement whose value is such a literal -/
theorem command_setReg_tooLong {st : St} {t : Tok} {r : List Tok} {reg : Reg} (f : Nat)
    (hty : st.cur.ty = .register) (hreg : regOfName st.cur.str = some reg) (hnt : reg ≠ .time)
    (hrest : st.rest = t :: r) (hb : tooLong t) :
    command (f + 1) st =
      .fail ((({ st with cur := t, rest := r } : St).addError
        ("Number is too long: \"" ++ t.content ++ "\"")).addError
        ("Cannot use " ++ t.content ++ " as a value.")) := by
  have hadv : skipToken st = .ok () { st with cur := t, rest := r } := by
    simp [skipToken, advance, hty, hrest]
  have hs1 : ({ st with cur := t, rest := r } : St).cur.ty = .number := hb.1
  unfold command
  rw [getSt_bind]
  simp only [hty]
  unfold setReg
  rw [getSt_bind]
  simp only [hreg, hty]
  have h1 : (reg == Reg.time) = false := by simpa using hnt
  simp only [h1, Bool.false_eq_true, if_false]
  have h2 : (TT.register == TT.default) = false := rfl
  simp only [h2, Bool.false_eq_true, if_false]
  rw [bind_ok hadv, getSt_bind]
  have h3 : (({ st with cur := t, rest := r } : St).cur.ty == TT.literalString) = false := by
    rw [hs1]; rfl
  simp only [h3, Bool.false_eq_true, if_false]
  exact C06_number_too_long_rejected (st := { st with cur := t, rest := r }) hb _ _ _

/-- the rule text `hue 111…1` (4301 digits) of `harness/c06.py`, on its tokens: rejected with the
two messages the real parser prints -/
theorem C06_long_int_text_rejected :
    parseTokens [⟨.register, "hue", 1⟩, ⟨.number, String.ofList (List.replicate 4301 '1'), 1⟩] =
      .reject [(1, "Number is too long: \"" ++ String.ofList (List.replicate 4301 '1') ++ "\""),
        (1, "Cannot use " ++ String.ofList (List.replicate 4301 '1') ++ " as a value.")] := by
  have hb : tooLong ⟨.number, String.ofList (List.replicate 4301 '1'), 1⟩ :=
    ⟨rfl, ones_tooLong 4301 (by decide)⟩
  have hreg : regOfName "hue" = some Reg.hue := by decide +kernel
  generalize String.ofList (List.replicate 4301 '1') = c at hb
  let s0 : St :=
    { cur := ⟨.register, "hue", 1⟩, rest := [⟨.number, c, 1⟩, eofTok], globals := initialGlobals }
  have e1 : initState [⟨.register, "hue", 1⟩, ⟨.number, c, 1⟩] = s0 := rfl
  unfold parseTokens script
  rw [e1]
  let s1 : St := (({ s0 with cur := ⟨.number, c, 1⟩, rest := [eofTok] } : St).addError
    ("Number is too long: \"" ++ c ++ "\"")).addError ("Cannot use " ++ c ++ " as a value.")
  have hc : command (31 + 1) s0 = .fail s1 :=
    command_setReg_tooLong (st := s0) (reg := .hue) 31 rfl hreg (by decide) rfl hb
  have hbody : bodyLoop (8 * [(⟨.register, "hue", 1⟩ : Tok), ⟨.number, c, 1⟩].length + 16) s0
      = .fail s1 := by
    unfold bodyLoop body
    rw [getSt_bind]
    have : (s0.cur.ty == TT.eof) = false := rfl
    simp only [this, Bool.false_eq_true, if_false]
    exact bind_fail hc
  rw [bind_fail hbody]
  rfl

/-! ## The documented rules, for an arbitrary parser state -/

/-- a `break` reached as a statement while the loop stack is empty or its top is a suspend marker
(a routine body or a matrix block started since the last `repeat`) is rejected -/
theorem C06_break_outside_loop_rejected (f : Nat) (st : St) (hc : st.cur.ty = .break_)
    (hl : st.loops = [] ∨ ∃ r, st.loops = none :: r) :
    command (f + 1) st = .fail (st.addError "Encountered \"break\" not inside loop.") := by
  have : st.inLoop = false := by
    rcases hl with h | ⟨r, h⟩ <;> simp [St.inLoop, h]
  simp [command, getSt, hc, breakStmt, this, bind_run, triggerError]

/-- `assign m …` where `m` is a macro (`define m <constant>`) is rejected -/
theorem C06_assign_to_macro_rejected (f : Nat) (st : St) (t : Tok) (r : List Tok)
    (hc : st.cur.ty = .assign) (hr : st.rest = t :: r) (ht : t.ty = .name)
    (hm : st.hasSymbolTyped t.content [.macro] = true) :
    command (f + 1) st = .fail (({ st with cur := t, rest := r } : St).addError
      ("Attempt to assign to constant \"" ++ t.content ++ "\"")) := by
  have hs : t.str = t.content := by simp [Tok.str, ht, TT.hasString]
  have hm' : ({ st with cur := t, rest := r } : St).hasSymbolTyped t.content [.macro] = true := hm
  simp [command, getSt, hc, assignment, assignable, bind_run, skipToken, advance, hr, ht, hs, hm',
    tokenError, triggerError]

/-- a name that IS a routine in the symbol table has been given to a routine -/
theorem routineExists_of_hasRoutine (st : St) (n : String) (h : st.hasRoutine n = true) :
    st.routineExists n = true := by
  unfold St.hasRoutine St.getRoutine St.globalOfType Table.get at h
  unfold St.routineExists
  generalize st.globals = g at h ⊢
  induction g with
  | nil => simp [List.lookup] at h
  | cons e g ih =>
    obtain ⟨k, s⟩ := e
    simp only [List.any_cons, Bool.or_eq_true, Bool.and_eq_true]
    by_cases hk : n == k
    · left
      simp only [List.lookup, hk] at h
      have hk' : (k == n) = true := by
        have : n = k := by simpa using hk
        subst this; simp
      refine ⟨hk', ?_⟩
      by_cases hs : s.kind == SymKind.routine
      · exact hs
      · simp [hs] at h
    · right
      have : List.lookup n ((k, s) :: g) = List.lookup n g := by simp [List.lookup, hk]
      rw [this] at h
      simpa [Bool.and_eq_true] using ih h

/-- `define f …` for a name that has been given to a routine (built-in or defined before, even if
a variable has taken the name since) is rejected -/
theorem C06_redefine_routine_rejected (name : String) (body : M Unit) (st : St)
    (hd : st.detectRoutineStart = true) (hr : st.routineExists name = true) :
    definitionRest name body st =
      .fail (st.addError ("Already defined: \"" ++ st.cur.str ++ "\"")) := by
  simp [definitionRest, St.alreadyDefined, getSt_bind, hd, hr, tokenError, triggerError]

/-- `define m …` for a name that is already a macro is rejected, whichever of the two kinds of
definition follows the name; so is a macro definition for a name that is a routine.  No `define`
for a name that is already a macro or a routine goes through. -/
theorem C06_redefine_macro_rejected (name : String) (body : M Unit) (st : St)
    (hm : (st.getMacro name).isSome = true ∨ st.routineExists name = true) :
    definitionRest name body st = .fail (st.addError ("Already defined: \"" ++
      (if st.detectRoutineStart then st.cur.str else name) ++ "\"")) := by
  have ha : st.alreadyDefined name = true := by
    rcases hm with h | h <;> simp [St.alreadyDefined, h]
  by_cases hd : st.detectRoutineStart = true
  · simp [definitionRest, getSt_bind, hd, ha, tokenError, triggerError]
  · simp [definitionRest, getSt_bind, hd, ha, triggerError]

/-- a loop's index variable or light variable whose name is a macro is rejected like an assignment
to the macro (`Parser.assignable`, the test all three share) -/
theorem C06_macro_as_variable_rejected (n : String) (st : St)
    (hm : st.hasSymbolTyped n [.macro] = true) :
    assignable n st = .fail (st.addError ("Attempt to assign to constant \"" ++ n ++ "\"")) := by
  simp [assignable, getSt_bind, hm, triggerError]

/-- `stage` takes rows and columns, never a block (only `set` names the light a block's result
goes to): wherever `stage` is allowed — in a routine body or a matrix block —, `stage begin` is
rejected.  (Before repository commit 09e1e7b the block was compiled and followed by a COLOR
instruction with no operand loaded: `define f begin stage begin end end f` stopped the machine
with `KeyError: Operand.NULL`.) -/
theorem C06_stage_block_rejected (f : Nat) (st : St) (t : Tok) (r : List Tok)
    (hc : st.cur.ty = .stage) (hr : st.rest = t :: r) (ht : t.ty = .begin_) :
    action (f + 1) .color st =
      .fail (({ st with opCode := .color, cur := t, rest := r } : St).addError
        "Nesting not allowed here.") := by
  simp [action, getSt, bind_run, modifySt, hc, skipToken, advance, hr, ht, triggerError, pure_run]

/-- a routine definition inside a routine body is rejected -/
theorem C06_nested_define_rejected (name : String) (body : M Unit) (st : St)
    (hd : st.detectRoutineStart = true) (hr : st.alreadyDefined name = false)
    (hin : st.inRoutine = true) :
    definitionRest name body st = .fail (st.addError "Nested definition not allowed.") := by
  simp [definitionRest, getSt_bind, hd, hr, hin, triggerError]

/-- a name that is no variable, used as a value, is rejected (as "Unknown", or as "Not a value"
when it names a routine or a macro without … — any symbol that is not a variable) -/
theorem C06_undefined_name_rejected (d : Dest) (cg : CG) (st : St) (hty : st.cur.ty = .name)
    (hv : st.hasSymbolTyped st.cur.str [.var] = false) :
    rvalueValue false d cg none st =
      .fail (st.addError ((if st.hasSymbol st.cur.str then "Not a value: \"" else "Unknown: \"")
        ++ st.cur.str ++ "\"")) := by
  unfold rvalueValue
  simp only [Bool.false_and, Bool.false_eq_true, if_false, getSt_bind, hty, hv]
  split <;> rfl

/-- a name that is no routine, used as a statement or in brackets, is rejected -/
theorem C06_undefined_routine_rejected (f : Nat) (b : Bool) (st : St)
    (hr : st.getRoutine st.cur.str = none) :
    callNamed (f + 1) b st = .fail (st.addError ("Unknown name: \"" ++ st.cur.str ++ "\"")) := by
  simp [callNamed, getSt_bind, hr, tokenError, triggerError]

/-- a name that is neither variable nor macro, used as the operand of `set`/`on`/`off` -/
theorem C06_undefined_operand_rejected (st : St)
    (hv : st.hasSymbolTyped st.cur.str [.macro, .var] = false) :
    varOperand st = .fail (st.addError ("Undefined: " ++ st.cur.str)) := by
  simp [varOperand, getSt, hv, bind_run, tokenError, triggerError]

/-- the text ends inside `begin … end` -/
theorem C06_missing_end_rejected (f : Nat) (st : St) (hty : st.cur.ty = .eof) :
    compoundMore (f + 1) st = .fail (st.addError "End of file before \"end\".") := by
  simp [compoundMore, getSt_bind, hty, triggerError]

/-- `return` outside a routine body -/
theorem C06_return_outside_routine_rejected (f : Nat) (st : St) (hc : st.cur.ty = .return_)
    (hin : st.inRoutine = false) :
    command (f + 1) st =
      .fail (st.addError "\"return\" is allowed only inside a routine.") := by
  simp [command, getSt, hc, returnStmt, hin, bind_run, triggerError]

/-- a failing statement makes the whole parse fail with the messages it left -/
theorem body_fail_of_command {n fuel : Nat} {st st' : St} (hne : st.cur.ty ≠ .eof)
    (h : command fuel st = .fail st') : body (n + 1) fuel st = .fail st' := by
  unfold body
  rw [getSt_bind]
  have : (st.cur.ty == TT.eof) = false := by simpa using hne
  simp only [this, Bool.false_eq_true, if_false]
  exact bind_fail h

/-! ## The rule texts of `harness/c06.py`, evaluated by the kernel

`parse text = parseLines (text.splitOn "\n")` (`parse_eq_parseLines`); the texts have one line.  The
expected messages are the ones the real parser prints. -/

def rejectMsgs : Outcome → Option (List (Nat × String))
  | .reject ms => some ms
  | _ => none

def isAccept : Outcome → Bool
  | .accept _ => true
  | _ => false

example : rejectMsgs (parseLines ["hue 5 break set all"]) =
    some [(1, "Encountered \"break\" not inside loop.")] := by decide +kernel  -- break-outside-loop
example : rejectMsgs (parseLines ["if {1 > 0} break"]) =
    some [(1, "Encountered \"break\" not inside loop.")] := by decide +kernel  -- break-outside-loop
example : rejectMsgs (parseLines ["define f begin break end"]) =
    some [(1, "Encountered \"break\" not inside loop.")] := by decide +kernel  -- break-outside-loop
example : rejectMsgs (parseLines ["repeat begin define f begin break end end"]) =
    some [(1, "Encountered \"break\" not inside loop.")] := by decide +kernel  -- break-outside-loop
example : rejectMsgs (parseLines ["repeat 2 begin set \"Candle\" begin break end end"]) =
    some [(1, "Encountered \"break\" not inside loop.")] := by decide +kernel  -- break-outside-loop
example : rejectMsgs (parseLines ["define m 5 assign m 6"]) =
    some [(1, "Attempt to assign to constant \"m\"")] := by decide +kernel  -- assign-to-macro
example : rejectMsgs (parseLines ["define f begin print 1 end define f begin print 2 end"]) =
    some [(1, "Already defined: \"begin\"")] := by decide +kernel  -- redefine-routine
example : rejectMsgs (parseLines ["define m 5 define m 6"]) =
    some [(1, "Already defined: \"m\"")] := by decide +kernel  -- redefine-macro
example : rejectMsgs (parseLines ["define m 5 define k m define m k"]) =
    some [(1, "Already defined: \"m\"")] := by decide +kernel  -- redefine-macro
example : rejectMsgs (parseLines ["define m 5 define m begin print 1 end"]) =
    some [(1, "Already defined: \"begin\"")] := by decide +kernel  -- redefine-macro
example : rejectMsgs (parseLines ["define r begin print 1 end r define r 5"]) =
    some [(1, "Already defined: \"r\"")] := by decide +kernel  -- redefine-routine
example : rejectMsgs (parseLines ["define round 5"]) =
    some [(1, "Already defined: \"round\"")] := by decide +kernel  -- redefine-routine
example : rejectMsgs (parseLines ["define r begin print 1 end r assign r 5 define r begin print 2 end"]) =
    some [(1, "Already defined: \"begin\"")] := by decide +kernel  -- redefine-routine
example : rejectMsgs (parseLines ["repeat with round from 1 to 2 print round define round with x begin return 7 end"]) =
    some [(1, "Already defined: \"with\"")] := by decide +kernel  -- redefine-routine
example : rejectMsgs (parseLines ["define m 5 repeat with m from 1 to 2 begin print m end"]) =
    some [(1, "Attempt to assign to constant \"m\"")] := by decide +kernel  -- assign-to-macro
example : rejectMsgs (parseLines ["define m 5 repeat all as m begin print m end"]) =
    some [(1, "Attempt to assign to constant \"m\"")] := by decide +kernel  -- assign-to-macro
example : rejectMsgs (parseLines ["define f begin stage begin end end f"]) =
    some [(1, "Nesting not allowed here.")] := by decide +kernel  -- a block after `stage`
example : rejectMsgs (parseLines ["hue xyz"]) =
    some [(1, "Unknown: \"xyz\"")] := by decide +kernel  -- undefined-name
example : rejectMsgs (parseLines ["set lamp"]) =
    some [(1, "Undefined: lamp")] := by decide +kernel  -- undefined-name
example : rejectMsgs (parseLines ["assign a {b + 1}"]) =
    some [(1, "Unknown: \"b\"")] := by decide +kernel  -- undefined-name
example : rejectMsgs (parseLines ["nosuch 1 2"]) =
    some [(1, "Unknown name: \"nosuch\"")] := by decide +kernel  -- undefined-name
example : rejectMsgs (parseLines ["print [nosuch 1]"]) =
    some [(1, "Unknown name: \"nosuch\"")] := by decide +kernel  -- undefined-name
example : rejectMsgs (parseLines ["repeat with i in \"Top\" hue 5"]) =
    some [(1, "Needed \"from\" or \"cycle\", got \"in\"")] := by decide +kernel  -- malformed-loop
example : rejectMsgs (parseLines ["repeat with i in \"Top\" and \"Candle\" begin hue 5 end"]) =
    some [(1, "Needed \"from\" or \"cycle\", got \"in\"")] := by decide +kernel  -- malformed-loop
example : rejectMsgs (parseLines ["assign y y"]) =
    some [(1, "Unknown: \"y\"")] := by decide +kernel  -- undefined-name
example : rejectMsgs (parseLines ["repeat with i from 1 to i begin print i end"]) =
    some [(1, "Unknown: \"i\"")] := by decide +kernel  -- undefined-name
example : rejectMsgs (parseLines ["repeat 3 with i from i to 5 begin print i end"]) =
    some [(1, "Unknown: \"i\"")] := by decide +kernel  -- undefined-name
example : rejectMsgs (parseLines ["repeat 4 with i cycle i begin print i end"]) =
    some [(1, "Unknown: \"i\"")] := by decide +kernel  -- undefined-name
example : rejectMsgs (parseLines ["repeat all as L with i from 1 to i begin print i end"]) =
    some [(1, "Unknown: \"i\"")] := by decide +kernel  -- undefined-name
example : rejectMsgs (parseLines ["define f begin define g begin print 1 end end"]) =
    some [(1, "Nested definition not allowed.")] := by decide +kernel  -- nested-define
example : rejectMsgs (parseLines ["repeat 2 begin hue 5"]) =
    some [(0, "End of file before \"end\".")] := by decide +kernel  -- missing-end
example : rejectMsgs (parseLines ["define f begin hue 5"]) =
    some [(0, "End of file before \"end\".")] := by decide +kernel  -- missing-end
example : rejectMsgs (parseLines ["if {1 > 0} begin hue 5"]) =
    some [(0, "End of file before \"end\".")] := by decide +kernel  -- missing-end
example : rejectMsgs (parseLines ["set \"Candle\" begin stage row 0"]) =
    some [(0, "End of file before \"end\".")] := by decide +kernel  -- missing-end
example : rejectMsgs (parseLines ["hue {1 + 2"]) =
    some [(0, "Expected closing curly brace, got eof.")] := by decide +kernel  -- unbalanced
example : rejectMsgs (parseLines ["hue {(1 + 2}"]) =
    some [(1, "Unmatched parenthesis: }")] := by decide +kernel  -- unbalanced
example : rejectMsgs (parseLines ["hue {1 + 2)}"]) =
    some [(1, "Expected closing curly brace, got ).")] := by decide +kernel  -- unbalanced
example : rejectMsgs (parseLines ["hue [round 2"]) =
    some [(0, "No closing bracket for function call.")] := by decide +kernel  -- unbalanced
example : rejectMsgs (parseLines ["hue 1 }"]) =
    some [(1, "Unexpected character }")] := by decide +kernel  -- unbalanced
example : rejectMsgs (parseLines ["print ]"]) =
    some [(1, "Unexpected character ]")] := by decide +kernel  -- unbalanced
example : rejectMsgs (parseLines ["time at 25:00"]) =
    some [(1, "Invalid time specification: \"25:00\"")] := by decide +kernel  -- malformed-time
example : rejectMsgs (parseLines ["time at 12:60"]) =
    some [(1, "Invalid time specification: \"12:60\"")] := by decide +kernel  -- malformed-time
example : rejectMsgs (parseLines ["time at 8:0"]) =
    some [(1, "Invalid time specification: \"8\"")] := by decide +kernel  -- malformed-time
example : rejectMsgs (parseLines ["time at 8:00 or"]) =
    some [(0, "Invalid time specification: \"eof\"")] := by decide +kernel  -- malformed-time
example : rejectMsgs (parseLines ["time at"]) =
    some [(0, "Invalid time specification: \"eof\"")] := by decide +kernel  -- malformed-time
example : rejectMsgs (parseLines ["define t 3*:00"]) =
    some [(1, "Invalid time specification: \"3*:00\""), (1, "Macro needs constant, got \"3*:00\"")] := by decide +kernel  -- malformed-time
example : rejectMsgs (parseLines ["return 5"]) =
    some [(1, "\"return\" is allowed only inside a routine.")] := by decide +kernel  -- return-outside-routine
example : rejectMsgs (parseLines ["if {1 > 0} return"]) =
    some [(1, "\"return\" is allowed only inside a routine.")] := by decide +kernel  -- return-outside-routine

/-- every nesting of loop / if / routine definition / matrix block, three levels deep
(`c06.NESTS`): accepted (the first eighteen are evaluated here, all of them by
`harness/parsetok_check.py`) -/
def nests : List String := [
  "repeat 2 begin repeat 2 begin repeat 2 begin hue 5 end end end",
  "repeat 2 begin repeat 2 begin if {1 > 0} begin hue 5 end end end",
  "repeat 2 begin repeat 2 begin define fn0 begin hue 5 end end end",
  "repeat 2 begin repeat 2 begin set \"Candle\" begin stage row 0 hue 5 end end end",
  "repeat 2 begin if {1 > 0} begin repeat 2 begin hue 5 end end end",
  "repeat 2 begin if {1 > 0} begin if {1 > 0} begin hue 5 end end end",
  "repeat 2 begin if {1 > 0} begin define fn0 begin hue 5 end end end",
  "repeat 2 begin if {1 > 0} begin set \"Candle\" begin stage row 0 hue 5 end end end",
  "repeat 2 begin define fn1 begin repeat 2 begin hue 5 end end end",
  "repeat 2 begin define fn1 begin if {1 > 0} begin hue 5 end end end",
  "repeat 2 begin define fn1 begin set \"Candle\" begin stage row 0 hue 5 end end end",
  "repeat 2 begin set \"Candle\" begin stage row 0 repeat 2 begin hue 5 end end end",
  "repeat 2 begin set \"Candle\" begin stage row 0 if {1 > 0} begin hue 5 end end end",
  "repeat 2 begin set \"Candle\" begin stage row 0 define fn0 begin hue 5 end end end",
  "if {1 > 0} begin repeat 2 begin repeat 2 begin hue 5 end end end",
  "if {1 > 0} begin repeat 2 begin if {1 > 0} begin hue 5 end end end",
  "if {1 > 0} begin repeat 2 begin define fn0 begin hue 5 end end end",
  "if {1 > 0} begin repeat 2 begin set \"Candle\" begin stage row 0 hue 5 end end end",
  "if {1 > 0} begin if {1 > 0} begin repeat 2 begin hue 5 end end end",
  "if {1 > 0} begin if {1 > 0} begin if {1 > 0} begin hue 5 end end end",
  "if {1 > 0} begin if {1 > 0} begin define fn0 begin hue 5 end end end",
  "if {1 > 0} begin if {1 > 0} begin set \"Candle\" begin stage row 0 hue 5 end end end",
  "if {1 > 0} begin define fn1 begin repeat 2 begin hue 5 end end end",
  "if {1 > 0} begin define fn1 begin if {1 > 0} begin hue 5 end end end",
  "if {1 > 0} begin define fn1 begin set \"Candle\" begin stage row 0 hue 5 end end end",
  "if {1 > 0} begin set \"Candle\" begin stage row 0 repeat 2 begin hue 5 end end end",
  "if {1 > 0} begin set \"Candle\" begin stage row 0 if {1 > 0} begin hue 5 end end end",
  "if {1 > 0} begin set \"Candle\" begin stage row 0 define fn0 begin hue 5 end end end",
  "define fn2 begin repeat 2 begin repeat 2 begin hue 5 end end end",
  "define fn2 begin repeat 2 begin if {1 > 0} begin hue 5 end end end",
  "define fn2 begin repeat 2 begin set \"Candle\" begin stage row 0 hue 5 end end end",
  "define fn2 begin if {1 > 0} begin repeat 2 begin hue 5 end end end",
  "define fn2 begin if {1 > 0} begin if {1 > 0} begin hue 5 end end end",
  "define fn2 begin if {1 > 0} begin set \"Candle\" begin stage row 0 hue 5 end end end",
  "define fn2 begin set \"Candle\" begin stage row 0 repeat 2 begin hue 5 end end end",
  "define fn2 begin set \"Candle\" begin stage row 0 if {1 > 0} begin hue 5 end end end",
  "set \"Candle\" begin stage row 0 repeat 2 begin repeat 2 begin hue 5 end end end",
  "set \"Candle\" begin stage row 0 repeat 2 begin if {1 > 0} begin hue 5 end end end",
  "set \"Candle\" begin stage row 0 repeat 2 begin define fn0 begin hue 5 end end end",
  "set \"Candle\" begin stage row 0 if {1 > 0} begin repeat 2 begin hue 5 end end end",
  "set \"Candle\" begin stage row 0 if {1 > 0} begin if {1 > 0} begin hue 5 end end end",
  "set \"Candle\" begin stage row 0 if {1 > 0} begin define fn0 begin hue 5 end end end",
  "set \"Candle\" begin stage row 0 define fn1 begin repeat 2 begin hue 5 end end end",
  "set \"Candle\" begin stage row 0 define fn1 begin if {1 > 0} begin hue 5 end end end"]

theorem nests_length : nests.length = 44 := by decide

example : ((nests.drop 0).take 6).all (fun t => isAccept (parseLines [t])) = true := by
  decide +kernel
example : ((nests.drop 6).take 6).all (fun t => isAccept (parseLines [t])) = true := by
  decide +kernel
example : ((nests.drop 12).take 6).all (fun t => isAccept (parseLines [t])) = true := by
  decide +kernel

end Bardolph.ParseTok
