import Bardolph.Model.Output
/-!
# The field heads of a format string, counted while scanning (part of C19)

`printf` works with the FIRST PART of every replacement field's name, the fields nested one level
inside format specs included (`Out.fieldHeads`).  Here: an automaton that computes, character by
character, how many of them are positional (`oscan`), equal to `fieldHeads … |>.map
countPositional` (`oscan_abs`); on it, that replacing every backslash-n pair by a line break —
what the VM does to the format before it counts — changes nothing (`oscan_unescape`).
-/
namespace Bardolph.Out

/-! ## what of a field name matters: is its first part empty / a number (and which) -/

def sepFree (c : Char) : Bool := c != '.' && c != '['

structure NS where
  /-- no `.` or `[` yet: still in the first part -/
  open_ : Bool
  empty : Bool
  digits : Bool
  /-- value of the first part when it consists of digits, else 0 -/
  val : Nat
  deriving DecidableEq, Repr

def NS.init : NS := ⟨true, true, true, 0⟩

def NS.step (a : NS) (c : Char) : NS :=
  if a.open_ then
    if sepFree c then
      (if a.digits && c.isDigit then ⟨true, false, true, a.val * 10 + (c.toNat - 48)⟩
       else ⟨true, false, false, 0⟩)
    else { a with open_ := false }
  else a

/-- `some true` = positional, `some false` = named, `none` = `ValueError` -/
def NS.head (a : NS) : Option Bool :=
  if a.empty then some true
  else if a.digits then (if a.val ≤ maxIndex then some true else none)
  else some false

def absName (n : List Char) : NS :=
  ⟨n.all sepFree, (firstPart n).isEmpty, (firstPart n).all Char.isDigit,
    if (firstPart n).all Char.isDigit then digitsVal (firstPart n) else 0⟩

theorem firstPart_eq (n : List Char) : firstPart n = n.takeWhile sepFree := rfl

theorem firstPart_snoc (n : List Char) (c : Char) :
    firstPart (n ++ [c]) = if n.all sepFree && sepFree c then firstPart n ++ [c] else firstPart n := by
  simp only [firstPart_eq]
  induction n with
  | nil => by_cases h : sepFree c = true <;> simp [List.takeWhile, h]
  | cons d r ih =>
    by_cases hd : sepFree d = true
    · simp only [List.cons_append, List.takeWhile_cons, hd, if_true, List.all_cons, Bool.true_and, ih]
      split <;> rfl
    · simp [List.takeWhile_cons, hd]

theorem digitsVal_snoc (p : List Char) (c : Char) :
    digitsVal (p ++ [c]) = digitsVal p * 10 + (c.toNat - 48) := by
  simp [digitsVal, List.foldl_append]

theorem absName_nil : absName [] = NS.init := rfl

theorem absName_snoc (n : List Char) (c : Char) : absName (n ++ [c]) = (absName n).step c := by
  unfold absName NS.step
  rw [firstPart_snoc]
  by_cases ho : n.all sepFree = true
  · by_cases hc : sepFree c = true
    · have hemp : (firstPart n ++ [c]).isEmpty = false := by cases firstPart n <;> rfl
      simp only [ho, hc, Bool.and_self, if_true, List.all_append, List.all_cons, List.all_nil,
        Bool.and_true, hemp]
      by_cases hd : (firstPart n).all Char.isDigit = true
      · by_cases hcd : c.isDigit = true
        · simp [hd, hcd, digitsVal_snoc]
        · simp [hd, hcd]
      · simp [hd]
    · simp [ho, hc]
  · simp [ho]

theorem head_absName (n : List Char) : (headOf n).map Head.isPos = (absName n).head := by
  unfold headOf absName NS.head
  by_cases he : (firstPart n).isEmpty = true
  · simp [he, Head.isPos]
  · by_cases hd : (firstPart n).all Char.isDigit = true
    · by_cases hv : digitsVal (firstPart n) ≤ maxIndex
      · simp [he, hd, hv, Head.isPos]
      · simp [he, hd, hv]
    · simp [he, hd, Head.isPos]

/-- backslash, `n` and a line break do the same to a name -/
theorem NS.step_escape (a : NS) : (a.step '\\').step 'n' = a.step '\n' := by
  have h1 : sepFree '\\' = true := by decide
  have h2 : sepFree 'n' = true := by decide
  have h3 : sepFree '\n' = true := by decide
  have d1 : Char.isDigit '\\' = false := by decide
  have d2 : Char.isDigit 'n' = false := by decide
  have d3 : Char.isDigit '\n' = false := by decide
  unfold NS.step
  by_cases ho : a.open_ = true <;> simp [ho, h1, h2, h3, d1, d2, d3]

/-! ## the fields of a format spec (one level, their own specs not looked at) -/

inductive IState
  | lit | lbrace | rbrace
  | name (a : NS) | bracket (a : NS) | bang (a : NS) | conv (a : NS)
  | spec (a : NS) (depth : Nat)
  deriving DecidableEq, Repr

def absI : PState → IState
  | .lit _ => .lit
  | .lbrace _ => .lbrace
  | .rbrace _ => .rbrace
  | .name _ n => .name (absName n)
  | .bracket _ n => .bracket (absName n)
  | .bang _ n => .bang (absName n)
  | .conv _ n _ => .conv (absName n)
  | .spec _ n _ _ d => .spec (absName n) d

@[simp] theorem absI_lit (a : List Char) : absI (.lit a) = .lit := rfl
@[simp] theorem absI_lbrace (a : List Char) : absI (.lbrace a) = .lbrace := rfl
@[simp] theorem absI_rbrace (a : List Char) : absI (.rbrace a) = .rbrace := rfl
@[simp] theorem absI_name (l n : List Char) : absI (.name l n) = .name (absName n) := rfl
@[simp] theorem absI_bracket (l n : List Char) : absI (.bracket l n) = .bracket (absName n) := rfl
@[simp] theorem absI_bang (l n : List Char) : absI (.bang l n) = .bang (absName n) := rfl
@[simp] theorem absI_conv (l n : List Char) (k : Char) : absI (.conv l n k) = .conv (absName n) := rfl
@[simp] theorem absI_spec (l n : List Char) (k : Option Char) (s : List Char) (d : Nat) :
    absI (.spec l n k s d) = .spec (absName n) d := rfl

/-- a completed tuple as the count sees it: `none` = no field, `some h` = a field whose name has
the head `h` (`NS.head`) -/
abbrev FOut := Option (Option Bool)

def fhead (f : Field) : FOut := f.name.map fun n => (absName n).head

def inameStep (a : NS) (c : Char) : Option (FOut × IState) :=
  if c = '{' then none
  else if c = '[' then some (none, .bracket (a.step c))
  else if c = '}' then some (some a.head, .lit)
  else if c = ':' then some (none, .spec a 0)
  else if c = '!' then some (none, .bang a)
  else some (none, .name (a.step c))

def istep : IState → Char → Option (FOut × IState)
  | .lit, c =>
    if c = '{' then some (none, .lbrace)
    else if c = '}' then some (none, .rbrace)
    else some (none, .lit)
  | .lbrace, c => if c = '{' then some (none, .lit) else inameStep NS.init c
  | .rbrace, c => if c = '}' then some (none, .lit) else none
  | .name a, c => inameStep a c
  | .bracket a, c =>
    if c = ']' then some (none, .name (a.step c)) else some (none, .bracket (a.step c))
  | .bang a, _ => some (none, .conv a)
  | .conv a, c =>
    if c = '}' then some (some a.head, .lit)
    else if c = ':' then some (none, .spec a 0)
    else none
  | .spec a n, c =>
    if c = '{' then some (none, .spec a (n + 1))
    else if c = '}' then
      match n with
      | 0 => some (some a.head, .lit)
      | n' + 1 => some (none, .spec a n')
    else some (none, .spec a n)

def ifinish : IState → Option Nat
  | .lit => some 0
  | _ => none

/-- what a completed tuple adds to the number of positional fields; `none` = `ValueError` -/
def tally : FOut → Option Nat
  | none => some 0
  | some (some true) => some 1
  | some (some false) => some 0
  | some none => none

def addO : Option Nat → Option Nat → Option Nat
  | some a, some b => some (a + b)
  | _, _ => none

def iscan : IState → List Char → Option Nat
  | a, [] => ifinish a
  | a, c :: cs =>
    match istep a c with
    | none => none
    | some (o, a') => addO (tally o) (iscan a' cs)

theorem inameStep_abs (l n : List Char) (c : Char) :
    (nameStep l n c).map (fun p => (p.1.bind fhead, absI p.2)) = inameStep (absName n) c := by
  unfold nameStep inameStep
  split
  · rfl
  · split
    · simp [absName_snoc]
    · split
      · simp [fhead]
      · split
        · simp
        · split
          · simp
          · simp [absName_snoc]

theorem istep_abs (st : PState) (c : Char) :
    (step st c).map (fun p => (p.1.bind fhead, absI p.2)) = istep (absI st) c := by
  cases st with
  | lit acc =>
    simp only [step, absI_lit, absI_lbrace, absI_rbrace, absI_name, absI_bracket, absI_bang, absI_conv, absI_spec, istep]
    split
    · simp
    · split <;> simp
  | lbrace acc =>
    simp only [step, absI_lit, absI_lbrace, absI_rbrace, absI_name, absI_bracket, absI_bang, absI_conv, absI_spec, istep]
    split
    · simp [fhead]
    · rw [inameStep_abs]; rfl
  | rbrace acc => simp only [step, absI_lit, absI_lbrace, absI_rbrace, absI_name, absI_bracket, absI_bang, absI_conv, absI_spec, istep]; split <;> simp [fhead]
  | name l n => simp only [step, absI_lit, absI_lbrace, absI_rbrace, absI_name, absI_bracket, absI_bang, absI_conv, absI_spec, istep]; exact inameStep_abs l n c
  | bracket l n => simp only [step, absI_lit, absI_lbrace, absI_rbrace, absI_name, absI_bracket, absI_bang, absI_conv, absI_spec, istep]; split <;> simp [absName_snoc]
  | bang l n => simp [step, istep]
  | conv l n k =>
    simp only [step, absI_lit, absI_lbrace, absI_rbrace, absI_name, absI_bracket, absI_bang, absI_conv, absI_spec, istep]
    split
    · simp [fhead]
    · split <;> simp
  | spec l n k s d =>
    simp only [step, absI_lit, absI_lbrace, absI_rbrace, absI_name, absI_bracket, absI_bang, absI_conv, absI_spec, istep]
    split
    · simp
    · split
      · cases d <;> simp [fhead]
      · simp

/-- the number of positional fields among these tuples, their specs not looked at -/
def flatCnt (fs : List Field) : Option Nat := (flatHeads fs).map countPositional

theorem countPositional_cons (h : Head) (hs : List Head) :
    countPositional (h :: hs) = (if h.isPos then 1 else 0) + countPositional hs := by
  unfold countPositional
  cases hp : h.isPos <;> simp [hp, List.filter_cons] <;> omega

theorem countPositional_append (a b : List Head) :
    countPositional (a ++ b) = countPositional a + countPositional b := by
  simp [countPositional, List.filter_append]

theorem tally_fhead_some (n : List Char) (f : Field) (hn : f.name = some n) :
    tally (fhead f) = (headOf n).map fun h => if h.isPos then 1 else 0 := by
  simp only [fhead, hn, Option.map_some, ← head_absName]
  cases headOf n with
  | none => rfl
  | some h => cases hp : h.isPos <;> simp [tally, hp]

theorem flatCnt_cons (f : Field) (fs : List Field) :
    flatCnt (f :: fs) = addO (tally (fhead f)) (flatCnt fs) := by
  unfold flatCnt
  cases hn : f.name with
  | none =>
    simp only [flatHeads, hn, fhead, Option.map_none, tally]
    cases flatHeads fs <;> simp [addO]
  | some n =>
    rw [tally_fhead_some n f hn]
    simp only [flatHeads, hn]
    cases headOf n with
    | none => simp [addO]
    | some h =>
      cases flatHeads fs with
      | none => simp [addO]
      | some hs => simp [addO, countPositional_cons]

theorem ifinish_abs (st : PState) : (finish st).bind flatCnt = ifinish (absI st) := by
  cases st with
  | lit acc => cases acc <;> simp [finish, ifinish, flatCnt, flatHeads, countPositional]
  | _ => rfl

theorem iscan_abs (cs : List Char) : ∀ st : PState,
    (scan st cs).bind flatCnt = iscan (absI st) cs := by
  induction cs with
  | nil => intro st; simp only [scan, iscan]; exact ifinish_abs st
  | cons c cs ih =>
    intro st
    have hs := istep_abs st c
    simp only [scan, iscan]
    cases h : step st c with
    | none =>
      rw [h] at hs
      simp only [Option.map_none] at hs
      rw [← hs]
      rfl
    | some p =>
      obtain ⟨of, st'⟩ := p
      rw [h] at hs
      simp only [Option.map_some] at hs
      rw [← hs]
      cases of with
      | none =>
        simp only [Option.bind_none, tally, ← ih st']
        cases (scan st' cs).bind flatCnt <;> simp [addO]
      | some f =>
        simp only [Option.bind_some, ← ih st']
        cases hsc : scan st' cs with
        | none => cases tally (fhead f) <;> simp [addO]
        | some fs => simp [flatCnt_cons]

/-! ## the whole format: a field's own head and the fields of its spec -/

/-- the inner automaton run alongside on the characters of a format spec, with the number of
positional fields found so far; `none` = the spec is rejected -/
def irun : Option (IState × Nat) → Char → Option (IState × Nat)
  | none, _ => none
  | some (i, k), c =>
    match istep i c with
    | none => none
    | some (o, i') => (tally o).map fun t => (i', k + t)

def ifin : Option (IState × Nat) → Option Nat
  | some (i, k) => (ifinish i).map (k + ·)
  | none => none

theorem foldl_irun_none (cs : List Char) : cs.foldl irun none = none := by
  induction cs with
  | nil => rfl
  | cons c cs ih => simpa [List.foldl_cons, irun] using ih

theorem ifin_foldl (cs : List Char) : ∀ (i : IState) (k : Nat),
    ifin (cs.foldl irun (some (i, k))) = (iscan i cs).map (k + ·) := by
  induction cs with
  | nil => intro i k; rfl
  | cons c cs ih =>
    intro i k
    simp only [List.foldl_cons, irun, iscan]
    cases hs : istep i c with
    | none => simp [foldl_irun_none, ifin]
    | some p =>
      obtain ⟨o, i'⟩ := p
      simp only []
      cases ht : tally o with
      | none => simp [foldl_irun_none, ifin, addO]
      | some t =>
        simp only [Option.map_some, ih i' (k + t)]
        cases iscan i' cs with
        | none => simp [addO]
        | some r => simp only [addO, Option.map_some, Nat.add_assoc]

/-- the number of positional fields in a format spec -/
theorem specCnt_eq (s : List Char) :
    ifin (s.foldl irun (some (.lit, 0))) = (parseChars s).bind flatCnt := by
  rw [ifin_foldl, parseChars, iscan_abs s (.lit [])]
  simp

inductive OState
  | lit | lbrace | rbrace
  | name (a : NS) | bracket (a : NS) | bang (a : NS) | conv (a : NS)
  | spec (a : NS) (depth : Nat) (x : Option (IState × Nat))
  deriving DecidableEq, Repr

def absO : PState → OState
  | .lit _ => .lit
  | .lbrace _ => .lbrace
  | .rbrace _ => .rbrace
  | .name _ n => .name (absName n)
  | .bracket _ n => .bracket (absName n)
  | .bang _ n => .bang (absName n)
  | .conv _ n _ => .conv (absName n)
  | .spec _ n _ s d => .spec (absName n) d (s.foldl irun (some (.lit, 0)))

@[simp] theorem absO_lit (a : List Char) : absO (.lit a) = .lit := rfl
@[simp] theorem absO_lbrace (a : List Char) : absO (.lbrace a) = .lbrace := rfl
@[simp] theorem absO_rbrace (a : List Char) : absO (.rbrace a) = .rbrace := rfl
@[simp] theorem absO_name (l n : List Char) : absO (.name l n) = .name (absName n) := rfl
@[simp] theorem absO_bracket (l n : List Char) : absO (.bracket l n) = .bracket (absName n) := rfl
@[simp] theorem absO_bang (l n : List Char) : absO (.bang l n) = .bang (absName n) := rfl
@[simp] theorem absO_conv (l n : List Char) (k : Char) : absO (.conv l n k) = .conv (absName n) := rfl
@[simp] theorem absO_spec (l n : List Char) (k : Option Char) (s : List Char) (d : Nat) :
    absO (.spec l n k s d) = .spec (absName n) d (s.foldl irun (some (.lit, 0))) := rfl

/-- a completed tuple: `none` = no field, `some none` = `ValueError`, `some (some k)` = `k`
positional fields (its own and those of its spec) -/
abbrev OOut := Option (Option Nat)

/-- the field's own head -/
def own (a : NS) : Option Nat := a.head.map fun b => if b then 1 else 0

def onameStep (a : NS) (c : Char) : Option (OOut × OState) :=
  if c = '{' then none
  else if c = '[' then some (none, .bracket (a.step c))
  else if c = '}' then some (some (own a), .lit)
  else if c = ':' then some (none, .spec a 0 (some (.lit, 0)))
  else if c = '!' then some (none, .bang a)
  else some (none, .name (a.step c))

def ostep : OState → Char → Option (OOut × OState)
  | .lit, c =>
    if c = '{' then some (none, .lbrace)
    else if c = '}' then some (none, .rbrace)
    else some (none, .lit)
  | .lbrace, c => if c = '{' then some (none, .lit) else onameStep NS.init c
  | .rbrace, c => if c = '}' then some (none, .lit) else none
  | .name a, c => onameStep a c
  | .bracket a, c =>
    if c = ']' then some (none, .name (a.step c)) else some (none, .bracket (a.step c))
  | .bang a, _ => some (none, .conv a)
  | .conv a, c =>
    if c = '}' then some (some (own a), .lit)
    else if c = ':' then some (none, .spec a 0 (some (.lit, 0)))
    else none
  | .spec a n x, c =>
    if c = '{' then some (none, .spec a (n + 1) (irun x c))
    else if c = '}' then
      match n with
      | 0 => some (some (addO (own a) (ifin x)), .lit)
      | n' + 1 => some (none, .spec a n' (irun x c))
    else some (none, .spec a n (irun x c))

def ofinish : OState → Option Nat
  | .lit => some 0
  | _ => none

def otally : OOut → Option Nat
  | none => some 0
  | some k => k

/-- the number of positional fields `fieldHeads` will find, counted while scanning -/
def oscan : OState → List Char → Option Nat
  | a, [] => ofinish a
  | a, c :: cs =>
    match ostep a c with
    | none => none
    | some (o, a') => addO (otally o) (oscan a' cs)

def fcnt (f : Field) : OOut :=
  f.name.map fun n => addO (own (absName n)) ((parseChars f.spec).bind flatCnt)

def headsCnt (fs : List Field) : Option Nat := (headsOf fs).map countPositional

theorem addO_zero (x : Option Nat) : addO x (some 0) = x := by cases x <;> simp [addO]

theorem own_absName (n : List Char) :
    own (absName n) = (headOf n).map fun h => if h.isPos then 1 else 0 := by
  unfold own
  rw [← head_absName]
  cases headOf n <;> simp

theorem fcnt_nospec (l n : List Char) (k : Option Char) :
    fcnt ⟨l, some n, [], k⟩ = some (own (absName n)) := by
  simp [fcnt, parseChars, scan, finish, flatCnt, flatHeads, countPositional, addO_zero]

theorem bind_flatCnt (o : Option (List Field)) :
    o.bind flatCnt = (o.bind flatHeads).map countPositional := by
  cases o <;> simp [flatCnt]

theorem headsCnt_cons (f : Field) (fs : List Field) :
    headsCnt (f :: fs) = addO (otally (fcnt f)) (headsCnt fs) := by
  unfold headsCnt
  cases hn : f.name with
  | none =>
    simp only [headsOf, hn, fcnt, Option.map_none, otally]
    cases headsOf fs <;> simp [addO]
  | some n =>
    simp only [headsOf, hn, fcnt, Option.map_some, otally, own_absName, bind_flatCnt]
    cases headOf n with
    | none => simp [addO]
    | some h =>
      cases (parseChars f.spec).bind flatHeads with
      | none => simp [addO]
      | some inner =>
        cases headsOf fs with
        | none => simp [addO]
        | some hs =>
          simp only [Option.map_some, addO, countPositional_cons, countPositional_append, Nat.add_assoc]

theorem onameStep_abs (l n : List Char) (c : Char) :
    (nameStep l n c).map (fun p => (p.1.bind fcnt, absO p.2)) = onameStep (absName n) c := by
  unfold nameStep onameStep
  split
  · rfl
  · split
    · simp [absName_snoc]
    · split
      · simp [fcnt_nospec]
      · split
        · simp
        · split
          · simp
          · simp [absName_snoc]

theorem ostep_abs (st : PState) (c : Char) :
    (step st c).map (fun p => (p.1.bind fcnt, absO p.2)) = ostep (absO st) c := by
  cases st with
  | lit acc =>
    simp only [step, absO_lit, ostep]
    split
    · simp
    · split <;> simp
  | lbrace acc =>
    simp only [step, absO_lbrace, ostep]
    split
    · simp [fcnt]
    · rw [onameStep_abs]; rfl
  | rbrace acc => simp only [step, absO_rbrace, ostep]; split <;> simp [fcnt]
  | name l n => simp only [step, absO_name, ostep]; exact onameStep_abs l n c
  | bracket l n => simp only [step, absO_bracket, ostep]; split <;> simp [absName_snoc]
  | bang l n => simp [step, ostep]
  | conv l n k =>
    simp only [step, absO_conv, ostep]
    split
    · simp [fcnt_nospec]
    · split <;> simp
  | spec l n k s d =>
    simp only [step, absO_spec, ostep]
    split
    · simp [List.foldl_append]
    · split
      · cases d with
        | zero => simp [fcnt, specCnt_eq]
        | succ d => simp [List.foldl_append]
      · simp [List.foldl_append]

theorem ofinish_abs (st : PState) : (finish st).bind headsCnt = ofinish (absO st) := by
  cases st with
  | lit acc => cases acc <;> simp [finish, ofinish, headsCnt, headsOf, countPositional]
  | _ => rfl

theorem oscan_abs (cs : List Char) : ∀ st : PState,
    (scan st cs).bind headsCnt = oscan (absO st) cs := by
  induction cs with
  | nil => intro st; simp only [scan, oscan]; exact ofinish_abs st
  | cons c cs ih =>
    intro st
    have hs := ostep_abs st c
    simp only [scan, oscan]
    cases h : step st c with
    | none =>
      rw [h] at hs
      simp only [Option.map_none] at hs
      rw [← hs]
      rfl
    | some p =>
      obtain ⟨of, st'⟩ := p
      rw [h] at hs
      simp only [Option.map_some] at hs
      rw [← hs]
      cases of with
      | none =>
        simp only [Option.bind_none, otally, ← ih st']
        cases (scan st' cs).bind headsCnt <;> simp [addO]
      | some f =>
        simp only [Option.bind_some, ← ih st']
        cases hsc : scan st' cs with
        | none => cases otally (fcnt f) <;> simp [addO]
        | some fs => simp [headsCnt_cons]

/-- the count of `fieldHeads`, by the automaton -/
theorem fieldHeads_count (cs : List Char) :
    (fieldHeads cs).map countPositional = oscan .lit cs := by
  have := oscan_abs cs (.lit [])
  simp only [absO_lit] at this
  rw [← this]
  unfold fieldHeads parseChars headsCnt
  cases scan (.lit []) cs <;> rfl

/-! ## backslash-n pairs -/

theorem istep_escape (a : IState) :
    istep a '\\' = none ∨ ∃ a1, istep a '\\' = some (none, a1) ∧
      (istep a1 'n' = none ∨ ∃ a2, istep a1 'n' = some (none, a2) ∧
        istep a '\n' = some (none, a2)) := by
  cases a <;> simp [istep, inameStep, NS.step_escape]

/-- a state from which no text is accepted -/
def Dead (a : OState) : Prop := ∀ cs, oscan a cs = none

theorem dead_spec_none (a : NS) (d : Nat) : Dead (.spec a d none) := by
  intro cs
  induction cs generalizing d with
  | nil => rfl
  | cons c cs ih =>
    simp only [oscan, ostep, irun]
    by_cases h1 : c = '{'
    · simp [h1, ih, addO]
    · by_cases h2 : c = '}'
      · cases d with
        | zero => simp [h2, ifin, addO, otally]
        | succ d => simp [h2, ih, addO]
      · simp [h1, h2, ih, addO]

theorem irun_escape (x : Option (IState × Nat)) :
    irun (irun x '\\') 'n' = none ∨ irun (irun x '\\') 'n' = irun x '\n' := by
  cases x with
  | none => left; rfl
  | some p =>
    obtain ⟨i, k⟩ := p
    rcases istep_escape i with h1 | ⟨i1, h1, h2 | ⟨i2, h2, h3⟩⟩
    · left; simp [irun, h1]
    · left; simp [irun, h1, h2, tally]
    · right; simp [irun, h1, h2, h3, tally]

theorem ostep_escape (a : OState) :
    ostep a '\\' = none ∨ ∃ a1, ostep a '\\' = some (none, a1) ∧
      (ostep a1 'n' = none ∨ ∃ a2, ostep a1 'n' = some (none, a2) ∧
        (Dead a2 ∨ ostep a '\n' = some (none, a2))) := by
  cases a with
  | spec a d x =>
    right
    refine ⟨.spec a d (irun x '\\'), by simp [ostep], Or.inr ⟨.spec a d (irun (irun x '\\') 'n'),
      by simp [ostep], ?_⟩⟩
    rcases irun_escape x with h | h
    · left; rw [h]; exact dead_spec_none a d
    · right; simp [ostep, h]
  | _ => simp [ostep, onameStep, NS.step_escape]

theorem oscan_unescape (cs : List Char) : ∀ (a : OState) (k : Nat),
    oscan a cs = some k → oscan a (unescape cs) = some k := by
  fun_induction unescape cs with
  | case1 rest ih =>
    intro a k h
    simp only [oscan] at h ⊢
    rcases ostep_escape a with h1 | ⟨a1, h1, h2 | ⟨a2, h2, h3 | h3⟩⟩
    · simp [h1] at h
    · simp [h1, h2, addO] at h
    · simp [h1, h2, h3 rest, addO] at h
    · simp only [h1, h2, h3, otally] at h ⊢
      cases hr : oscan a2 rest with
      | none => simp [hr, addO] at h
      | some k' =>
        simp [hr, addO] at h
        subst h
        simp [ih a2 k' hr, addO]
  | case2 c rest hne ih =>
    intro a k h
    simp only [oscan] at h ⊢
    cases hs : ostep a c with
    | none => simp [hs] at h
    | some p =>
      obtain ⟨ob, a'⟩ := p
      simp only [hs] at h ⊢
      cases hr : oscan a' rest with
      | none => cases otally ob <;> simp [hr, addO] at h
      | some k' =>
        rw [ih a' k' hr]
        rw [hr] at h
        exact h
  | case3 => intro a k h; exact h

/-- unescaping a format `field_names` accepts does not change the number of its positional
fields (the compiler counts on the text as written, the VM on the text with line breaks) -/
theorem count_unescape (cs : List Char) (hs : List Head) (h : fieldHeads cs = some hs) :
    (fieldHeads (unescape cs)).map countPositional = some (countPositional hs) := by
  have h1 : oscan .lit cs = some (countPositional hs) := by rw [← fieldHeads_count, h]; rfl
  rw [fieldHeads_count]
  exact oscan_unescape cs .lit _ h1

end Bardolph.Out
