import Bardolph.Model.Units
namespace Bardolph.Units
open Bardolph.Generated.Units

theorem C07_convert_table_agrees : convertFn = modelConvertFn := by decide
