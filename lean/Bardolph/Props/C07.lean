import Bardolph.Proofs.Rounding
/-!
# C07 — transmitted colours and durations are in protocol range and numerically exact

Theorems about `Bardolph.Units` (the model of `units.py`, `param_helper.py`, the `_as_raw_*`
paths of `machine.py` and the device wrappers).  Every numeric literal the model uses is the
value *generated from the Python source* (`Bardolph.Generated.Units`); a change of `65535.0`
into `65536.0` in one conversion, of a clamp bound, or of which helper a handler calls makes
the corresponding proof or agreement theorem fail.

Specification side (written from the property text): `hueSpec`, `pctSpec`, `msSpec` are the
documented images of degrees, percent and seconds; `Near w x` says the integer `w` is within
one half of `x`; `NearHue` identifies the hue 65535 with 0.
-/
namespace Bardolph.Units
open Bardolph.Generated.Units

/-! ## The tables of the source are the tables of the model -/

theorem C07_convert_table_agrees : convertFn = modelConvertFn := by decide

theorem C07_machine_table_agrees : machineConvertFn.all (fun e => convertFn.contains e) = true ∧
    machineConvertFn.length = 6 := by decide

theorem C07_handlers_agree : vmHandlerHelpers = modelHandlerHelpers := by decide

theorem C07_wrappers_agree : wrapperHelpers = modelWrapperHelpers ∧ paramColorHelpers = "param_16" := by
  decide

theorem C07_mode_tests_agree :
    asRawTimeModes = ["LOGICAL", "RGB"] ∧ asRawColorModes = ["RAW", "RGB"] ∧
    assureUnitsModes = ["RAW", "LOGICAL"] ∧ switchModes = ["RAW", "RAW"] ∧
    switchCalls = ["time_raw", "time_raw", "time_logical", "time_logical"] := by decide

theorem C07_indices_agree :
    [l2rHueIndex, l2rSatIndex, l2rBriIndex, l2rKelvinIndex] = [0, 1, 2, 3] ∧
    [r2lHueIndex, r2lSatIndex, r2lBriIndex, r2lKelvinIndex] = [0, 1, 2, 3] ∧
    [g2rRangeLo, g2rRangeHi, g2rKelvinIndex, g2lRangeLo, g2lRangeHi, g2lKelvinIndex] =
      [0, 3, 3, 0, 3, 3] ∧
    [r2gRangeLo, r2gRangeHi, r2gKelvinIndex] = [0, 3, 3] ∧
    [l2gHueIndex, l2gSatIndex, l2gBriIndex, l2gKelvinIndex] = [0, 1, 2, 3] := by decide

/-! ## Range: every transmitted number fits the protocol -/

/-- every field of a transmitted request is an integer the protocol can carry -/
def Wire.InRange (w : Wire) : Prop :=
  (∀ c, w.color = some c → IsU16 c.1 ∧ IsU16 c.2.1 ∧ IsU16 c.2.2.1 ∧ IsU16 c.2.2.2) ∧
  (∀ p, w.power = some p → IsU16 p) ∧ IsU32 w.duration

theorem paramColor_range (c : Color) :
    IsU16 (paramColor c).1 ∧ IsU16 (paramColor c).2.1 ∧ IsU16 (paramColor c).2.2.1 ∧
      IsU16 (paramColor c).2.2.2 :=
  ⟨param16_range _, param16_range _, param16_range _, param16_range _⟩

theorem standardizeColor_eq (c : Color) : standardizeColor c = paramColor c := by
  simp [standardizeColor, paramColor, standardize_eq_param16]

/-- **wire_range**: whatever the registers hold (any rationals), in any unit mode, every
command kind hands the device colour components and power levels in 0…65535 and a duration
in 0…2³²−1. -/
theorem C07_wire_range (kind : Kind) (r : Regs) : (emit kind r).InRange := by
  cases kind <;> simp only [emit, Wire.InRange] <;>
    refine ⟨?_, ?_, ?_⟩ <;>
    first
      | exact param32_range _
      | (intro c hc; cases hc; first | exact paramColor_range _
                                      | (rw [standardizeColor_eq]; exact paramColor_range _))
      | (intro p hp; cases hp; exact param16_range _)
      | (intro c hc; cases hc)

/-- all colour-transmitting command kinds hand over the same colour, all kinds the same
duration: there is no command path with a missing conversion or clamp -/
theorem C07_paths_agree (kind : Kind) (r : Regs) :
    (emit kind r).duration = wireDuration r ∧
    ((emit kind r).color = some (wireColor r) ∨ (emit kind r).color = none) := by
  have idem : ∀ c : Color, paramColor (intColor (paramColor c)) = paramColor c := by
    intro c
    simp [paramColor, intColor, param16_idem]
  cases kind <;> simp [emit, wireDuration, wireColor, param32_idem, idem, standardizeColor_eq]

/-! ## Exactness in logical units -/

/-- (degrees mod 360)/360·65535 -/
def hueSpec (deg : Rat) : Rat := pyMod deg 360 / 360 * 65535
/-- percent/100·65535, clamped -/
def pctSpec (pct : Rat) : Rat := clampQ 0 65535 (pct / 100 * 65535)
/-- seconds·1000, clamped -/
def msSpec (s : Rat) : Rat := clampQ 0 4294967295 (s * 1000)

/-- within one half, the hue 65535 being the same angle as 0 -/
def NearHue (w : Int) (x : Rat) : Prop := Near w x ∨ Near (w + 65535) x

theorem hue_exact (d : Rat) : NearHue (param16 (hueToRaw d)) (hueSpec d) := by
  have he := eps_val
  have hr := pyMod_range (m := 360) (by norm_num) d
  unfold hueToRaw
  simp only [l2rWrapLo, l2rWrapHi, l2rHueZero, l2rHueModulus, l2rHueDivisor, l2rHueScale]
  push_cast
  split_ifs with h
  · rw [param16_zero]
    rcases h with ⟨h1, h2⟩ | ⟨h1, h2⟩
    · by_cases h0 : 0 ≤ d
      · have : pyMod d 360 = d := pyMod_of_mem (by norm_num) h0 (by linarith)
        left
        unfold Near hueSpec
        rw [this]
        push_cast
        constructor <;> linarith
      · have : pyMod d 360 = d - ((-1 : Int) : Rat) * 360 :=
          pyMod_of_floor (by norm_num) (by push_cast; linarith) (by push_cast; linarith)
        right
        unfold Near hueSpec
        rw [this]
        push_cast
        constructor <;> linarith
    · by_cases h0 : d < 360
      · have : pyMod d 360 = d := pyMod_of_mem (by norm_num) (by linarith) h0
        right
        unfold Near hueSpec
        rw [this]
        push_cast
        constructor <;> linarith
      · have : pyMod d 360 = d - ((1 : Int) : Rat) * 360 :=
          pyMod_of_floor (by norm_num) (by push_cast; linarith) (by push_cast; linarith)
        left
        unfold Near hueSpec
        rw [this]
        push_cast
        constructor <;> linarith
  · left
    have h1 : 0 ≤ pyMod d 360 / 360 * 65535 := by
      have := hr.1
      positivity
    have h2 : pyMod d 360 / 360 * 65535 ≤ 65535 := by
      have := hr.2
      linarith
    rw [param16_of_mem h1 h2]
    exact roundHalfEven_near _

theorem pct_exact (p : Rat) : Near (param16 (pctToRaw p)) (pctSpec p) := by
  have he := eps_val
  unfold pctToRaw pctSpec
  simp only [pctZero, pctDivisor, pctScale]
  push_cast
  split_ifs with h
  · rw [param16_zero]
    obtain ⟨h1, h2⟩ := h
    by_cases h0 : 0 ≤ p
    · rw [clampQ_of_mem (by positivity) (by linarith)]
      unfold Near
      push_cast
      constructor <;> linarith
    · rw [clampQ_of_le (by norm_num) (by linarith)]
      unfold Near
      norm_num
  · exact param16_near _

/-- **logical_exact**: in logical units the transmitted hue is within one half of
(degrees mod 360)/360·65535 (65535 ≡ 0), saturation and brightness within one half of
percent/100·65535 clamped to 0…65535 — for any register contents. -/
theorem C07_logical_exact (r : Regs) (h : r.unitMode = .logical) :
    NearHue (wireColor r).1 (hueSpec r.hue) ∧
    Near (wireColor r).2.1 (pctSpec r.saturation) ∧
    Near (wireColor r).2.2.1 (pctSpec r.brightness) := by
  simp only [wireColor, asRawColor, h, Regs.getColor, paramColor, logicalToRaw]
  exact ⟨hue_exact _, pct_exact _, pct_exact _⟩

/-- durations in logical and rgb units are transmitted as seconds·1000, to the nearest
integer, clamped to 0…2³²−1 — on every command path (`C07_paths_agree`) -/
theorem C07_duration_exact (r : Regs) (h : r.unitMode ≠ .raw) :
    Near (wireDuration r) (msSpec r.duration) := by
  have : asRawTime r.unitMode r.duration = r.duration * 1000 := by
    cases hm : r.unitMode <;> simp_all [asRawTime, timeRaw, timeRawFactor]
  rw [wireDuration, this]
  exact param32_near _

/-- delays: `time t` followed by `wait` asks the clock for `t` seconds in logical and rgb
units and for `t/1000` seconds in raw units, i.e. for the same number of milliseconds
the setting denotes -/
theorem C07_delay_exact (r : Regs) (t : Rat) (ht : r.time = .num t) (hpos : 0 < t) :
    delaySeconds r = some (if r.unitMode = .raw then t / 1000 else t) := by
  simp [delaySeconds, ht, hpos]

/-! ## Pass-through of raw values and of kelvin -/

/-- **raw_passthrough**: in raw units a setting is transmitted as it is: clamped to the
protocol range and rounded, hence unchanged when it is an integer of the range -/
theorem C07_raw_passthrough (r : Regs) (h : r.unitMode = .raw) :
    wireColor r = (param16 r.hue, param16 r.saturation, param16 r.brightness, param16 r.kelvin) ∧
    wireDuration r = param32 r.duration ∧
    (∀ n : Int, IsU16 n → param16 (n : Rat) = n) ∧ (∀ n : Int, IsU32 n → param32 (n : Rat) = n) := by
  refine ⟨?_, ?_, fun n hn => param16_int hn, fun n hn => param32_int hn⟩
  · simp [wireColor, asRawColor, h, Regs.getColor, paramColor]
  · simp [wireDuration, asRawTime, h]

theorem asRawColor_kelvin (r : Regs) : (asRawColor r).k = r.kelvin := by
  cases hm : r.unitMode <;>
    simp [asRawColor, hm, Regs.getColor, logicalToRaw, rgbToRaw]

/-- **kelvin_passthrough**: in every unit mode kelvin is transmitted unscaled: clamped to
0…65535 and rounded, hence unchanged when it is an integer of the range -/
theorem C07_kelvin_passthrough (r : Regs) :
    (wireColor r).2.2.2 = param16 r.kelvin ∧
    (∀ n : Int, IsU16 n → r.kelvin = (n : Rat) → (wireColor r).2.2.2 = n) := by
  have : (wireColor r).2.2.2 = param16 r.kelvin := by
    simp [wireColor, paramColor, asRawColor_kelvin]
  exact ⟨this, fun n hn hk => by rw [this, hk, param16_int hn]⟩

/-! ## A raw colour read from a light survives the trip through logical units -/

/-- percent → raw undoes raw → percent on the integers of the range -/
theorem pct_back (n : Int) (hn : IsU16 n) :
    param16 (pctToRaw (rmax (if (65535 : Rat) ≤ (n : Rat) then 100 else (n : Rat) / 65535 * 100) 0)) = n := by
  have he := eps_val
  have h0 : (0 : Rat) ≤ (n : Rat) := by exact_mod_cast hn.1
  have h1 : (n : Rat) ≤ 65535 := by exact_mod_cast hn.2
  have full : param16 (pctToRaw 100) = 65535 := by
    unfold pctToRaw
    simp only [pctZero, pctDivisor, pctScale]
    push_cast
    split_ifs with h
    · rw [he] at h; linarith [h.2]
    · have := param16_int (n := 65535) ⟨by norm_num, by norm_num⟩
      norm_num
      simpa using this
  split_ifs with hc
  · have hn' : n = 65535 := by
      have : (65535 : Int) ≤ n := by exact_mod_cast hc
      have := hn.2
      omega
    rw [rmax_zero_of_nonneg (by norm_num), full, hn']
  · have hv : (0 : Rat) ≤ (n : Rat) / 65535 * 100 := by positivity
    rw [rmax_zero_of_nonneg hv]
    unfold pctToRaw
    simp only [pctZero, pctDivisor, pctScale]
    push_cast
    split_ifs with h
    · -- so small that it must be 0
      have hlt := h.2
      rw [he] at hlt
      have : n = 0 := by
        by_contra hne
        have hn1 : (1 : Rat) ≤ (n : Rat) := by
          have : (1 : Int) ≤ n := by have := hn.1; omega
          exact_mod_cast this
        have : (1 : Rat) / 65535 * 100 ≤ (n : Rat) / 65535 * 100 := by
          have := div_le_div_of_nonneg_right hn1 (show (0 : Rat) ≤ 65535 by norm_num)
          linarith
        norm_num at this
        linarith
      rw [this]
      exact param16_zero
    · have e : (n : Rat) / 65535 * 100 / 100 * 65535 = (n : Rat) := by field_simp
      rw [e]
      exact param16_int hn

/-- degrees → raw undoes raw → degrees on the integers of the range, 65535 becoming 0 -/
theorem hue_back (x : Int) (hx : IsU16 x) :
    param16 (hueToRaw (rmax ((x : Rat) / 65535 * 360) 0)) = if x = 65535 then 0 else x := by
  have he := eps_val
  have h0 : (0 : Rat) ≤ (x : Rat) := by exact_mod_cast hx.1
  have h1 : (x : Rat) ≤ 65535 := by exact_mod_cast hx.2
  have hv : (0 : Rat) ≤ (x : Rat) / 65535 * 360 := by positivity
  rw [rmax_zero_of_nonneg hv]
  unfold hueToRaw
  simp only [l2rWrapLo, l2rWrapHi, l2rHueZero, l2rHueModulus, l2rHueDivisor, l2rHueScale]
  push_cast
  rw [he]
  by_cases hx0 : x = 0
  · subst hx0
    norm_num
    exact param16_zero
  by_cases hx1 : x = 65535
  · subst hx1
    norm_num
    exact param16_zero
  · have hn1 : (1 : Rat) ≤ (x : Rat) := by
      have : (1 : Int) ≤ x := by have := hx.1; omega
      exact_mod_cast this
    have hn2 : (x : Rat) ≤ 65534 := by
      have : x ≤ 65534 := by have := hx.2; omega
      exact_mod_cast this
    have hlo : (1 : Rat) / 65535 * 360 ≤ (x : Rat) / 65535 * 360 := by
      have := div_le_div_of_nonneg_right hn1 (show (0 : Rat) ≤ 65535 by norm_num)
      linarith
    have hhi : (x : Rat) / 65535 * 360 ≤ (65534 : Rat) / 65535 * 360 := by
      have := div_le_div_of_nonneg_right hn2 (show (0 : Rat) ≤ 65535 by norm_num)
      linarith
    norm_num at hlo hhi
    split_ifs with h
    · exfalso
      rcases h with ⟨_, h⟩ | ⟨h, _⟩ <;> linarith
    · have hm : pyMod ((x : Rat) / 65535 * 360) 360 = (x : Rat) / 65535 * 360 :=
        pyMod_of_mem (by norm_num) hv (by linarith)
      rw [hm]
      have e : (x : Rat) / 65535 * 360 / 360 * 65535 = (x : Rat) := by field_simp
      rw [e]
      exact param16_int hx

/-- **raw_logical_raw**: for every integer raw value `0 ≤ x ≤ 65535` in the three colour
components (and any integer kelvin of the range), the colour `_assure_units` puts into the
registers in logical units is transmitted again as the same integers, hue 65535 becoming 0
(the same angle).  By algebra over ℚ, not by enumeration. -/
theorem C07_raw_logical_raw (x y z k : Int) (hx : IsU16 x) (hy : IsU16 y) (hz : IsU16 z)
    (hk : IsU16 k) :
    paramColor (logicalToRaw (assureUnits .logical ⟨x, y, z, k⟩)) =
      (if x = 65535 then 0 else x, y, z, k) := by
  have hkel : param16 (rmax (k : Rat) 0) = k := by
    have h0 : (0 : Rat) ≤ (k : Rat) := by exact_mod_cast hk.1
    rw [rmax_zero_of_nonneg h0]
    exact param16_int hk
  have e : paramColor (logicalToRaw (assureUnits .logical ⟨x, y, z, k⟩)) =
      (param16 (hueToRaw (rmax ((x : Rat) / 65535 * 360) 0)),
       param16 (pctToRaw (rmax (if (65535 : Rat) ≤ (y : Rat) then 100 else (y : Rat) / 65535 * 100) 0)),
       param16 (pctToRaw (rmax (if (65535 : Rat) ≤ (z : Rat) then 100 else (z : Rat) / 65535 * 100) 0)),
       param16 (rmax (k : Rat) 0)) := rfl
  rw [e, hue_back x hx, pct_back y hy, pct_back z hz, hkel]

/-! ## rgb percentages are sent as the HSB of the same colour -/

/-- the exact (not yet rounded) hue, saturation, brightness `rgb_to_raw` computes -/
def rgbToRawExact (c : Color) : Rat × Rat × Rat :=
  let hsv := rgbToHsv (rgbFraction g2rFloor g2rDivisor c.c0) (rgbFraction g2rFloor g2rDivisor c.c1)
    (rgbFraction g2rFloor g2rDivisor c.c2)
  (hsv.1 * 65535, hsv.2.1 * 65535, hsv.2.2 * 65535)

theorem rgbFraction_of_nonneg {p : Rat} (h : 0 ≤ p) : rgbFraction g2rFloor g2rDivisor p = p / 100 := by
  unfold rgbFraction rmax
  simp only [g2rFloor, g2rDivisor]
  push_cast
  rw [if_pos (by positivity)]

/-- **rgb_same_colour** (colorsys): `hsv_to_rgb ∘ rgb_to_hsv` is the identity on
non-negative triples, in particular on `[0,1]³`. -/
theorem C07_rgb_same_colour (r g b : Rat) (hr : 0 ≤ r) (hg : 0 ≤ g) (hb : 0 ≤ b) :
    hsvToRgb (rgbToHsv r g b).1 (rgbToHsv r g b).2.1 (rgbToHsv r g b).2.2 = (r, g, b) :=
  hsvToRgb_rgbToHsv r g b hr hg hb

/-- **rgb_same_colour**, as transmitted: for red, green, blue percentages in 0…100 the hue,
saturation and brightness computed by `rgb_to_raw` denote exactly the colour
(red/100, green/100, blue/100); each lies in 0…65535 (hue below 65535) and is transmitted
rounded to the nearest integer. -/
theorem C07_rgb_exact (r : Regs) (h : r.unitMode = .rgb)
    (hr : 0 ≤ r.red) (hg : 0 ≤ r.green) (hb : 0 ≤ r.blue)
    (hr1 : r.red ≤ 100) (hg1 : r.green ≤ 100) (hb1 : r.blue ≤ 100) :
    let e := rgbToRawExact r.getColor
    colourOfHsb e.1 e.2.1 e.2.2 = (r.red / 100, r.green / 100, r.blue / 100) ∧
    (0 ≤ e.1 ∧ e.1 < 65535 ∧ 0 ≤ e.2.1 ∧ e.2.1 ≤ 65535 ∧ 0 ≤ e.2.2 ∧ e.2.2 ≤ 65535) ∧
    Near (wireColor r).1 e.1 ∧ Near (wireColor r).2.1 e.2.1 ∧ Near (wireColor r).2.2.1 e.2.2 := by
  have f0 := rgbFraction_of_nonneg hr
  have f1 := rgbFraction_of_nonneg hg
  have f2 := rgbFraction_of_nonneg hb
  have n0 : 0 ≤ r.red / 100 := by positivity
  have n1 : 0 ≤ r.green / 100 := by positivity
  have n2 : 0 ≤ r.blue / 100 := by positivity
  have rt := hsvToRgb_rgbToHsv _ _ _ n0 n1 n2
  obtain ⟨a1, a2, a3, a4, a5⟩ := rgbToHsv_range _ _ _ n0 n1 n2
  have hv := rgbToHsv_value (r.red / 100) (r.green / 100) (r.blue / 100)
  have v1 : (rgbToHsv (r.red / 100) (r.green / 100) (r.blue / 100)).2.2 ≤ 1 := by
    rw [hv]
    unfold rmax
    split_ifs <;> linarith
  simp only [Regs.getColor, h, if_true, rgbToRawExact, f0, f1, f2, colourOfHsb]
  refine ⟨?_, ⟨by positivity, by linarith, by positivity, by linarith, by positivity, by linarith⟩, ?_⟩
  · have e : ∀ q : Rat, q * 65535 / 65535 = q := fun q => by field_simp
    rw [e, e, e]
    exact rt
  · have mk : ∀ q : Rat, 0 ≤ q → q ≤ 1 → Near (param16 (makeRaw q)) (q * 65535) := by
      intro q q0 q1
      unfold makeRaw
      simp only [g2rLo, g2rScale, g2rHi]
      push_cast
      have hc : clampQ 0 65535 (q * 65535) = q * 65535 :=
        clampQ_of_mem (by positivity) (by linarith)
      have : rmax 0 (rmin (q * 65535) 65535) = q * 65535 := hc
      rw [this]
      have hb := int_bounds_of_near (lo := 0) (hi := 65535) (roundHalfEven_near (q * 65535))
        (by push_cast; positivity) (by push_cast; linarith)
      rw [param16_int ⟨hb.1, hb.2⟩]
      exact roundHalfEven_near _
    simp only [wireColor, asRawColor, h, Regs.getColor, if_true, rgbToRaw, paramColor, f0, f1, f2]
    exact ⟨mk _ a1 a2.le, mk _ a3 a4, mk _ a5 v1⟩

/-! ## Non-vacuity: concrete values the theorems speak about -/

/-- `hue 120 saturation 50 brightness 25.5 kelvin 2700.5 duration 2`, logical units -/
def sampleLogical : Regs :=
  ⟨120, 50, 51 / 2, 5401 / 2, 0, 0, 0, 2, .num 3, true, .logical⟩

example : emit .light sampleLogical = ⟨some (21845, 32768, 16711, 2700), none, 2000⟩ := by decide +kernel
example : emit .powerGroup sampleLogical = ⟨none, some 65535, 2000⟩ := by decide +kernel
example : wireColor { sampleLogical with hue := -30, saturation := 150 } = (60074, 65535, 16711, 2700) := by
  decide +kernel
example : wireColor { sampleLogical with unitMode := .rgb, red := 10, green := 20, blue := 30 } =
    (38229, 43690, 19660, 2700) := by decide +kernel
example : paramColor (logicalToRaw (assureUnits .logical ⟨65535, 12345, 1, 3500⟩)) =
    (0, 12345, 1, 3500) := by decide +kernel
example : IsU16 65535 ∧ IsU32 4294967295 := by unfold IsU16 IsU32; decide

end Bardolph.Units
