import Bardolph.Model.Gen
import Bardolph.Model.Sem
import Bardolph.Model.Loader
/-!
# C01 — running a script issues exactly the commands, waits and output its source says

Model pieces: `Sem` (source-level semantics, the specification), `Gen` (mirror of the parser's
code generation), `Loader`, `Vm`.  The tie of `Gen`/`Vm` to the code is the correspondence run
by `harness/c01.py` on every run; `Sem` is compared with the REAL execution there as the oracle.
-/
namespace Bardolph
open Vm Gen

/-! ## `and` lists share a single delay -/

/-- number of `WAIT` instructions in a piece of generated code -/
def countWait : Gen.Code → Nat
  | [] => 0
  | .i .wait :: rest => countWait rest + 1
  | _ :: rest => countWait rest

theorem countWait_append (a b : Gen.Code) : countWait (a ++ b) = countWait a + countWait b := by
  induction a with
  | nil => simp [countWait]
  | cons x xs ih =>
    cases x with
    | brk => simp [countWait, ih]
    | i ins => cases ins <;> simp [countWait, ih] <;> omega

theorem countWait_ins (xs : List Instr) (h : ∀ x ∈ xs, x ≠ .wait) : countWait (Gen.ins xs) = 0 := by
  induction xs with
  | nil => rfl
  | cons x xs ih =>
    have hx := h x (by simp)
    have := ih (fun y hy => h y (by simp [hy]))
    cases x <;> simp_all [Gen.ins, countWait]

/-- operands that are plain lights, groups or locations (no zone range, no matrix) -/
inductive PlainOperands : Operands → Prop
  | nil : PlainOperands .nil
  | light (n rest) : PlainOperands rest → PlainOperands (.cons (.light n) rest)
  | group (n rest) : PlainOperands rest → PlainOperands (.cons (.group n) rest)
  | location (n rest) : PlainOperands rest → PlainOperands (.cons (.location n) rest)

theorem genName_ne_wait (n : NameSpec) : Gen.genName n ≠ .wait := by cases n <;> simp [Gen.genName]
theorem opcodeOf_ne_wait (k : ActKind) : Gen.opcodeOf k ≠ .wait := by cases k <;> simp [Gen.opcodeOf]

theorem operands_no_wait (k : ActKind) (ops : Operands) (h : PlainOperands ops) :
    countWait (Gen.genOperands k ops) = 0 := by
  induction h with
  | nil => simp [Gen.genOperands, countWait]
  | light n rest _ ih =>
    simp only [Gen.genOperands, Gen.genOperand, countWait_append, ih]
    rw [countWait_ins, countWait_ins] <;> simp [genName_ne_wait, opcodeOf_ne_wait]
  | group n rest _ ih =>
    simp only [Gen.genOperands, Gen.genOperand, countWait_append, ih]
    rw [countWait_ins, countWait_ins] <;> simp [genName_ne_wait, opcodeOf_ne_wait]
  | location n rest _ ih =>
    simp only [Gen.genOperands, Gen.genOperand, countWait_append, ih]
    rw [countWait_ins, countWait_ins] <;> simp [genName_ne_wait, opcodeOf_ne_wait]

/-- **and_single_wait.**  The code of `set|on|off t₁ and … and tₙ` (any number of lights,
groups and locations) contains exactly one `WAIT`: the delay is requested once for the whole
statement, not once per operand. -/
theorem C01_and_single_wait (k : ActKind) (ops : Operands) (h : PlainOperands ops) :
    countWait (Gen.genStmt (.action k true ops)) = 1 := by
  simp only [Gen.genStmt, countWait_append, operands_no_wait k ops h]
  cases k <;> simp [Gen.ins, countWait]

/-- the same statement written inside a matrix block has no `WAIT` of its own: the block is one
command on the time line (`parse.py: _action`) -/
theorem C01_no_wait_in_matrix (k : ActKind) (ops : Operands) (h : PlainOperands ops) :
    countWait (Gen.genStmt (.action k false ops)) = 0 := by
  simp only [Gen.genStmt, countWait_append, operands_no_wait k ops h]
  cases k <;> simp [Gen.ins, countWait]

/-! ## a group or location command is the same command on every member -/

theorem sendColor_trace (s : State) (n : String) (raw : List Val) (dur : Val) (c : List Int) (d : Int)
    (hc : wireColor raw = some c) (hd : wire32 dur = some d) :
    (s.sendColor n raw dur).trace = .setColor n c d :: s.trace ∧
    (s.sendColor n raw dur).status = s.status := by
  simp [State.sendColor, hc, hd, State.emit, State.updLight]

/-- **group_fanout.**  Sending a colour to the members `names` of a group or location emits,
in member order, one `set_color` per member, all with the identical wire colour and duration —
exactly what the same command on each member alone emits. -/
theorem C01_group_fanout (names : List String) (raw : List Val) (dur : Val) (c : List Int) (d : Int)
    (hc : wireColor raw = some c) (hd : wire32 dur = some d) (s : State) (hs : s.status = .running) :
    let s' := names.foldl (fun st n => if st.status == .running then st.sendColor n raw dur else st) s
    s'.trace = (names.map fun n => Event.setColor n c d).reverse ++ s.trace ∧ s'.status = .running := by
  induction names generalizing s with
  | nil => simp [hs]
  | cons n rest ih =>
    have h1 := sendColor_trace s n raw dur c d hc hd
    have hs1 : (s.sendColor n raw dur).status = .running := by rw [h1.2, hs]
    have := ih (s.sendColor n raw dur) hs1
    simp only [List.foldl_cons, hs, beq_self_eq_true, ↓reduceIte]
    simp only at this
    rw [this.1, h1.1]
    exact ⟨by simp, this.2⟩

end Bardolph
