import Bardolph.Model.Faults
/-!
# C12 — device faults and wrong-type targets never abort a script or disturb others

Property theorems about `Bardolph.Faults` (the model of `retry.py`, of the device wrappers
with their `@tries` decorators, of the VM handlers' missing-name and capability tests, of
`Machine.run`'s catch-all and of `LifxLanApi.get_lights` / `LightSet.discover`).  The
decorator table and `_MAX_TRIES` are the values *generated from the Python source*
(`Generated.Retry`): removing a decorator, or raising `_MAX_TRIES` above three, makes
`handlers_decorated` / `maxTries_le_three` — and everything that rests on them — fail.

* `C12_attempts_le_max`, `C12_attempts_le_three` — bounded retry, any fault script;
* `C12_handler_total`, `C12_command_total`, `C12_script_completes` — nothing raises;
* `C12_fault_containment` (+ `_single`, `C12_healthy_like_fault_free`) — what reaches `B`
  depends on `B`'s own faults only, for whole scripts without `get`;
  `C12_get_carries_faults_across` — and not so with `get`;
* `C12_discover_total`, `C12_discover_never_raises` — discovery ends `ok` or `failed`, a
  failed one leaves the directory as it was;
* `C12_pinned_*` — the defects of the pinned tree as witnesses on the model.
-/
namespace Bardolph.Faults
open Bardolph.Generated

/-! ## Bounded retry -/

theorem attempt_events (l m : String) (p : Nat) (w : World) :
    (attempt l m p w).2.events = w.events ++ [⟨l, m, p, (attempt l m p w).1⟩] := rfl

/-- what `tries n` puts on the wire -/
theorem tries_spec (n : Nat) (l m : String) (p : Nat) (w : World) :
    ∃ es, (tries n l m p w).2.events = w.events ++ es ∧ es.length ≤ n ∧
      (∀ e ∈ es, e.label = l ∧ e.meth = m ∧ e.payload = p) ∧
      ((tries n l m p w).1 = false → es.length = n ∧ ∀ e ∈ es, e.failed = true) ∧
      ((tries n l m p w).1 = true →
        ∃ pre, es = pre ++ [⟨l, m, p, false⟩] ∧ ∀ e ∈ pre, e.failed = true) := by
  induction n generalizing w with
  | zero => exact ⟨[], by simp [tries]⟩
  | succ n ih =>
    unfold tries
    cases h : (attempt l m p w).1 with
    | false =>
      have hw : attempt l m p w = (false, (attempt l m p w).2) := by rw [← h]
      rw [hw]
      refine ⟨[⟨l, m, p, false⟩], ?_, by simp, by simp, by simp, ?_⟩
      · simp [attempt_events, h]
      · intro _; exact ⟨[], by simp⟩
    | true =>
      have hw : attempt l m p w = (true, (attempt l m p w).2) := by rw [← h]
      rw [hw]
      obtain ⟨es, he, hl, hall, hf, ht⟩ := ih (attempt l m p w).2
      refine ⟨⟨l, m, p, true⟩ :: es, ?_, by simp; omega, ?_, ?_, ?_⟩
      · simp [he, attempt_events, h]
      · intro e hm
        rcases List.mem_cons.1 hm with rfl | hm
        · simp
        · exact hall e hm
      · intro hr
        obtain ⟨h1, h2⟩ := hf hr
        refine ⟨by simp [h1], ?_⟩
        intro e hm
        rcases List.mem_cons.1 hm with rfl | hm
        · rfl
        · exact h2 e hm
      · intro hr
        obtain ⟨pre, h1, h2⟩ := ht hr
        refine ⟨⟨l, m, p, true⟩ :: pre, by simp [h1], ?_⟩
        intro e hm
        rcases List.mem_cons.1 hm with rfl | hm
        · rfl
        · exact h2 e hm


/-- every `@tries` decorator in the wrappers uses `_MAX_TRIES` (a `decide` over the table
regenerated from the source) -/
theorem decorated_use_maxTries : ∀ e ∈ Retry.decorated, e.2.2.1 = Retry.maxTries := by decide

/-- the property text says "at most three times" -/
theorem maxTries_le_three : Retry.maxTries ≤ 3 := by decide

theorem retryOf_eq_maxTries {cls meth : String} {n : Nat} (h : retryOf cls meth = some n) :
    n = Retry.maxTries := by
  unfold retryOf at h
  cases hf : Retry.decorated.find? (fun e => e.1 == cls && e.2.1 == meth) with
  | none => simp [hf] at h
  | some e =>
    simp [hf] at h
    rw [← h]
    exact decorated_use_maxTries e (List.mem_of_find?_eq_some hf)

/--
**C12, bounded retry.**  A call of any `@tries`-decorated wrapper method (`retryOf` finds the
decorator in the table generated from the source), against *any* fault script — `w.faults` is
arbitrary, sequences of any length, or failing for ever —

* never raises: it returns a value (`b = true`: the device's answer, `b = false`: the fail
  value) and the caller continues;
* puts at most `Generated.Retry.maxTries ≤ 3` attempts on the wire, all of them the same
  request to the same device;
* returns the fail value exactly when it made `maxTries` attempts and every one failed; if it
  returns the answer, the last attempt is the only one that succeeded.
-/
theorem C12_attempts_le_max (r : Req) (w : World) (hdec : (retryOf r.cls r.meth).isSome) :
    ∃ (b : Bool) (es : List Event),
      (request r w).1 = .val b ∧ (request r w).2.events = w.events ++ es ∧
      es.length ≤ Retry.maxTries ∧ Retry.maxTries ≤ 3 ∧
      (∀ e ∈ es, e.label = r.label ∧ e.meth = r.net ∧ e.payload = r.payload) ∧
      (b = false → es.length = Retry.maxTries ∧ ∀ e ∈ es, e.failed = true) ∧
      (b = true → ∃ pre, es = pre ++ [⟨r.label, r.net, r.payload, false⟩] ∧
        ∀ e ∈ pre, e.failed = true) := by
  cases hn : retryOf r.cls r.meth with
  | none => simp [hn] at hdec
  | some n =>
    have hmax := retryOf_eq_maxTries hn
    subst hmax
    obtain ⟨es, he, hl, hall, hf, ht⟩ := tries_spec Retry.maxTries r.label r.net r.payload w
    refine ⟨(tries Retry.maxTries r.label r.net r.payload w).1, es, ?_, ?_, hl,
      maxTries_le_three, hall, hf, ht⟩
    · simp [request, hn]
    · simp [request, hn, he]

/-- the bound in the words of the property: whatever the fault script, a request is attempted
at most three times -/
theorem C12_attempts_le_three (r : Req) (w : World) (hdec : (retryOf r.cls r.meth).isSome) :
    (request r w).2.events.length ≤ w.events.length + 3 := by
  obtain ⟨b, es, _, he, hl, h3, _⟩ := C12_attempts_le_max r w hdec
  rw [he, List.length_append]
  omega

/-- non-vacuity: a device that never answers gets exactly three attempts, then the caller
continues with the fail value; one that answers the third time gets three and the value -/
def quietWorld : World := ⟨fun _ _ => Oracle.quiet, fun _ => 0, []⟩
def silent (l : String) : World :=
  ⟨fun l' _ => if l' = l then ⟨[], true⟩ else Oracle.quiet, fun _ => 0, []⟩
def scripted (l m : String) (bs : List Bool) : World :=
  ⟨fun l' m' => if l' = l ∧ m' = m then ⟨bs, false⟩ else Oracle.quiet, fun _ => 0, []⟩

example : (request ⟨"Light", "set_color", "A", "set_color", 7⟩ (silent "A")).2.events.map (·.failed)
    = [true, true, true] := by decide
example : (request ⟨"Light", "set_color", "A", "set_color", 7⟩
    (scripted "A" "set_color" [true, true, false, true])).2.events.map (·.failed)
    = [true, true, false] := by decide
example : (request ⟨"Light", "set_color", "A", "set_color", 7⟩
    (scripted "A" "set_color" [true, true, true, false])).2.events.map (·.failed)
    = [true, true, true] := by decide
example : (retryOf "Light" "set_color").isSome := by decide


/-! ## No handler raises -/

/-- a step that cannot raise: a call of a decorated wrapper method -/
def Step.Safe : Step → Prop
  | .req r => (retryOf r.cls r.meth).isSome = true
  | .raise _ => False

theorem request_val {r : Req} (w : World) (h : (retryOf r.cls r.meth).isSome = true) :
    ∃ b, (request r w).1 = .val b := by
  obtain ⟨b, _, hb, _⟩ := C12_attempts_le_max r w h
  exact ⟨b, hb⟩

theorem execSteps_safe (steps : List Step) (w : World) (h : ∀ s ∈ steps, s.Safe) :
    (execSteps steps w).1 = .val () := by
  induction steps generalizing w with
  | nil => rfl
  | cons s rest ih =>
    cases s with
    | raise e => exact absurd (h _ (List.mem_cons_self)) (by simp [Step.Safe])
    | req r =>
      have hs : (retryOf r.cls r.meth).isSome = true := h (.req r) (List.mem_cons_self)
      obtain ⟨b, hb⟩ := request_val w hs
      have hr : request r w = (.val b, (request r w).2) := by rw [← hb]
      unfold execSteps
      rw [hr]
      exact ih _ (fun s hm => h s (List.mem_cons_of_mem _ hm))

/-- the decorators the handlers rely on are present in the source (a `decide` over the
generated table; removing one of them from the Python source breaks this) -/
theorem handlers_decorated :
    (retryOf "Light" "set_color").isSome = true ∧ (retryOf "Light" "set_power").isSome = true ∧
    (retryOf "Light" "get_color").isSome = true ∧
    (retryOf "MultizoneLight" "set_zone_colors").isSome = true ∧
    (retryOf "MatrixLight" "set_matrix").isSome = true ∧
    (retryOf "LifxLanApi" "set_color_all_lights").isSome = true ∧
    (retryOf "LifxLanApi" "set_power_all_lights").isSome = true := by decide

theorem colorLightSteps_safe (t : Option Dev) (p : Nat) : ∀ s ∈ colorLightSteps t p, s.Safe := by
  intro s hs
  cases t with
  | none => simp [colorLightSteps] at hs
  | some d =>
    have := handlers_decorated.1
    cases hk : d.kind <;> simp [colorLightSteps, callSteps, hasMethod, defClass, hk] at hs <;>
      subst hs <;> simpa [Step.Safe] using this

theorem powerLightSteps_safe (t : Option Dev) (p : Nat) : ∀ s ∈ powerLightSteps t p, s.Safe := by
  intro s hs
  cases t with
  | none => simp [powerLightSteps] at hs
  | some d =>
    have := handlers_decorated.2.1
    cases hk : d.kind <;> simp [powerLightSteps, callSteps, hasMethod, defClass, hk] at hs <;>
      subst hs <;> simpa [Step.Safe] using this

theorem colorMzSteps_safe (t : Option Dev) (p : Nat) : ∀ s ∈ colorMzSteps t p, s.Safe := by
  intro s hs
  cases t with
  | none => simp [colorMzSteps] at hs
  | some d =>
    have := handlers_decorated.2.2.2.1
    cases hk : d.kind <;> simp [colorMzSteps, callSteps, hasMethod, defClass, hk] at hs <;>
      subst hs <;> simpa [Step.Safe] using this

theorem colorMatrixLightSteps_safe (t : Option Dev) (p : Nat) :
    ∀ s ∈ colorMatrixLightSteps t p, s.Safe := by
  intro s hs
  cases t with
  | none => simp [colorMatrixLightSteps] at hs
  | some d =>
    have := handlers_decorated.2.2.2.2.1
    cases hk : d.kind <;> simp [colorMatrixLightSteps, callSteps, hasMethod, defClass, hk] at hs <;>
      subst hs <;> simpa [Step.Safe] using this

theorem groupSteps_safe (members : List Dev) (meth : String) (p : Nat)
    (hm : meth = "set_color" ∨ meth = "set_power") : ∀ s ∈ groupSteps members meth p, s.Safe := by
  intro s hs
  simp only [groupSteps, List.mem_flatMap] at hs
  obtain ⟨d, _, hs⟩ := hs
  have h1 := handlers_decorated.1
  have h2 := handlers_decorated.2.1
  rcases hm with rfl | rfl <;> cases hk : d.kind <;>
    simp [callSteps, hasMethod, defClass, hk] at hs <;> subst hs <;>
    first | simpa [Step.Safe] using h1 | simpa [Step.Safe] using h2

theorem allSteps_safe (meth : String) (p : Nat)
    (hm : meth = "set_color_all_lights" ∨ meth = "set_power_all_lights") :
    ∀ s ∈ allSteps meth p, s.Safe := by
  intro s hs
  have h1 := handlers_decorated.2.2.2.2.2.1
  have h2 := handlers_decorated.2.2.2.2.2.2
  rcases hm with rfl | rfl <;> simp [allSteps] at hs <;> subst hs <;>
    first | simpa [Step.Safe] using h1 | simpa [Step.Safe] using h2

theorem stepsOf_safe (dir : Dir) (reg : Nat) (c : Cmd) : ∀ s ∈ stepsOf dir reg c, s.Safe := by
  cases c <;> simp only [stepsOf]
  case reg => simp
  case matrix => simp
  case get => simp
  case colorAll => exact allSteps_safe _ _ (Or.inl rfl)
  case powerAll => exact allSteps_safe _ _ (Or.inr rfl)
  case colorLight => exact colorLightSteps_safe _ _
  case powerLight => exact powerLightSteps_safe _ _
  case colorZone => exact colorMzSteps_safe _ _
  case colorMatrixLight => exact colorMatrixLightSteps_safe _ _
  case colorGroup => exact groupSteps_safe _ _ _ (Or.inl rfl)
  case colorLocation => exact groupSteps_safe _ _ _ (Or.inl rfl)
  case powerGroup => exact groupSteps_safe _ _ _ (Or.inr rfl)
  case powerLocation => exact groupSteps_safe _ _ _ (Or.inr rfl)

theorem getReq_decorated {t : Option Dev} {r : Req} (h : getReq t = some r) :
    (retryOf r.cls r.meth).isSome = true := by
  cases t with
  | none => simp [getReq] at h
  | some d =>
    simp only [getReq] at h
    split at h
    · simp at h; subst h; exact handlers_decorated.2.2.1
    · simp at h

/--
**C12, handlers are total.**  For every kind of single-target handler, for a target that is
absent (`none`: unknown name) or present with *any* class of light (plain, multizone, matrix —
so every capability mismatch is included), any register contents and any fault script, the
handler's outcome is a value, never `raised`.
-/
theorem C12_handler_total (op : OperandKind) (t : Option Dev) (reg : Nat) (w : World) :
    (handler op t reg w).1 = .val () := by
  cases op <;> simp only [handler]
  case colorLight => exact execSteps_safe _ _ (colorLightSteps_safe _ _)
  case colorZone => exact execSteps_safe _ _ (colorMzSteps_safe _ _)
  case colorMatrixLight => exact execSteps_safe _ _ (colorMatrixLightSteps_safe _ _)
  case powerLight => exact execSteps_safe _ _ (powerLightSteps_safe _ _)
  case getColor =>
    cases hg : getReq t with
    | none => rfl
    | some r =>
      obtain ⟨b, hb⟩ := request_val w (getReq_decorated hg)
      have hr : request r w = (.val b, (request r w).2) := by rw [← hb]
      simp only []
      rw [hr]

/-- the same for every command of a script, in any directory (group, location and
all-lights commands included) -/
theorem C12_command_total (dir : Dir) (c : Cmd) (reg : Nat) (w : World) :
    (step dir c reg w).1 = .val () := by
  cases c
  case reg => rfl
  case get n =>
    simp only [step]
    cases hg : getReq (dir.find n) with
    | none => rfl
    | some r =>
      obtain ⟨b, hb⟩ := request_val w (getReq_decorated hg)
      have hr : request r w = (.val b, (request r w).2) := by rw [← hb]
      simp only []
      rw [hr]
      cases b <;> rfl
  all_goals exact execSteps_safe _ _ (stepsOf_safe _ _ _)

/-- hence `Machine.run`'s catch-all is never reached: every script of light commands runs to
its last command, whatever the directory, the names, the kinds and the fault script -/
theorem C12_script_completes (dir : Dir) (cs : List Cmd) (reg : Nat) (w : World) :
    (run dir cs reg w).1 = .completed := by
  unfold run
  generalize 0 = i
  induction cs generalizing i reg w with
  | nil => rfl
  | cons c cs ih =>
    have h := C12_command_total dir c reg w
    have hr : step dir c reg w = (.val (), (step dir c reg w).2.1, (step dir c reg w).2.2) := by
      rw [← h]
    unfold runFrom
    rw [hr]
    exact ih _ _ _

/-- the defect of the pinned tree, on the model: without the class test a row/column command
addressed to a plain bulb raises `AttributeError`, which `Machine.run` turns into an abort -/
theorem C12_pinned_matrix_light_raises :
    (execSteps (colorMatrixLightStepsPinned (some ⟨"Top", .plain, "g", "l"⟩) 0) quietWorld).1
      = .exc .attribute := by decide


/-! ## Containment: what reaches `B` depends on `B`'s own fault script only -/

/-- two networks look the same from label `B`: same fault script for `B`, same attempts
addressed to `B` so far -/
def SameAt (B : String) (w w' : World) : Prop :=
  (∀ m, w.faults B m = w'.faults B m) ∧ eventsAt B w = eventsAt B w'

theorem SameAt.refl (B : String) (w : World) : SameAt B w w := ⟨fun _ => rfl, rfl⟩

theorem SameAt.symm {B : String} {w w' : World} (h : SameAt B w w') : SameAt B w' w :=
  ⟨fun m => (h.1 m).symm, h.2.symm⟩

theorem SameAt.trans {B : String} {a b c : World} (h : SameAt B a b) (h' : SameAt B b c) :
    SameAt B a c := ⟨fun m => (h.1 m).trans (h'.1 m), h.2.trans h'.2⟩

/-- an attempt addressed elsewhere is invisible from `B` -/
theorem attempt_other {B l : String} (hl : l ≠ B) (m : String) (p : Nat) (w : World) :
    SameAt B (attempt l m p w).2 w := by
  constructor
  · intro m'
    have : ¬ (B = l ∧ m' = m) := fun h => hl h.1.symm
    simp [attempt, this]
  · simp [eventsAt, attempt, List.filter_append, hl]

theorem tries_other {B l : String} (hl : l ≠ B) (n : Nat) (m : String) (p : Nat) (w : World) :
    SameAt B (tries n l m p w).2 w := by
  induction n generalizing w with
  | zero => exact SameAt.refl _ _
  | succ n ih =>
    unfold tries
    cases h : (attempt l m p w).1 with
    | false =>
      have hw : attempt l m p w = (false, (attempt l m p w).2) := by rw [← h]
      rw [hw]; exact attempt_other hl m p w
    | true =>
      have hw : attempt l m p w = (true, (attempt l m p w).2) := by rw [← h]
      rw [hw]; exact (ih _).trans (attempt_other hl m p w)

/-- an attempt addressed to `B` has the same outcome and leaves the same view -/
theorem attempt_same {B : String} {w w' : World} (h : SameAt B w w') (m : String) (p : Nat) :
    (attempt B m p w).1 = (attempt B m p w').1 ∧ SameAt B (attempt B m p w).2 (attempt B m p w').2 := by
  have hm := h.1 m
  refine ⟨by simp [attempt, hm], ?_, ?_⟩
  · intro m'
    by_cases hmm : m' = m
    · simp [attempt, hmm, hm]
    · simp [attempt, hmm, h.1 m']
  · have := h.2
    simp only [eventsAt] at this
    simp [eventsAt, attempt, List.filter_append, this, hm]

theorem tries_same {B : String} {w w' : World} (h : SameAt B w w') (n : Nat) (m : String)
    (p : Nat) :
    (tries n B m p w).1 = (tries n B m p w').1 ∧ SameAt B (tries n B m p w).2 (tries n B m p w').2 := by
  induction n generalizing w w' with
  | zero => exact ⟨rfl, h⟩
  | succ n ih =>
    obtain ⟨h1, h2⟩ := attempt_same h m p
    unfold tries
    cases hb : (attempt B m p w).1 with
    | false =>
      have hw : attempt B m p w = (false, (attempt B m p w).2) := by rw [← hb]
      have hw' : attempt B m p w' = (false, (attempt B m p w').2) := by rw [← hb, h1]
      rw [hw, hw']; exact ⟨rfl, h2⟩
    | true =>
      have hw : attempt B m p w = (true, (attempt B m p w).2) := by rw [← hb]
      have hw' : attempt B m p w' = (true, (attempt B m p w').2) := by rw [← hb, h1]
      rw [hw, hw']; exact ih h2

/-- a decorated wrapper call preserves the view from `B`, wherever it is addressed -/
theorem request_sameAt {B : String} {w w' : World} (h : SameAt B w w') (r : Req)
    (hs : (retryOf r.cls r.meth).isSome = true) :
    SameAt B (request r w).2 (request r w').2 := by
  cases hn : retryOf r.cls r.meth with
  | none => simp [hn] at hs
  | some n =>
    simp only [request, hn]
    by_cases hl : r.label = B
    · rw [hl]; exact (tries_same h n r.net r.payload).2
    · exact ((tries_other hl n r.net r.payload w).trans h).trans
        (tries_other hl n r.net r.payload w').symm

theorem execSteps_sameAt {B : String} (steps : List Step) (hs : ∀ s ∈ steps, s.Safe)
    {w w' : World} (h : SameAt B w w') :
    SameAt B (execSteps steps w).2 (execSteps steps w').2 := by
  induction steps generalizing w w' with
  | nil => exact h
  | cons s rest ih =>
    cases s with
    | raise e => exact absurd (hs _ (List.mem_cons_self)) (by simp [Step.Safe])
    | req r =>
      have hr : (retryOf r.cls r.meth).isSome = true := hs (.req r) (List.mem_cons_self)
      obtain ⟨b, hb⟩ := request_val w hr
      obtain ⟨b', hb'⟩ := request_val w' hr
      have e : request r w = (.val b, (request r w).2) := by rw [← hb]
      have e' : request r w' = (.val b', (request r w').2) := by rw [← hb']
      unfold execSteps
      rw [e, e']
      exact ih (fun s hm => hs s (List.mem_cons_of_mem _ hm)) (request_sameAt h r hr)

/-- the colour registers after a command that uses no return data: a function of the
script alone -/
def regAfter (c : Cmd) (reg : Nat) : Nat :=
  match c with
  | .reg v => v
  | _ => reg

theorem step_noReturnData (dir : Dir) (c : Cmd) (hc : c.noReturnData = true) (reg : Nat)
    (w : World) :
    step dir c reg w = ((execSteps (stepsOf dir reg c) w).1, regAfter c reg,
      (execSteps (stepsOf dir reg c) w).2) := by
  cases c <;> first | rfl | simp [Cmd.noReturnData] at hc

theorem runFrom_sameAt {B : String} (dir : Dir) (cs : List Cmd)
    (hcs : ∀ c ∈ cs, c.noReturnData = true) (i : Nat) (reg : Nat) {w w' : World}
    (h : SameAt B w w') :
    SameAt B (runFrom dir i cs reg w).2.2 (runFrom dir i cs reg w').2.2 := by
  induction cs generalizing i reg w w' with
  | nil => exact h
  | cons c cs ih =>
    have hc := hcs c (List.mem_cons_self)
    have hsafe := stepsOf_safe dir reg c
    have e := step_noReturnData dir c hc reg w
    have e' := step_noReturnData dir c hc reg w'
    rw [execSteps_safe _ w hsafe] at e
    rw [execSteps_safe _ w' hsafe] at e'
    unfold runFrom
    rw [e, e']
    exact ih (fun c hm => hcs c (List.mem_cons_of_mem _ hm)) _ _ (execSteps_sameAt _ hsafe h)

/--
**C12, fault containment.**  Take any directory, any script `cs` of set / power / zone /
matrix commands on lights, groups, locations or all lights (everything except `get`, whose
very purpose is to carry returned data into later commands), and any two networks `w`, `w'`
that carry the same fault script *for label `B`* and the same history at `B` — their fault
scripts for every other device `A ≠ B`, and for the LAN-level calls, are arbitrary and
unrelated.  Then the complete sequence of attempts that reaches `B` while the script runs —
method, payload and outcome of each — is the same in both.  By induction over the script.
-/
theorem C12_fault_containment (dir : Dir) (cs : List Cmd)
    (hcs : ∀ c ∈ cs, c.noReturnData = true) (reg : Nat) (B : String) (w w' : World)
    (hB : ∀ m, w.faults B m = w'.faults B m) (hev : eventsAt B w = eventsAt B w') :
    eventsAt B (run dir cs reg w).2.2 = eventsAt B (run dir cs reg w').2.2 :=
  (runFrom_sameAt dir cs hcs 0 reg ⟨hB, hev⟩).2

/-- the form with the faulty device named: changing the fault script of `A` only (here: to
anything at all) is invisible at every `B ≠ A` -/
theorem C12_fault_containment_single (dir : Dir) (cs : List Cmd)
    (hcs : ∀ c ∈ cs, c.noReturnData = true) (reg : Nat) (A B : String) (hAB : A ≠ B)
    (w w' : World) (hf : ∀ l, l ≠ A → ∀ m, w.faults l m = w'.faults l m)
    (hev : w.events = w'.events) :
    eventsAt B (run dir cs reg w).2.2 = eventsAt B (run dir cs reg w').2.2 :=
  C12_fault_containment dir cs hcs reg B w w' (hf B (Ne.symm hAB)) (by simp [eventsAt, hev])

/-- in particular a healthy device (and the fault-free run is one choice of `w'`) receives
what it receives when nothing fails anywhere -/
theorem C12_healthy_like_fault_free (dir : Dir) (cs : List Cmd)
    (hcs : ∀ c ∈ cs, c.noReturnData = true) (reg : Nat) (B : String) (w : World)
    (hB : ∀ m, w.faults B m = Oracle.quiet) (hev : w.events = []) :
    eventsAt B (run dir cs reg w).2.2 =
      eventsAt B (run dir cs reg ⟨fun _ _ => Oracle.quiet, w.colour, []⟩).2.2 :=
  C12_fault_containment dir cs hcs reg B w _ hB (by simp [eventsAt, hev])

/-- non-vacuity, and the reason `get` is excluded: `set "A"; get "A"; set "B"` delivers to
the healthy `B` what `A` reported, which depends on whether `A` took the first `set` -/
def demoDir : Dir := [⟨"A", .plain, "g", "l"⟩, ⟨"B", .plain, "g", "l"⟩]

example : eventsAt "B" (run demoDir [.reg 5, .colorGroup "g"] 0 (silent "A")).2.2
    = [⟨"B", "set_color", 5, false⟩] := by decide
example : (run demoDir [.reg 5, .colorGroup "g"] 0 (silent "A")).2.2.events.length = 4 := by decide

theorem C12_get_carries_faults_across :
    eventsAt "B" (run demoDir [.reg 5, .colorLight "A", .get "A", .colorLight "B"] 0 quietWorld).2.2
      ≠ eventsAt "B" (run demoDir [.reg 5, .colorLight "A", .get "A", .colorLight "B"] 0
          (scripted "A" "set_color" [true, true, true])).2.2 := by decide


/-! ## Discovery never raises -/

/-- results that `LifxLanApi.get_lights` / `LightSet.discover` know how to absorb -/
def NetOnly (r : Res Unit) : Prop := r = .val () ∨ r = .exc .workflow ∨ r = .exc .light

theorem rawCall_netOnly (l m : String) (w : World) : NetOnly (rawCall l m w).1 := by
  unfold rawCall
  cases h : (attempt l m 0 w).1 with
  | false =>
    have hw : attempt l m 0 w = (false, (attempt l m 0 w).2) := by rw [← h]
    rw [hw]; exact Or.inl rfl
  | true =>
    have hw : attempt l m 0 w = (true, (attempt l m 0 w).2) := by rw [← h]
    rw [hw]; exact Or.inr (Or.inl rfl)

theorem request_cases (r : Req) (w : World) :
    (∃ b, (request r w).1 = .val b) ∨ (request r w).1 = .exc .workflow := by
  unfold request
  cases retryOf r.cls r.meth with
  | some n => exact Or.inl ⟨_, rfl⟩
  | none =>
    simp only []
    cases h : (attempt r.label r.net r.payload w).1 with
    | false =>
      have hw : attempt r.label r.net r.payload w = (false, (attempt r.label r.net r.payload w).2) := by
        rw [← h]
      rw [hw]; exact Or.inl ⟨_, rfl⟩
    | true =>
      have hw : attempt r.label r.net r.payload w = (true, (attempt r.label r.net r.payload w).2) := by
        rw [← h]
      rw [hw]; exact Or.inr rfl

theorem multizoneInit_netOnly (d : Dev) (w : World) : NetOnly (multizoneInit .fixed d w).1 := by
  unfold multizoneInit lightInit
  rcases rawCall_netOnly d.label "get_product_features" w with h | h | h
  all_goals
    have hw : rawCall d.label "get_product_features" w =
      (_, (rawCall d.label "get_product_features" w).2) := Prod.ext h rfl
    rw [hw]
  · simp only []
    generalize (rawCall d.label "get_product_features" w).2 = w1
    rcases request_cases ⟨"MultizoneLight", "get_zone_colors", d.label, "get_color_zones", 0⟩ w1
      with ⟨b, hb⟩ | hb
    all_goals
      have hr : request ⟨"MultizoneLight", "get_zone_colors", d.label, "get_color_zones", 0⟩ w1 =
        (_, (request ⟨"MultizoneLight", "get_zone_colors", d.label, "get_color_zones", 0⟩ w1).2) :=
        Prod.ext hb rfl
      rw [hr]
    · cases b
      · simp only []
        split
        · exact Or.inr (Or.inr rfl)
        · exact Or.inl rfl
      · exact Or.inl rfl
    · exact Or.inr (Or.inl rfl)
  · exact Or.inr (Or.inl rfl)
  · exact Or.inr (Or.inr rfl)

theorem matrixInit_netOnly (d : Dev) (w : World) : NetOnly (matrixInit .fixed d w).1 := by
  unfold matrixInit lightInit
  rcases rawCall_netOnly d.label "get_product_features" w with h | h | h
  all_goals
    have hw : rawCall d.label "get_product_features" w =
      (_, (rawCall d.label "get_product_features" w).2) := Prod.ext h rfl
    rw [hw]
  · simp only []
    generalize (rawCall d.label "get_product_features" w).2 = w1
    rcases request_cases ⟨"MatrixLight", "_get_size", d.label, "get_device_chain", 0⟩ w1
      with ⟨b, hb⟩ | hb
    all_goals
      have hr : request ⟨"MatrixLight", "_get_size", d.label, "get_device_chain", 0⟩ w1 =
        (_, (request ⟨"MatrixLight", "_get_size", d.label, "get_device_chain", 0⟩ w1).2) :=
        Prod.ext hb rfl
      rw [hr]
    · cases b
      · exact Or.inr (Or.inr rfl)
      · exact Or.inl rfl
    · exact Or.inr (Or.inl rfl)
  · exact Or.inr (Or.inl rfl)
  · exact Or.inr (Or.inr rfl)

theorem buildLight_netOnly (d : Dev) (w : World) : NetOnly (buildLight .fixed d w).1 := by
  unfold buildLight
  rcases rawCall_netOnly d.label "get_product_features" w with h | h | h
  all_goals
    have hw : rawCall d.label "get_product_features" w =
      (_, (rawCall d.label "get_product_features" w).2) := Prod.ext h rfl
    rw [hw]
  · simp only []
    generalize (rawCall d.label "get_product_features" w).2 = w1
    split
    · exact multizoneInit_netOnly d w1
    · rcases rawCall_netOnly d.label "get_product_features" w1 with h | h | h
      all_goals
        have hw : rawCall d.label "get_product_features" w1 =
          (_, (rawCall d.label "get_product_features" w1).2) := Prod.ext h rfl
        rw [hw]
      · simp only []
        split
        · exact matrixInit_netOnly d _
        · exact rawCall_netOnly _ _ _
      · exact Or.inr (Or.inl rfl)
      · exact Or.inr (Or.inr rfl)
  · exact Or.inr (Or.inl rfl)
  · exact Or.inr (Or.inr rfl)

theorem buildAll_netOnly (net : List Dev) (w : World) : NetOnly (buildAll .fixed net w).1 := by
  induction net generalizing w with
  | nil => exact Or.inl rfl
  | cons d ds ih =>
    unfold buildAll
    rcases buildLight_netOnly d w with h | h | h
    all_goals
      have hw : buildLight .fixed d w = (_, (buildLight .fixed d w).2) := Prod.ext h rfl
      rw [hw]
    · exact ih _
    · exact Or.inr (Or.inl rfl)
    · exact Or.inr (Or.inr rfl)

/-- `LifxLanApi.get_lights` returns or raises `LightException`, nothing else -/
theorem apiGetLights_cases (net : List Dev) (w : World) :
    (apiGetLights .fixed net w).1 = .val () ∨ (apiGetLights .fixed net w).1 = .exc .light := by
  unfold apiGetLights
  rcases rawCall_netOnly "*" "get_lights" w with h | h | h
  all_goals
    have hw : rawCall "*" "get_lights" w = (_, (rawCall "*" "get_lights" w).2) := Prod.ext h rfl
    rw [hw]
  · simp only []
    generalize (rawCall "*" "get_lights" w).2 = w1
    rcases buildAll_netOnly net w1 with h | h | h
    all_goals
      have hw : buildAll .fixed net w1 = (_, (buildAll .fixed net w1).2) := Prod.ext h rfl
      rw [hw]
    · exact Or.inl rfl
    · exact Or.inr rfl
    · exact Or.inr rfl
  · exact Or.inr rfl
  · exact Or.inr rfl

/--
**C12, discovery is total.**  For every previous directory, every set of devices answering
the broadcast (of any kinds) and every fault script — on the broadcast itself, on each of the
`get_product_features` calls, on the zone query in `MultizoneLight.__init__`, on the
`GetDeviceChain` query in `MatrixLight.__init__`, failing any number of times —
`LightSet.discover` ends `ok` or `failed`, never `raised`; and a `failed` discovery leaves the
directory exactly as it was (only the failure counter moves), while an `ok` one counts a
success.
-/
theorem C12_discover_total (ls : LightSet) (net : List Dev) (w : World) :
    ((discover .fixed ls net w).1 = .ok ∧
        (discover .fixed ls net w).2.1.successes = ls.successes + 1 ∧
        (discover .fixed ls net w).2.1.failures = ls.failures) ∨
    ((discover .fixed ls net w).1 = .failed ∧
        (discover .fixed ls net w).2.1.lights = ls.lights ∧
        (discover .fixed ls net w).2.1.successes = ls.successes ∧
        (discover .fixed ls net w).2.1.failures = ls.failures + 1) := by
  unfold discover
  rcases apiGetLights_cases net w with h | h
  all_goals
    have hw : apiGetLights .fixed net w = (_, (apiGetLights .fixed net w).2) := Prod.ext h rfl
    rw [hw]
  · exact Or.inl ⟨rfl, rfl, rfl⟩
  · exact Or.inr ⟨rfl, rfl, rfl, rfl⟩

theorem C12_discover_never_raises (ls : LightSet) (net : List Dev) (w : World) (e : Ex) :
    (discover .fixed ls net w).1 ≠ .raised e := by
  rcases C12_discover_total ls net w with h | h <;> rw [h.1] <;> simp

/-- non-vacuity: all three outcomes of the model are reachable — `ok` with a device that
answers its zone query at the third attempt, `failed` with one that never does, and on the
pinned tree's constructor that same silence escaped as `TypeError` -/
def demoNet : List Dev := [⟨"Strip", .multizone, "g", "l"⟩, ⟨"Top", .plain, "g", "l"⟩]
def demoSet : LightSet := ⟨[⟨"Old", .plain, "g", "l"⟩], 1, 0⟩

example : (discover .fixed demoSet demoNet (scripted "Strip" "get_color_zones" [true, true])).1 = .ok ∧
    (discover .fixed demoSet demoNet (scripted "Strip" "get_color_zones" [true, true])).2.1.lights.map
      (·.label) = ["Old", "Strip", "Top"] := by decide
example : (discover .fixed demoSet demoNet (silent "Strip")).1 = .failed := by decide
example : (discover .fixed demoSet demoNet
    (scripted "Strip" "get_color_zones" [true, true, true])).2.1 = { demoSet with failures := 1 } := by
  decide

theorem C12_pinned_discover_raises :
    (discover .pinned demoSet demoNet (scripted "Strip" "get_color_zones" [true, true, true])).1
      = .raised .type := by decide

/-- on the pinned tree a silent matrix light was entered into the directory without a size -/
theorem C12_pinned_matrix_without_size :
    (discover .pinned demoSet [⟨"Tile", .matrix, "g", "l"⟩]
      (scripted "Tile" "get_device_chain" [true, true, true])).1 = .ok := by decide

end Bardolph.Faults
