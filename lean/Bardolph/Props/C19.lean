import Bardolph.Model.Output
import Bardolph.Props.C19Heads
/-!
# C19 — print, println and printf write exactly the documented text to standard output

Property theorems about `Bardolph.Out` (the model of `io_parser.py`, `vm_io.py`,
`std_out_output.py` and of the end of `Machine.run`).

The **specification** (`specStep`, `specGo`) is written from the property text and the manual
(docs/language.rst, "Outputting Text"), at the level of statements; it knows nothing of
instructions, of the `_unnamed` accumulator or of `flush`:

* `print v` writes the text of `v`; `println v` writes it and ends the line; `println` alone
  ends the line; `print` alone writes nothing;
* `printf f v₁ … vₖ` writes `f` — every backslash-n pair replaced by a line break — filled in
  by `str.format` with `v₁ … vₖ` as positional and the current variable / register values as
  named arguments;
* between two successive outputs that no `println` separates exactly one space is written.
  **Decision (manual silent, code followed):** an "output" is what one `print`/`printf`
  statement writes, whatever its text is: an empty string is an output (`print "" print 1`
  writes ` 1`), and a line break *inside* a `printf` text does not end the line for this rule
  (`printf "a\n" print 1` writes `a`, line break, ` 1`): only `println` does;
* a statement whose evaluation raises writes nothing and ends the run;
* when the run ends — normally or by such a fault — a line that has output on it and was not
  ended by `println` is ended (**decision**: the manual is silent; this is what
  `StdOutOutput.flush` is written to do), so the next run starts on a fresh line.

Values and `str.format` are parameters (see `Model/Output.lean`): equality of `Chunk` lists
means equality of bytes for every behaviour of `str()`/`str.format`.
-/
namespace Bardolph.Out
open Bardolph.Generated.Output

/-! ## Specification -/

def specSep (pending : Bool) : List Event := if pending then [.out (.lit " ")] else []
def specEnd (pending : Bool) : List Event := if pending then [.out (.lit "\n")] else []

/-- one statement: what it writes, the environment and "the line has output on it" afterwards;
`none` = its evaluation raises -/
def specStep (env : Env) (pending : Bool) : Stmt → Option (List Event × Env × Bool)
  | .print none => some ([], env, pending)
  | .print (some o) => (evalOp env o).map fun v => (specSep pending ++ [.out (.val v)], env, true)
  | .println none => some ([.out (.lit "\n")], env, false)
  | .println (some o) =>
    (evalOp env o).map fun v => (specSep pending ++ [.out (.val v), .out (.lit "\n")], env, false)
  | .printf f ops raises =>
    match evalOps env ops, fillNamed env f with
    | some vs, some (f', named) =>
      if raises then none else some (specSep pending ++ [.out (.fmt f' vs named)], env, true)
    | _, _ => none
  | .assign n o => (evalOp env o).map fun v => ([], env.setVar n v, pending)
  | .setReg n o => (evalOp env o).map fun v => ([], env.setReg n v, pending)
  | .device l => some ([.dev l], env, pending)

/-- a whole run -/
def specGo (env : Env) (pending : Bool) : List Stmt → List Event
  | [] => specEnd pending
  | s :: r =>
    match specStep env pending s with
    | none => specEnd pending
    | some (ev, env', p') => ev ++ specGo env' p' r

/-- a statement sequence that runs to its end: events, final environment, final line state -/
def specSeq (env : Env) (pending : Bool) : List Stmt → Option (List Event × Env × Bool)
  | [] => some ([], env, pending)
  | s :: r =>
    match specStep env pending s with
    | none => none
    | some (ev, env', p') => (specSeq env' p' r).map fun (ev', e, p) => (ev ++ ev', e, p)

/-- what the compiler establishes for a `printf` (`C19_parsed_wf`): it was given as many values
as the VM will take from the accumulator for it — the number of anonymous and numbered fields -/
def Stmt.WF : Stmt → Prop
  | .printf f ops _ => ∀ k, vmCount f = some k → ops.length = k
  | _ => True

/-! ## Format strings as the manual describes them: text and replacement fields -/

inductive Piece
  /-- literal characters (braces are written doubled) -/
  | text (cs : List Char)
  /-- `{name}`, `{name!c}`, `{name:spec}`, `{name!c:spec}`; the empty name is `{}` -/
  | field (name : List Char) (conv : Option Char) (spec : List Char)
  deriving Repr, DecidableEq

def escapeBraces : List Char → List Char
  | [] => []
  | c :: cs => if c = '{' ∨ c = '}' then c :: c :: escapeBraces cs else c :: escapeBraces cs

def Piece.render : Piece → List Char
  | .text cs => escapeBraces cs
  | .field n k s =>
    '{' :: n ++ (match k with | some c => ['!', c] | none => []) ++
      (if s = [] then [] else ':' :: s) ++ ['}']

def renderAll (ps : List Piece) : List Char := ps.flatMap Piece.render

def Piece.asField : Piece → Option (List Char × Option Char × List Char)
  | .text _ => none
  | .field n k s => some (n, k, s)

/-- the replacement fields among the tuples of `Formatter().parse` -/
def fieldsOf (fs : List Field) : List (List Char × Option Char × List Char) :=
  fs.filterMap fun f => f.name.map fun n => (n, f.conv, f.spec)

/-- names without `{ } [ ] : !`, specs without braces -/
def Piece.Simple : Piece → Prop
  | .text _ => True
  | .field n _ s =>
    (∀ c ∈ n, c ≠ '{' ∧ c ≠ '}' ∧ c ≠ '[' ∧ c ≠ ']' ∧ c ≠ ':' ∧ c ≠ '!') ∧
    (∀ c ∈ s, c ≠ '{' ∧ c ≠ '}')

/-- the heads of the fields of a format written as pieces: the first part of each name
(`headOf`); `none` = a numbered field beyond `PY_SSIZE_T_MAX` (`ValueError`) -/
def pieceHeads : List Piece → Option (List Head)
  | [] => some []
  | .text _ :: r => pieceHeads r
  | .field n _ _ :: r =>
    match headOf n, pieceHeads r with
    | some h, some hs => some (h :: hs)
    | _, _ => none

/-! ## Theorems -/

/-- the literals of the source agree with what the specification says -/
theorem C19_literals_agree :
    ioOps = ioOpNames ∧ separator = " " ∧ valueEnd = "" ∧ lineEnd = "\n" ∧
    flushLineEnd = "\n" ∧ escapeFrom = "\\n" ∧ escapeTo = "\n" := by
  decide

/-- every word the lexer types as a register names an attribute of `Registers`, is found by
`Register.from_string`, and is its own lower-case form -/
theorem C19_documented_registers :
    ∀ n ∈ lexRegisters, registerAttrs.contains n = true ∧ isRegisterName n = true ∧
      n.toLower = n := by
  decide +kernel

/-! ### The machine writes what the specification says -/

theorem runInstrs_cons_none (i : Instr) (is : List Instr) (s : St) (h : exec i s = none) :
    runInstrs (i :: is) s = ⟨[], s, false⟩ := by
  simp [runInstrs, h]

theorem runInstrs_cons_some (i : Instr) (is : List Instr) (s s' : St) (ev : List Event)
    (h : exec i s = some (ev, s')) :
    runInstrs (i :: is) s =
      ⟨ev ++ (runInstrs is s').events, (runInstrs is s').st, (runInstrs is s').ok⟩ := by
  simp [runInstrs, h]

theorem runInstrs_append (a b : List Instr) (s : St) :
    runInstrs (a ++ b) s =
      if (runInstrs a s).ok then
        ⟨(runInstrs a s).events ++ (runInstrs b (runInstrs a s).st).events,
         (runInstrs b (runInstrs a s).st).st, (runInstrs b (runInstrs a s).st).ok⟩
      else runInstrs a s := by
  induction a generalizing s with
  | nil => simp [runInstrs]
  | cons i is ih =>
    rw [List.cons_append]
    cases h : exec i s with
    | none => simp [runInstrs_cons_none _ _ _ h]
    | some p =>
      obtain ⟨ev, s'⟩ := p
      rw [runInstrs_cons_some _ _ _ _ _ h, runInstrs_cons_some _ _ _ _ _ h, ih]
      split <;> simp_all

theorem runInstrs_append_ok (a b : List Instr) (s s' : St) (ev : List Event)
    (h : runInstrs a s = ⟨ev, s', true⟩) :
    runInstrs (a ++ b) s = ⟨ev ++ (runInstrs b s').events, (runInstrs b s').st, (runInstrs b s').ok⟩ := by
  rw [runInstrs_append, h]; simp

theorem runInstrs_append_fail (a b : List Instr) (s s' : St) (ev : List Event)
    (h : runInstrs a s = ⟨ev, s', false⟩) :
    runInstrs (a ++ b) s = ⟨ev, s', false⟩ := by
  rw [runInstrs_append, h]; simp

theorem sinkOut_eq (c : Chunk) (p : Bool) : sinkOut c p = specSep p ++ [.out c] := by
  simp [sinkOut, specSep, separator]

/-- the code for the values of a `printf` -/
theorem run_operands (ops : List Operand) (rest : List Instr) (s : St) :
    match evalOps s.env ops with
    | some vs => ∃ res, runInstrs (ops.flatMap outRvalue ++ rest) s =
        runInstrs rest { s with result := res, unnamed := s.unnamed ++ vs }
    | none => ∃ s', runInstrs (ops.flatMap outRvalue ++ rest) s = ⟨[], s', false⟩ ∧
        s'.pending = s.pending := by
  induction ops generalizing s with
  | nil => exact ⟨s.result, by simp⟩
  | cons o os ih =>
    simp only [evalOps]
    cases ho : evalOp s.env o with
    | none =>
      refine ⟨s, ?_, rfl⟩
      simp [outRvalue, runInstrs, exec, ho]
    | some v =>
      have := ih { s with result := v, unnamed := s.unnamed ++ [v] }
      simp only at this
      have hrun : runInstrs ((o :: os).flatMap outRvalue ++ rest) s =
          runInstrs (os.flatMap outRvalue ++ rest) { s with result := v, unnamed := s.unnamed ++ [v] } := by
        simp [outRvalue, runInstrs, exec, ho]
      rw [hrun]
      cases hos : evalOps s.env os with
      | none =>
        rw [hos] at this
        exact this
      | some vs =>
        rw [hos] at this
        obtain ⟨res, h1⟩ := this
        refine ⟨res, ?_⟩
        simp [h1]

theorem evalOps_length (env : Env) (ops : List Operand) (vs : List Value)
    (h : evalOps env ops = some vs) : vs.length = ops.length := by
  induction ops generalizing vs with
  | nil => simp [evalOps] at h; simp [h]
  | cons o os ih =>
    simp only [evalOps] at h
    cases ho : evalOp env o with
    | none => simp [ho] at h
    | some v =>
      cases hos : evalOps env os with
      | none => simp [ho, hos] at h
      | some ws =>
        simp [ho, hos] at h
        subst h
        simp [ih ws hos]

/-- when the run-time part of a `printf` goes through, the VM's count is defined -/
theorem vmCount_of_fillNamed (env : Env) (f f' : String) (named : List (String × Value))
    (h : fillNamed env f = some (f', named)) : ∃ k, vmCount f = some k := by
  unfold fillNamed at h
  unfold vmCount
  cases hp : fieldHeads (unescape f.toList) with
  | none => simp [hp] at h
  | some fs => exact ⟨countPositional fs, rfl⟩

/-- one statement, from any accumulator: the frame `s.unnamed` is left as it was found -/
theorem run_stmt (st : Stmt) (hwf : st.WF) (s : St) :
    match specStep s.env s.pending st with
    | some (ev, env', p') => ∃ s', runInstrs (compileStmt st) s = ⟨ev, s', true⟩ ∧
        s'.env = env' ∧ s'.pending = p' ∧ s'.unnamed = s.unnamed
    | none => ∃ s', runInstrs (compileStmt st) s = ⟨[], s', false⟩ ∧ s'.pending = s.pending := by
  cases st with
  | print o =>
    cases o with
    | none => exact ⟨s, by simp [compileStmt, runInstrs], rfl, rfl, rfl⟩
    | some o =>
      simp only [specStep]
      cases ho : evalOp s.env o with
      | none => exact ⟨s, by simp [compileStmt, outRvalue, runInstrs, exec, ho], rfl⟩
      | some v =>
        exact ⟨{ s with result := v, pending := true },
          by simp [compileStmt, outRvalue, runInstrs, exec, ho, sinkOut_eq], rfl, rfl, rfl⟩
  | println o =>
    cases o with
    | none =>
      exact ⟨{ s with pending := false },
        by simp [compileStmt, runInstrs, exec, sinkNewline, lineEnd], rfl, rfl, rfl⟩
    | some o =>
      simp only [specStep]
      cases ho : evalOp s.env o with
      | none => exact ⟨s, by simp [compileStmt, outRvalue, runInstrs, exec, ho], rfl⟩
      | some v =>
        exact ⟨{ s with result := v, pending := false },
          by simp [compileStmt, outRvalue, runInstrs, exec, ho, sinkOut_eq, sinkNewline,
            lineEnd], rfl, rfl, rfl⟩
  | printf f ops r =>
    have h := run_operands ops [.outPrintf f r] s
    simp only [specStep, compileStmt]
    cases hos : evalOps s.env ops with
    | none =>
      rw [hos] at h
      exact h
    | some vs =>
      rw [hos] at h
      obtain ⟨res, h⟩ := h
      rw [h]
      cases hf : fillNamed s.env f with
      | none => exact ⟨{ s with result := res, unnamed := s.unnamed ++ vs }, by simp [runInstrs, exec, hf], rfl⟩
      | some p =>
        obtain ⟨f', named⟩ := p
        cases r with
        | true => exact ⟨{ s with result := res, unnamed := s.unnamed ++ vs }, by simp [runInstrs, exec, hf], rfl⟩
        | false =>
          obtain ⟨k, hk⟩ := vmCount_of_fillNamed _ _ _ _ hf
          have hlen : vs.length = k := by
            rw [evalOps_length _ _ _ hos]; exact hwf k hk
          have hfirst : s.unnamed.length + vs.length - k = s.unnamed.length := by
            omega
          exact ⟨{ s with result := res, pending := true },
            by simp [runInstrs, exec, hf, hk, hfirst, sinkOut_eq], rfl, rfl, rfl⟩
  | assign n o =>
    simp only [specStep]
    cases ho : evalOp s.env o with
    | none => exact ⟨s, by simp [compileStmt, runInstrs, exec, ho], rfl⟩
    | some v =>
      exact ⟨{ s with result := v, env := s.env.setVar n v },
        by simp [compileStmt, runInstrs, exec, ho], rfl, rfl, rfl⟩
  | setReg n o =>
    simp only [specStep]
    cases ho : evalOp s.env o with
    | none => exact ⟨s, by simp [compileStmt, runInstrs, exec, ho], rfl⟩
    | some v =>
      exact ⟨{ s with result := v, env := s.env.setReg n v },
        by simp [compileStmt, runInstrs, exec, ho], rfl, rfl, rfl⟩
  | device l =>
    exact ⟨s, by simp [compileStmt, runInstrs, exec], rfl, rfl, rfl⟩

theorem flush_empty (s : St) (hu : s.unnamed = []) : (flush s).1 = specEnd s.pending := by
  simp [flush, hu, flushVals, specEnd, flushLineEnd]

theorem machineRun_append_ok (a b : List Instr) (s s' : St) (ev : List Event)
    (h : runInstrs a s = ⟨ev, s', true⟩) :
    (machineRun (a ++ b) s).1 = ev ++ (machineRun b s').1 := by
  simp [machineRun, runInstrs_append_ok _ _ _ _ _ h]

theorem machineRun_append_fail (a b : List Instr) (s s' : St) (ev : List Event)
    (h : runInstrs a s = ⟨ev, s', false⟩) :
    (machineRun (a ++ b) s).1 = ev ++ specEnd s'.pending := by
  simp [machineRun, runInstrs_append_fail _ _ _ _ _ h, flush_empty]

theorem machineRun_compile (ss : List Stmt) (hwf : ∀ s ∈ ss, s.WF) (s : St)
    (hu : s.unnamed = []) :
    (machineRun (compile ss) s).1 = specGo s.env s.pending ss := by
  induction ss generalizing s with
  | nil => simp [compile, machineRun, runInstrs, specGo, flush_empty s hu]
  | cons st r ih =>
    have h := run_stmt st (hwf st (by simp)) s
    have hc : compile (st :: r) = compileStmt st ++ compile r := by simp [compile]
    rw [hc]
    simp only [specGo]
    cases hs : specStep s.env s.pending st with
    | none =>
      rw [hs] at h
      obtain ⟨s', h1, h2⟩ := h
      simp [machineRun_append_fail _ _ _ _ _ h1, h2]
    | some p =>
      obtain ⟨ev, env', p'⟩ := p
      rw [hs] at h
      obtain ⟨s', h1, h2, h3, h4⟩ := h
      simp [machineRun_append_ok _ _ _ _ _ h1,
        ih (fun q hq => hwf q (by simp [hq])) s' (h4.trans hu), h2, h3]

theorem runInstrs_compile_unnamed (ss : List Stmt) (hwf : ∀ s ∈ ss, s.WF) (s : St)
    (hok : (runInstrs (compile ss) s).ok = true) :
    (runInstrs (compile ss) s).st.unnamed = s.unnamed := by
  induction ss generalizing s with
  | nil => simp [compile, runInstrs]
  | cons st r ih =>
    have h := run_stmt st (hwf st (by simp)) s
    have hc : compile (st :: r) = compileStmt st ++ compile r := by simp [compile]
    rw [hc] at hok ⊢
    cases hs : specStep s.env s.pending st with
    | none =>
      rw [hs] at h
      obtain ⟨s', h1, h2⟩ := h
      simp [runInstrs_append_fail _ _ _ _ _ h1] at hok
    | some p =>
      obtain ⟨ev, env', p'⟩ := p
      rw [hs] at h
      obtain ⟨s', h1, h2, h3, h4⟩ := h
      rw [runInstrs_append_ok _ _ _ _ _ h1] at hok ⊢
      exact (ih (fun q hq => hwf q (by simp [hq])) s' hok).trans h4

/-- **Main theorem.**  For every sequence of statements as the compiler produces them, every
environment and either state of the sink, running the compiled instructions through `VmIo`, the
sink and the end of `Machine.run` produces exactly the specified events (text chunks and device
commands, in order). -/
theorem C19_stdout_is_spec (env : Env) (pending : Bool) (ss : List Stmt) (hwf : ∀ s ∈ ss, s.WF) :
    (machineRun (compile ss) (freshSt env pending)).1 = specGo env pending ss :=
  machineRun_compile ss hwf (freshSt env pending) rfl

/-- **Re-entrancy.**  A compiled statement sequence that runs to its end may start with anything
in the accumulator (the values an enclosing, still unfinished `printf` has collected while one
of its arguments calls a routine that prints): it writes what the specification says and leaves
those values exactly as it found them. -/
theorem C19_reentrant (ss : List Stmt) (hwf : ∀ s ∈ ss, s.WF) (s : St)
    (ev : List Event) (env' : Env) (p' : Bool)
    (h : specSeq s.env s.pending ss = some (ev, env', p')) :
    ∃ s', runInstrs (compile ss) s = ⟨ev, s', true⟩ ∧ s'.env = env' ∧ s'.pending = p' ∧
      s'.unnamed = s.unnamed := by
  induction ss generalizing s ev with
  | nil =>
    simp only [specSeq, Option.some.injEq, Prod.mk.injEq] at h
    obtain ⟨rfl, rfl, rfl⟩ := h
    exact ⟨s, by simp [compile, runInstrs], rfl, rfl, rfl⟩
  | cons st r ih =>
    have h1 := run_stmt st (hwf st (by simp)) s
    have hc : compile (st :: r) = compileStmt st ++ compile r := by simp [compile]
    rw [hc]
    simp only [specSeq] at h
    cases hs : specStep s.env s.pending st with
    | none => simp [hs] at h
    | some q =>
      obtain ⟨ev1, env1, p1⟩ := q
      rw [hs] at h1
      simp only [hs] at h
      obtain ⟨s1, hr1, rfl, rfl, hu1⟩ := h1
      cases hr : specSeq s1.env s1.pending r with
      | none => simp [hr] at h
      | some q2 =>
        obtain ⟨ev2, env2, p2⟩ := q2
        simp only [hr, Option.map_some, Option.some.injEq, Prod.mk.injEq] at h
        obtain ⟨rfl, rfl, rfl⟩ := h
        obtain ⟨s2, hr2, he2, hp2, hu2⟩ := ih (fun q hq => hwf q (by simp [hq])) s1 ev2 hr
        refine ⟨s2, ?_, he2, hp2, hu2.trans hu1⟩
        rw [runInstrs_append_ok _ _ _ _ _ hr1, hr2]

/-- after `Machine.run`, whatever the instructions were and however the run ended, nothing is
left in the accumulator and no line is pending -/
theorem C19_all_flushed (prog : List Instr) (s : St) :
    (machineRun prog s).2.unnamed = [] ∧ (machineRun prog s).2.pending = false := by
  simp [machineRun, flush]

/-- for compiled programs that run to their end the accumulator is already empty before the
final flush: `flush`'s loop over leftover values writes nothing -/
theorem C19_accumulator_empty_between_statements (env : Env) (pending : Bool) (ss : List Stmt)
    (hwf : ∀ s ∈ ss, s.WF) :
    (runInstrs (compile ss) (freshSt env pending)).ok = true →
    (runInstrs (compile ss) (freshSt env pending)).st.unnamed = [] :=
  runInstrs_compile_unnamed ss hwf (freshSt env pending)

/-- `OUT PRINT` writes the value its own statement has just put on the accumulator and takes
only that one off, whatever is below it -/
theorem C19_print_writes_its_value (s : St) (o : Operand) (v : Value)
    (hv : evalOp s.env o = some v) :
    runInstrs (compileStmt (.print (some o))) s =
      ⟨specSep s.pending ++ [.out (.val v)], { s with result := v, pending := true }, true⟩ := by
  simp [compileStmt, outRvalue, runInstrs, exec, hv, sinkOut_eq]

/-- jobs run one after the other in one process (same or different `ScriptJob`, the sink is
shared): each writes exactly what it would write alone — nothing pending leaks from a run into
the next, also after a fault -/
theorem C19_runs_independent (env0 : Env) (jobs : List (List Stmt))
    (hwf : ∀ j ∈ jobs, ∀ s ∈ j, s.WF) :
    runJobs env0 (jobs.map compile) false = (jobs.map (specGo env0 false)).flatten := by
  induction jobs with
  | nil => simp [runJobs]
  | cons j js ih =>
    simp only [List.map_cons, runJobs, List.flatten_cons]
    rw [(C19_all_flushed _ _).2, ih (fun q hq => hwf q (by simp [hq])),
      C19_stdout_is_spec _ _ _ (hwf j (by simp))]

/-! ### Order, faults, lines (consequences on the specification side) -/

theorem specStep_dev (env : Env) (p : Bool) (s : Stmt) (ev : List Event) (env' : Env) (p' : Bool)
    (h : specStep env p s = some (ev, env', p')) :
    ev.filterMap (fun e => match e with | .dev l => some l | _ => none) =
      (match s with | .device l => [l] | _ => []) := by
  cases s with
  | print o =>
    cases o with
    | none => simp [specStep] at h; obtain ⟨rfl, _, _⟩ := h; simp
    | some o =>
      simp only [specStep] at h
      cases ho : evalOp env o <;> simp [ho] at h
      obtain ⟨rfl, _, _⟩ := h
      cases p <;> simp [specSep]
  | println o =>
    cases o with
    | none => simp [specStep] at h; obtain ⟨rfl, _, _⟩ := h; simp
    | some o =>
      simp only [specStep] at h
      cases ho : evalOp env o <;> simp [ho] at h
      obtain ⟨rfl, _, _⟩ := h
      cases p <;> simp [specSep]
  | printf f ops r =>
    simp only [specStep] at h
    split at h
    · split at h
      · simp at h
      · simp at h
        obtain ⟨rfl, _, _⟩ := h
        cases p <;> simp [specSep]
    · simp at h
  | assign n o =>
    simp only [specStep] at h
    cases ho : evalOp env o <;> simp [ho] at h
    obtain ⟨rfl, _, _⟩ := h; simp
  | setReg n o =>
    simp only [specStep] at h
    cases ho : evalOp env o <;> simp [ho] at h
    obtain ⟨rfl, _, _⟩ := h; simp
  | device l =>
    simp [specStep] at h; obtain ⟨rfl, _, _⟩ := h; simp

theorem specGo_prints_pending (env : Env) (vs : List Value) :
    specGo env true (vs.map fun v => Stmt.print (some (.const v))) =
      vs.flatMap (fun v => [Event.out (.lit " "), Event.out (.val v)]) ++ [.out (.lit "\n")] := by
  induction vs with
  | nil => simp [specGo, specEnd]
  | cons v vs ih => simp [specGo, specStep, evalOp, specSep, ih]

theorem intersperse_map_cons {α β : Type} (f : α → β) (sep : β) (v : α) (vs : List α) :
    ((v :: vs).map f).intersperse sep = f v :: vs.flatMap (fun v => [sep, f v]) := by
  induction vs generalizing v with
  | nil => simp
  | cons w ws ih =>
    rw [List.map_cons, List.map_cons, List.intersperse_cons_cons, ← List.map_cons, ih w]
    simp

/-- program order: everything the statements of `a` write (text and device commands) precedes
everything the statements of `b` write -/
theorem C19_program_order (env : Env) (p : Bool) (a b : List Stmt)
    (ev : List Event) (env' : Env) (p' : Bool) (h : specSeq env p a = some (ev, env', p')) :
    specGo env p (a ++ b) = ev ++ specGo env' p' b := by
  induction a generalizing env p ev with
  | nil =>
    simp only [specSeq, Option.some.injEq, Prod.mk.injEq] at h
    obtain ⟨rfl, rfl, rfl⟩ := h
    simp
  | cons s r ih =>
    simp only [specSeq] at h
    simp only [List.cons_append, specGo]
    cases hs : specStep env p s with
    | none => simp [hs] at h
    | some q =>
      obtain ⟨ev1, env1, p1⟩ := q
      simp only [hs] at h
      cases hr : specSeq env1 p1 r with
      | none => simp [hr] at h
      | some q2 =>
        obtain ⟨ev2, env2, p2⟩ := q2
        simp only [hr, Option.map_some, Option.some.injEq, Prod.mk.injEq] at h
        obtain ⟨rfl, rfl, rfl⟩ := h
        simp [ih env1 p1 ev2 hr]

/-- a statement that raises ends the run: what was written before it stays, the pending line is
ended, nothing of the faulting statement or of what follows appears -/
theorem C19_fault_is_prefix (env : Env) (p : Bool) (a b : List Stmt) (s : Stmt)
    (ev : List Event) (env' : Env) (p' : Bool) (h : specSeq env p a = some (ev, env', p'))
    (hs : specStep env' p' s = none) :
    specGo env p (a ++ s :: b) = specGo env p a := by
  rw [C19_program_order env p a (s :: b) ev env' p' h]
  have := C19_program_order env p a [] ev env' p' h
  rw [List.append_nil] at this
  rw [this]
  simp [specGo, hs]

/-- device commands appear once each, in program order (run without fault) -/
theorem C19_device_order (env : Env) (p : Bool) (ss : List Stmt)
    (ev : List Event) (env' : Env) (p' : Bool) (h : specSeq env p ss = some (ev, env', p')) :
    (specGo env p ss).filterMap (fun e => match e with | .dev l => some l | _ => none) =
      ss.filterMap (fun s => match s with | .device l => some l | _ => none) := by
  induction ss generalizing env p ev env' p' with
  | nil => cases p <;> simp [specGo, specEnd]
  | cons s r ih =>
    simp only [specSeq] at h
    simp only [specGo]
    cases hs : specStep env p s with
    | none => simp [hs] at h
    | some q =>
      obtain ⟨ev1, env1, p1⟩ := q
      simp only [hs] at h
      cases hr : specSeq env1 p1 r with
      | none => simp [hr] at h
      | some q2 =>
        obtain ⟨ev2, env2, p2⟩ := q2
        simp only [List.filterMap_append, ih env1 p1 ev2 env2 p2 hr, specStep_dev env p s ev1 env1 p1 hs]
        cases s <;> simp

/-- `print v₁ … print vₙ` (n ≥ 1) on a fresh line writes the values on one line separated by
exactly one space, and the end of the script ends that line -/
theorem C19_prints_one_line (env : Env) (v : Value) (vs : List Value) :
    specGo env false ((v :: vs).map fun v => Stmt.print (some (.const v))) =
      ((v :: vs).map fun v => Event.out (.val v)).intersperse (.out (.lit " ")) ++
        [.out (.lit "\n")] := by
  rw [intersperse_map_cons]
  simp [specGo, specStep, evalOp, specSep, specGo_prints_pending]

/-- `println` — with or without a value — ends the line: whatever follows starts without a
separator -/
theorem C19_println_ends_line (env : Env) (p : Bool) (o : Option Operand)
    (ev : List Event) (env' : Env) (p' : Bool) (h : specStep env p (.println o) = some (ev, env', p')) :
    p' = false ∧ env' = env ∧ ev.getLast? = some (.out (.lit "\n")) := by
  cases o with
  | none =>
    simp [specStep] at h
    obtain ⟨rfl, rfl, rfl⟩ := h
    simp
  | some o =>
    simp only [specStep] at h
    cases ho : evalOp env o <;> simp [ho] at h
    obtain ⟨rfl, rfl, rfl⟩ := h
    simp [List.getLast?_append]

/-! ### How many values a statement takes (io_parser) -/

theorem parseGo_collect (f : String) (r : List Item) (vs acc : List Operand) (k : Nat)
    (hn : vs.length = k + 1) :
    parseGo (some (f, acc, k)) (vs.map Item.value ++ r) =
      (parseGo none r).map (Stmt.printf f (acc ++ vs) false :: ·) := by
  induction vs generalizing acc k with
  | nil => simp at hn
  | cons o vs ih =>
    cases k with
    | zero =>
      have : vs = [] := by simpa using hn
      subst this
      simp [parseGo]
    | succ k =>
      simp only [List.map_cons, List.cons_append, parseGo]
      rw [ih (acc ++ [o]) k (by simpa using hn)]
      simp

theorem parseGo_too_few (f : String) (r : List Item) (vs acc : List Operand) (k : Nat)
    (hn : vs.length ≤ k) (hr : ∀ o r', r ≠ .value o :: r') :
    parseGo (some (f, acc, k)) (vs.map Item.value ++ r) = none := by
  induction vs generalizing acc k with
  | nil =>
    simp only [List.map_nil, List.nil_append]
    rw [parseGo.eq_3]
    intro _ _ _ o r' h _; exact hr o r' h
  | cons o vs ih =>
    cases k with
    | zero => simp at hn
    | succ k =>
      simp only [List.map_cons, List.cons_append, parseGo]
      exact ih (acc ++ [o]) k (by simpa using hn)

theorem C19_print_consumes_one (o : Operand) (r : List Item) :
    parseItems (.kwPrint :: .value o :: r) = (parseItems r).map (Stmt.print (some o) :: ·) ∧
    parseItems (.kwPrintln :: .value o :: r) = (parseItems r).map (Stmt.println (some o) :: ·) := by
  simp [parseItems, parseGo]

/-- without a following value `print`/`println` take nothing -/
theorem C19_print_alone (r : List Item) (h : ∀ o r', r ≠ .value o :: r') :
    parseItems (.kwPrint :: r) = (parseItems r).map (Stmt.print none :: ·) ∧
    parseItems (.kwPrintln :: r) = (parseItems r).map (Stmt.println none :: ·) := by
  unfold parseItems
  constructor
  · rw [parseGo.eq_6]
    intro o r' hr; exact h o r' hr
  · rw [parseGo.eq_8]
    intro o r' hr; exact h o r' hr

/-- `printf` takes exactly as many following values as its format has anonymous or numbered
fields — those nested in format specs (`{:>{}}`) and those with attribute or index parts
(`{0.real}`) included —, in order -/
theorem C19_printf_consumes_fields (f : String) (fs : List Head) (vs : List Operand)
    (r : List Item) (hf : f ≠ "") (hp : fieldHeads f.toList = some fs)
    (hn : vs.length = countPositional fs) :
    parseItems (.kwPrintf f :: (vs.map Item.value ++ r)) =
      (parseItems r).map (Stmt.printf f vs false :: ·) := by
  unfold parseItems
  rw [parseGo.eq_9]
  simp only [hf, if_false, hp]
  cases hc : countPositional fs with
  | zero =>
    have : vs = [] := by simpa [hc] using hn
    subst this
    simp
  | succ k =>
    simp only
    rw [parseGo_collect f r vs [] k (by omega)]
    simp

/-- fewer values than fields: rejected at compile time -/
theorem C19_printf_too_few (f : String) (fs : List Head) (vs : List Operand)
    (r : List Item) (hf : f ≠ "") (hp : fieldHeads f.toList = some fs)
    (hn : vs.length < countPositional fs) (hr : ∀ o r', r ≠ .value o :: r') :
    parseItems (.kwPrintf f :: (vs.map Item.value ++ r)) = none := by
  unfold parseItems
  rw [parseGo.eq_9]
  simp only [hf, if_false, hp]
  cases hc : countPositional fs with
  | zero => omega
  | succ k =>
    simp only
    exact parseGo_too_few f r vs [] k (by omega) hr

/-- a format `field_names` rejects (`"{"`, `"a}b"`, `"{a"`, a spec that does not parse, a field
number beyond `PY_SSIZE_T_MAX`) and the empty format are compile-time rejections -/
theorem C19_printf_bad_format (f : String) (r : List Item)
    (h : f = "" ∨ fieldHeads f.toList = none) : parseItems (.kwPrintf f :: r) = none := by
  unfold parseItems
  rw [parseGo.eq_9]
  rcases h with h | h
  · simp [h]
  · simp [h]

/-! The count while scanning (an automaton over the characters, the fields nested in format specs
counted by a second one run alongside) and its invariance under unescaping are in
`Props/C19Heads.lean`: `fieldHeads_count`, `count_unescape`. -/

theorem vmCount_eq (f : String) (fs : List Head) (h : fieldHeads f.toList = some fs) :
    vmCount f = some (countPositional fs) := by
  unfold vmCount
  exact count_unescape f.toList fs h

/-- unescaping a format the parser accepts does not change the number of its positional
fields (the compiler counts on the text as written, the VM on the text with line breaks) -/
theorem C19_count_unescaped (f : String) (fs : List Head) (h : fieldHeads f.toList = some fs) :
    ∀ k, vmCount f = some k → k = countPositional fs := by
  intro k hk
  rw [vmCount_eq f fs h] at hk
  exact (Option.some.inj hk).symm

/-- `parseGo` in either mode: a `printf` still collecting values will end up with
`acc.length + k + 1` of them -/
theorem parseGo_wf (st : Option (String × List Operand × Nat)) (items : List Item) :
    ∀ (ss : List Stmt), (∀ s, Item.other s ∈ items → s.WF) →
    (∀ f acc k, st = some (f, acc, k) → ∀ n, vmCount f = some n → acc.length + k + 1 = n) →
    parseGo st items = some ss → ∀ s ∈ ss, s.WF := by
  fun_induction parseGo st items with
  | case1 f acc o r ih =>
    intro ss ho hst h
    cases hr : parseGo none r with
    | none => simp [hr] at h
    | some ss' =>
      simp [hr] at h
      subst h
      intro s hs
      rcases List.mem_cons.mp hs with rfl | hs
      · intro n hn
        have := hst f acc 0 rfl n hn
        simp; omega
      · exact ih ss' (fun q hq => ho q (by simp [hq])) (by intro _ _ _ h; cases h) hr s hs
  | case2 f acc o r k' ih =>
    intro ss ho hst h
    refine ih ss (fun q hq => ho q (by simp [hq])) ?_ h
    intro f' acc' k'' heq n hn
    cases heq
    have := hst f acc (k' + 1) rfl n hn
    simp; omega
  | case3 x val hne =>
    intro ss ho hst h; cases h
  | case4 =>
    intro ss ho hst h
    simp at h; subst h
    intro s hs; cases hs
  | case5 o r ih =>
    intro ss ho hst h
    cases hr : parseGo none r with
    | none => simp [hr] at h
    | some ss' =>
      simp [hr] at h
      subst h
      intro s hs
      rcases List.mem_cons.mp hs with rfl | hs
      · trivial
      · exact ih ss' (fun q hq => ho q (by simp [hq])) (by intro _ _ _ h; cases h) hr s hs
  | case6 r hne ih =>
    intro ss ho hst h
    cases hr : parseGo none r with
    | none => simp [hr] at h
    | some ss' =>
      simp [hr] at h
      subst h
      intro s hs
      rcases List.mem_cons.mp hs with rfl | hs
      · trivial
      · exact ih ss' (fun q hq => ho q (by simp [hq])) (by intro _ _ _ h; cases h) hr s hs
  | case7 o r ih =>
    intro ss ho hst h
    cases hr : parseGo none r with
    | none => simp [hr] at h
    | some ss' =>
      simp [hr] at h
      subst h
      intro s hs
      rcases List.mem_cons.mp hs with rfl | hs
      · trivial
      · exact ih ss' (fun q hq => ho q (by simp [hq])) (by intro _ _ _ h; cases h) hr s hs
  | case8 r hne ih =>
    intro ss ho hst h
    cases hr : parseGo none r with
    | none => simp [hr] at h
    | some ss' =>
      simp [hr] at h
      subst h
      intro s hs
      rcases List.mem_cons.mp hs with rfl | hs
      · trivial
      · exact ih ss' (fun q hq => ho q (by simp [hq])) (by intro _ _ _ h; cases h) hr s hs
  | case9 r =>
    intro ss ho hst h; cases h
  | case10 f r hf hp =>
    intro ss ho hst h; cases h
  | case11 f r hf fs hp hc ih =>
    intro ss ho hst h
    cases hr : parseGo none r with
    | none => simp [hr] at h
    | some ss' =>
      simp [hr] at h
      subst h
      intro s hs
      rcases List.mem_cons.mp hs with rfl | hs
      · intro n hn
        have := C19_count_unescaped f fs hp n hn
        simp; omega
      · exact ih ss' (fun q hq => ho q (by simp [hq])) (by intro _ _ _ h; cases h) hr s hs
  | case12 f r hf fs hp k hc ih =>
    intro ss ho hst h
    refine ih ss (fun q hq => ho q (by simp [hq])) ?_ h
    intro f' acc' k'' heq n hn
    cases heq
    have := C19_count_unescaped f fs hp n hn
    simp; omega
  | case13 o r =>
    intro ss ho hst h; cases h
  | case14 s r ih =>
    intro ss ho hst h
    cases hr : parseGo none r with
    | none => simp [hr] at h
    | some ss' =>
      simp [hr] at h
      subst h
      intro q hs
      rcases List.mem_cons.mp hs with rfl | hs
      · exact ho q (by simp)
      · exact ih ss' (fun q hq => ho q (by simp [hq])) (by intro _ _ _ h; cases h) hr q hs

/-- every `printf` the compiler lets through is well-formed (`Stmt.WF`); `other` items stand
for statements compiled elsewhere and are assumed well-formed -/
theorem C19_parsed_wf (items : List Item) (ss : List Stmt)
    (ho : ∀ s, Item.other s ∈ items → s.WF) (h : parseItems items = some ss) :
    ∀ s ∈ ss, s.WF :=
  parseGo_wf none items ss ho (by intro _ _ _ h; cases h) h

/-- from the source to stdout: whatever the compiler accepts, the machine writes what the
specification says -/
theorem C19_source_to_stdout (items : List Item) (ss : List Stmt)
    (ho : ∀ s, Item.other s ∈ items → s.WF) (h : parseItems items = some ss)
    (env : Env) (pending : Bool) :
    (machineRun (compile ss) (freshSt env pending)).1 = specGo env pending ss :=
  C19_stdout_is_spec env pending ss (C19_parsed_wf items ss ho h)

/-! ### Fields of a format -/

theorem scan_cons_none (st st' : PState) (c : Char) (cs : List Char)
    (h : step st c = some (none, st')) : scan st (c :: cs) = scan st' cs := by
  simp [scan, h]

theorem scan_cons_some (st st' : PState) (f : Field) (c : Char) (cs : List Char)
    (h : step st c = some (some f, st')) : scan st (c :: cs) = (scan st' cs).map (f :: ·) := by
  simp [scan, h]

theorem fieldsOf_nil : fieldsOf [] = [] := rfl

theorem fieldsOf_cons_none (l s : List Char) (k : Option Char) (fs : List Field) :
    fieldsOf (⟨l, none, s, k⟩ :: fs) = fieldsOf fs := by
  simp [fieldsOf]

theorem fieldsOf_cons_some (l n s : List Char) (k : Option Char) (fs : List Field) :
    fieldsOf (⟨l, some n, s, k⟩ :: fs) = (n, k, s) :: fieldsOf fs := by
  simp [fieldsOf]

theorem fieldsOf_append (a b : List Field) : fieldsOf (a ++ b) = fieldsOf a ++ fieldsOf b := by
  simp [fieldsOf]

theorem scan_text (cs : List Char) : ∀ (l rest : List Char), ∃ pre l', fieldsOf pre = [] ∧
    scan (.lit l) (escapeBraces cs ++ rest) = (scan (.lit l') rest).map (pre ++ ·) := by
  induction cs with
  | nil => intro l rest; exact ⟨[], l, rfl, by simp [escapeBraces]⟩
  | cons c cs ih =>
    intro l rest
    by_cases h1 : c = '{'
    · subst h1
      obtain ⟨pre, l', hp, hs⟩ := ih [] rest
      refine ⟨⟨l ++ ['{'], none, [], none⟩ :: pre, l', by rw [fieldsOf_cons_none, hp], ?_⟩
      simp only [escapeBraces, true_or, if_true, List.cons_append]
      rw [scan_cons_none _ (.lbrace l) _ _ (by simp [step]),
        scan_cons_some _ (.lit []) ⟨l ++ ['{'], none, [], none⟩ _ _ (by simp [step]), hs]
      simp [Option.map_map, Function.comp_def]
    · by_cases h2 : c = '}'
      · subst h2
        obtain ⟨pre, l', hp, hs⟩ := ih [] rest
        refine ⟨⟨l ++ ['}'], none, [], none⟩ :: pre, l', by rw [fieldsOf_cons_none, hp], ?_⟩
        simp only [escapeBraces, or_true, if_true, List.cons_append]
        rw [scan_cons_none _ (.rbrace l) _ _ (by simp [step]),
          scan_cons_some _ (.lit []) ⟨l ++ ['}'], none, [], none⟩ _ _ (by simp [step]), hs]
        simp [Option.map_map, Function.comp_def]
      · obtain ⟨pre, l', hp, hs⟩ := ih (l ++ [c]) rest
        refine ⟨pre, l', hp, ?_⟩
        simp only [escapeBraces, h1, h2, or_self, if_false, List.cons_append]
        rw [scan_cons_none _ (.lit (l ++ [c])) _ _ (by simp [step, h1, h2]), hs]

theorem scan_name (n : List Char) : ∀ (l acc rest : List Char),
    (∀ c ∈ n, c ≠ '{' ∧ c ≠ '}' ∧ c ≠ '[' ∧ c ≠ ']' ∧ c ≠ ':' ∧ c ≠ '!') →
    scan (.name l acc) (n ++ rest) = scan (.name l (acc ++ n)) rest := by
  induction n with
  | nil => intro l acc rest _; simp
  | cons c n ih =>
    intro l acc rest h
    have hc := h c (by simp)
    rw [List.cons_append, scan_cons_none _ (.name l (acc ++ [c])) _ _
      (by simp [step, nameStep, hc.1, hc.2.1, hc.2.2.1, hc.2.2.2.2.1, hc.2.2.2.2.2]),
      ih l (acc ++ [c]) rest (fun d hd => h d (by simp [hd]))]
    simp

theorem scan_spec (s : List Char) : ∀ (l n : List Char) (k : Option Char) (acc rest : List Char),
    (∀ c ∈ s, c ≠ '{' ∧ c ≠ '}') →
    scan (.spec l n k acc 0) (s ++ rest) = scan (.spec l n k (acc ++ s) 0) rest := by
  induction s with
  | nil => intro l n k acc rest _; simp
  | cons c s ih =>
    intro l n k acc rest h
    have hc := h c (by simp)
    rw [List.cons_append, scan_cons_none _ (.spec l n k (acc ++ [c]) 0) _ _
      (by simp [step, hc.1, hc.2]),
      ih l n k (acc ++ [c]) rest (fun d hd => h d (by simp [hd]))]
    simp

theorem scan_lbrace (l : List Char) (c : Char) (cs : List Char) (h : c ≠ '{') :
    scan (.lbrace l) (c :: cs) = scan (.name l []) (c :: cs) := by
  simp [scan, step, h]

/-- the tail of a field after its name -/
theorem scan_field_tail (l n s : List Char) (k : Option Char) (rest : List Char)
    (hs : ∀ c ∈ s, c ≠ '{' ∧ c ≠ '}') :
    scan (.name l n) ((match k with | some c => ['!', c] | none => []) ++
        (if s = [] then [] else ':' :: s) ++ ['}'] ++ rest) =
      (scan (.lit []) rest).map (⟨l, some n, s, k⟩ :: ·) := by
  cases k with
  | none =>
    by_cases he : s = []
    · subst he
      simp only [if_true, List.nil_append, List.cons_append]
      rw [scan_cons_some _ (.lit []) ⟨l, some n, [], none⟩ _ _ (by simp [step, nameStep])]
    · simp only [he, if_false, List.nil_append, List.cons_append, List.append_assoc]
      rw [scan_cons_none _ (.spec l n none [] 0) _ _ (by simp [step, nameStep]),
        scan_spec s l n none [] _ hs, List.nil_append,
        scan_cons_some _ (.lit []) ⟨l, some n, s, none⟩ _ _ (by simp [step])]
  | some c =>
    by_cases he : s = []
    · subst he
      simp only [if_true, List.nil_append, List.cons_append, List.append_nil]
      rw [scan_cons_none _ (.bang l n) _ _ (by simp [step, nameStep]),
        scan_cons_none _ (.conv l n c) _ _ (by simp [step]),
        scan_cons_some _ (.lit []) ⟨l, some n, [], some c⟩ _ _ (by simp [step])]
    · simp only [he, if_false, List.nil_append, List.cons_append, List.append_assoc]
      rw [scan_cons_none _ (.bang l n) _ _ (by simp [step, nameStep]),
        scan_cons_none _ (.conv l n c) _ _ (by simp [step]),
        scan_cons_none _ (.spec l n (some c) [] 0) _ _ (by simp [step]),
        scan_spec s l n (some c) [] _ hs, List.nil_append,
        scan_cons_some _ (.lit []) ⟨l, some n, s, some c⟩ _ _ (by simp [step])]

theorem scan_field (l n s : List Char) (k : Option Char) (rest : List Char)
    (h : (Piece.field n k s).Simple) :
    scan (.lit l) (Piece.render (.field n k s) ++ rest) =
      (scan (.lit []) rest).map (⟨l, some n, s, k⟩ :: ·) := by
  obtain ⟨hn, hs⟩ := h
  have key : scan (.name l []) (n ++ ((match k with | some c => ['!', c] | none => []) ++
        (if s = [] then [] else ':' :: s) ++ ['}'] ++ rest)) =
      (scan (.lit []) rest).map (⟨l, some n, s, k⟩ :: ·) := by
    rw [scan_name n l [] _ hn, List.nil_append, scan_field_tail l n s k rest hs]
  simp only [Piece.render, List.cons_append, List.append_assoc]
  rw [scan_cons_none _ (.lbrace l) _ _ (by simp [step])]
  simp only [List.append_assoc] at key
  rw [← key]
  cases n with
  | nil =>
    simp only [List.nil_append]
    cases k with
    | some c => exact scan_lbrace l _ _ (by decide)
    | none =>
      by_cases he : s = []
      · simp only [he, if_true, List.nil_append]
        exact scan_lbrace l _ _ (by decide)
      · simp only [he, if_false, List.nil_append, List.cons_append]
        exact scan_lbrace l _ _ (by decide)
  | cons c n =>
    exact scan_lbrace l _ _ (hn c (by simp)).1

theorem scan_pieces (ps : List Piece) (h : ∀ p ∈ ps, p.Simple) : ∀ l : List Char,
    ∃ fs, scan (.lit l) (renderAll ps) = some fs ∧ fieldsOf fs = ps.filterMap Piece.asField := by
  induction ps with
  | nil =>
    intro l
    cases l with
    | nil => exact ⟨[], by simp [renderAll, scan, finish], rfl⟩
    | cons c l => exact ⟨[⟨c :: l, none, [], none⟩], by simp [renderAll, scan, finish], rfl⟩
  | cons p ps ih =>
    intro l
    have hr : renderAll (p :: ps) = p.render ++ renderAll ps := by simp [renderAll]
    rw [hr]
    have ih' := ih (fun q hq => h q (by simp [hq]))
    cases p with
    | text cs =>
      obtain ⟨pre, l', hp, hs⟩ := scan_text cs l (renderAll ps)
      obtain ⟨fs, h1, h2⟩ := ih' l'
      refine ⟨pre ++ fs, ?_, ?_⟩
      · simp only [Piece.render]; rw [hs, h1]; rfl
      · rw [fieldsOf_append, hp, h2, List.filterMap_cons]; simp [Piece.asField]
    | field n k s =>
      obtain ⟨fs, h1, h2⟩ := ih' []
      refine ⟨⟨l, some n, s, k⟩ :: fs, ?_, ?_⟩
      · rw [scan_field l n s k _ (h _ (by simp)), h1]; rfl
      · rw [fieldsOf_cons_some, h2]; simp [Piece.asField]

/-- PARTIAL (simple field names, no nested fields in specs).  For a format written as text
pieces and replacement fields, `Formatter().parse` finds exactly those fields, in order, with
their names, conversions and specs; doubled braces in the text are not fields.

Full statement (not proved): the same for every field name `str.format` accepts (attribute and
index parts `a.b`, `a[0]`) and specs containing nested replacement fields `{:{w}}`; the
parser model handles them (`bracket` state, `depth`) and is compared with the real
`Formatter().parse` on those inputs at run time, but the round trip is only proved for
`Piece.Simple`. -/
theorem C19_parse_fields_partial (ps : List Piece) (h : ∀ p ∈ ps, p.Simple) :
    ∃ fs, parseChars (renderAll ps) = some fs ∧ fieldsOf fs = ps.filterMap Piece.asField :=
  scan_pieces ps h []

/-- the heads over the triples of `fieldsOf`: a field's own, then those nested in its spec -/
def tripleHeads : List (List Char × Option Char × List Char) → Option (List Head)
  | [] => some []
  | (n, _, s) :: r =>
    match headOf n, (parseChars s).bind flatHeads, tripleHeads r with
    | some h, some inner, some hs => some (h :: inner ++ hs)
    | _, _, _ => none

theorem headsOf_fieldsOf (fs : List Field) : headsOf fs = tripleHeads (fieldsOf fs) := by
  induction fs with
  | nil => rfl
  | cons f fs ih =>
    obtain ⟨l, n, s, k⟩ := f
    cases n with
    | none => rw [fieldsOf_cons_none]; simp only [headsOf]; exact ih
    | some n =>
      rw [fieldsOf_cons_some]
      simp only [headsOf, tripleHeads, ih]
      cases headOf n <;> cases (parseChars s).bind flatHeads <;> cases tripleHeads (fieldsOf fs) <;> rfl

theorem flatHeads_of_no_fields (fs : List Field) (h : fieldsOf fs = []) : flatHeads fs = some [] := by
  induction fs with
  | nil => rfl
  | cons f fs ih =>
    obtain ⟨l, n, s, k⟩ := f
    cases n with
    | none =>
      rw [fieldsOf_cons_none] at h
      simp only [flatHeads]
      exact ih h
    | some n => rw [fieldsOf_cons_some] at h; cases h

theorem escapeBraces_nobrace (s : List Char) (h : ∀ c ∈ s, c ≠ '{' ∧ c ≠ '}') : escapeBraces s = s := by
  induction s with
  | nil => rfl
  | cons c r ih =>
    have hc := h c (by simp)
    simp only [escapeBraces, hc.1, hc.2, or_self, if_false]
    rw [ih fun d hd => h d (by simp [hd])]

theorem pieces_heads (ps : List Piece) (h : ∀ p ∈ ps, p.Simple) :
    tripleHeads (ps.filterMap Piece.asField) = pieceHeads ps := by
  induction ps with
  | nil => rfl
  | cons p ps ih =>
    have ih' := ih fun q hq => h q (by simp [hq])
    cases p with
    | text cs => rw [List.filterMap_cons_none (by rfl)]; simp only [pieceHeads]; exact ih'
    | field n k s =>
      have hs : (parseChars s).bind flatHeads = some [] := by
        have hsimple := (h (.field n k s) (by simp)).2
        obtain ⟨fs, h1, h2⟩ := scan_pieces [.text s]
          (fun q hq => by simp only [List.mem_singleton] at hq; subst hq; trivial) []
        have e : renderAll [.text s] = s := by
          simp [renderAll, Piece.render, escapeBraces_nobrace s hsimple]
        rw [e] at h1
        have h1' : parseChars s = some fs := h1
        rw [h1']
        exact flatHeads_of_no_fields fs (by rw [h2]; rfl)
      rw [List.filterMap_cons_some (b := (n, k, s)) (by rfl)]
      simp only [tripleHeads, pieceHeads, hs, ih', List.nil_append]
      cases headOf n <;> cases pieceHeads ps <;> rfl

theorem unescape_cons_of_ne (c : Char) (rest : List Char)
    (h : c ≠ '\\' ∨ ∀ r, rest ≠ 'n' :: r) : unescape (c :: rest) = c :: unescape rest := by
  apply unescape.eq_2
  intro r hc hr
  rcases h with h | h
  · exact h hc
  · exact h r hr

/-- hence the fields `printf` works with are the first parts of the names of the fields of the
format, in order: the compiler counts the positional ones among them (`countPositional`), the VM
looks up the named ones (`namedNames`) -/
theorem C19_field_counts_partial (ps : List Piece) (h : ∀ p ∈ ps, p.Simple) :
    fieldHeads (renderAll ps) = pieceHeads ps := by
  obtain ⟨fs, h1, h2⟩ := C19_parse_fields_partial ps h
  unfold fieldHeads
  rw [h1]
  simp only [Option.bind_some]
  rw [headsOf_fieldsOf, h2, pieces_heads ps h]

/-- every backslash-n pair in a format becomes a line break, wherever it stands -/
theorem C19_newline_in_format (a b : List Char) :
    unescape (a ++ '\\' :: 'n' :: b) = unescape a ++ '\n' :: unescape b := by
  fun_induction unescape a with
  | case1 rest ih => simp [unescape, ih]
  | case2 c rest hne ih =>
    rw [List.cons_append, List.cons_append, ← ih]
    apply unescape.eq_2
    intro r hc hr
    cases rest with
    | nil => simp at hr
    | cons d rest' =>
      simp only [List.cons_append, List.cons.injEq] at hr
      exact hne rest' hc (by rw [hr.1])
  | case3 => simp [unescape]

/-- nothing else is changed -/
theorem C19_unescape_id (a : List Char) (h : ∀ c ∈ a, c ≠ '\\') : unescape a = a := by
  induction a with
  | nil => rfl
  | cons c a ih =>
    rw [unescape_cons_of_ne c a (Or.inl (h c (by simp))), ih (fun d hd => h d (by simp [hd]))]

/-- a named field takes the variable of that name when there is one … -/
theorem C19_named_variable (env : Env) (n : String) (v : Value)
    (h : env.vars.lookup n = some v) (hv : v ≠ .none) : lookupNamed env n = some v := by
  simp [lookupNamed, h, hv]

/-- … and otherwise, for each of the documented registers, the current register value -/
theorem C19_named_register (env : Env) (n : String)
    (h : env.vars.lookup n = none) (hn : n ∈ lexRegisters) :
    lookupNamed env n = env.regs.lookup n := by
  obtain ⟨_, h1, h2⟩ := C19_documented_registers n hn
  simp [lookupNamed, h, h1, h2]

/-- **printf binding.**  For a format made of text and simple fields (no backslashes, so that
unescaping changes nothing), `k` values for its `k` positional fields and resolvable names:
the statement writes one chunk — the format filled in with the `k` values in order as
positional arguments and, for every named field, the variable or register of that name. -/
theorem C19_printf_binding_partial (env : Env) (p : Bool) (ps : List Piece) (ops : List Operand)
    (vs : List Value) (named : List (String × Value)) (heads : List Head)
    (hs : ∀ p ∈ ps, p.Simple) (hb : ∀ c ∈ renderAll ps, c ≠ '\\')
    (hv : evalOps env ops = some vs) (hh : pieceHeads ps = some heads)
    (hn : lookupAll env (namedNames heads) = some named) :
    specStep env p (.printf (String.ofList (renderAll ps)) ops false) =
      some (specSep p ++ [.out (.fmt (String.ofList (renderAll ps)) vs named)], env, true) := by
  have h1 := C19_field_counts_partial ps hs
  have hf : fillNamed env (String.ofList (renderAll ps)) =
      some (String.ofList (renderAll ps), named) := by
    simp [fillNamed, String.toList_ofList, C19_unescape_id _ hb, h1, hh, hn]
  simp [specStep, hv, hf]

/-! ## Findings: witnesses on the model

`printf-nested-field` and `printf-compound-field-name` were defects of the real code (recorded in
`known_findings.json`, now under `fixed`): the compiler and the VM took a field name whole and
did not look into format specs.  They were repaired in the repository (`field_names` of
`bardolph/lib/format_fields.py`), the model follows (`Out.fieldHeads`), and the two witnesses
below now show the repaired behaviour; `harness/c19.py` runs the scripts on the real code on every
run, with what `str.format` gives as the expected output.  `manual-printf-line-feed` stays open. -/

/-- a replacement field nested in a format spec (`{:>{}}`, `{:>{w}}`) is counted by the compiler
— `printf "{:>{}}|" 5 6` takes both values — and looked up by the VM -/
theorem C19_nested_field_witness :
    parseItems [.kwPrintf "{:>{}}", .value (.const (.int 5)), .value (.const (.int 6))] =
      some [.printf "{:>{}}" [.const (.int 5), .const (.int 6)] false] ∧
    (fieldHeads "{:>{}}".toList).map countPositional = some 2 ∧
    fillNamed ⟨[], [("w", .int 6)]⟩ "{:>{w}}" = some ("{:>{w}}", [("w", .int 6)]) := by
  decide +kernel

/-- `{x.real}` / `{x[0]}` are the variable `x`; `{0.real}` is a positional field -/
theorem C19_compound_name_witness :
    fillNamed ⟨[], [("x", .int 5)]⟩ "{x.real}|{x[0]}" =
      some ("{x.real}|{x[0]}", [("x", .int 5), ("x", .int 5)]) ∧
    (fieldHeads "{0.real}".toList).map countPositional = some 1 ∧
    fieldHeads "{99999999999999999999}".toList = none := by
  decide +kernel

/-- `manual-printf-line-feed`: the manual's sentence "println and printf each append a line
feed" is not what the code, tests/print_test.py and the property statement say: two `printf`s
share a line, separated by one space -/
theorem C19_printf_no_line_feed_witness :
    specGo ⟨[], []⟩ false [.printf "{}" [.const (.int 1)] false, .printf "{}" [.const (.int 2)] false] =
      [.out (.fmt "{}" [.int 1] []), .out (.lit " "), .out (.fmt "{}" [.int 2] []),
       .out (.lit "\n")] := by
  decide +kernel

/-! ## Non-vacuity -/

def exEnv : Env := ⟨[("hue", .int 120), ("saturation", .int 50), ("brightness", .int 75),
  ("kelvin", .int 2000)], [("x", .int 100)]⟩

/-- the manual's example: `println "-----" print hue print saturation print brightness
println kelvin println "-----"` -/
example : specGo exEnv false
    [.println (some (.const (.str "-----"))), .print (some (.reg "hue")),
     .print (some (.reg "saturation")), .print (some (.reg "brightness")),
     .println (some (.reg "kelvin")), .println (some (.const (.str "-----")))] =
    [.out (.val (.str "-----")), .out (.lit "\n"),
     .out (.val (.int 120)), .out (.lit " "), .out (.val (.int 50)), .out (.lit " "),
     .out (.val (.int 75)), .out (.lit " "), .out (.val (.int 2000)), .out (.lit "\n"),
     .out (.val (.str "-----")), .out (.lit "\n")] := by decide +kernel

/-- the machine on the same program (not only the specification) -/
example : (machineRun (compile [.print (some (.reg "hue")), .print (some (.reg "saturation"))])
    (freshSt exEnv false)).1 =
    [.out (.val (.int 120)), .out (.lit " "), .out (.val (.int 50)), .out (.lit "\n")] := by
  decide +kernel

/-- mixed fields, a device command in between, a fault in the last statement -/
example : specGo exEnv false
    [.printf "{} {hue:05.1f}\\n{x!r}" [.const (.int 1)] false, .device "A",
     .print (some (.const (.int 2))), .printf "{} {}" [.const (.int 1), .raises] false,
     .print (some (.const (.int 3)))] =
    [.out (.fmt "{} {hue:05.1f}\n{x!r}" [.int 1] [("hue", .int 120), ("x", .int 100)]),
     .dev "A", .out (.lit " "), .out (.val (.int 2)), .out (.lit "\n")] := by decide +kernel

example : parseItems [.kwPrintf "{} {a} {0}", .value (.const (.int 1)), .value (.reg "hue"),
    .kwPrint, .kwPrintln, .value (.var "x")] =
    some [.printf "{} {a} {0}" [.const (.int 1), .reg "hue"] false, .print none,
          .println (some (.var "x"))] := by decide +kernel

example : parseFormat "{" = none ∧ parseFormat "a}b" = none ∧ parseFormat "{a" = none ∧
    parseFormat "{a!}" = none ∧ parseFormat "{{}}" ≠ none := by decide +kernel

example : Piece.Simple (.field "hue".toList (some 'r') ">8.2f".toList) := by
  refine ⟨?_, ?_⟩ <;> decide +kernel

end Bardolph.Out
