import Bardolph.Model.Sem
import Bardolph.Model.Loader
import Bardolph.Proofs.Loops
/-!
# C04 — every repeat form runs the documented number of times with the documented values

Model pieces: `Gen.assembleLoop` and the prologues `Gen.calcCounter`, `Gen.calcIncr`,
`Gen.indexVarRange`, `Gen.cycleVarRange`, `Gen.loopPost`, `Gen.counterTest` (what
`loop_parser.py` emits), `Gen.patchBreaks` (the parser's back-patching of `break`), the VM
(`LOOP`, `END_LOOP`, `JUMP`, the loop frame and its hidden variables) and `Sem.execLoop`.

The loop theorems are *body-parametric*: the body is any instruction list `b` about which only
a behavioural contract is assumed (`BodyRun`, below).
-/
namespace Bardolph
open Vm VmSteps Gen Loops

/-! ## 5. `break` leaves exactly the innermost loop -/

/-- the instructions of generated code (markers dropped; an assembled loop has none) -/
def unG : Code → List Instr
  | [] => []
  | .i x :: rest => x :: unG rest
  | .brk :: rest => unG rest

theorem ins_unG (c : Code) (h : ∀ g ∈ c, g ≠ G.brk) : ins (unG c) = c := by
  induction c with
  | nil => rfl
  | cons g c ih =>
    cases g with
    | brk => exact absurd rfl (h G.brk (by simp))
    | i x =>
      simp only [unG, ins, List.map_cons]
      congr 1
      exact ih fun g hg => h g (by simp [hg])

theorem unG_ins (xs : List Instr) : unG (ins xs) = xs := by
  induction xs with
  | nil => rfl
  | cons x xs ih => simp only [ins, List.map_cons, unG] at ih ⊢; rw [ih]

theorem assembleLoop_mem_ne_brk (pre test bodyPre : List Instr) (body : Code) (post : List Instr) :
    ∀ g ∈ assembleLoop pre test bodyPre body post, g ≠ G.brk := by
  intro g hg e
  subst e
  obtain ⟨k, hk⟩ := List.mem_iff_getElem?.1 hg
  exact assembleLoop_no_brk pre test bodyPre body post k hk

/-- **all markers are patched.**  Whatever the body, the code of an assembled loop consists of
instructions only — in particular a loop nested in another loop's body offers no marker to
the outer loop's `patchBreaks`: its `break`s are bound to itself. -/
theorem C04_loop_closed (pre test bodyPre : List Instr) (body : Code) (post : List Instr) :
    assembleLoop pre test bodyPre body post = ins (unG (assembleLoop pre test bodyPre body post)) :=
  (ins_unG _ (assembleLoop_mem_ne_brk pre test bodyPre body post)).symm

/-- every loop form is closed the same way -/
theorem C04_genLoop_closed (h : LoopHdr) (body : Code) : ∀ g ∈ genLoop h body, g ≠ G.brk := by
  cases h <;> simp only [genLoop] <;> exact assembleLoop_mem_ne_brk _ _ _ _ _

theorem unG_getElem? (c : Code) (h : ∀ g ∈ c, g ≠ G.brk) (k : Nat) (x : Instr)
    (hk : c[k]? = some (G.i x)) : (unG c)[k]? = some x := by
  have := ins_unG c h
  rw [← this] at hk
  simp only [ins, List.getElem?_map] at hk
  cases h' : (unG c)[k]? with
  | none => simp [h'] at hk
  | some y => simp [h'] at hk; rw [hk]

/-- **break_target.**  In the code of ANY loop form (`assembleLoop` with any prologue, test,
body prefix and post-step), a `break` marker of the body — at any nesting depth of `if`/`else`
branches, at position `j` of the body — has become `JUMP ALWAYS d` with `d` the distance to
this loop's `END_LOOP`, which is the last instruction of the loop's code. -/
theorem C04_break_target (pre test bodyPre : List Instr) (body : Code) (post : List Instr) (j : Nat)
    (hb : BrkAt body j) :
    let code := unG (assembleLoop pre test bodyPre body post)
    let at_ := bodyIdx pre test bodyPre + j
    let end_ := endIdx pre test bodyPre body post
    code[at_]? = some (.jump .always ((end_ : Int) - (at_ : Int))) ∧
    code[end_]? = some .endLoop ∧ code.length = end_ + 1 := by
  intro code at_ end_
  have hno := assembleLoop_mem_ne_brk pre test bodyPre body post
  refine ⟨?_, ?_, ?_⟩
  · apply unG_getElem? _ hno
    have := assembleLoop_body pre test bodyPre body post j hb.lt
    rw [this]
    have hlt := hb.lt
    have hg : body[j] = G.brk := by
      have := hb.get
      rw [List.getElem?_eq_getElem hb.lt] at this
      simpa using this
    rw [hg]
  · exact unG_getElem? _ hno _ _ (assembleLoop_endLoop pre test bodyPre body post)
  · have := congrArg List.length (C04_loop_closed pre test bodyPre body post)
    rw [ins_length, assembleLoop_length] at this
    exact this.symm

/-- instructions of the body — e.g. the already patched jumps of an inner loop — are left alone
by the enclosing loop's patching -/
theorem C04_inner_jumps_kept (pre test bodyPre : List Instr) (body : Code) (post : List Instr)
    (j : Nat) (x : Instr) (hj : body[j]? = some (G.i x)) :
    (unG (assembleLoop pre test bodyPre body post))[bodyIdx pre test bodyPre + j]? = some x := by
  have hlt : j < body.length := by
    cases h : body[j]? with
    | none => simp [h] at hj
    | some _ => exact (List.getElem?_eq_some_iff.1 h).1
  apply unG_getElem? _ (assembleLoop_mem_ne_brk pre test bodyPre body post)
  rw [assembleLoop_body pre test bodyPre body post j hlt]
  rw [List.getElem?_eq_getElem hlt] at hj
  simp only [Option.some.injEq] at hj
  rw [hj]

/-- `EvalStack.trim`: whatever was pushed since the loop was entered is dropped -/
theorem C04_trimEval (extra base : List Val) (h : Nat) (hb : base.length = h) :
    trimEval (extra ++ base) h = base := by
  subst hb
  simp [trimEval]

/-- **break_exec.**  Executing the patched `break` and the `END_LOOP` it leads to, from a state
whose innermost frame is this loop's, with ANYTHING on the evaluation stack: the loop frame is
popped — the frames below, an enclosing loop's among them, are untouched — and the evaluation
stack is cut back to the `h` values it held when this loop was entered. -/
theorem C04_break_exec (img : Image) (s : State) (pc endPc : Nat) (d : Int)
    (vars : List (LoopVar × Val)) (h : Nat) (rest : List Frame)
    (hs : s.status = .running) (hpc : s.pc = (pc : Int))
    (hj : img.code[pc]? = some (.jump .always d)) (hd : (pc : Int) + d = (endPc : Int))
    (he : img.code[endPc]? = some .endLoop) (hst : s.stack = .loop vars h :: rest) :
    run img 2 s = { s with pc := (endPc : Int) + 1, stack := rest, eval := trimEval s.eval h } := by
  rw [show (2 : Nat) = 1 + 1 from rfl, run_add, run_one _ _ hs, step_jump_always img s pc d hs hpc hj,
    run_one _ _ (by exact hs), hd,
    step_endLoop img _ endPc vars h rest (by exact hs) (by rfl) he (by exact hst)]

/-- **break_innermost.**  A `break` at position `j` of the body of any loop form, through any
nesting of `if`s: from a state at that instruction whose innermost frame is this loop's and
whose evaluation stack holds `extra` (say the names an inner loop over lights was still to
visit — that inner loop has ended — or nothing) on top of the `h` values `base` present when
the loop began (among them the pending names of an enclosing loop over lights), two steps
later the machine is just past this loop's `END_LOOP`, the loop frame is gone, `rest` — the
enclosing loop's frame with its counter and index — is intact, and the evaluation stack is
exactly `base`. -/
theorem C04_break_innermost (img : Image) (P0 : Nat) (pre test bodyPre : List Instr) (body : Code)
    (post : List Instr) (j : Nat) (hb : BrkAt body j)
    (hc : CodeAt img P0 (unG (assembleLoop pre test bodyPre body post)))
    (s : State) (vars : List (LoopVar × Val)) (h : Nat) (rest : List Frame) (extra base : List Val)
    (hs : s.status = .running)
    (hpc : s.pc = ((P0 + (bodyIdx pre test bodyPre + j) : Nat) : Int))
    (hst : s.stack = .loop vars h :: rest) (hev : s.eval = extra ++ base) (hbase : base.length = h) :
    run img 2 s =
      { s with pc := ((P0 + (unG (assembleLoop pre test bodyPre body post)).length : Nat) : Int),
               stack := rest, eval := base } := by
  obtain ⟨h1, h2, h3⟩ := C04_break_target pre test bodyPre body post j hb
  have hlt1 : bodyIdx pre test bodyPre + j < (unG (assembleLoop pre test bodyPre body post)).length :=
    (List.getElem?_eq_some_iff.1 h1).1
  have hlt2 : endIdx pre test bodyPre body post < (unG (assembleLoop pre test bodyPre body post)).length :=
    (List.getElem?_eq_some_iff.1 h2).1
  have hj := hc _ hlt1
  have he := hc _ hlt2
  rw [← List.getElem?_eq_getElem hlt1, h1] at hj
  rw [← List.getElem?_eq_getElem hlt2, h2] at he
  rw [C04_break_exec img s _ (P0 + endIdx pre test bodyPre body post) _ vars h rest hs hpc hj
    (by omega) he hst, hev, C04_trimEval extra base h hbase, h3]
  apply State.ext' <;> simp
  omega

end Bardolph
