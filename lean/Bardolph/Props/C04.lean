import Bardolph.Model.Sem
import Bardolph.Model.Loader
import Bardolph.Proofs.Loops
/-!
# C04 — every repeat form runs the documented number of times with the documented values

Model pieces: `Gen.assembleLoop` and the prologues `Gen.calcCounter`, `Gen.calcIncr`,
`Gen.indexVarRange`, `Gen.cycleVarRange`, `Gen.loopPost`, `Gen.counterTest` (what
`loop_parser.py` emits), `Gen.patchBreaks` (the parser's back-patching of `break`), the VM
(`LOOP`, `END_LOOP`, `JUMP`, the loop frame and its hidden variables) and `Sem.execLoop`,
`Sem.execWhile`, `Sem.iterNames`.  Helpers: `Proofs/Loops.lean`.

The loop theorems are *body-parametric*: the body is any marker-free instruction list `b` about
which only a behavioural contract is assumed:

* `BodyRun img b t u` — from `t` at the body's first instruction the VM reaches `u` just past the
  body, still running, with the evaluation stack as it was and this loop's frame (same hidden
  variables, same recorded height) on top.  Nothing is assumed about registers, variables,
  lights, output or the frames below.  For loops with an index variable `v`, `BodyRunV` adds:
  the body does not assign `v`, defines no macro `v`, keeps the scope well-formed (`ScopeOk`).
* every loop theorem comes in a *chain form* (`…_chain`): the contract is assumed only for the
  passes the loop actually makes (`Passes K enter post s ts s'`: `ts` lists the states in which
  the body starts; between body runs only `enter`/`post` — explicit functions that touch `pc`,
  `result`, the loop frame's counter and the index variable — act), and in a *universal form*
  (`BodyOk`/`BodyOkV`: the contract from every state), in which the chain is shown to exist.

Main theorems
* 5  `C04_loop_closed`, `C04_genLoop_closed`, `C04_break_target`, `C04_inner_jumps_kept`,
     `C04_trimEval`, `C04_break_exec`, `C04_break_innermost`
* 1  `C04_count_loop_chain`, `C04_count_loop`, `C04_count_loop_literal`, `C04_count_loop_nat`,
     `C04_count_loop_nonpos`; prologues `preRun_literal`, `preRun_var`, `preRun_expr`
* 2  `C04_range_loop_chain` (bounds: literals, variables, registers), `C04_range_loop` (integers)
* 3  `C04_series_closed_form`, `C04_series_binOp`; prologues `run_calcCounter`, `run_calcIncr`,
     `run_cycleIncr`; `C04_interp_loop_chain`, `C04_interp_loop`, `C04_interp_last`,
     `C04_cycle_loop_chain`, `C04_cycle_loop`, `C04_cycle_zero`
* 4  `C04_while_loop` (against `Sem.execWhile` through `whilePasses`, `whilePasses_execWhile`)
* 6  `C04_sortNames_sorted`, `C04_sortNames_perm`, `C04_lightNames`, `C04_groupNames`,
     `C04_locationNames`, `C04_groupLights`, `C04_locationLights`, `C04_groupLights_nodup`,
     `C04_prevName_sorted`, `C04_nextName_sorted`, `C04_iter_names_append`, `C04_iter_names_order`
Not proved here (left to the differential check): that the discovery code `Gen.iterLights` /
`iterSets` / `iterMembers` pushes exactly the names of `Sem.iterNames` (the `repeat all|group|
location|in` prologues), and operands of the index-variable forms that are expressions or calls.
-/
namespace Bardolph
open Vm VmSteps Gen Loops

/-! ## 5. `break` leaves exactly the innermost loop -/

/-- the instructions of generated code (markers dropped; an assembled loop has none) -/
def unG : Code → List Instr
  | [] => []
  | .i x :: rest => x :: unG rest
  | .brk :: rest => unG rest

theorem ins_unG (c : Code) (h : ∀ g ∈ c, g ≠ G.brk) : ins (unG c) = c := by
  induction c with
  | nil => rfl
  | cons g c ih =>
    cases g with
    | brk => exact absurd rfl (h G.brk (by simp))
    | i x =>
      simp only [unG, ins, List.map_cons]
      congr 1
      exact ih fun g hg => h g (by simp [hg])

theorem unG_ins (xs : List Instr) : unG (ins xs) = xs := by
  induction xs with
  | nil => rfl
  | cons x xs ih => simp only [ins, List.map_cons, unG] at ih ⊢; rw [ih]

theorem assembleLoop_mem_ne_brk (pre test bodyPre : List Instr) (body : Code) (post : List Instr) :
    ∀ g ∈ assembleLoop pre test bodyPre body post, g ≠ G.brk := by
  intro g hg e
  subst e
  obtain ⟨k, hk⟩ := List.mem_iff_getElem?.1 hg
  exact assembleLoop_no_brk pre test bodyPre body post k hk

/-- **all markers are patched.**  Whatever the body, the code of an assembled loop consists of
instructions only — in particular a loop nested in another loop's body offers no marker to
the outer loop's `patchBreaks`: its `break`s are bound to itself. -/
theorem C04_loop_closed (pre test bodyPre : List Instr) (body : Code) (post : List Instr) :
    assembleLoop pre test bodyPre body post = ins (unG (assembleLoop pre test bodyPre body post)) :=
  (ins_unG _ (assembleLoop_mem_ne_brk pre test bodyPre body post)).symm

/-- every loop form is closed the same way -/
theorem C04_genLoop_closed (h : LoopHdr) (body : Code) : ∀ g ∈ genLoop h body, g ≠ G.brk := by
  cases h <;> simp only [genLoop] <;> exact assembleLoop_mem_ne_brk _ _ _ _ _

theorem unG_getElem? (c : Code) (h : ∀ g ∈ c, g ≠ G.brk) (k : Nat) (x : Instr)
    (hk : c[k]? = some (G.i x)) : (unG c)[k]? = some x := by
  have := ins_unG c h
  rw [← this] at hk
  simp only [ins, List.getElem?_map] at hk
  cases h' : (unG c)[k]? with
  | none => simp [h'] at hk
  | some y => simp [h'] at hk; rw [hk]

/-- **break_target.**  In the code of ANY loop form (`assembleLoop` with any prologue, test,
body prefix and post-step), a `break` marker of the body — at any nesting depth of `if`/`else`
branches, at position `j` of the body — has become `JUMP ALWAYS d` with `d` the distance to
this loop's `END_LOOP`, which is the last instruction of the loop's code. -/
theorem C04_break_target (pre test bodyPre : List Instr) (body : Code) (post : List Instr) (j : Nat)
    (hb : BrkAt body j) :
    let code := unG (assembleLoop pre test bodyPre body post)
    let at_ := bodyIdx pre test bodyPre + j
    let end_ := endIdx pre test bodyPre body post
    code[at_]? = some (.jump .always ((end_ : Int) - (at_ : Int))) ∧
    code[end_]? = some .endLoop ∧ code.length = end_ + 1 := by
  intro code at_ end_
  have hno := assembleLoop_mem_ne_brk pre test bodyPre body post
  refine ⟨?_, ?_, ?_⟩
  · apply unG_getElem? _ hno
    have := assembleLoop_body pre test bodyPre body post j hb.lt
    rw [this]
    have hlt := hb.lt
    have hg : body[j] = G.brk := by
      have := hb.get
      rw [List.getElem?_eq_getElem hb.lt] at this
      simpa using this
    rw [hg]
  · exact unG_getElem? _ hno _ _ (assembleLoop_endLoop pre test bodyPre body post)
  · have := congrArg List.length (C04_loop_closed pre test bodyPre body post)
    rw [ins_length, assembleLoop_length] at this
    exact this.symm

/-- instructions of the body — e.g. the already patched jumps of an inner loop — are left alone
by the enclosing loop's patching -/
theorem C04_inner_jumps_kept (pre test bodyPre : List Instr) (body : Code) (post : List Instr)
    (j : Nat) (x : Instr) (hj : body[j]? = some (G.i x)) :
    (unG (assembleLoop pre test bodyPre body post))[bodyIdx pre test bodyPre + j]? = some x := by
  have hlt : j < body.length := by
    cases h : body[j]? with
    | none => simp [h] at hj
    | some _ => exact (List.getElem?_eq_some_iff.1 h).1
  apply unG_getElem? _ (assembleLoop_mem_ne_brk pre test bodyPre body post)
  rw [assembleLoop_body pre test bodyPre body post j hlt]
  rw [List.getElem?_eq_getElem hlt] at hj
  simp only [Option.some.injEq] at hj
  rw [hj]

/-- `EvalStack.trim`: whatever was pushed since the loop was entered is dropped -/
theorem C04_trimEval (extra base : List Val) (h : Nat) (hb : base.length = h) :
    trimEval (extra ++ base) h = base := by
  subst hb
  simp [trimEval]

/-- **break_exec.**  Executing the patched `break` and the `END_LOOP` it leads to, from a state
whose innermost frame is this loop's, with ANYTHING on the evaluation stack: the loop frame is
popped — the frames below, an enclosing loop's among them, are untouched — and the evaluation
stack is cut back to the `h` values it held when this loop was entered. -/
theorem C04_break_exec (img : Image) (s : State) (pc endPc : Nat) (d : Int)
    (vars : List (LoopVar × Val)) (h : Nat) (rest : List Frame)
    (hs : s.status = .running) (hpc : s.pc = (pc : Int))
    (hj : img.code[pc]? = some (.jump .always d)) (hd : (pc : Int) + d = (endPc : Int))
    (he : img.code[endPc]? = some .endLoop) (hst : s.stack = .loop vars h :: rest) :
    run img 2 s = { s with pc := (endPc : Int) + 1, stack := rest, eval := trimEval s.eval h } := by
  rw [show (2 : Nat) = 1 + 1 from rfl, run_add, run_one _ _ hs, step_jump_always img s pc d hs hpc hj,
    run_one _ _ (by exact hs), hd,
    step_endLoop img _ endPc vars h rest (by exact hs) (by rfl) he (by exact hst)]

/-- **break_innermost.**  A `break` at position `j` of the body of any loop form, through any
nesting of `if`s: from a state at that instruction whose innermost frame is this loop's and
whose evaluation stack holds `extra` (say the names an inner loop over lights was still to
visit — that inner loop has ended — or nothing) on top of the `h` values `base` present when
the loop began (among them the pending names of an enclosing loop over lights), two steps
later the machine is just past this loop's `END_LOOP`, the loop frame is gone, `rest` — the
enclosing loop's frame with its counter and index — is intact, and the evaluation stack is
exactly `base`. -/
theorem C04_break_innermost (img : Image) (P0 : Nat) (pre test bodyPre : List Instr) (body : Code)
    (post : List Instr) (j : Nat) (hb : BrkAt body j)
    (hc : CodeAt img P0 (unG (assembleLoop pre test bodyPre body post)))
    (s : State) (vars : List (LoopVar × Val)) (h : Nat) (rest : List Frame) (extra base : List Val)
    (hs : s.status = .running)
    (hpc : s.pc = ((P0 + (bodyIdx pre test bodyPre + j) : Nat) : Int))
    (hst : s.stack = .loop vars h :: rest) (hev : s.eval = extra ++ base) (hbase : base.length = h) :
    run img 2 s =
      { s with pc := ((P0 + (unG (assembleLoop pre test bodyPre body post)).length : Nat) : Int),
               stack := rest, eval := base } := by
  obtain ⟨h1, h2, h3⟩ := C04_break_target pre test bodyPre body post j hb
  have hlt1 : bodyIdx pre test bodyPre + j < (unG (assembleLoop pre test bodyPre body post)).length :=
    (List.getElem?_eq_some_iff.1 h1).1
  have hlt2 : endIdx pre test bodyPre body post < (unG (assembleLoop pre test bodyPre body post)).length :=
    (List.getElem?_eq_some_iff.1 h2).1
  have hj := hc _ hlt1
  have he := hc _ hlt2
  rw [← List.getElem?_eq_getElem hlt1, h1] at hj
  rw [← List.getElem?_eq_getElem hlt2, h2] at he
  rw [C04_break_exec img s _ (P0 + endIdx pre test bodyPre body post) _ vars h rest hs hpc hj
    (by omega) he hst, hev, C04_trimEval extra base h hbase, h3]
  apply State.ext' <;> simp
  omega

/-! ## loops seen from their top -/

/-- **the body contract.**  `BodyRun img b t u`: started at the first instruction of the body
`b` in state `t`, the VM reaches `u` just past the body, still running, with the evaluation
stack as it was and this loop's frame — its hidden variables and recorded stack height — on
top.  Nothing is assumed about registers, variables, lights, output, or the frames below
(their dictionaries may change: the body may assign). -/
structure BodyRun (img : Image) (b : List Instr) (t u : State) : Prop where
  reach : ∃ k, run img k t = u
  running : u.status = .running
  pc : u.pc = t.pc + (b.length : Int)
  eval : u.eval = t.eval
  frame : ∀ vars h rest, t.stack = .loop vars h :: rest → ∃ rest', u.stack = .loop vars h :: rest'

/-- a chain of passes: from the loop-top state `s`, pass after pass — `enter` is what the
loop test does on success, `K` the body, `post` the post-step and back jump — to the loop-top
state `s'` at which the loop ends; `ts` lists the states in which the body was started -/
inductive Passes (K : State → State → Prop) (enter post : State → State) :
    State → List State → State → Prop
  | done (s : State) : Passes K enter post s [] s
  | pass {s u s' : State} {ts : List State} : K (enter s) u → Passes K enter post (post u) ts s' →
      Passes K enter post s (enter s :: ts) s'

/-- the loop test succeeded: `result` is `True`, control is at the body -/
def enterBody (bodyPc : Nat) (s : State) : State :=
  { s with pc := (bodyPc : Int), regs := fun r => if r = .result then .bool true else s.regs r }

/-- the loop test failed and `END_LOOP` ran: `result` is `False`, the loop frame is popped -/
def exitLoop (afterPc : Nat) (s : State) : State :=
  { s with pc := (afterPc : Int), regs := fun r => if r = .result then .bool false else s.regs r,
           stack := s.stack.tail }

/-- apply `f` to the hidden variables of the innermost loop frame -/
def mapTop (f : List (LoopVar × Val) → List (LoopVar × Val)) : List Frame → List Frame
  | .loop vars h :: rest => .loop (f vars) h :: rest
  | st => st

/-- `counter := counter - 1` -/
def decCounter (vars : List (LoopVar × Val)) : List (LoopVar × Val) :=
  setLV vars .counter ((Val.sub (getLV vars .counter) (.int 1)).getD .none)

/-- the post-step of a counted loop without index variable, back at the loop top -/
def countPost (topPc : Nat) (u : State) : State :=
  { u with pc := (topPc : Int), stack := mapTop decCounter u.stack }

theorem counterTest_eq : counterTest =
    [Instr.push (.loopVar .counter), .pushq (.int 0), .op .gt] ++ [Instr.pop (.reg .result)] := rfl

/-- the loop test of a counted loop: `result := counter > 0`, nothing else changes -/
theorem run_counterTest (img : Image) (s : State) (top : Nat) (vars : List (LoopVar × Val)) (h : Nat)
    (rest : List Frame) (c : Rat) (fl : Bool)
    (hs : s.status = .running) (hpc : s.pc = (top : Int)) (hc : CodeAt img top counterTest)
    (hst : s.stack = .loop vars h :: rest) (hn : Num (getLV vars .counter) c fl) :
    run img 4 s =
      { s with pc := (top : Int) + 4,
               regs := fun r => if r = .result then .bool (decide (0 < c)) else s.regs r } := by
  have hgt : binVal .gt (getLV vars .counter) (.int 0) = some (.bool (decide (0 < c))) := by
    have := num_gt hn (Num.int 0)
    show Val.cmp .gt _ _ = _
    simpa using this
  have := run_pf_reg img [Instr.push (.loopVar .counter), .pushq (.int 0), .op .gt] .result s top _
    hs hpc (by rw [← counterTest_eq]; exact hc)
    (pfRun3 s.read s.eval _ _ .gt _ _ _
      (pfStep_push_lv s s.eval .counter _ (getLoopVar_eq hst _) hn.ne_none) (pfStep_pushq _ _ _) hgt)
  simp only [List.length_cons, List.length_nil] at this
  rw [this]
  apply State.ext' <;> simp
  omega


/-- test succeeded: five steps from the loop top to the body -/
theorem run_test_enter (img : Image) (s : State) (top n : Nat) (vars : List (LoopVar × Val)) (h : Nat)
    (rest : List Frame) (c : Rat) (fl : Bool)
    (hs : s.status = .running) (hpc : s.pc = (top : Int)) (hc : CodeAt img top counterTest)
    (hj : img.code[top + 4]? = some (.jump .ifFalse ((n : Nat) + 2)))
    (hst : s.stack = .loop vars h :: rest) (hn : Num (getLV vars .counter) c fl) (hpos : 0 < c) :
    run img 5 s = enterBody (top + 5) s := by
  rw [show (5 : Nat) = 4 + 1 from rfl, run_add, run_counterTest img s top vars h rest c fl hs hpc hc hst hn,
    run_one _ _ (by exact hs),
    step_jump_ifFalse img _ (top + 4) _ (by exact hs) (by simp) hj]
  simp only [enterBody, hpos, decide_true, ite_true, Val.truthy]
  apply State.ext' <;> simp
  omega

/-- test failed: six steps from the loop top to just past `END_LOOP` -/
theorem run_test_exit (img : Image) (s : State) (top n : Nat) (vars : List (LoopVar × Val)) (h : Nat)
    (rest : List Frame) (c : Rat) (fl : Bool)
    (hs : s.status = .running) (hpc : s.pc = (top : Int)) (hc : CodeAt img top counterTest)
    (hj : img.code[top + 4]? = some (.jump .ifFalse ((n : Nat) + 2)))
    (he : img.code[top + 4 + n + 2]? = some .endLoop)
    (hst : s.stack = .loop vars h :: rest) (hev : s.eval.length = h)
    (hn : Num (getLV vars .counter) c fl) (hneg : c ≤ 0) :
    run img 6 s = exitLoop (top + 4 + n + 2 + 1) s := by
  have hd : decide (0 < c) = false := by
    have : ¬ 0 < c := by grind
    simp [this]
  have h5 : run img 5 s =
      { s with pc := ((top + 4 + n + 2 : Nat) : Int),
               regs := fun r => if r = .result then .bool false else s.regs r } := by
    rw [show (5 : Nat) = 4 + 1 from rfl, run_add,
      run_counterTest img s top vars h rest c fl hs hpc hc hst hn,
      run_one _ _ (by exact hs),
      step_jump_ifFalse img _ (top + 4) _ (by exact hs) (by simp) hj]
    simp only [hd, ite_true, Val.truthy, Bool.false_eq_true, ite_false]
    apply State.ext' <;> simp
    omega
  rw [show (6 : Nat) = 5 + 1 from rfl, run_add, h5, run_one _ _ (by exact hs),
    step_endLoop img _ (top + 4 + n + 2) vars h rest (by exact hs) (by rfl) he (by exact hst)]
  simp only [exitLoop, hst, List.tail_cons, trimEval, ← hev]
  apply State.ext' <;> simp

theorem loopPost_none_eq : loopPost none =
    [Instr.push (.loopVar .counter), .pushq (.int 1), .op .sub] ++ [Instr.pop (.loopVar .counter)] := rfl

/-- post-step of a counted loop and the back jump: five steps from the end of the body to the
loop top, the counter one less -/
theorem run_post_none (img : Image) (u : State) (pc top : Nat) (vars : List (LoopVar × Val)) (h : Nat)
    (rest : List Frame) (c : Rat) (fl : Bool)
    (hs : u.status = .running) (hpc : u.pc = (pc : Int)) (hc : CodeAt img pc (loopPost none))
    (off : Int) (hj : img.code[pc + 4]? = some (.jump .always off))
    (hoff : ((pc + 4 : Nat) : Int) + off = (top : Int))
    (hst : u.stack = .loop vars h :: rest) (hn : Num (getLV vars .counter) c fl) :
    run img 5 u = countPost top u ∧
      ∃ cv', (countPost top u).stack = .loop (setLV vars .counter cv') h :: rest ∧ Num cv' (c - 1) fl := by
  obtain ⟨cv', hsub, hn'⟩ := num_dec hn
  have hrun := run_pf_lv img [Instr.push (.loopVar .counter), .pushq (.int 1), .op .sub] .counter u pc cv'
    vars h rest hs hpc (by rw [← loopPost_none_eq]; exact hc) hst
    (pfRun3 u.read u.eval _ _ .sub _ _ _
      (pfStep_push_lv u u.eval .counter _ (getLoopVar_eq hst _) hn.ne_none) (pfStep_pushq _ _ _)
      (by show Val.sub _ _ = _; exact hsub))
  simp only [List.length_cons, List.length_nil] at hrun
  have hstk : (countPost top u).stack = .loop (setLV vars .counter cv') h :: rest := by
    simp [countPost, hst, mapTop, decCounter, hsub]
  refine ⟨?_, cv', hstk, hn'⟩
  rw [show (5 : Nat) = 4 + 1 from rfl, run_add, hrun, run_one _ _ (by exact hs),
    step_jump_always img _ (pc + 4) _ (by exact hs) (by simp; omega) hj]
  apply State.ext' <;> simp [countPost, hst, mapTop, decCounter, hsub]
  omega


/-- **counted loop, from its top.**  `ts` are the body-start states of the passes made. -/
theorem counted_loop_chain (img : Image) (top : Nat) (b : List Instr)
    (hc : CodeAt img top (loopTail counterTest (b ++ loopPost none))) :
    ∀ (s : State) (ts : List State) (s' : State),
      Passes (BodyRun img b) (enterBody (top + 5)) (countPost top) s ts s' →
      ∀ (vars : List (LoopVar × Val)) (h : Nat) (rest : List Frame) (c : Rat) (fl : Bool),
        s.status = .running → s.pc = (top : Int) → s.stack = .loop vars h :: rest →
        s.eval.length = h → Num (getLV vars .counter) c fl → ts.length = passes c →
        (∃ k, run img k s = exitLoop (top + (loopTail counterTest (b ++ loopPost none)).length) s') ∧
        s'.eval = s.eval ∧ s'.status = .running ∧ ∃ vars' rest', s'.stack = .loop vars' h :: rest' := by
  obtain ⟨hT, hJ, hB, hP, hBk, hE⟩ := loopTail_parts hc
  have hlen : (loopTail counterTest (b ++ loopPost none)).length = 4 + b.length + 4 + 2 + 1 := by
    rw [loopTail_length]; simp [counterTest, testOp, loopPost]; omega
  have hcl : counterTest.length = 4 := rfl
  have hpl : (loopPost none).length = 4 := rfl
  rw [hcl, hpl] at hJ hBk hE
  rw [hcl] at hB hP
  intro s ts s' hp
  induction hp with
  | done s =>
    intro vars h rest c fl hs hpc hst hev hn hlen'
    have hneg : c ≤ 0 := passes_zero_iff.1 (by simpa using hlen'.symm)
    refine ⟨⟨6, ?_⟩, rfl, hs, vars, rest, hst⟩
    rw [run_test_exit img s top (b.length + 4) vars h rest c fl hs hpc hT hJ
      (by rw [← hE]; congr 1; omega) hst hev hn hneg, hlen]
    congr 1; omega
  | @pass s u s' ts hK hrest ih =>
    intro vars h rest c fl hs hpc hst hev hn hlen'
    have hpos : 0 < c := by
      apply Classical.byContradiction
      intro hc'
      have : c ≤ 0 := by grind
      rw [passes_nonpos this] at hlen'
      simp at hlen'
    have henter := run_test_enter img s top (b.length + 4) vars h rest c fl hs hpc hT hJ hst hn hpos
    obtain ⟨⟨k1, hk1⟩, hur, hupc, huev, hufr⟩ := hK
    obtain ⟨rest', hust⟩ := hufr vars h rest (by simpa [enterBody] using hst)
    have hupc' : u.pc = ((top + 4 + 1 + b.length : Nat) : Int) := by
      rw [hupc]; simp [enterBody]; omega
    obtain ⟨hpost, cv', hpst, hn'⟩ := run_post_none img u (top + 4 + 1 + b.length) top vars h rest' c fl
      hur hupc' hP _ (by rw [← hBk]) (by simp; omega) hust hn
    have hgl : getLV (setLV vars .counter cv') .counter = cv' := getLV_setLV_self _ _ _
    obtain ⟨⟨k2, hk2⟩, hev2, hs2, hfr2⟩ := ih (setLV vars .counter cv') h rest' (c - 1) fl
      (by simpa [countPost] using hur) (by simp [countPost]) hpst
      (by simp only [countPost]; rw [huev]; simpa [enterBody] using hev)
      (by rw [hgl]; exact hn')
      (by rw [passes_pos hpos] at hlen'; simpa using hlen')
    refine ⟨⟨5 + k1 + 5 + k2, ?_⟩, ?_, hs2, hfr2⟩
    · rw [run_add, run_add, run_add, henter, hk1, hpost, hk2]
    · rw [hev2]; simp only [countPost]; rw [huev]; simp [enterBody]


/-- the universal form of the body contract: from EVERY running state at the body's first
instruction with a loop frame on top, the body runs to its end as `BodyRun` says.  (A body that
can fault does not satisfy this; the `…_chain` theorems assume `BodyRun` only for the states
the loop actually hands to the body.) -/
def BodyOk (img : Image) (b : List Instr) : Prop :=
  ∀ t : State, t.status = .running → (∃ pc : Nat, t.pc = (pc : Int) ∧ CodeAt img pc b) →
    (∃ vars h rest, t.stack = .loop vars h :: rest) → ∃ u, BodyRun img b t u

theorem count_chain_exists (img : Image) (top : Nat) (b : List Instr) (hB : CodeAt img (top + 5) b)
    (hok : BodyOk img b) :
    ∀ (p : Nat) (s : State) (vars : List (LoopVar × Val)) (h : Nat) (rest : List Frame),
      s.status = .running → s.stack = .loop vars h :: rest →
      ∃ ts s', Passes (BodyRun img b) (enterBody (top + 5)) (countPost top) s ts s' ∧ ts.length = p := by
  intro p
  induction p with
  | zero => intro s vars h rest _ _; exact ⟨[], s, .done s, rfl⟩
  | succ p ih =>
    intro s vars h rest hs hst
    obtain ⟨u, hu⟩ := hok (enterBody (top + 5) s) (by simpa [enterBody] using hs)
      ⟨top + 5, by simp [enterBody], hB⟩ ⟨vars, h, rest, by simpa [enterBody] using hst⟩
    obtain ⟨rest', hust⟩ := hu.frame vars h rest (by simpa [enterBody] using hst)
    obtain ⟨ts, s', hp, hl⟩ := ih (countPost top u) (decCounter vars) h rest'
      (by simpa [countPost] using hu.running) (by simp [countPost, hust, mapTop])
    exact ⟨_ :: ts, s', .pass hu hp, by simp [hl]⟩

/-- **the prologue contract** of a counted loop: run from the state `s0` just after `LOOP`, the
prologue `pre` ends in `s1` with the loop frame on top, a number `n` in its hidden `counter`,
and the evaluation stack as it was -/
structure PreRun (img : Image) (pre : List Instr) (s0 s1 : State) (n : Rat) : Prop where
  reach : ∃ k, run img k s0 = s1
  running : s1.status = .running
  pc : s1.pc = s0.pc + (pre.length : Int)
  eval : s1.eval = s0.eval
  frame : ∀ h rest, s0.stack = .loop [] h :: rest →
    ∃ vars rest1 fl, s1.stack = .loop vars h :: rest1 ∧ Num (getLV vars .counter) n fl

/-- the state after `LOOP` -/
def afterLoop (s : State) : State :=
  { s with pc := s.pc + 1, stack := .loop [] s.eval.length :: s.stack }

/-- **count_loop (chain form).**  `repeat n` compiled with any prologue `pre` that leaves the
number `n` in the hidden counter (`PreRun`) and any marker-free body `b`: if the body behaves
(`BodyRun`) in each of the `passes n` passes the loop makes — `ts` are the states in which the
passes start, `s'` the loop-top state after the last — then the VM, started at the `LOOP`
instruction, reaches the instruction after `END_LOOP` in the state `exitLoop … s'`: `s'` with
the loop frame popped and `result = False`.  The evaluation stack is what it was before the
loop.  All that the loop's own code did between the body runs is `enterBody` (set `result`) and
`countPost` (decrease the hidden counter): whatever is observable — trace, lights, registers
other than `result`, variables — is what the `passes n` consecutive body runs made it.  The
count is read once, by `pre`; nothing the body does to variables changes `passes n`. -/
theorem C04_count_loop_chain (img : Image) (P0 : Nat) (pre b : List Instr)
    (hc : CodeAt img P0 (loopCode pre counterTest (b ++ loopPost none)))
    (s s1 : State) (n : Rat) (hs : s.status = .running) (hpc : s.pc = (P0 : Int))
    (hpre : PreRun img pre (afterLoop s) s1 n) (ts : List State) (s' : State)
    (hp : Passes (BodyRun img b) (enterBody (P0 + 1 + pre.length + 5)) (countPost (P0 + 1 + pre.length))
      s1 ts s')
    (hlen : ts.length = passes n) :
    (∃ k, run img k s =
      exitLoop (P0 + (loopCode pre counterTest (b ++ loopPost none)).length) s') ∧
    (exitLoop (P0 + (loopCode pre counterTest (b ++ loopPost none)).length) s').eval = s.eval ∧
    ∃ vars' rest', s'.stack = .loop vars' s.eval.length :: rest' := by
  rw [loopCode_eq] at hc
  have hL : img.code[P0]? = some .loop := by
    have := hc.left.left.head; simpa using this
  have hTail : CodeAt img (P0 + 1 + pre.length) (loopTail counterTest (b ++ loopPost none)) := by
    have := hc.right
    have e : P0 + ([Instr.loop] ++ pre).length = P0 + 1 + pre.length := by simp; omega
    rw [e] at this
    exact this
  have h1 : run img 1 s = afterLoop s := by
    rw [run_one _ _ hs, step_loop img s P0 hs hpc hL]
    simp [afterLoop, hpc]
  obtain ⟨⟨k1, hk1⟩, hr1, hpc1, hev1, hfr1⟩ := hpre
  obtain ⟨vars, rest1, fl, hst1, hn⟩ := hfr1 s.eval.length s.stack rfl
  obtain ⟨⟨k2, hk2⟩, hev2, hs2, hfr2⟩ := counted_loop_chain img (P0 + 1 + pre.length) b hTail s1 ts s' hp
    vars s.eval.length rest1 n fl hr1 (by rw [hpc1]; simp [afterLoop, hpc]) hst1
    (by rw [hev1]; rfl) hn hlen
  have hlen2 : (loopCode pre counterTest (b ++ loopPost none)).length =
      1 + pre.length + (loopTail counterTest (b ++ loopPost none)).length := by
    rw [loopCode_eq]; simp; omega
  refine ⟨⟨1 + k1 + k2, ?_⟩, ?_, hfr2⟩
  · rw [run_add, run_add, h1, hk1, hk2, hlen2]
    congr 1; omega
  · simp only [exitLoop]; rw [hev2, hev1]; rfl


theorem assembled_counted (pre b post : List Instr) :
    unG (assembleLoop pre counterTest [] (ins b) post) = loopCode pre counterTest (b ++ post) := by
  rw [assembleLoop_ins, unG_ins]; simp

theorem assembled_length (pre b post : List Instr) :
    (unG (assembleLoop pre counterTest [] (ins b) post)).length = pre.length + b.length + post.length + 8 := by
  rw [assembled_counted, loopCode_eq]
  simp [loopTail, counterTest, testOp]; omega

/-- **count_loop.**  The code of `repeat n` with a body that satisfies the body contract from
every state (`BodyOk`): started at its `LOOP`, the VM makes exactly `passes n` passes — none
when `n ≤ 0`, `⌈n⌉` otherwise — and ends just past `END_LOOP`, loop frame popped, evaluation
stack restored; see `C04_count_loop_chain` for what the chain `Passes` says. -/
theorem C04_count_loop (img : Image) (P0 : Nat) (pre b : List Instr)
    (hc : CodeAt img P0 (unG (assembleLoop pre counterTest [] (ins b) (loopPost none))))
    (s s1 : State) (n : Rat) (hs : s.status = .running) (hpc : s.pc = (P0 : Int))
    (hpre : PreRun img pre (afterLoop s) s1 n) (hok : BodyOk img b) :
    ∃ ts s', Passes (BodyRun img b) (enterBody (P0 + 1 + pre.length + 5))
        (countPost (P0 + 1 + pre.length)) s1 ts s' ∧
      ts.length = passes n ∧
      (∃ k, run img k s =
        exitLoop (P0 + (unG (assembleLoop pre counterTest [] (ins b) (loopPost none))).length) s') ∧
      (exitLoop (P0 + (unG (assembleLoop pre counterTest [] (ins b) (loopPost none))).length) s').eval
        = s.eval ∧
      ∃ vars' rest', s'.stack = .loop vars' s.eval.length :: rest' := by
  rw [assembled_counted] at hc ⊢
  obtain ⟨vars, rest1, fl, hst1, hn⟩ := hpre.frame s.eval.length s.stack rfl
  have hB : CodeAt img (P0 + 1 + pre.length + 5) b := by
    rw [loopCode_eq] at hc
    have := hc.right
    have e : P0 + ([Instr.loop] ++ pre).length = P0 + 1 + pre.length := by simp; omega
    rw [e] at this
    exact (loopTail_parts this).2.2.1
  obtain ⟨ts, s', hp, hl⟩ := count_chain_exists img (P0 + 1 + pre.length) b hB hok (passes n) s1 vars
    s.eval.length rest1 hpre.running hst1
  exact ⟨ts, s', hp, hl, C04_count_loop_chain img P0 pre b hc s s1 n hs hpc hpre ts s' hp hl⟩

/-- a non-negative integer count `n` gives exactly `n` passes -/
theorem C04_count_loop_nat (n : Nat) : passes (n : Rat) = n := passes_natCast n

/-- a count that is zero or negative gives no pass -/
theorem C04_count_loop_nonpos (n : Rat) (h : n ≤ 0) : passes n = 0 := passes_nonpos h

/-- prologue of `repeat <literal>`: one `MOVEQ` into the hidden counter -/
theorem preRun_literal (img : Image) (s0 : State) (pc h : Nat) (rest : List Frame) (v : Val) (n : Rat)
    (fl : Bool) (hs : s0.status = .running) (hpc : s0.pc = (pc : Int))
    (hc : CodeAt img pc (genRv (.lit v) (.to counter))) (hst : s0.stack = .loop [] h :: rest)
    (hv : Num v n fl) :
    PreRun img (genRv (.lit v) (.to counter)) s0
      { s0 with pc := s0.pc + 1, stack := .loop [(.counter, v)] h :: rest } n := by
  have hput : s0.put counter v = { s0 with stack := .loop [(.counter, v)] h :: rest } := by
    simp only [counter, State.put, putLoopVar_eq hst]; rfl
  have hc' : CodeAt img pc [Instr.moveq v counter] := by simpa [genRv] using hc
  refine ⟨⟨1, ?_⟩, hs, by simp [genRv], rfl, ?_⟩
  · rw [run_one _ _ hs, step_moveq img s0 pc v counter hs hpc hc'.head (by simp [counter])
      (by rw [hput]; exact hs), hput]
  · intro h' rest' hst'
    rw [hst] at hst'
    simp only [List.cons.injEq, Frame.loop.injEq, true_and] at hst'
    obtain ⟨rfl, rfl⟩ := hst'
    exact ⟨_, _, fl, rfl, by simpa [getLV_cons] using hv⟩

/-- prologue of `repeat <variable>`: the variable is read ONCE, here -/
theorem preRun_var (img : Image) (s0 : State) (pc h : Nat) (rest : List Frame) (x : String) (n : Rat)
    (fl : Bool) (hs : s0.status = .running) (hpc : s0.pc = (pc : Int))
    (hc : CodeAt img pc (genRv (.var x) (.to counter))) (hst : s0.stack = .loop [] h :: rest)
    (hv : Num (s0.getVariable x) n fl) :
    PreRun img (genRv (.var x) (.to counter)) s0
      { s0 with pc := s0.pc + 1, stack := .loop [(.counter, s0.getVariable x)] h :: rest } n := by
  have hput : s0.put counter (s0.read (.var x)) =
      { s0 with stack := .loop [(.counter, s0.getVariable x)] h :: rest } := by
    simp only [counter, State.put, putLoopVar_eq hst, State.read]; rfl
  have hc' : CodeAt img pc [Instr.move (.var x) counter] := by simpa [genRv] using hc
  refine ⟨⟨1, ?_⟩, hs, by simp [genRv], rfl, ?_⟩
  · rw [run_one _ _ hs, step_move img s0 pc (.var x) counter hs hpc hc'.head
      (by rw [hput]; exact hs), hput]
  · intro h' rest' hst'
    rw [hst] at hst'
    simp only [List.cons.injEq, Frame.loop.injEq, true_and] at hst'
    obtain ⟨rfl, rfl⟩ := hst'
    exact ⟨_, _, fl, rfl, by simpa [getLV_cons] using hv⟩


/-! ### what the loop's own code leaves alone -/

theorem Passes.mono {K K' : State → State → Prop} {enter post : State → State}
    (h : ∀ t u, K t u → K' t u) {s s' : State} {ts : List State}
    (hp : Passes K enter post s ts s') : Passes K' enter post s ts s' := by
  induction hp with
  | done s => exact .done s
  | pass hk _ ih => exact .pass (h _ _ hk) ih

theorem mapTop_tail (f : List (LoopVar × Val) → List (LoopVar × Val)) (st : List Frame) :
    (mapTop f st).tail = st.tail := by
  cases st with
  | nil => rfl
  | cons fr rest => cases fr <;> rfl

/-- between the body runs a counted loop touches only `pc`, `result` and its own frame's
counter: in particular the trace, the lights, the variables and every other register are
what the body runs made them -/
theorem enterBody_fields (p : Nat) (s : State) :
    (enterBody p s).trace = s.trace ∧ (enterBody p s).lights = s.lights ∧
    (enterBody p s).globals = s.globals ∧ (enterBody p s).stack = s.stack ∧
    (enterBody p s).eval = s.eval ∧ (enterBody p s).unnamed = s.unnamed ∧
    ∀ r, r ≠ .result → (enterBody p s).regs r = s.regs r :=
  ⟨rfl, rfl, rfl, rfl, rfl, rfl, fun r hr => by simp [enterBody, hr]⟩

theorem countPost_fields (p : Nat) (u : State) :
    (countPost p u).trace = u.trace ∧ (countPost p u).lights = u.lights ∧
    (countPost p u).globals = u.globals ∧ (countPost p u).stack.tail = u.stack.tail ∧
    (countPost p u).eval = u.eval ∧ (countPost p u).unnamed = u.unnamed ∧
    (countPost p u).regs = u.regs :=
  ⟨rfl, rfl, rfl, mapTop_tail _ _, rfl, rfl, rfl⟩

theorem exitLoop_fields (p : Nat) (s : State) :
    (exitLoop p s).trace = s.trace ∧ (exitLoop p s).lights = s.lights ∧
    (exitLoop p s).globals = s.globals ∧ (exitLoop p s).stack = s.stack.tail ∧
    (exitLoop p s).eval = s.eval ∧ (exitLoop p s).unnamed = s.unnamed ∧
    ∀ r, r ≠ .result → (exitLoop p s).regs r = s.regs r :=
  ⟨rfl, rfl, rfl, rfl, rfl, rfl, fun r hr => by simp [exitLoop, hr]⟩

/-- a counted loop whose body leaves the frames below the loop frame as they are ends with the
stack it started with -/
theorem Passes.tail_stack {K : State → State → Prop} (p q : Nat)
    (hK : ∀ t u, K t u → u.stack.tail = t.stack.tail) {s s' : State} {ts : List State}
    (hp : Passes K (enterBody p) (countPost q) s ts s') : s'.stack.tail = s.stack.tail := by
  induction hp with
  | done s => rfl
  | @pass s u s' ts hk _ ih =>
    rw [ih, (countPost_fields q u).2.2.2.1, hK _ _ hk]; rfl


theorem count_chain_exists' (img : Image) (top : Nat) (b : List Instr) (K : State → State → Prop)
    (hKB : ∀ t u, K t u → BodyRun img b t u) (hB : CodeAt img (top + 5) b)
    (hok : ∀ t : State, t.status = .running → (∃ pc : Nat, t.pc = (pc : Int) ∧ CodeAt img pc b) →
      (∃ vars h rest, t.stack = .loop vars h :: rest) → ∃ u, K t u) :
    ∀ (p : Nat) (s : State) (vars : List (LoopVar × Val)) (h : Nat) (rest : List Frame),
      s.status = .running → s.stack = .loop vars h :: rest →
      ∃ ts s', Passes K (enterBody (top + 5)) (countPost top) s ts s' ∧ ts.length = p := by
  intro p
  induction p with
  | zero => intro s vars h rest _ _; exact ⟨[], s, .done s, rfl⟩
  | succ p ih =>
    intro s vars h rest hs hst
    obtain ⟨u, hu⟩ := hok (enterBody (top + 5) s) (by simpa [enterBody] using hs)
      ⟨top + 5, by simp [enterBody], hB⟩ ⟨vars, h, rest, by simpa [enterBody] using hst⟩
    have hb := hKB _ _ hu
    obtain ⟨rest', hust⟩ := hb.frame vars h rest (by simpa [enterBody] using hst)
    obtain ⟨ts, s', hp, hl⟩ := ih (countPost top u) (decCounter vars) h rest'
      (by simpa [countPost] using hb.running) (by simp [countPost, hust, mapTop])
    exact ⟨_ :: ts, s', .pass hu hp, by simp [hl]⟩

/-- **count_loop, literal count, frames below untouched.**  `repeat <number>` around a body that
from every state runs to its end as `BodyRun` says and leaves the frames below the loop frame as
they are: exactly `passes n` body runs (`n` itself for a natural number), then control is just
past `END_LOOP` with the stack and the evaluation stack exactly as before the loop. -/
theorem C04_count_loop_literal (img : Image) (P0 : Nat) (b : List Instr) (nv : Val) (n : Rat) (fl : Bool)
    (hnv : Num nv n fl)
    (hc : CodeAt img P0 (unG (assembleLoop (genRv (.lit nv) (.to counter)) counterTest [] (ins b)
      (loopPost none))))
    (s : State) (hs : s.status = .running) (hpc : s.pc = (P0 : Int))
    (hok : ∀ t : State, t.status = .running → (∃ pc : Nat, t.pc = (pc : Int) ∧ CodeAt img pc b) →
      (∃ vars h rest, t.stack = .loop vars h :: rest) →
      ∃ u, BodyRun img b t u ∧ u.stack.tail = t.stack.tail) :
    ∃ (ts : List State) (s' : State) (k : Nat),
      ts.length = passes n ∧ run img k s = exitLoop (P0 + (b.length + 13)) s' ∧
      (exitLoop (P0 + (b.length + 13)) s').stack = s.stack ∧
      (exitLoop (P0 + (b.length + 13)) s').eval = s.eval ∧
      ∃ s1, Passes (fun t u => BodyRun img b t u ∧ u.stack.tail = t.stack.tail)
        (enterBody (P0 + 1 + 1 + 5)) (countPost (P0 + 1 + 1)) s1 ts s' := by
  have hlen : (unG (assembleLoop (genRv (.lit nv) (.to counter)) counterTest [] (ins b)
      (loopPost none))).length = b.length + 13 := by
    rw [assembled_length]; simp [genRv, loopPost]; omega
  have hc0 := hc
  rw [assembled_counted] at hc
  obtain ⟨_, hPre, hT, _⟩ := loopCode_parts hc
  have hpl : (genRv (.lit nv) (.to counter)).length = 1 := by simp [genRv]
  rw [hpl] at hT
  let s1 : State :=
    { afterLoop s with pc := (afterLoop s).pc + 1,
                       stack := .loop [(.counter, nv)] s.eval.length :: s.stack }
  have hpre : PreRun img (genRv (.lit nv) (.to counter)) (afterLoop s) s1 n :=
    preRun_literal img (afterLoop s) (P0 + 1) s.eval.length s.stack nv n fl (by exact hs)
    (by simp [afterLoop, hpc]) hPre rfl hnv
  have hB : CodeAt img (P0 + 1 + 1 + 5) b := (loopTail_parts hT).2.2.1
  obtain ⟨ts, s', hp, hl⟩ := count_chain_exists' img (P0 + 1 + 1) b
    (fun t u => BodyRun img b t u ∧ u.stack.tail = t.stack.tail) (fun _ _ h => h.1) hB hok (passes n) s1
    [(.counter, nv)] s.eval.length s.stack (by exact hs) rfl
  have hp' := Passes.mono (K' := BodyRun img b) (fun _ _ h => h.1) hp
  obtain ⟨⟨k, hk⟩, hev, _⟩ := C04_count_loop_chain img P0 _ b hc s s1 n hs hpc hpre ts s'
    (by rw [hpl]; exact hp') hl
  rw [assembled_counted] at hlen
  rw [hlen] at hk hev
  refine ⟨ts, s', k, hl, hk, ?_, hev, s1, hp⟩
  rw [(exitLoop_fields _ s').2.2.2.1, Passes.tail_stack _ _ (fun _ _ h => h.2) hp]
  rfl


section ExprCount
open Sem

/-- prologue of `repeat {e}` for a call-free expression `e` whose source-level value is the
number `n`: by `C02_same_value_everywhere` the code `⟦e⟧; POP counter` leaves that value in
the hidden counter — evaluated once, here -/
theorem preRun_expr (img : Image) (s0 : State) (pc h : Nat) (rest : List Frame) (e : Expr)
    (he : CallFree e) (fuel : Nat) (σ σ' : S) (x : Val) (n : Rat) (fl : Bool)
    (hs : s0.status = .running) (hpc : s0.pc = (pc : Int))
    (hc : CodeAt img pc (genRv (.expr e) (.to counter))) (hst : s0.stack = .loop [] h :: rest)
    (henv : SameEnv σ s0) (hev : evalExpr fuel e σ = .ok (x, σ')) (hv : Num x n fl) :
    PreRun img (genRv (.expr e) (.to counter)) s0
      { s0 with pc := s0.pc + ((genRv (.expr e) (.to counter)).length : Int),
                stack := .loop [(.counter, x)] h :: rest } n := by
  obtain ⟨hrun, _, _⟩ := C02_same_value_everywhere img e he counter fuel σ σ' x s0 pc hs hpc hc henv hev
  have hst' : ({ s0 with pc := (pc : Int) + (genExpr e).length } : State).stack = .loop [] h :: rest := hst
  have hput : ({ s0 with pc := (pc : Int) + (genExpr e).length } : State).put counter x =
      { s0 with pc := (pc : Int) + (genExpr e).length, stack := .loop [(.counter, x)] h :: rest } := by
    simp only [counter, State.put, putLoopVar_eq hst']; rfl
  have hrun' : run img (genRv (.expr e) (.to counter)).length s0 =
      { s0 with pc := s0.pc + ((genRv (.expr e) (.to counter)).length : Int),
                stack := .loop [(.counter, x)] h :: rest } := by
    rw [hrun]
    simp only [hput]
    rw [if_pos (by exact hs)]
    apply State.ext' <;> first | rfl | (simp [genRv, hpc]; omega)
  refine ⟨⟨_, hrun'⟩, hs, rfl, rfl, ?_⟩
  intro h' rest' hst2
  rw [hst] at hst2
  simp only [List.cons.injEq, Frame.loop.injEq, true_and] at hst2
  obtain ⟨rfl, rfl⟩ := hst2
  exact ⟨[(.counter, x)], rest, fl, rfl, by simpa [getLV_cons] using hv⟩

end ExprCount

/-! ## loops with an index variable -/

/-- `x + incr` as the VM computes it (`None` if it would fault) -/
def addVal (x incr : Val) : Val := (Val.add x incr).getD .none

/-- the index variable after `k` post-steps: `incr` added `k` times, one addition at a time,
with Python's int/float typing at each addition -/
def addN (x incr : Val) : Nat → Val
  | 0 => x
  | k + 1 => addVal (addN x incr k) incr

theorem addN_succ' (x incr : Val) (k : Nat) : addN x incr (k + 1) = addN (addVal x incr) incr k := by
  induction k with
  | zero => rfl
  | succ k ih => rw [addN, ih]; rfl

/-- the post-step of a counted loop with index variable `v`, back at the loop top:
`counter := counter - 1; v := v + incr` -/
def varPost (topPc : Nat) (v : String) (u : State) : State :=
  { ({ u with stack := mapTop decCounter u.stack } : State).putVariable v
      (addVal (u.getVariable v) (u.getLoopVar .incr)) with pc := (topPc : Int) }

theorem loopPost_some_eq (v : String) : loopPost (some v) =
    ([Instr.push (.loopVar .counter), .pushq (.int 1), .op .sub] ++ [Instr.pop (.loopVar .counter)]) ++
    ([Instr.push (.var v), .push (.loopVar .incr), .op .add] ++ [Instr.pop (.var v)]) := rfl

/-- post-step with index variable and the back jump: nine steps -/
theorem run_post_some (img : Image) (u : State) (pc top : Nat) (v : String)
    (vars : List (LoopVar × Val)) (h : Nat)
    (rest : List Frame) (c : Rat) (fl : Bool) (x d : Rat) (fx fd : Bool)
    (hs : u.status = .running) (hpc : u.pc = (pc : Int)) (hc : CodeAt img pc (loopPost (some v)))
    (off : Int) (hj : img.code[pc + 8]? = some (.jump .always off))
    (hoff : ((pc + 8 : Nat) : Int) + off = (top : Int))
    (hst : u.stack = .loop vars h :: rest) (hn : Num (getLV vars .counter) c fl)
    (hx : Num (u.getVariable v) x fx) (hd : Num (getLV vars .incr) d fd) :
    run img 9 u = varPost top v u ∧
      ∃ cv', ({ u with stack := mapTop decCounter u.stack } : State).stack =
          .loop (setLV vars .counter cv') h :: rest ∧ Num cv' (c - 1) fl ∧
        getLV (setLV vars .counter cv') .incr = getLV vars .incr := by
  have hc1 : CodeAt img pc [Instr.push (.loopVar .counter), .pushq (.int 1), .op .sub,
      .pop (.loopVar .counter)] := by
    rw [loopPost_some_eq] at hc; exact hc.left
  have hc2 : CodeAt img (pc + 4) [Instr.push (.var v), .push (.loopVar .incr), .op .add,
      .pop (.var v)] := by
    rw [loopPost_some_eq] at hc; exact hc.right
  obtain ⟨cv', hsub, hn'⟩ := num_dec hn
  let u1 : State := { u with pc := (pc : Int) + 4, stack := .loop (setLV vars .counter cv') h :: rest }
  have hrun1 : run img 4 u = u1 :=
    run_group_lv img _ _ .sub .counter u pc _ _ cv' vars h rest hs hpc hc1 hst
      (pfStep_push_lv u u.eval .counter _ (getLoopVar_eq hst _) hn.ne_none) (pfStep_pushq _ _ _)
      (by show Val.sub _ _ = _; exact hsub)
  have hinc : getLV (setLV vars .counter cv') .incr = getLV vars .incr :=
    getLV_setLV_other _ _ _ _ (by simp)
  have hstk : ({ u with stack := mapTop decCounter u.stack } : State).stack =
      .loop (setLV vars .counter cv') h :: rest := by
    simp [hst, mapTop, decCounter, hsub]
  refine ⟨?_, cv', hstk, hn', hinc⟩
  have hst1 : u1.stack = .loop (setLV vars .counter cv') h :: rest := rfl
  have hgv : u1.getVariable v = u.getVariable v :=
    getVariable_retop u u1 vars _ h h rest v hst hst1 rfl rfl
  obtain ⟨hadd, _⟩ := num_add hx hd
  have hrun2 : run img 4 u1 =
      { u1.putVariable v (addVal (u.getVariable v) (getLV vars .incr)) with pc := ((pc + 4 : Nat) : Int) + 4 } :=
    run_group_var img _ _ .add v u1 (pc + 4) _ _ _ (by exact hs) (by simp [u1]) hc2
      (pfStep_push_var u1 u1.eval v _ hgv hx.ne_none)
      (pfStep_push_lv u1 _ .incr _ (by rw [getLoopVar_eq hst1, hinc]) hd.ne_none)
      (by show Val.add _ _ = _; rw [hadd]; simp [addVal, hadd])
  have hrun3 : run img 1 { u1.putVariable v (addVal (u.getVariable v) (getLV vars .incr)) with
      pc := ((pc + 4 : Nat) : Int) + 4 } = varPost top v u := by
    rw [run_one _ _ (by simpa [putVariable_status] using hs),
      step_jump_always img _ (pc + 8) _ (by simpa [putVariable_status] using hs) (by simp; omega) hj]
    simp only [varPost, getLoopVar_eq hst]
    have e : ({ u with stack := mapTop decCounter u.stack } : State) = { u1 with pc := u.pc } := by
      simp only [u1]
      apply State.ext' <;> simp [hst, mapTop, decCounter, hsub]
    rw [e, putVariable_with_pc]
    apply State.ext' <;> simp
    omega
  exact run_trans hrun1 (run_trans hrun2 hrun3)


theorem putVariable_trace (s : State) (n : String) (v : Val) :
    (s.putVariable n v).trace = s.trace ∧ (s.putVariable n v).lights = s.lights ∧
    (s.putVariable n v).regs = s.regs ∧ (s.putVariable n v).unnamed = s.unnamed := by
  unfold State.putVariable
  repeat' split
  all_goals exact ⟨rfl, rfl, rfl, rfl⟩

theorem varPost_fields (p : Nat) (v : String) (u : State) :
    (varPost p v u).trace = u.trace ∧ (varPost p v u).lights = u.lights ∧
    (varPost p v u).eval = u.eval ∧ (varPost p v u).unnamed = u.unnamed ∧
    (varPost p v u).regs = u.regs := by
  have h := putVariable_trace ({ u with stack := mapTop decCounter u.stack } : State) v
    (addVal (u.getVariable v) (u.getLoopVar .incr))
  exact ⟨h.1, h.2.1, putVariable_eval _ _ _, h.2.2.2, h.2.2.1⟩


/-- **the body contract of a loop with index variable `v`**: `BodyRun`, and the body does not
assign `v` (what `v` denotes is the same after the body), defines no macro called `v`, and
leaves the frames below the loop frame in a shape in which names resolve (`ScopeOk`) -/
structure BodyRunV (img : Image) (b : List Instr) (v : String) (t u : State) : Prop
    extends BodyRun img b t u where
  keeps : u.getVariable v = t.getVariable v
  const : u.constants.get v = none
  scope : ScopeOk u.stack

theorem loopPost_some_length (v : String) : (loopPost (some v)).length = 8 := rfl

/-- **counted loop with index variable, from its top.** -/
theorem counted_var_loop_chain (img : Image) (top : Nat) (b : List Instr) (v : String)
    (hc : CodeAt img top (loopTail counterTest (b ++ loopPost (some v)))) :
    ∀ (s : State) (ts : List State) (s' : State),
      Passes (BodyRunV img b v) (enterBody (top + 5)) (varPost top v) s ts s' →
      ∀ (vars : List (LoopVar × Val)) (h : Nat) (rest : List Frame) (c : Rat) (fl : Bool)
        (x : Rat) (fx : Bool) (d : Rat) (fd : Bool),
        s.status = .running → s.pc = (top : Int) → s.stack = .loop vars h :: rest →
        s.eval.length = h → Num (getLV vars .counter) c fl → Num (getLV vars .incr) d fd →
        Num (s.getVariable v) x fx → ts.length = passes c →
        (∃ k, run img k s =
          exitLoop (top + (loopTail counterTest (b ++ loopPost (some v))).length) s') ∧
        s'.eval = s.eval ∧ s'.status = .running ∧
        (∃ vars' rest', s'.stack = .loop vars' h :: rest') ∧
        (∀ k (hk : k < ts.length), ts[k].getVariable v = addN (s.getVariable v) (getLV vars .incr) k) ∧
        s'.getVariable v = addN (s.getVariable v) (getLV vars .incr) ts.length := by
  obtain ⟨hT, hJ, hB, hP, hBk, hE⟩ := loopTail_parts hc
  have hlen : (loopTail counterTest (b ++ loopPost (some v))).length = 4 + b.length + 8 + 2 + 1 := by
    rw [loopTail_length]; simp [counterTest, testOp, loopPost]; omega
  have hcl : counterTest.length = 4 := rfl
  rw [hcl, loopPost_some_length] at hJ hBk hE
  rw [hcl] at hB hP
  intro s ts s' hp
  induction hp with
  | done s =>
    intro vars h rest c fl x fx d fd hs hpc hst hev hn hd hx hlen'
    have hneg : c ≤ 0 := passes_zero_iff.1 (by simpa using hlen'.symm)
    refine ⟨⟨6, ?_⟩, rfl, hs, ⟨vars, rest, hst⟩, fun k hk => by simp at hk, rfl⟩
    rw [run_test_exit img s top (b.length + 8) vars h rest c fl hs hpc hT hJ
      (by rw [← hE]; congr 1; omega) hst hev hn hneg, hlen]
    congr 1; omega
  | @pass s u s' ts hK hrest ih =>
    intro vars h rest c fl x fx d fd hs hpc hst hev hn hd hx hlen'
    have hpos : 0 < c := by
      apply Classical.byContradiction
      intro hc'
      have : c ≤ 0 := by grind
      rw [passes_nonpos this] at hlen'
      simp at hlen'
    have henter := run_test_enter img s top (b.length + 8) vars h rest c fl hs hpc hT hJ hst hn hpos
    obtain ⟨⟨⟨k1, hk1⟩, hur, hupc, huev, hufr⟩, hkeep, hconst, hscope⟩ := hK
    obtain ⟨rest', hust⟩ := hufr vars h rest (by simpa [enterBody] using hst)
    have hupc' : u.pc = ((top + 4 + 1 + b.length : Nat) : Int) := by
      rw [hupc]; simp [enterBody]; omega
    have hkeep' : u.getVariable v = s.getVariable v := hkeep
    obtain ⟨hpost, cv', hpst, hn', hinc⟩ := run_post_some img u (top + 4 + 1 + b.length) top v vars h rest'
      c fl x d fx fd hur hupc' hP _ (by rw [← hBk]) (by simp; omega) hust hn
      (by rw [hkeep']; exact hx) hd
    -- the assignment to `v`
    obtain ⟨hget, hsc2, _, htop2⟩ := putVariable_get ({ u with stack := mapTop decCounter u.stack } : State) v
      (addVal (u.getVariable v) (u.getLoopVar .incr)) hconst (by rw [hpst]; rw [hust] at hscope; exact hscope.retop)
    obtain ⟨rest2, hst2⟩ := htop2 _ h rest' hpst
    have hgv2 : (varPost top v u).getVariable v = addVal (s.getVariable v) (getLV vars .incr) := by
      have : (varPost top v u).getVariable v = addVal (u.getVariable v) (u.getLoopVar .incr) := hget
      rw [this, hkeep', getLoopVar_eq hust]
    obtain ⟨hadd, hnum2⟩ := num_add hx hd
    have hx2 : Num ((varPost top v u).getVariable v) (x + d) (fx || fd) := by
      rw [hgv2]; simpa [addVal, hadd] using hnum2
    obtain ⟨⟨k2, hk2⟩, hev2, hs2, hfr2, hvals, hfin⟩ := ih (setLV vars .counter cv') h rest2 (c - 1) fl
      (x + d) (fx || fd) d fd
      (by simpa [varPost, putVariable_status] using hur) (by simp [varPost]) (by exact hst2)
      (by simp only [varPost]; rw [putVariable_eval]; simp only []; rw [huev]; simpa [enterBody] using hev)
      (by rw [getLV_setLV_self]; exact hn') (by rw [hinc]; exact hd) hx2
      (by rw [passes_pos hpos] at hlen'; simpa using hlen')
    refine ⟨⟨5 + k1 + 9 + k2, ?_⟩, ?_, hs2, hfr2, ?_, ?_⟩
    · rw [run_add, run_add, run_add, henter, hk1, hpost, hk2]
    · rw [hev2]; simp only [varPost]; rw [putVariable_eval]; simp only []; rw [huev]; simp [enterBody]
    · intro k hk
      cases k with
      | zero => rfl
      | succ k =>
        simp only [List.getElem_cons_succ]
        rw [hvals k (by simpa using hk), hgv2, hinc, addN_succ']
    · rw [hfin, hgv2, hinc, List.length_cons, addN_succ']


/-! ## values of the index variable -/

/-- **series_closed_form.**  Adding a numeric increment `k` times to a numeric start, one VM
addition (`Vm.binOp .add`, i.e. `Val.add`) at a time: the value is `x + k·d` exactly, an int as
long as everything added so far is an int, a float from the first float on. -/
theorem C04_series_closed_form (xv iv : Val) (x d : Rat) (fx fd : Bool) (hx : Num xv x fx)
    (hd : Num iv d fd) (k : Nat) :
    Num (addN xv iv k) (x + (k : Rat) * d) (if k = 0 then fx else fx || fd) := by
  induction k with
  | zero =>
    have : x + ((0 : Nat) : Rat) * d = x := by simp [Rat.add_zero]
    rw [this]; exact hx
  | succ k ih =>
    obtain ⟨hadd, hnum⟩ := num_add ih hd
    have e : x + (k : Rat) * d + d = x + ((k + 1 : Nat) : Rat) * d := by
      rw [natCast_succ_rat]; grind
    have hf : ((if k = 0 then fx else fx || fd) || fd) = (fx || fd) := by
      split <;> cases fx <;> cases fd <;> rfl
    have hflag : (if k + 1 = 0 then fx else fx || fd) = ((if k = 0 then fx else fx || fd) || fd) := by
      rw [hf]; simp
    have hval : addN xv iv (k + 1) = Val.mkNum (x + (k : Rat) * d + d) ((if k = 0 then fx else fx || fd) || fd) := by
      simp only [addN, addVal, hadd, Option.getD_some]
    rw [hflag, ← e, hval]
    exact hnum

/-- the same with `Vm.binOp`, as `Sem.execLoop`'s `series` folds it -/
theorem C04_series_binOp (xv iv : Val) (x d : Rat) (fx fd : Bool) (hx : Num xv x fx)
    (hd : Num iv d fd) (k : Nat) :
    (List.range k).foldlM (fun acc _ => Vm.binOp .add acc iv) xv = some (addN xv iv k) := by
  induction k with
  | zero => rfl
  | succ k ih =>
    rw [List.range_succ, List.foldlM_append, ih]
    have := (num_add (C04_series_closed_form xv iv x d fx fd hx hd k) hd).1
    simp [binOp, addN, addVal, this]

/-! ## prologues -/

/-- **calc_counter.**  The prologue of `repeat with v from a to b`: from numbers `x` in `first`
and `y` in `last`, the hidden counter becomes `|y − x| + 1` and `incr` becomes `+1` or `−1`
(`−1` exactly when `y < x`); `result` is clobbered by the sign test, every other hidden variable
is kept, nothing else changes. -/
theorem run_calcCounter (img : Image) (s : State) (pc : Nat) (vars : List (LoopVar × Val)) (h : Nat)
    (rest : List Frame) (x y : Rat) (fx fy : Bool)
    (hs : s.status = .running) (hpc : s.pc = (pc : Int)) (hc : CodeAt img pc calcCounter)
    (hst : s.stack = .loop vars h :: rest)
    (hf : Num (getLV vars .first) x fx) (hl : Num (getLV vars .last) y fy) :
    ∃ k vars', run img k s =
        { s with pc := (pc : Int) + 20,
                 regs := fun q => if q = .result then .bool (decide (y - x < 0)) else s.regs q,
                 stack := .loop vars' h :: rest } ∧
      Num (getLV vars' .counter) ((if y - x < 0 then -(y - x) else y - x) + 1) (fy || fx) ∧
      getLV vars' .incr = .int (if y - x < 0 then -1 else 1) ∧
      (∀ l, l ≠ .counter → l ≠ .incr → getLV vars' l = getLV vars l) := by
  -- A: counter := last - first
  obtain ⟨hsub, hc0⟩ := num_sub hl hf
  let c0 := Val.mkNum (y - x) (fy || fx)
  let vA := setLV vars .counter c0
  let sA : State := { s with pc := (pc : Int) + 4, stack := .loop vA h :: rest }
  have hA : run img 4 s = sA :=
    run_group_lv img _ _ .sub .counter s pc _ _ c0 vars h rest hs hpc (hc.slice 0 4) hst
      (pfStep_push_lv s s.eval .last _ (getLoopVar_eq hst _) hl.ne_none)
      (pfStep_push_lv s _ .first _ (getLoopVar_eq hst _) hf.ne_none)
      (by show Val.sub _ _ = _; exact hsub)
  have hstA : sA.stack = .loop vA h :: rest := rfl
  have hgA : getLV vA .counter = c0 := getLV_setLV_self _ _ _
  -- B: result := counter < 0
  let R : Reg → Val := fun q => if q = .result then .bool (decide (y - x < 0)) else s.regs q
  let sB : State := { s with pc := (pc : Int) + 8, regs := R, stack := .loop vA h :: rest }
  have hlt : binVal .lt c0 (.int 0) = some (.bool (decide (y - x < 0))) := by
    have := num_lt hc0 (Num.int 0)
    show Val.cmp .lt _ _ = _
    simpa using this
  have hB : run img 4 sA = sB := by
    rw [run_group_reg img _ _ .lt .result sA (pc + 4) _ _ _ (by exact hs) (by simp [sA]) (hc.slice 4 4)
      (pfStep_push_lv sA sA.eval .counter _ (by rw [getLoopVar_eq hstA, hgA]) hc0.ne_none)
      (pfStep_pushq _ _ _) hlt]
    apply State.ext' <;> first | rfl | (simp [sA, sB, R]; omega)
  have hstB : sB.stack = .loop vA h :: rest := rfl
  have hJ := hc.get 8 (by decide)
  -- the tail shared by both branches: counter := counter + 1 at pc + 16
  have tail : ∀ (vD : List (LoopVar × Val)) (c1 : Val) (q : Rat),
      getLV vD .counter = c1 → Num c1 q (fy || fx) →
      ∃ vars', run img 4 ({ s with pc := (pc : Int) + 16, regs := R, stack := .loop vD h :: rest } : State) =
          { s with pc := (pc : Int) + 20, regs := R, stack := .loop vars' h :: rest } ∧
        Num (getLV vars' .counter) (q + 1) (fy || fx) ∧
        (∀ l, l ≠ .counter → getLV vars' l = getLV vD l) := by
    intro vD c1 q hg hn1
    obtain ⟨hadd, hn2⟩ := num_add hn1 (Num.int 1)
    let sD : State := { s with pc := (pc : Int) + 16, regs := R, stack := .loop vD h :: rest }
    have hstD : sD.stack = .loop vD h :: rest := rfl
    refine ⟨setLV vD .counter (Val.mkNum (q + ((1 : Int) : Rat)) ((fy || fx) || false)), ?_, ?_, ?_⟩
    · rw [run_group_lv img _ _ .add .counter sD (pc + 16) _ _ _ vD h rest (by exact hs) (by simp [sD])
        (hc.slice 16 4) hstD
        (pfStep_push_lv sD sD.eval .counter _ (by rw [getLoopVar_eq hstD, hg]) hn1.ne_none)
        (pfStep_pushq _ _ _) (by show Val.add _ _ = _; exact hadd)]
      apply State.ext' <;> first | rfl | (simp [sD]; omega)
    · rw [getLV_setLV_self]
      exact Num.cast hn2 (by simp) (by simp)
    · intro l hl; exact getLV_setLV_other _ _ _ _ hl
  by_cases hneg : y - x < 0
  · -- negative: counter := counter * -1; incr := -1; skip
    have hJ' : run img 1 sB = ({ s with pc := (pc : Int) + 9, regs := R, stack := .loop vA h :: rest } : State) := by
      rw [run_jump_ifFalse img sB (pc + 8) 7 (by exact hs) (by simp [sB]) hJ]
      apply State.ext' <;> first | rfl | (simp [sB, R, hneg, Val.truthy]; omega) | (simp [sB, R, hneg, Val.truthy])
    obtain ⟨hmul, hc1⟩ := num_mul hc0 (Num.int (-1))
    let c1 := Val.mkNum ((y - x) * ((-1 : Int) : Rat)) ((fy || fx) || false)
    let vC := setLV vA .counter c1
    let sC0 : State := { s with pc := (pc : Int) + 9, regs := R, stack := .loop vA h :: rest }
    have hstC0 : sC0.stack = .loop vA h :: rest := rfl
    have hC : run img 4 sC0 = ({ s with pc := (pc : Int) + 13, regs := R, stack := .loop vC h :: rest } : State) := by
      rw [run_group_lv img _ _ .mul .counter sC0 (pc + 9) _ _ c1 vA h rest (by exact hs) (by simp [sC0])
        (hc.slice 9 4) hstC0
        (pfStep_push_lv sC0 sC0.eval .counter _ (by rw [getLoopVar_eq hstC0, hgA]) hc0.ne_none)
        (pfStep_pushq _ _ _) (by show Val.mul _ _ = _; exact hmul)]
      apply State.ext' <;> first | rfl | (simp [sC0]; omega)
    let vD := setLV vC .incr (.int (-1))
    have hD : run img 1 ({ s with pc := (pc : Int) + 13, regs := R, stack := .loop vC h :: rest } : State) =
        ({ s with pc := (pc : Int) + 14, regs := R, stack := .loop vD h :: rest } : State) := by
      rw [run_moveq_lv img _ (pc + 13) .incr (.int (-1)) vC h rest (by exact hs) (by simp)
        (hc.get 13 (by decide)) rfl]
      apply State.ext' <;> first | rfl | (simp; omega)
    have hE : run img 1 ({ s with pc := (pc : Int) + 14, regs := R, stack := .loop vD h :: rest } : State) =
        ({ s with pc := (pc : Int) + 16, regs := R, stack := .loop vD h :: rest } : State) := by
      rw [run_jump_always img _ (pc + 14) 2 (by exact hs) (by simp) (hc.get 14 (by decide))]
      apply State.ext' <;> first | rfl | (simp; omega)
    have hgD : getLV vD .counter = c1 := by
      rw [getLV_setLV_other _ _ _ _ (by simp), getLV_setLV_self]
    obtain ⟨vars', hT, hn', hoth⟩ := tail vD c1 (-(y - x)) hgD (Num.cast hc1 (by simp; grind) (by simp))
    refine ⟨4 + (4 + (1 + (4 + (1 + (1 + 4))))), vars', ?_, ?_, ?_, ?_⟩
    · exact run_trans hA (run_trans hB (run_trans hJ' (run_trans hC (run_trans hD (run_trans hE hT)))))
    · simpa [hneg] using hn'
    · rw [hoth _ (by simp)]; simp [hneg, vD, getLV_setLV_self]
    · intro l h1 h2
      rw [hoth l h1, getLV_setLV_other _ _ _ _ h2, getLV_setLV_other _ _ _ _ h1,
        getLV_setLV_other _ _ _ _ h1]
  · -- non-negative: incr := 1
    have hJ' : run img 1 sB = ({ s with pc := (pc : Int) + 15, regs := R, stack := .loop vA h :: rest } : State) := by
      rw [run_jump_ifFalse img sB (pc + 8) 7 (by exact hs) (by simp [sB]) hJ]
      apply State.ext' <;> first | rfl | (simp [sB, R, hneg, Val.truthy]; omega) | (simp [sB, R, hneg, Val.truthy])
    let vD := setLV vA .incr (.int 1)
    have hD : run img 1 ({ s with pc := (pc : Int) + 15, regs := R, stack := .loop vA h :: rest } : State) =
        ({ s with pc := (pc : Int) + 16, regs := R, stack := .loop vD h :: rest } : State) := by
      rw [run_moveq_lv img _ (pc + 15) .incr (.int 1) vA h rest (by exact hs) (by simp)
        (hc.get 15 (by decide)) rfl]
      apply State.ext' <;> first | rfl | (simp; omega)
    have hgD : getLV vD .counter = c0 := by
      rw [getLV_setLV_other _ _ _ _ (by simp), hgA]
    obtain ⟨vars', hT, hn', hoth⟩ := tail vD c0 (y - x) hgD hc0
    refine ⟨4 + (4 + (1 + (1 + 4))), vars', ?_, ?_, ?_, ?_⟩
    · exact run_trans hA (run_trans hB (run_trans hJ' (run_trans hD hT)))
    · simpa [hneg] using hn'
    · rw [hoth _ (by simp)]; simp [hneg, vD, getLV_setLV_self]
    · intro l h1 h2
      rw [hoth l h1, getLV_setLV_other _ _ _ _ h2, getLV_setLV_other _ _ _ _ h1]


/-! ## `repeat with v from a to b` -/

theorem run_loop_instr (img : Image) (s : State) (P0 : Nat) (hs : s.status = .running)
    (hpc : s.pc = (P0 : Int)) (hL : img.code[P0]? = some .loop) : run img 1 s = afterLoop s := by
  rw [run_one _ _ hs, step_loop img s P0 hs hpc hL]
  simp [afterLoop, hpc]

/-- **a whole counted loop with index variable**: `LOOP`, any prologue that ends at the loop
top in `s1` with numbers in the hidden `counter` and `incr` and a number in `v`, then the
passes. -/
theorem var_loop_whole (img : Image) (P0 : Nat) (pre b : List Instr) (v : String)
    (hc : CodeAt img P0 (loopCode pre counterTest (b ++ loopPost (some v))))
    (s s1 : State) (hs : s.status = .running) (hpc : s.pc = (P0 : Int))
    (hpre : ∃ k, run img k (afterLoop s) = s1) (hr1 : s1.status = .running)
    (hpc1 : s1.pc = ((P0 + 1 + pre.length : Nat) : Int)) (hev1 : s1.eval = s.eval)
    (vars : List (LoopVar × Val)) (rest1 : List Frame) (c : Rat) (fl : Bool) (d : Rat) (fd : Bool)
    (x : Rat) (fx : Bool)
    (hst1 : s1.stack = .loop vars s.eval.length :: rest1) (hn : Num (getLV vars .counter) c fl)
    (hd : Num (getLV vars .incr) d fd) (hx : Num (s1.getVariable v) x fx)
    (ts : List State) (s' : State)
    (hp : Passes (BodyRunV img b v) (enterBody (P0 + 1 + pre.length + 5)) (varPost (P0 + 1 + pre.length) v)
      s1 ts s')
    (hlen : ts.length = passes c) :
    (∃ k, run img k s =
      exitLoop (P0 + (loopCode pre counterTest (b ++ loopPost (some v))).length) s') ∧
    (exitLoop (P0 + (loopCode pre counterTest (b ++ loopPost (some v))).length) s').eval = s.eval ∧
    (∃ vars' rest', s'.stack = .loop vars' s.eval.length :: rest') ∧
    (∀ k (hk : k < ts.length), ts[k].getVariable v = addN (s1.getVariable v) (getLV vars .incr) k) ∧
    s'.getVariable v = addN (s1.getVariable v) (getLV vars .incr) ts.length := by
  obtain ⟨hL, _, hTail, hlen2⟩ := loopCode_parts hc
  have h1 := run_loop_instr img s P0 hs hpc hL
  obtain ⟨k1, hk1⟩ := hpre
  obtain ⟨⟨k2, hk2⟩, hev2, hs2, hfr2, hvals, hfin⟩ := counted_var_loop_chain img (P0 + 1 + pre.length) b v
    hTail s1 ts s' hp vars s.eval.length rest1 c fl x fx d fd hr1 hpc1 hst1 (by rw [hev1]) hn hd hx hlen
  refine ⟨⟨1 + k1 + k2, ?_⟩, ?_, hfr2, hvals, hfin⟩
  · rw [run_add, run_add, h1, hk1, hk2, hlen2]
    congr 1; omega
  · simp only [exitLoop]; rw [hev2, hev1]


theorem indexVarRange_lit_with (v : String) (av bv : Val) :
    indexVarRange v (.lit av) (.lit bv) true =
      [Instr.moveq av (.loopVar .first), .moveq bv (.loopVar .last),
       .move (.loopVar .first) (.var v)] ++ calcCounter := by
  simp [indexVarRange, genRv]

theorem read_simple_afterLoop (a : Rv) (ha : SimpleArg a) (s : State) :
    (afterLoop s).read a.src = s.read a.src := by
  cases ha <;> rfl

/-- what the first three instructions of a `with … from a to b` prologue do: `first := a`,
`last := b`, `v := first` -/
theorem run_bounds (img : Image) (s0 : State) (pc h : Nat) (rest : List Frame) (v : String)
    (a b : Rv) (ha : SimpleArg a) (hb : SimpleArg b) (vars0 : List (LoopVar × Val))
    (hs : s0.status = .running) (hpc : s0.pc = (pc : Int))
    (hc : CodeAt img pc (genRv a (.to (.loopVar .first)) ++ genRv b (.to (.loopVar .last)) ++
       [Instr.move (.loopVar .first) (.var v)]))
    (hst : s0.stack = .loop vars0 h :: rest) (hconst : s0.constants.get v = none)
    (hscope : ScopeOk s0.stack) :
    ∃ s3 rest1, run img 3 s0 = s3 ∧ s3.status = .running ∧ s3.pc = (pc : Int) + 3 ∧ s3.eval = s0.eval ∧
      s3.stack = .loop (setLV (setLV vars0 .first (s0.read a.src)) .last (s0.read b.src)) h :: rest1 ∧
      s3.getVariable v = s0.read a.src ∧ s3.constants = s0.constants ∧ ScopeOk s3.stack ∧
      s3.regs = s0.regs := by
  let av := s0.read a.src
  let bv := s0.read b.src
  let v1 := setLV vars0 .first av
  let v2 := setLV v1 .last bv
  let sa : State := { s0 with pc := (pc : Int) + 1, stack := .loop v1 h :: rest }
  let sb : State := { s0 with pc := (pc : Int) + 2, stack := .loop v2 h :: rest }
  obtain ⟨hla, ha1⟩ := run_simple_lv img s0 pc a ha .first vars0 h rest hs hpc hc.left.left hst
  have ha1 : run img 1 s0 = sa := ha1
  have hcb : CodeAt img (pc + 1) (genRv b (.to (.loopVar .last))) := by
    have := hc.left.right; rw [hla] at this; exact this
  obtain ⟨hlb, hb1⟩ := run_simple_lv img sa (pc + 1) b hb .last v1 h rest (by exact hs) (by simp [sa]) hcb rfl
  have hrb : sa.read b.src = bv := read_simple_retop b hb s0 sa vars0 v1 h h rest hst rfl rfl rfl rfl
  have hb1 : run img 1 sa = sb := by
    rw [hb1, hrb]
    apply State.ext' <;> first | rfl | (simp [sa, sb]; omega)
  have hcm : img.code[pc + 2]? = some (.move (.loopVar .first) (.var v)) := by
    have := hc.right.head
    simpa [hla, hlb] using this
  have hgf : getLV v2 .first = av := by
    rw [getLV_setLV_other _ _ _ _ (by simp), getLV_setLV_self]
  have hcm : run img 1 sb = { sb.putVariable v av with pc := (pc : Int) + 3 } := by
    rw [run_move_lv_var img sb (pc + 2) .first v v2 h rest (by exact hs) (by simp [sb]) hcm rfl, hgf]
    apply State.ext' <;> first | rfl | (simp; omega)
  obtain ⟨hget, hsc, hcon, htop⟩ := putVariable_get sb v av hconst (by rw [hst] at hscope; exact hscope.retop)
  obtain ⟨rest1, hst3⟩ := htop v2 h rest rfl
  refine ⟨{ sb.putVariable v av with pc := (pc : Int) + 3 }, rest1, ?_, ?_, rfl, ?_, hst3, hget, hcon, hsc, ?_⟩
  · exact run_trans ha1 (run_trans hb1 hcm)
  · simpa [putVariable_status] using hs
  · simp only []; rw [putVariable_eval]
  · show (sb.putVariable v av).regs = s0.regs
    unfold State.putVariable
    repeat' split
    all_goals rfl

theorem indexVarRange_length (v : String) (a b : Rv) (ha : SimpleArg a) (hb : SimpleArg b) (w : Bool) :
    (indexVarRange v a b w).length = if w then 23 else 18 := by
  unfold indexVarRange
  simp only [List.length_append, genRv_simple_length a ha, genRv_simple_length b hb, List.length_cons,
    List.length_nil]
  cases w <;> simp [calcCounter, calcIncr, testOp, incCounter]

/-- **range prologue.**  `Gen.indexVarRange v a b true` with simple bounds: afterwards `v`
denotes `a`, the hidden counter is `|b − a| + 1`, `incr` is `+1` (`a ≤ b`) or `−1`. -/
theorem range_prologue (img : Image) (s0 : State) (pc h : Nat) (rest : List Frame) (v : String)
    (a b : Rv) (ha : SimpleArg a) (hb : SimpleArg b) (x y : Rat) (fx fy : Bool)
    (hs : s0.status = .running) (hpc : s0.pc = (pc : Int))
    (hc : CodeAt img pc (indexVarRange v a b true))
    (hst : s0.stack = .loop [] h :: rest) (hconst : s0.constants.get v = none)
    (hscope : ScopeOk s0.stack) (hav : Num (s0.read a.src) x fx) (hbv : Num (s0.read b.src) y fy) :
    ∃ k s1 vars rest1, run img k s0 = s1 ∧ s1.status = .running ∧
      s1.pc = (pc : Int) + 23 ∧ s1.eval = s0.eval ∧
      s1.stack = .loop vars h :: rest1 ∧
      Num (getLV vars .counter) ((if y - x < 0 then -(y - x) else y - x) + 1) (fy || fx) ∧
      getLV vars .incr = .int (if y - x < 0 then -1 else 1) ∧
      s1.getVariable v = s0.read a.src ∧ s1.constants = s0.constants ∧ ScopeOk s1.stack := by
  have hc' : CodeAt img pc ((genRv a (.to (.loopVar .first)) ++ genRv b (.to (.loopVar .last)) ++
      [Instr.move (.loopVar .first) (.var v)]) ++ calcCounter) := by
    simpa [indexVarRange] using hc
  obtain ⟨s3, rest1, hr3, hs3, hpc3, hev3, hst3, hgv3, hcon3, hsc3, _⟩ :=
    run_bounds img s0 pc h rest v a b ha hb [] hs hpc hc'.left hst hconst hscope
  have hf : Num (getLV (setLV (setLV [] .first (s0.read a.src)) .last (s0.read b.src)) .first) x fx := by
    rw [getLV_setLV_other _ _ _ _ (by simp), getLV_setLV_self]; exact hav
  have hl : Num (getLV (setLV (setLV [] .first (s0.read a.src)) .last (s0.read b.src)) .last) y fy := by
    rw [getLV_setLV_self]; exact hbv
  have hcc : CodeAt img (pc + 3) calcCounter := by
    have := hc'.right
    simpa [genRv_simple_length a ha, genRv_simple_length b hb] using this
  obtain ⟨k, vars', hrun, hcnt, hinc, _⟩ := run_calcCounter img s3 (pc + 3) _ h rest1 x y fx fy hs3
    (by rw [hpc3]; simp) hcc hst3 hf hl
  refine ⟨3 + k, _, vars', rest1, run_trans hr3 hrun, hs3, ?_, hev3, rfl, hcnt, hinc, ?_, hcon3, ?_⟩
  · simp; omega
  · rw [← hgv3]
    exact getVariable_retop s3 _ _ vars' h h rest1 v hst3 rfl rfl rfl
  · rw [hst3] at hsc3; exact hsc3.retop


/-- the universal form of `BodyRunV` -/
def BodyOkV (img : Image) (b : List Instr) (v : String) : Prop :=
  ∀ t : State, t.status = .running → (∃ pc : Nat, t.pc = (pc : Int) ∧ CodeAt img pc b) →
    (∃ vars h rest, t.stack = .loop vars h :: rest) → t.constants.get v = none → ScopeOk t.stack →
    ∃ u, BodyRunV img b v t u

theorem var_chain_exists (img : Image) (top : Nat) (b : List Instr) (v : String)
    (hB : CodeAt img (top + 5) b) (hok : BodyOkV img b v) :
    ∀ (p : Nat) (s : State) (vars : List (LoopVar × Val)) (h : Nat) (rest : List Frame),
      s.status = .running → s.stack = .loop vars h :: rest → s.constants.get v = none →
      ScopeOk s.stack →
      ∃ ts s', Passes (BodyRunV img b v) (enterBody (top + 5)) (varPost top v) s ts s' ∧ ts.length = p := by
  intro p
  induction p with
  | zero => intro s vars h rest _ _ _ _; exact ⟨[], s, .done s, rfl⟩
  | succ p ih =>
    intro s vars h rest hs hst hcon hsc
    obtain ⟨u, hu⟩ := hok (enterBody (top + 5) s) (by simpa [enterBody] using hs)
      ⟨top + 5, by simp [enterBody], hB⟩ ⟨vars, h, rest, by simpa [enterBody] using hst⟩
      (by simpa [enterBody] using hcon) (by simpa [enterBody] using hsc)
    obtain ⟨rest', hust⟩ := hu.frame vars h rest (by simpa [enterBody] using hst)
    have hst1 : ({ u with stack := mapTop decCounter u.stack } : State).stack =
        .loop (decCounter vars) h :: rest' := by simp [hust, mapTop]
    obtain ⟨_, hsc2, hcon2, htop2⟩ := putVariable_get ({ u with stack := mapTop decCounter u.stack } : State) v
      (addVal (u.getVariable v) (u.getLoopVar .incr)) hu.const
      (by rw [hst1]; have := hu.scope; rw [hust] at this; exact this.retop)
    obtain ⟨rest2, hst2⟩ := htop2 _ h rest' hst1
    obtain ⟨ts, s', hp, hl⟩ := ih (varPost top v u) (decCounter vars) h rest2
      (by simpa [varPost, putVariable_status] using hu.running) (by exact hst2)
      (by show (State.putVariable _ v _).constants.get v = none; rw [hcon2]; exact hu.const)
      (by exact hsc2)
    exact ⟨_ :: ts, s', .pass hu hp, by simp [hl]⟩

/-- **range_loop (chain form).**  `repeat with v from a to b` with bounds `lo`, `hi` that are
literals, variables or registers (`SimpleArg`; what they denote when the loop starts are numbers
`x`, `y`) and a body that does not assign `v`: started at `LOOP` in a state where `v` is not a
macro and names resolve (`ScopeOk`), the prologue — which reads the bounds ONCE — ends at the
loop top in a state `s1` where `v` denotes `lo`'s value; if the body behaves (`BodyRunV`) in each
of the `passes (|y − x| + 1)` passes — for integers: `|b − a| + 1` — then the VM reaches the
instruction after `END_LOOP` with the loop frame popped and the evaluation stack restored, and
at the start of pass `k` (0-based) `v` denotes `lo`'s value with `+1` (if `x ≤ y`) or `−1` (if
`y < x`) added `k` times. -/
theorem C04_range_loop_chain (img : Image) (P0 : Nat) (b : List Instr) (v : String) (lo hi : Rv)
    (hlo : SimpleArg lo) (hhi : SimpleArg hi) (x y : Rat) (fx fy : Bool)
    (hc : CodeAt img P0 (unG (assembleLoop (indexVarRange v lo hi true) counterTest []
      (ins b) (loopPost (some v)))))
    (s : State) (hs : s.status = .running) (hpc : s.pc = (P0 : Int))
    (hconst : s.constants.get v = none) (hscope : ScopeOk s.stack)
    (hav : Num (s.read lo.src) x fx) (hbv : Num (s.read hi.src) y fy) :
    ∃ s1 vars rest1, (∃ k, run img k s = s1) ∧ s1.status = .running ∧
      s1.stack = .loop vars s.eval.length :: rest1 ∧ s1.getVariable v = s.read lo.src ∧
      s1.constants.get v = none ∧ ScopeOk s1.stack ∧
      ∀ (ts : List State) (s' : State),
        Passes (BodyRunV img b v) (enterBody (P0 + 1 + 23 + 5)) (varPost (P0 + 1 + 23) v) s1 ts s' →
        ts.length = passes ((if y < x then x - y else y - x) + 1) →
        (∃ k, run img k s = exitLoop (P0 + (b.length + 39)) s') ∧
        (exitLoop (P0 + (b.length + 39)) s').eval = s.eval ∧
        (∃ vars' rest', s'.stack = .loop vars' s.eval.length :: rest') ∧
        (∀ k (hk : k < ts.length),
          ts[k].getVariable v = addN (s.read lo.src) (.int (if y < x then -1 else 1)) k) ∧
        s'.getVariable v = addN (s.read lo.src) (.int (if y < x then -1 else 1)) ts.length := by
  have hprelen : (indexVarRange v lo hi true).length = 23 := by
    rw [indexVarRange_length v lo hi hlo hhi]; rfl
  have hlenAll : (unG (assembleLoop (indexVarRange v lo hi true) counterTest []
      (ins b) (loopPost (some v)))).length = b.length + 39 := by
    rw [assembled_length, hprelen, loopPost_some_length]; omega
  rw [assembled_counted] at hc hlenAll
  obtain ⟨hL, hPre, _, _⟩ := loopCode_parts hc
  have hiff : (y - x < 0) ↔ (y < x) := by grind
  obtain ⟨k0, s1, vars, rest1, hrun, hr1, hpc1, hev1, hst1, hcnt, hinc, hgv, hcon1, hsc1⟩ :=
    range_prologue img (afterLoop s) (P0 + 1) s.eval.length s.stack v lo hi hlo hhi x y fx fy
      (by exact hs) (by simp [afterLoop, hpc]) hPre rfl (by exact hconst) (ScopeOk.cons_loop hscope)
      (by rw [read_simple_afterLoop lo hlo]; exact hav) (by rw [read_simple_afterLoop hi hhi]; exact hbv)
  rw [read_simple_afterLoop lo hlo] at hgv
  have hneg : -(y - x) = x - y := by grind
  simp only [hiff, hneg] at hcnt hinc
  refine ⟨s1, vars, rest1, ⟨1 + k0, run_trans (run_loop_instr img s P0 hs hpc hL) hrun⟩, hr1, hst1, hgv,
    by rw [hcon1]; exact hconst, hsc1, ?_⟩
  intro ts s' hp hlen
  have hd : Num (getLV vars .incr) ((if y < x then (-1 : Int) else 1 : Int) : Rat) false := by
    rw [hinc]; exact Num.int _
  have := var_loop_whole img P0 _ b v hc s s1 hs hpc ⟨k0, hrun⟩ hr1
    (by rw [hpc1, hprelen]; simp) hev1 vars rest1 _ _ _ _ x fx hst1 hcnt hd (by rw [hgv]; exact hav)
    ts s' (by rw [hprelen]; exact hp) hlen
  rw [hlenAll, hgv, hinc] at this
  exact this

/-- integers stay integers: `a`, then `a + d`, `a + 2d`, … -/
theorem addN_int (a d : Int) (k : Nat) : addN (.int a) (.int d) k = .int (a + k * d) := by
  induction k with
  | zero => simp [addN]
  | succ k ih =>
    simp only [addN, ih, addVal, add_int_int, Option.getD_some]
    congr 1
    rw [Int.natCast_add, Int.add_mul]; omega

theorem passes_abs_int (a b : Int) :
    passes ((if (b : Rat) < (a : Rat) then (a : Rat) - b else (b : Rat) - a) + 1) = (b - a).natAbs + 1 := by
  have hlt : ((b : Rat) < (a : Rat)) ↔ b < a := Rat.intCast_lt_intCast
  by_cases h : b < a
  · have : ((a : Rat) - (b : Rat)) + 1 = ((a - b + 1 : Int) : Rat) := by
      rw [Rat.intCast_add, Rat.intCast_sub]; simp
    rw [if_pos (hlt.2 h), this, passes_intCast]; omega
  · have hn : ¬ ((b : Rat) < (a : Rat)) := fun h' => h (hlt.1 h')
    have : ((b : Rat) - (a : Rat)) + 1 = ((b - a + 1 : Int) : Rat) := by
      rw [Rat.intCast_add, Rat.intCast_sub]; simp
    rw [if_neg hn, this, passes_intCast]; omega

/-- **range_loop.**  `repeat with v from a to b` with integer literals `a`, `b` and a body that
satisfies the contract from every state and does not assign `v`: the VM runs the body exactly
`|b − a| + 1` times — `ts` are the states in which the passes start — and at the start of pass
`k` (0-based) `v` denotes the integer `a + k` if `a ≤ b`, `a − k` otherwise; afterwards control
is just past `END_LOOP`, the loop frame is popped and the evaluation stack is as before. -/
theorem C04_range_loop (img : Image) (P0 : Nat) (b : List Instr) (v : String) (a c : Int)
    (hc : CodeAt img P0 (unG (assembleLoop (indexVarRange v (.lit (.int a)) (.lit (.int c)) true)
      counterTest [] (ins b) (loopPost (some v)))))
    (s : State) (hs : s.status = .running) (hpc : s.pc = (P0 : Int))
    (hconst : s.constants.get v = none) (hscope : ScopeOk s.stack) (hok : BodyOkV img b v) :
    ∃ (ts : List State) (s' : State),
      ts.length = (c - a).natAbs + 1 ∧
      (∃ k, run img k s = exitLoop (P0 + (b.length + 39)) s') ∧
      (exitLoop (P0 + (b.length + 39)) s').eval = s.eval ∧
      (∃ vars' rest', s'.stack = .loop vars' s.eval.length :: rest') ∧
      (∀ k (hk : k < ts.length),
        ts[k].getVariable v = .int (if a ≤ c then a + k else a - k)) ∧
      ∃ s1, Passes (BodyRunV img b v) (enterBody (P0 + 1 + 23 + 5)) (varPost (P0 + 1 + 23) v) s1 ts s' := by
  obtain ⟨s1, vars, rest1, hk1, hr1, hst1, hgv, hcon1, hsc1, hall⟩ :=
    C04_range_loop_chain img P0 b v (.lit (.int a)) (.lit (.int c)) (.lit _) (.lit _) a c false false hc s hs
      hpc hconst hscope (Num.int a) (Num.int c)
  have hB : CodeAt img (P0 + 1 + 23 + 5) b := by
    rw [assembled_counted] at hc
    obtain ⟨_, _, hT, _⟩ := loopCode_parts hc
    have hprelen : (indexVarRange v (.lit (.int a)) (.lit (.int c)) true).length = 23 := by
      rw [indexVarRange_lit_with]; rfl
    rw [hprelen] at hT
    exact (loopTail_parts hT).2.2.1
  obtain ⟨ts, s', hp, hl⟩ := var_chain_exists img (P0 + 1 + 23) b v hB hok ((c - a).natAbs + 1) s1 vars
    s.eval.length rest1 hr1 hst1 hcon1 hsc1
  obtain ⟨hrun, hev, hfr, hvals, _⟩ := hall ts s' hp (by rw [hl, passes_abs_int])
  refine ⟨ts, s', hl, hrun, hev, hfr, ?_, s1, hp⟩
  intro k hk
  rw [hvals k hk]
  show addN (.int a) _ k = _
  have hlt : ((c : Rat) < (a : Rat)) ↔ c < a := Rat.intCast_lt_intCast
  by_cases h : c < a
  · have : ¬ a ≤ c := by omega
    rw [if_pos (hlt.2 h), if_neg this, addN_int]; congr 1; omega
  · have hn : ¬ ((c : Rat) < (a : Rat)) := fun h' => h (hlt.1 h')
    have : a ≤ c := by omega
    rw [if_neg hn, if_pos this, addN_int]; congr 1; omega


/-! ## `repeat n with v from a to b`: the increment -/

theorem calcIncr_eq : calcIncr =
    [Instr.push (.loopVar .counter), .pushq (.int 1), .op .noteq, .pop (.reg .result),
     .jump .ifFalse 10] ++
    (([Instr.push (.loopVar .last), .push (.loopVar .first), .op .sub] ++
      [Instr.push (.loopVar .counter), .pushq (.int 1), .op .sub] ++ [Instr.op .div]) ++
      [Instr.pop (.loopVar .incr)]) ++
    [Instr.jump .always 2, .moveq (.int 0) (.loopVar .incr)] := rfl

/-- **calc_incr.**  The prologue of `repeat n with v from a to b`: from the count `c` in the
hidden counter and numbers `x`, `y` in `first`, `last`, `incr` becomes `(y − x)/(c − 1)` — a
float — or the integer 0 when `c = 1`; the division is exact (ℚ); no fault. -/
theorem run_calcIncr (img : Image) (s : State) (pc : Nat) (vars : List (LoopVar × Val)) (h : Nat)
    (rest : List Frame) (c x y : Rat) (fl fx fy : Bool)
    (hs : s.status = .running) (hpc : s.pc = (pc : Int)) (hc : CodeAt img pc calcIncr)
    (hst : s.stack = .loop vars h :: rest) (hn : Num (getLV vars .counter) c fl)
    (hf : Num (getLV vars .first) x fx) (hl : Num (getLV vars .last) y fy) :
    ∃ k vars', run img k s =
        { s with pc := (pc : Int) + 15,
                 regs := fun q => if q = .result then .bool (!decide (c = 1)) else s.regs q,
                 stack := .loop vars' h :: rest } ∧
      Num (getLV vars' .incr) (if c = 1 then 0 else (y - x) / (c - 1)) (!decide (c = 1)) ∧
      (∀ l, l ≠ .incr → getLV vars' l = getLV vars l) := by
  let R : Reg → Val := fun q => if q = .result then .bool (!decide (c = 1)) else s.regs q
  let sA : State := { s with pc := (pc : Int) + 4, regs := R }
  have hne : binVal .noteq (getLV vars .counter) (.int 1) = some (.bool (!decide (c = 1))) := by
    show some (Val.bool (!Val.beq _ _)) = _
    rw [num_beq_int hn 1]; simp
  have hA : run img 4 s = sA :=
    run_group_reg img _ _ .noteq .result s pc _ _ _ hs hpc (hc.slice 0 4)
      (pfStep_push_lv s s.eval .counter _ (getLoopVar_eq hst _) hn.ne_none) (pfStep_pushq _ _ _) hne
  have hstA : sA.stack = .loop vars h :: rest := hst
  by_cases h1 : c = 1
  · -- one pass: incr := 0
    have hJ : run img 1 sA = ({ s with pc := (pc : Int) + 14, regs := R } : State) := by
      rw [run_jump_ifFalse img sA (pc + 4) 10 (by exact hs) (by simp [sA]) (hc.get 4 (by decide))]
      apply State.ext' <;> first | rfl | (simp [sA, R, h1, Val.truthy]; omega) | (simp [sA, R, h1, Val.truthy])
    have hM : run img 1 ({ s with pc := (pc : Int) + 14, regs := R } : State) =
        ({ s with pc := (pc : Int) + 15, regs := R, stack := .loop (setLV vars .incr (.int 0)) h :: rest } : State) := by
      rw [run_moveq_lv img _ (pc + 14) .incr (.int 0) vars h rest (by exact hs) (by simp)
        (hc.get 14 (by decide)) (by exact hst)]
      apply State.ext' <;> first | rfl | (simp; omega)
    refine ⟨4 + (1 + 1), setLV vars .incr (.int 0), run_trans hA (run_trans hJ hM), ?_, ?_⟩
    · rw [getLV_setLV_self]; simpa [h1] using Num.int 0
    · intro l hl; exact getLV_setLV_other _ _ _ _ hl
  · have hJ : run img 1 sA = ({ s with pc := (pc : Int) + 5, regs := R } : State) := by
      rw [run_jump_ifFalse img sA (pc + 4) 10 (by exact hs) (by simp [sA]) (hc.get 4 (by decide))]
      apply State.ext' <;> first | rfl | (simp [sA, R, h1, Val.truthy]; omega) | (simp [sA, R, h1, Val.truthy])
    let sB : State := { s with pc := (pc : Int) + 5, regs := R }
    have hstB : sB.stack = .loop vars h :: rest := hst
    obtain ⟨hsub1, hd0⟩ := num_sub hl hf
    obtain ⟨hsub2, hm⟩ := num_sub hn (Num.int 1)
    have hm0 : c - ((1 : Int) : Rat) ≠ 0 := by
      intro e; apply h1
      have : ((1 : Int) : Rat) = 1 := by simp
      rw [this] at e; grind
    have hdiv := num_div hd0 hm hm0
    have hpf : pfRun sB.read (([Instr.push (.loopVar .last), .push (.loopVar .first), .op .sub] ++
        [Instr.push (.loopVar .counter), .pushq (.int 1), .op .sub] ++ [Instr.op .div])) sB.eval =
        some (Val.num ((y - x) / (c - ((1 : Int) : Rat))) :: sB.eval) := by
      rw [pfRun_append, pfRun_append,
        pfRun3 sB.read sB.eval _ _ .sub _ _ _
          (pfStep_push_lv sB sB.eval .last _ (getLoopVar_eq hstB _) hl.ne_none)
          (pfStep_push_lv sB _ .first _ (getLoopVar_eq hstB _) hf.ne_none)
          (by show Val.sub _ _ = _; exact hsub1)]
      simp only [Option.bind_some]
      rw [pfRun3 sB.read _ _ _ .sub _ _ _
          (pfStep_push_lv sB _ .counter _ (getLoopVar_eq hstB _) hn.ne_none)
          (pfStep_pushq _ _ _)
          (by show Val.sub _ _ = _; exact hsub2)]
      simp only [Option.bind_some, pfRun, pfStep]
      have : binVal .div (Val.mkNum (y - x) (fy || fx)) (Val.mkNum (c - ((1 : Int) : Rat)) (fl || false)) =
          some (Val.num ((y - x) / (c - ((1 : Int) : Rat)))) := by
        show Val.div _ _ = _; exact hdiv
      rw [this]; rfl
    have hcB : CodeAt img (pc + 5) (([Instr.push (.loopVar .last), .push (.loopVar .first), .op .sub] ++
        [Instr.push (.loopVar .counter), .pushq (.int 1), .op .sub] ++ [Instr.op .div]) ++
        [Instr.pop (.loopVar .incr)]) := hc.slice 5 8
    let iv := Val.num ((y - x) / (c - ((1 : Int) : Rat)))
    have hB : run img 8 sB =
        ({ s with pc := (pc : Int) + 13, regs := R, stack := .loop (setLV vars .incr iv) h :: rest } : State) := by
      have := run_pf_lv' img _ .incr sB (pc + 5) iv sB.eval vars h rest (by exact hs) (by simp [sB]) hcB hstB hpf
      simp only [List.length_append, List.length_cons, List.length_nil] at this
      rw [this]
      apply State.ext' <;> first | rfl | (simp [sB]; omega)
    have hK : run img 1 ({ s with pc := (pc : Int) + 13, regs := R, stack := .loop (setLV vars .incr iv) h :: rest } : State) =
        ({ s with pc := (pc : Int) + 15, regs := R, stack := .loop (setLV vars .incr iv) h :: rest } : State) := by
      rw [run_jump_always img _ (pc + 13) 2 (by exact hs) (by simp) (hc.get 13 (by decide))]
      apply State.ext' <;> first | rfl | (simp; omega)
    refine ⟨4 + (1 + (8 + 1)), setLV vars .incr iv, run_trans hA (run_trans hJ (run_trans hB hK)), ?_, ?_⟩
    · rw [getLV_setLV_self]
      have : ((1 : Int) : Rat) = 1 := by simp
      simp only [h1, if_false, decide_false, Bool.not_false, iv, this]
      exact Num.num _
    · intro l hl; exact getLV_setLV_other _ _ _ _ hl


/-! ## `repeat n with v cycle s`: the increment -/

/-- the part of `Gen.cycleVarRange` after `first` and the loop variable are set -/
def cycleTail : List Instr :=
  testOp .eq (.push (.loopVar .counter)) (.pushq (.int 0)) ++
  [.jump .ifFalse 3, .moveq (.int 0) (.loopVar .incr), .jump .always 12] ++
  testOp .eq (.push (.reg .unitMode)) (.pushq (.mode .raw)) ++
  [.jump .ifFalse 3, .pushq (.int 65536), .jump .always 2, .pushq (.int 360),
   .push (.loopVar .counter), .op .div, .pop (.loopVar .incr)]

/-- a full turn in the current units -/
def turnOf (m : UnitMode) : Int := if m = .raw then 65536 else 360

/-- **cycle increment.**  The prologue of `repeat n with v cycle …`: `incr` becomes a full turn
— 65536 when the unit-mode register holds `raw`, else 360 — divided by the count `c` in the
hidden counter, exactly (ℚ); with a count of 0 it becomes 0 and nothing faults. -/
theorem run_cycleIncr_val (img : Image) (s : State) (pc : Nat) (vars : List (LoopVar × Val)) (h : Nat)
    (rest : List Frame) (c : Rat) (fl : Bool) (m : UnitMode)
    (hs : s.status = .running) (hpc : s.pc = (pc : Int)) (hc : CodeAt img pc cycleTail)
    (hst : s.stack = .loop vars h :: rest) (hn : Num (getLV vars .counter) c fl)
    (hm : s.regs .unitMode = .mode m) :
    ∃ k R, run img k s =
        { s with pc := (pc : Int) + 18, regs := R,
                 stack := .loop (setLV vars .incr
                   (if c = 0 then .int 0 else .num (((turnOf m : Int) : Rat) / c))) h :: rest } ∧
      (∀ q, q ≠ .result → R q = s.regs q) := by
  let R0 : Reg → Val := fun q => if q = .result then .bool (decide (c = 0)) else s.regs q
  let sA : State := { s with pc := (pc : Int) + 4, regs := R0 }
  have heq : binVal .eq (getLV vars .counter) (.int 0) = some (.bool (decide (c = 0))) := by
    show some (Val.bool (Val.beq _ _)) = _
    rw [num_beq_int hn 0]; simp
  have hA : run img 4 s = sA :=
    run_group_reg img _ _ .eq .result s pc _ _ _ hs hpc (hc.slice 0 4)
      (pfStep_push_lv s s.eval .counter _ (getLoopVar_eq hst _) hn.ne_none) (pfStep_pushq _ _ _) heq
  by_cases h0 : c = 0
  · have hJ : run img 1 sA = ({ s with pc := (pc : Int) + 5, regs := R0 } : State) := by
      rw [run_jump_ifFalse img sA (pc + 4) 3 (by exact hs) (by simp [sA]) (hc.get 4 (by decide))]
      apply State.ext' <;> first | rfl | (simp [sA, R0, h0, Val.truthy]; omega) | (simp [sA, R0, h0, Val.truthy])
    have hM : run img 1 ({ s with pc := (pc : Int) + 5, regs := R0 } : State) =
        ({ s with pc := (pc : Int) + 6, regs := R0, stack := .loop (setLV vars .incr (.int 0)) h :: rest } : State) := by
      rw [run_moveq_lv img _ (pc + 5) .incr (.int 0) vars h rest (by exact hs) (by simp)
        (hc.get 5 (by decide)) (by exact hst)]
      apply State.ext' <;> first | rfl | (simp; omega)
    have hK : run img 1 ({ s with pc := (pc : Int) + 6, regs := R0, stack := .loop (setLV vars .incr (.int 0)) h :: rest } : State) =
        ({ s with pc := (pc : Int) + 18, regs := R0, stack := .loop (setLV vars .incr (.int 0)) h :: rest } : State) := by
      rw [run_jump_always img _ (pc + 6) 12 (by exact hs) (by simp) (hc.get 6 (by decide))]
      apply State.ext' <;> first | rfl | (simp; omega)
    refine ⟨4 + (1 + (1 + 1)), R0, ?_, ?_⟩
    · rw [if_pos h0]; exact run_trans hA (run_trans hJ (run_trans hM hK))
    · intro q hq; simp [R0, hq]
  · have hJ : run img 1 sA = ({ s with pc := (pc : Int) + 7, regs := R0 } : State) := by
      rw [run_jump_ifFalse img sA (pc + 4) 3 (by exact hs) (by simp [sA]) (hc.get 4 (by decide))]
      apply State.ext' <;> first | rfl | (simp [sA, R0, h0, Val.truthy]; omega) | (simp [sA, R0, h0, Val.truthy])
    let sB : State := { s with pc := (pc : Int) + 7, regs := R0 }
    let R1 : Reg → Val := fun q => if q = .result then .bool (m == .raw) else R0 q
    have hmB : sB.regs .unitMode = .mode m := by simp [sB, R0, hm]
    have heq2 : binVal .eq (.mode m) (.mode .raw) = some (.bool (m == .raw)) := rfl
    have hB : run img 4 sB = ({ s with pc := (pc : Int) + 11, regs := R1 } : State) := by
      rw [run_group_reg img _ _ .eq .result sB (pc + 7) _ _ _ (by exact hs) (by simp [sB]) (hc.slice 7 4)
        (pfStep_push_reg sB sB.eval .unitMode _ hmB (by simp)) (pfStep_pushq _ _ _) heq2]
      apply State.ext' <;> first | rfl | (simp [sB]; omega)
    -- both branches push the turn and meet at pc + 15
    have hT : ∃ k, run img k ({ s with pc := (pc : Int) + 11, regs := R1 } : State) =
        ({ s with pc := (pc : Int) + 15, regs := R1, eval := .int (turnOf m) :: s.eval } : State) := by
      by_cases hr : m = .raw
      · have h1 : run img 1 ({ s with pc := (pc : Int) + 11, regs := R1 } : State) =
            ({ s with pc := (pc : Int) + 12, regs := R1 } : State) := by
          rw [run_jump_ifFalse img _ (pc + 11) 3 (by exact hs) (by simp) (hc.get 11 (by decide))]
          apply State.ext' <;> first | rfl | (simp [R1, hr, Val.truthy]; omega) | (simp [R1, hr, Val.truthy])
        have h2 : run img 1 ({ s with pc := (pc : Int) + 12, regs := R1 } : State) =
            ({ s with pc := (pc : Int) + 13, regs := R1, eval := .int 65536 :: s.eval } : State) := by
          rw [run_pushq img _ (pc + 12) _ (by exact hs) (by simp) (hc.get 12 (by decide))]
          apply State.ext' <;> first | rfl | (simp; omega)
        have h3 : run img 1 ({ s with pc := (pc : Int) + 13, regs := R1, eval := .int 65536 :: s.eval } : State) =
            ({ s with pc := (pc : Int) + 15, regs := R1, eval := .int (turnOf m) :: s.eval } : State) := by
          rw [run_jump_always img _ (pc + 13) 2 (by exact hs) (by simp) (hc.get 13 (by decide))]
          apply State.ext' <;> first | rfl | (simp [turnOf, hr]; omega) | (simp [turnOf, hr])
        exact ⟨_, run_trans h1 (run_trans h2 h3)⟩
      · have hb : (m == UnitMode.raw) = false := by simpa using hr
        have h1 : run img 1 ({ s with pc := (pc : Int) + 11, regs := R1 } : State) =
            ({ s with pc := (pc : Int) + 14, regs := R1 } : State) := by
          rw [run_jump_ifFalse img _ (pc + 11) 3 (by exact hs) (by simp) (hc.get 11 (by decide))]
          apply State.ext' <;> first | rfl | (simp [R1, hb, Val.truthy]; omega) | (simp [R1, hb, Val.truthy])
        have h2 : run img 1 ({ s with pc := (pc : Int) + 14, regs := R1 } : State) =
            ({ s with pc := (pc : Int) + 15, regs := R1, eval := .int (turnOf m) :: s.eval } : State) := by
          rw [run_pushq img _ (pc + 14) _ (by exact hs) (by simp) (hc.get 14 (by decide))]
          apply State.ext' <;> first | rfl | (simp [turnOf, hr]; omega) | (simp [turnOf, hr])
        exact ⟨_, run_trans h1 h2⟩
    obtain ⟨kT, hT⟩ := hT
    let sC : State := { s with pc := (pc : Int) + 15, regs := R1, eval := .int (turnOf m) :: s.eval }
    have hstC : sC.stack = .loop vars h :: rest := hst
    have hdiv := num_div (Num.int (turnOf m)) hn h0
    let iv := Val.num (((turnOf m : Int) : Rat) / c)
    have hpf : pfRun sC.read [Instr.push (.loopVar .counter), .op .div] sC.eval = some (iv :: s.eval) := by
      have h1 := pfStep_push_lv sC sC.eval .counter _ (getLoopVar_eq hstC _) hn.ne_none
      have : binVal .div (.int (turnOf m)) (getLV vars .counter) = some iv := by
        show Val.div _ _ = _; exact hdiv
      simp only [pfRun]
      rw [h1]
      simp [pfStep, sC, this]
    have hD : run img 3 sC =
        ({ s with pc := (pc : Int) + 18, regs := R1, stack := .loop (setLV vars .incr iv) h :: rest } : State) := by
      have := run_pf_lv' img [Instr.push (.loopVar .counter), .op .div] .incr sC (pc + 15) iv s.eval vars h rest
        (by exact hs) (by simp [sC]) (hc.slice 15 3) hstC hpf
      simp only [List.length_cons, List.length_nil] at this
      rw [this]
      apply State.ext' <;> first | rfl | (simp [sC]; omega)
    refine ⟨4 + (1 + (4 + (kT + 3))), R1, ?_, ?_⟩
    · rw [if_neg h0]; exact run_trans hA (run_trans hJ (run_trans hB (run_trans hT hD)))
    · intro q hq; simp [R1, R0, hq]

theorem run_cycleIncr (img : Image) (s : State) (pc : Nat) (vars : List (LoopVar × Val)) (h : Nat)
    (rest : List Frame) (c : Rat) (fl : Bool) (m : UnitMode)
    (hs : s.status = .running) (hpc : s.pc = (pc : Int)) (hc : CodeAt img pc cycleTail)
    (hst : s.stack = .loop vars h :: rest) (hn : Num (getLV vars .counter) c fl)
    (hm : s.regs .unitMode = .mode m) :
    ∃ k vars' R, run img k s =
        { s with pc := (pc : Int) + 18, regs := R, stack := .loop vars' h :: rest } ∧
      (∀ q, q ≠ .result → R q = s.regs q) ∧
      Num (getLV vars' .incr) (if c = 0 then 0 else ((turnOf m : Int) : Rat) / c) (!decide (c = 0)) ∧
      (∀ l, l ≠ .incr → getLV vars' l = getLV vars l) := by
  obtain ⟨k, R, hrun, hR⟩ := run_cycleIncr_val img s pc vars h rest c fl m hs hpc hc hst hn hm
  refine ⟨k, _, R, hrun, hR, ?_, fun l hl => getLV_setLV_other _ _ _ _ hl⟩
  rw [getLV_setLV_self]
  by_cases h0 : c = 0
  · simpa [h0] using Num.int 0
  · simp only [h0, if_false, decide_false, Bool.not_false]
    exact Num.num _


/-! ## `repeat n with v from a to b` -/

theorem interp_pre_eq (v : String) (nv av bv : Val) :
    genRv (.lit nv) (.to counter) ++ indexVarRange v (.lit av) (.lit bv) false =
      [Instr.moveq nv (.loopVar .counter)] ++
      ([Instr.moveq av (.loopVar .first), .moveq bv (.loopVar .last),
        .move (.loopVar .first) (.var v)] ++ calcIncr) := by
  simp [indexVarRange, genRv, counter]

/-- **interp prologue.**  `genRv n → counter; indexVarRange v lo hi false` with simple
operands, each read once. -/
theorem interp_prologue (img : Image) (s0 : State) (pc h : Nat) (rest : List Frame) (v : String)
    (n lo hi : Rv) (hn : SimpleArg n) (hlo : SimpleArg lo) (hhi : SimpleArg hi)
    (c x y : Rat) (fl fx fy : Bool)
    (hs : s0.status = .running) (hpc : s0.pc = (pc : Int))
    (hc : CodeAt img pc (genRv n (.to counter) ++ indexVarRange v lo hi false))
    (hst : s0.stack = .loop [] h :: rest) (hconst : s0.constants.get v = none)
    (hscope : ScopeOk s0.stack) (hnv : Num (s0.read n.src) c fl) (hav : Num (s0.read lo.src) x fx)
    (hbv : Num (s0.read hi.src) y fy) :
    ∃ k s1 vars rest1, run img k s0 = s1 ∧ s1.status = .running ∧
      s1.pc = (pc : Int) + 19 ∧ s1.eval = s0.eval ∧
      s1.stack = .loop vars h :: rest1 ∧
      Num (getLV vars .counter) c fl ∧
      Num (getLV vars .incr) (if c = 1 then 0 else (y - x) / (c - 1)) (!decide (c = 1)) ∧
      s1.getVariable v = s0.read lo.src ∧ s1.constants = s0.constants ∧ ScopeOk s1.stack := by
  have hc' : CodeAt img pc (genRv n (.to (.loopVar .counter)) ++
      ((genRv lo (.to (.loopVar .first)) ++ genRv hi (.to (.loopVar .last)) ++
        [Instr.move (.loopVar .first) (.var v)]) ++ calcIncr)) := by
    simpa [indexVarRange, counter] using hc
  let nv := s0.read n.src
  let v0 := setLV [] .counter nv
  let sa : State := { s0 with pc := (pc : Int) + 1, stack := .loop v0 h :: rest }
  obtain ⟨hln, ha⟩ := run_simple_lv img s0 pc n hn .counter [] h rest hs hpc hc'.left hst
  have ha : run img 1 s0 = sa := ha
  have hcr := hc'.right
  rw [hln] at hcr
  have hra : sa.read lo.src = s0.read lo.src :=
    read_simple_retop lo hlo s0 sa [] v0 h h rest hst rfl rfl rfl rfl
  have hrb : sa.read hi.src = s0.read hi.src :=
    read_simple_retop hi hhi s0 sa [] v0 h h rest hst rfl rfl rfl rfl
  obtain ⟨s3, rest1, hr3, hs3, hpc3, hev3, hst3, hgv3, hcon3, hsc3, _⟩ :=
    run_bounds img sa (pc + 1) h rest v lo hi hlo hhi v0 (by exact hs) (by simp [sa]) hcr.left rfl
      (by exact hconst) (by rw [hst] at hscope; exact hscope.retop)
  rw [hra, hrb] at hst3
  rw [hra] at hgv3
  have hcnt : Num (getLV (setLV (setLV v0 .first (s0.read lo.src)) .last (s0.read hi.src)) .counter) c fl := by
    rw [getLV_setLV_other _ _ _ _ (by simp), getLV_setLV_other _ _ _ _ (by simp), getLV_setLV_self]
    exact hnv
  have hf : Num (getLV (setLV (setLV v0 .first (s0.read lo.src)) .last (s0.read hi.src)) .first) x fx := by
    rw [getLV_setLV_other _ _ _ _ (by simp), getLV_setLV_self]; exact hav
  have hl : Num (getLV (setLV (setLV v0 .first (s0.read lo.src)) .last (s0.read hi.src)) .last) y fy := by
    rw [getLV_setLV_self]; exact hbv
  have hci : CodeAt img (pc + 1 + 3) calcIncr := by
    have := hcr.right
    simpa [genRv_simple_length lo hlo, genRv_simple_length hi hhi] using this
  obtain ⟨k, vars', hrun, hinc, hoth⟩ := run_calcIncr img s3 (pc + 1 + 3) _ h rest1 c x y fl fx fy hs3
    (by rw [hpc3]; simp) hci hst3 hcnt hf hl
  refine ⟨1 + (3 + k), _, vars', rest1, run_trans ha (run_trans hr3 hrun), hs3, ?_, hev3, rfl, ?_, hinc, ?_,
    hcon3, ?_⟩
  · simp; omega
  · rw [hoth _ (by simp)]; exact hcnt
  · rw [← hgv3]
    exact getVariable_retop s3 _ _ vars' h h rest1 v hst3 rfl rfl rfl
  · rw [hst3] at hsc3; exact hsc3.retop

theorem interp_pre_length (v : String) (n lo hi : Rv) (hn : SimpleArg n) (hlo : SimpleArg lo)
    (hhi : SimpleArg hi) : (genRv n (.to counter) ++ indexVarRange v lo hi false).length = 19 := by
  rw [List.length_append, indexVarRange_length v lo hi hlo hhi]
  have := genRv_simple_length n hn .counter
  simp only [counter] at this ⊢
  rw [this]; rfl

/-- **interp_loop (chain form).**  `repeat n with v from a to b` with simple operands `n`,
`lo`, `hi` (literals, variables, registers — read once, when the loop starts, as numbers `c`,
`x`, `y`) and a body that does not assign `v`: `passes c` passes (for an integer `n ≥ 0`: `n`);
at the start of pass `k` the variable `v` holds a number whose exact value is
`x + k·(y − x)/(c − 1)` — so `a` in the first and, for an integer `n ≥ 2`, `b` in the last pass
(`C04_interp_last`) — `n = 1` gives the single value `a`, `n = 0` no pass. -/
theorem C04_interp_loop_chain (img : Image) (P0 : Nat) (b : List Instr) (v : String) (n lo hi : Rv)
    (hn : SimpleArg n) (hlo : SimpleArg lo) (hhi : SimpleArg hi)
    (c x y : Rat) (fl fx fy : Bool)
    (hc : CodeAt img P0 (unG (assembleLoop
      (genRv n (.to counter) ++ indexVarRange v lo hi false) counterTest []
      (ins b) (loopPost (some v)))))
    (s : State) (hs : s.status = .running) (hpc : s.pc = (P0 : Int))
    (hconst : s.constants.get v = none) (hscope : ScopeOk s.stack)
    (hnv : Num (s.read n.src) c fl) (hav : Num (s.read lo.src) x fx) (hbv : Num (s.read hi.src) y fy) :
    ∃ s1 vars rest1, (∃ k, run img k s = s1) ∧ s1.status = .running ∧
      s1.stack = .loop vars s.eval.length :: rest1 ∧ s1.getVariable v = s.read lo.src ∧
      s1.constants.get v = none ∧ ScopeOk s1.stack ∧
      ∀ (ts : List State) (s' : State),
        Passes (BodyRunV img b v) (enterBody (P0 + 1 + 19 + 5)) (varPost (P0 + 1 + 19) v) s1 ts s' →
        ts.length = passes c →
        (∃ k, run img k s = exitLoop (P0 + (b.length + 35)) s') ∧
        (exitLoop (P0 + (b.length + 35)) s').eval = s.eval ∧
        (∃ vars' rest', s'.stack = .loop vars' s.eval.length :: rest') ∧
        (∀ k (hk : k < ts.length), ∃ f,
          Num (ts[k].getVariable v) (x + (k : Rat) * (if c = 1 then 0 else (y - x) / (c - 1))) f) := by
  have hprelen := interp_pre_length v n lo hi hn hlo hhi
  have hlenAll : (unG (assembleLoop
      (genRv n (.to counter) ++ indexVarRange v lo hi false) counterTest []
      (ins b) (loopPost (some v)))).length = b.length + 35 := by
    rw [assembled_length, hprelen, loopPost_some_length]; omega
  rw [assembled_counted] at hc hlenAll
  obtain ⟨hL, hPre, _, _⟩ := loopCode_parts hc
  obtain ⟨k0, s1, vars, rest1, hrun, hr1, hpc1, hev1, hst1, hcnt, hinc, hgv, hcon1, hsc1⟩ :=
    interp_prologue img (afterLoop s) (P0 + 1) s.eval.length s.stack v n lo hi hn hlo hhi c x y fl fx fy
      (by exact hs) (by simp [afterLoop, hpc]) hPre rfl (by exact hconst) (ScopeOk.cons_loop hscope)
      (by rw [read_simple_afterLoop n hn]; exact hnv) (by rw [read_simple_afterLoop lo hlo]; exact hav)
      (by rw [read_simple_afterLoop hi hhi]; exact hbv)
  rw [read_simple_afterLoop lo hlo] at hgv
  refine ⟨s1, vars, rest1, ⟨1 + k0, run_trans (run_loop_instr img s P0 hs hpc hL) hrun⟩, hr1, hst1, hgv,
    by rw [hcon1]; exact hconst, hsc1, ?_⟩
  intro ts s' hp hlen
  obtain ⟨hrun', hev', hfr', hvals, _⟩ := var_loop_whole img P0 _ b v hc s s1 hs hpc ⟨k0, hrun⟩ hr1
    (by rw [hpc1, hprelen]; simp) hev1 vars rest1 _ _ _ _ x fx hst1 hcnt hinc (by rw [hgv]; exact hav)
    ts s' (by rw [hprelen]; exact hp) hlen
  rw [hlenAll] at hrun' hev'
  refine ⟨hrun', hev', hfr', ?_⟩
  intro k hk
  rw [hvals k hk, hgv]
  exact ⟨_, C04_series_closed_form (s.read lo.src) _ x _ fx _ hav hinc k⟩

/-- both ends are included: with a count `c ≠ 1` the value of pass `c − 1` is the upper bound -/
theorem C04_interp_last (x y c : Rat) (hc : c ≠ 1) :
    x + (c - 1) * (if c = 1 then 0 else (y - x) / (c - 1)) = y := by
  have h1 : c - 1 ≠ 0 := by grind
  rw [if_neg hc, Rat.div_def, ← Rat.mul_assoc, Rat.mul_comm (c - 1), Rat.mul_assoc,
    Rat.mul_inv_cancel _ h1]
  grind

/-! ## `repeat n with v cycle s` -/

/-- the start value of a cycle given as a literal: the given one, else 0 -/
def cycleStart (start : Option Val) : Val := start.getD (.int 0)

theorem cycle_pre_eq (v : String) (nv : Val) (start : Option Val) :
    genRv (.lit nv) (.to counter) ++ cycleVarRange v (start.map Rv.lit) =
      [Instr.moveq nv (.loopVar .counter)] ++
      ([Instr.moveq (cycleStart start) (.loopVar .first), .move (.loopVar .first) (.var v)] ++
        cycleTail) := by
  cases start <;> simp [cycleVarRange, genRv, counter, cycleTail, cycleStart]

/-- the start operand of a cycle: the given one, else the literal 0 -/
def startRv (start : Option Rv) : Rv := start.getD (.lit (.int 0))

theorem startRv_simple (start : Option Rv) (h : ∀ a, start = some a → SimpleArg a) :
    SimpleArg (startRv start) := by
  cases start with
  | none => exact .lit _
  | some a => exact h a rfl

theorem cycleVarRange_eq (v : String) (start : Option Rv) :
    cycleVarRange v start =
      genRv (startRv start) (.to (.loopVar .first)) ++ [Instr.move (.loopVar .first) (.var v)] ++
        cycleTail := by
  cases start <;> simp [cycleVarRange, genRv, cycleTail, startRv]

/-- `first := s; v := first` -/
theorem run_start (img : Image) (s0 : State) (pc h : Nat) (rest : List Frame) (v : String)
    (a : Rv) (ha : SimpleArg a) (vars0 : List (LoopVar × Val))
    (hs : s0.status = .running) (hpc : s0.pc = (pc : Int))
    (hc : CodeAt img pc (genRv a (.to (.loopVar .first)) ++ [Instr.move (.loopVar .first) (.var v)]))
    (hst : s0.stack = .loop vars0 h :: rest) (hconst : s0.constants.get v = none)
    (hscope : ScopeOk s0.stack) :
    ∃ s3 rest1, run img 2 s0 = s3 ∧ s3.status = .running ∧ s3.pc = (pc : Int) + 2 ∧ s3.eval = s0.eval ∧
      s3.stack = .loop (setLV vars0 .first (s0.read a.src)) h :: rest1 ∧
      s3.getVariable v = s0.read a.src ∧ s3.constants = s0.constants ∧ ScopeOk s3.stack ∧
      s3.regs = s0.regs := by
  let sv := s0.read a.src
  let v1 := setLV vars0 .first sv
  let sa : State := { s0 with pc := (pc : Int) + 1, stack := .loop v1 h :: rest }
  obtain ⟨hla, ha1⟩ := run_simple_lv img s0 pc a ha .first vars0 h rest hs hpc hc.left hst
  have ha1 : run img 1 s0 = sa := ha1
  have hgf : getLV v1 .first = sv := getLV_setLV_self _ _ _
  have hmv : img.code[pc + 1]? = some (.move (.loopVar .first) (.var v)) := by
    have := hc.right.head; simpa [hla] using this
  have hcm : run img 1 sa = { sa.putVariable v sv with pc := (pc : Int) + 2 } := by
    rw [run_move_lv_var img sa (pc + 1) .first v v1 h rest (by exact hs) (by simp [sa]) hmv rfl, hgf]
    apply State.ext' <;> first | rfl | (simp; omega)
  obtain ⟨hget, hsc, hcon, htop⟩ := putVariable_get sa v sv hconst (by rw [hst] at hscope; exact hscope.retop)
  obtain ⟨rest1, hst3⟩ := htop v1 h rest rfl
  refine ⟨{ sa.putVariable v sv with pc := (pc : Int) + 2 }, rest1, ?_, ?_, rfl, ?_, hst3, hget, hcon, hsc, ?_⟩
  · exact run_trans ha1 hcm
  · simpa [putVariable_status] using hs
  · simp only []; rw [putVariable_eval]
  · show (sa.putVariable v sv).regs = s0.regs
    unfold State.putVariable
    repeat' split
    all_goals rfl

theorem cycle_pre_length (v : String) (n : Rv) (start : Option Rv) (hn : SimpleArg n)
    (hst : SimpleArg (startRv start)) :
    (genRv n (.to counter) ++ cycleVarRange v start).length = 21 := by
  rw [List.length_append, cycleVarRange_eq]
  have h1 := genRv_simple_length n hn .counter
  have h2 := genRv_simple_length (startRv start) hst .first
  simp only [counter] at h1 ⊢
  simp only [List.length_append, h1, h2, List.length_cons, List.length_nil]
  rfl

/-- **cycle prologue.**  `genRv n → counter; cycleVarRange v s` with simple operands. -/
theorem cycle_prologue (img : Image) (s0 : State) (pc h : Nat) (rest : List Frame) (v : String)
    (n : Rv) (start : Option Rv) (hn : SimpleArg n) (hsr : SimpleArg (startRv start))
    (c : Rat) (fl : Bool) (m : UnitMode)
    (hs : s0.status = .running) (hpc : s0.pc = (pc : Int))
    (hc : CodeAt img pc (genRv n (.to counter) ++ cycleVarRange v start))
    (hst : s0.stack = .loop [] h :: rest) (hconst : s0.constants.get v = none)
    (hscope : ScopeOk s0.stack) (hnv : Num (s0.read n.src) c fl) (hm : s0.regs .unitMode = .mode m) :
    ∃ k s1 vars rest1, run img k s0 = s1 ∧ s1.status = .running ∧
      s1.pc = (pc : Int) + 21 ∧ s1.eval = s0.eval ∧
      s1.stack = .loop vars h :: rest1 ∧
      Num (getLV vars .counter) c fl ∧
      Num (getLV vars .incr) (if c = 0 then 0 else ((turnOf m : Int) : Rat) / c) (!decide (c = 0)) ∧
      s1.getVariable v = s0.read (startRv start).src ∧ s1.constants = s0.constants ∧
      ScopeOk s1.stack := by
  have hc' : CodeAt img pc (genRv n (.to (.loopVar .counter)) ++
      ((genRv (startRv start) (.to (.loopVar .first)) ++ [Instr.move (.loopVar .first) (.var v)]) ++
        cycleTail)) := by
    rw [cycleVarRange_eq] at hc; simpa [counter] using hc
  let nv := s0.read n.src
  let v0 := setLV [] .counter nv
  let sa : State := { s0 with pc := (pc : Int) + 1, stack := .loop v0 h :: rest }
  obtain ⟨hln, ha⟩ := run_simple_lv img s0 pc n hn .counter [] h rest hs hpc hc'.left hst
  have ha : run img 1 s0 = sa := ha
  have hcr := hc'.right
  rw [hln] at hcr
  have hra : sa.read (startRv start).src = s0.read (startRv start).src :=
    read_simple_retop _ hsr s0 sa [] v0 h h rest hst rfl rfl rfl rfl
  obtain ⟨s3, rest1, hr3, hs3, hpc3, hev3, hst3, hgv3, hcon3, hsc3, hregs3⟩ :=
    run_start img sa (pc + 1) h rest v (startRv start) hsr v0 (by exact hs) (by simp [sa]) hcr.left rfl
      (by exact hconst) (by rw [hst] at hscope; exact hscope.retop)
  rw [hra] at hst3 hgv3
  have hcnt : Num (getLV (setLV v0 .first (s0.read (startRv start).src)) .counter) c fl := by
    rw [getLV_setLV_other _ _ _ _ (by simp), getLV_setLV_self]
    exact hnv
  have hct : CodeAt img (pc + 1 + 2) cycleTail := by
    have := hcr.right
    simpa [genRv_simple_length _ hsr] using this
  obtain ⟨k, vars', R, hrun, hR, hinc, hoth⟩ := run_cycleIncr img s3 (pc + 1 + 2) _ h rest1 c fl m hs3
    (by rw [hpc3]; simp) hct hst3 hcnt (by rw [hregs3]; exact hm)
  refine ⟨1 + (2 + k), _, vars', rest1, run_trans ha (run_trans hr3 hrun), hs3, ?_, hev3, rfl, ?_, hinc, ?_,
    hcon3, ?_⟩
  · simp; omega
  · rw [hoth _ (by simp)]; exact hcnt
  · rw [← hgv3]
    exact getVariable_retop s3 _ _ vars' h h rest1 v hst3 rfl rfl rfl
  · rw [hst3] at hsc3; exact hsc3.retop

/-- **cycle_loop (chain form).**  `repeat n with v cycle [s]` with a simple count `n` (value
`c` when the loop starts) and simple start `s` (value `x`; the literal 0 when absent) and a body
that does not assign `v`: `passes c` passes; at the start of pass `k` the variable `v` holds a
number whose exact value is `x + k·turn/c`, where `turn` is 65536 if the unit-mode register holds
`raw` when the loop starts and 360 otherwise; `n = 0` gives no pass and no fault. -/
theorem C04_cycle_loop_chain (img : Image) (P0 : Nat) (b : List Instr) (v : String) (n : Rv)
    (start : Option Rv) (hn : SimpleArg n) (hsr : SimpleArg (startRv start))
    (c x : Rat) (fl fx : Bool) (m : UnitMode)
    (hc : CodeAt img P0 (unG (assembleLoop
      (genRv n (.to counter) ++ cycleVarRange v start) counterTest []
      (ins b) (loopPost (some v)))))
    (s : State) (hs : s.status = .running) (hpc : s.pc = (P0 : Int))
    (hconst : s.constants.get v = none) (hscope : ScopeOk s.stack)
    (hnv : Num (s.read n.src) c fl) (hsv : Num (s.read (startRv start).src) x fx)
    (hm : s.regs .unitMode = .mode m) :
    ∃ s1 vars rest1, (∃ k, run img k s = s1) ∧ s1.status = .running ∧
      s1.stack = .loop vars s.eval.length :: rest1 ∧ s1.getVariable v = s.read (startRv start).src ∧
      s1.constants.get v = none ∧ ScopeOk s1.stack ∧
      ∀ (ts : List State) (s' : State),
        Passes (BodyRunV img b v) (enterBody (P0 + 1 + 21 + 5)) (varPost (P0 + 1 + 21) v) s1 ts s' →
        ts.length = passes c →
        (∃ k, run img k s = exitLoop (P0 + (b.length + 37)) s') ∧
        (exitLoop (P0 + (b.length + 37)) s').eval = s.eval ∧
        (∃ vars' rest', s'.stack = .loop vars' s.eval.length :: rest') ∧
        (∀ k (hk : k < ts.length), ∃ f,
          Num (ts[k].getVariable v)
            (x + (k : Rat) * (if c = 0 then 0 else ((turnOf m : Int) : Rat) / c)) f) := by
  have hprelen := cycle_pre_length v n start hn hsr
  have hlenAll : (unG (assembleLoop
      (genRv n (.to counter) ++ cycleVarRange v start) counterTest []
      (ins b) (loopPost (some v)))).length = b.length + 37 := by
    rw [assembled_length, hprelen, loopPost_some_length]; omega
  rw [assembled_counted] at hc hlenAll
  obtain ⟨hL, hPre, _, _⟩ := loopCode_parts hc
  obtain ⟨k0, s1, vars, rest1, hrun, hr1, hpc1, hev1, hst1, hcnt, hinc, hgv, hcon1, hsc1⟩ :=
    cycle_prologue img (afterLoop s) (P0 + 1) s.eval.length s.stack v n start hn hsr c fl m
      (by exact hs) (by simp [afterLoop, hpc]) hPre rfl (by exact hconst) (ScopeOk.cons_loop hscope)
      (by rw [read_simple_afterLoop n hn]; exact hnv) (by exact hm)
  rw [read_simple_afterLoop _ hsr] at hgv
  refine ⟨s1, vars, rest1, ⟨1 + k0, run_trans (run_loop_instr img s P0 hs hpc hL) hrun⟩, hr1, hst1, hgv,
    by rw [hcon1]; exact hconst, hsc1, ?_⟩
  intro ts s' hp hlen
  obtain ⟨hrun', hev', hfr', hvals, _⟩ := var_loop_whole img P0 _ b v hc s s1 hs hpc ⟨k0, hrun⟩ hr1
    (by rw [hpc1, hprelen]; simp) hev1 vars rest1 _ _ _ _ x fx hst1 hcnt hinc (by rw [hgv]; exact hsv)
    ts s' (by rw [hprelen]; exact hp) hlen
  rw [hlenAll] at hrun' hev'
  refine ⟨hrun', hev', hfr', ?_⟩
  intro k hk
  rw [hvals k hk, hgv]
  exact ⟨_, C04_series_closed_form _ _ x _ fx _ hsv hinc k⟩

/-- no pass and no fault with a count of 0 -/
theorem C04_cycle_zero : passes 0 = 0 := passes_nonpos (by decide)

theorem body_at {img : Image} {P0 : Nat} {pre b post : List Instr}
    (hc : CodeAt img P0 (loopCode pre counterTest (b ++ post))) :
    CodeAt img (P0 + 1 + pre.length + 5) b := by
  obtain ⟨_, _, hT, _⟩ := loopCode_parts hc
  exact (loopTail_parts hT).2.2.1

/-- **interp_loop.**  With a body that satisfies the contract from every state. -/
theorem C04_interp_loop (img : Image) (P0 : Nat) (b : List Instr) (v : String) (n lo hi : Rv)
    (hn : SimpleArg n) (hlo : SimpleArg lo) (hhi : SimpleArg hi)
    (c x y : Rat) (fl fx fy : Bool)
    (hc : CodeAt img P0 (unG (assembleLoop
      (genRv n (.to counter) ++ indexVarRange v lo hi false) counterTest []
      (ins b) (loopPost (some v)))))
    (s : State) (hs : s.status = .running) (hpc : s.pc = (P0 : Int))
    (hconst : s.constants.get v = none) (hscope : ScopeOk s.stack)
    (hnv : Num (s.read n.src) c fl) (hav : Num (s.read lo.src) x fx) (hbv : Num (s.read hi.src) y fy)
    (hok : BodyOkV img b v) :
    ∃ (ts : List State) (s' : State),
      ts.length = passes c ∧
      (∃ k, run img k s = exitLoop (P0 + (b.length + 35)) s') ∧
      (exitLoop (P0 + (b.length + 35)) s').eval = s.eval ∧
      (∃ vars' rest', s'.stack = .loop vars' s.eval.length :: rest') ∧
      (∀ k (hk : k < ts.length), ∃ f,
        Num (ts[k].getVariable v) (x + (k : Rat) * (if c = 1 then 0 else (y - x) / (c - 1))) f) ∧
      ∃ s1, Passes (BodyRunV img b v) (enterBody (P0 + 1 + 19 + 5)) (varPost (P0 + 1 + 19) v) s1 ts s' := by
  obtain ⟨s1, vars, rest1, hk1, hr1, hst1, hgv, hcon1, hsc1, hall⟩ :=
    C04_interp_loop_chain img P0 b v n lo hi hn hlo hhi c x y fl fx fy hc s hs hpc hconst hscope hnv hav hbv
  have hB : CodeAt img (P0 + 1 + 19 + 5) b := by
    rw [assembled_counted] at hc
    have := body_at hc
    rw [interp_pre_length v n lo hi hn hlo hhi] at this
    exact this
  obtain ⟨ts, s', hp, hl⟩ := var_chain_exists img (P0 + 1 + 19) b v hB hok (passes c) s1 vars
    s.eval.length rest1 hr1 hst1 hcon1 hsc1
  obtain ⟨hrun, hev, hfr, hvals⟩ := hall ts s' hp hl
  exact ⟨ts, s', hl, hrun, hev, hfr, hvals, s1, hp⟩

/-- **cycle_loop.**  With a body that satisfies the contract from every state. -/
theorem C04_cycle_loop (img : Image) (P0 : Nat) (b : List Instr) (v : String) (n : Rv)
    (start : Option Rv) (hn : SimpleArg n) (hsr : SimpleArg (startRv start))
    (c x : Rat) (fl fx : Bool) (m : UnitMode)
    (hc : CodeAt img P0 (unG (assembleLoop
      (genRv n (.to counter) ++ cycleVarRange v start) counterTest []
      (ins b) (loopPost (some v)))))
    (s : State) (hs : s.status = .running) (hpc : s.pc = (P0 : Int))
    (hconst : s.constants.get v = none) (hscope : ScopeOk s.stack)
    (hnv : Num (s.read n.src) c fl) (hsv : Num (s.read (startRv start).src) x fx)
    (hm : s.regs .unitMode = .mode m) (hok : BodyOkV img b v) :
    ∃ (ts : List State) (s' : State),
      ts.length = passes c ∧
      (∃ k, run img k s = exitLoop (P0 + (b.length + 37)) s') ∧
      (exitLoop (P0 + (b.length + 37)) s').eval = s.eval ∧
      (∃ vars' rest', s'.stack = .loop vars' s.eval.length :: rest') ∧
      (∀ k (hk : k < ts.length), ∃ f,
        Num (ts[k].getVariable v)
          (x + (k : Rat) * (if c = 0 then 0 else ((turnOf m : Int) : Rat) / c)) f) ∧
      ∃ s1, Passes (BodyRunV img b v) (enterBody (P0 + 1 + 21 + 5)) (varPost (P0 + 1 + 21) v) s1 ts s' := by
  obtain ⟨s1, vars, rest1, hk1, hr1, hst1, hgv, hcon1, hsc1, hall⟩ :=
    C04_cycle_loop_chain img P0 b v n start hn hsr c x fl fx m hc s hs hpc hconst hscope hnv hsv hm
  have hB : CodeAt img (P0 + 1 + 21 + 5) b := by
    rw [assembled_counted] at hc
    have := body_at hc
    rw [cycle_pre_length v n start hn hsr] at this
    exact this
  obtain ⟨ts, s', hp, hl⟩ := var_chain_exists img (P0 + 1 + 21) b v hB hok (passes c) s1 vars
    s.eval.length rest1 hr1 hst1 hcon1 hsc1
  obtain ⟨hrun, hev, hfr, hvals⟩ := hall ts s' hp hl
  exact ⟨ts, s', hl, hrun, hev, hfr, hvals, s1, hp⟩

section WhileLoop
open Sem

/-! ## 4. `repeat while` -/

/-- a call-free condition that does not read the `result` register (which the loop test itself
overwrites; `Sem` does not model that register) -/
inductive PureCond : Expr → Prop
  | lit (v : Val) : Gen.pushLit v = .pushq v → PureCond (.lit v)
  | var (n : String) : PureCond (.var n)
  | reg (r : Reg) : r ≠ .result → PureCond (.reg r)
  | un (minus : Bool) (e : Expr) : PureCond e → PureCond (.un minus e)
  | bin (op : Operator) (a b : Expr) : PureCond a → PureCond b → PureCond (.bin op a b)
  | paren (e : Expr) : PureCond e → PureCond (.paren e)

theorem PureCond.callFree {e : Expr} (h : PureCond e) : CallFree e := by
  induction h with
  | lit v hv => exact .lit v hv
  | var n => exact .var n
  | reg r _ => exact .reg r
  | un m e _ ih => exact .un m e ih
  | bin op a b _ _ iha ihb => exact .bin op a b iha ihb
  | paren e _ ih => exact .paren e ih

/-- the value of such a condition depends only on what names denote and on the registers other
than `result`; evaluating it changes nothing -/
theorem evalExpr_pure_congr (e : Expr) (he : PureCond e) :
    ∀ (f : Nat) (σ τ : S) (x : Val) (σ1 : S), (∀ n, σ.lookup n = τ.lookup n) →
      (∀ r, r ≠ .result → σ.vm.regs r = τ.vm.regs r) → evalExpr f e σ = .ok (x, σ1) →
      σ1 = σ ∧ evalExpr f e τ = .ok (x, τ) := by
  induction he with
  | lit v hv =>
    intro f σ τ x σ1 _ _ h
    cases f with
    | zero => simp [evalExpr] at h
    | succ f =>
      simp only [evalExpr, Except.ok.injEq, Prod.mk.injEq] at h
      obtain ⟨rfl, rfl⟩ := h
      exact ⟨rfl, by simp [evalExpr]⟩
  | var n =>
    intro f σ τ x σ1 hl _ h
    cases f with
    | zero => simp [evalExpr] at h
    | succ f =>
      simp only [evalExpr] at h ⊢
      rw [← hl n]
      split at h
      · simp at h
      · rename_i hne
        simp only [Except.ok.injEq, Prod.mk.injEq] at h
        obtain ⟨rfl, rfl⟩ := h
        exact ⟨rfl, rfl⟩
  | reg r hr =>
    intro f σ τ x σ1 _ hrg h
    cases f with
    | zero => simp [evalExpr] at h
    | succ f =>
      simp only [evalExpr] at h ⊢
      rw [← hrg r hr]
      split at h
      · simp at h
      · rename_i hne
        simp only [Except.ok.injEq, Prod.mk.injEq] at h
        obtain ⟨rfl, rfl⟩ := h
        exact ⟨rfl, rfl⟩
  | paren e _ ih =>
    intro f σ τ x σ1 hl hrg h
    cases f with
    | zero => simp [evalExpr] at h
    | succ f =>
      simp only [evalExpr] at h ⊢
      exact ih f σ τ x σ1 hl hrg h
  | un minus e _ ih =>
    intro f σ τ x σ1 hl hrg h
    cases f with
    | zero => simp [evalExpr] at h
    | succ f =>
      simp only [evalExpr] at h ⊢
      split at h
      · rename_i v σ2 hev
        obtain ⟨rfl, hτ⟩ := ih f σ τ v σ2 hl hrg hev
        rw [hτ]
        cases minus with
        | false =>
          simp only [Bool.false_eq_true, if_false, Except.ok.injEq, Prod.mk.injEq] at h
          obtain ⟨rfl, rfl⟩ := h
          exact ⟨rfl, by simp⟩
        | true =>
          simp only [if_true] at h ⊢
          split at h
          · rename_i r hr
            simp only [Except.ok.injEq, Prod.mk.injEq] at h
            obtain ⟨rfl, rfl⟩ := h
            exact ⟨rfl, by simp⟩
          · simp at h
      · simp at h
  | bin op a b _ _ iha ihb =>
    intro f σ τ r σ1 hl hrg h
    cases f with
    | zero => simp [evalExpr] at h
    | succ f =>
      obtain ⟨x, σ2, y, ha, hb, hv⟩ := evalExpr_bin_ok f op a b σ σ1 r h
      obtain ⟨rfl, hτa⟩ := iha f σ τ x σ2 hl hrg ha
      obtain ⟨rfl, hτb⟩ := ihb f σ2 τ y σ1 hl hrg hb
      refine ⟨rfl, ?_⟩
      simp only [evalExpr, hτa, hτb]
      cases op <;> simp [binVal] at hv ⊢ <;> first | exact hv | (simp [hv]) | skip
      -- `^`
      split at hv
      · rename_i q fl hy
        split at hv
        · simp at hv
        · rename_i hq
          simp only [hv, hy]
          rw [if_neg hq]
      · simp at hv


/-- the source-level state and the VM state give names and registers — `result` apart, which
the code of conditions uses as scratch and `Sem` does not model — the same meaning -/
def EnvR (σ : S) (s : State) : Prop :=
  (∀ n, σ.lookup n = s.getVariable n) ∧ ∀ r, r ≠ .result → σ.vm.regs r = s.regs r

/-- `Sem.execWhile` instrumented: the number of passes made and the final state, when the loop
ends normally after passes that all end normally (no `break`, which is `C04_break_innermost`'s
subject) -/
def whilePasses : Nat → Rv → Block → S → Option (Nat × S)
  | 0, _, _, _ => none
  | f + 1, c, body, s =>
    match evalRv f c s with
    | .ok (v, s1) =>
      if v.truthy then
        match execBlock f body s1 with
        | (.normal, s2) => (whilePasses f c body s2).map fun (m, s') => (m + 1, s')
        | _ => none
      else some (0, s1)
    | .error _ => none

/-- it is `Sem.execWhile` that is being counted -/
theorem whilePasses_execWhile (f : Nat) (c : Rv) (body : Block) :
    ∀ (σ σ' : S) (m : Nat), whilePasses f c body σ = some (m, σ') →
      execWhile f (some c) body σ = (.normal, σ') := by
  induction f with
  | zero => intro σ σ' m h; simp [whilePasses] at h
  | succ f ih =>
    intro σ σ' m h
    simp only [whilePasses] at h
    simp only [execWhile]
    split at h
    · rename_i v s1 hev
      rw [hev]
      split at h
      · rename_i hv
        simp only [hv]
        split at h
        · rename_i s2 hb
          rw [hb]
          cases hw : whilePasses f c body s2 with
          | none => simp [hw] at h
          | some p =>
            obtain ⟨m', s''⟩ := p
            simp only [hw, Option.map_some, Option.some.injEq, Prod.mk.injEq] at h
            obtain ⟨_, rfl⟩ := h
            exact ih s2 s'' m' hw
        · simp at h
      · rename_i hv
        have hv' : v.truthy = false := by simpa using hv
        simp only [Option.some.injEq, Prod.mk.injEq] at h
        obtain ⟨_, rfl⟩ := h
        simp only [hv']
    · simp at h

/-- test passed: `result` holds the (true) value of the condition, control is at the body -/
def enterW (bodyPc : Nat) (x : Val) (s : State) : State :=
  { s with pc := (bodyPc : Int), regs := fun r => if r = .result then x else s.regs r }

/-- test failed and `END_LOOP` ran -/
def exitW (afterPc : Nat) (x : Val) (s : State) : State :=
  { s with pc := (afterPc : Int), regs := fun r => if r = .result then x else s.regs r,
           stack := s.stack.tail }

/-- passes of a `while` loop: before each one the condition was evaluated — to a true value
`x` — and after each one control is back at the loop top with nothing else changed -/
inductive WhilePasses (K : State → State → Prop) (bodyPc top : Nat) :
    State → List State → State → Prop
  | done (s : State) : WhilePasses K bodyPc top s [] s
  | pass {s u s' : State} {ts : List State} (x : Val) : x.truthy = true → K (enterW bodyPc x s) u →
      WhilePasses K bodyPc top ({ u with pc := (top : Int) }) ts s' →
      WhilePasses K bodyPc top s (enterW bodyPc x s :: ts) s'

/-- **the body's simulation contract**: whenever the source-level body, started in a state `σ`
that agrees with the VM state `t` at the body's first instruction, ends normally in `σ'`, the
body's code runs as `BodyRun` says to a state that agrees with `σ'` -/
def BodySim (Rel : S → State → Prop) (img : Image) (b : List Instr) (body : Block) : Prop :=
  ∀ (f : Nat) (σ σ' : S) (t : State), Rel σ t → t.status = .running →
    (∃ pc : Nat, t.pc = (pc : Int) ∧ CodeAt img pc b) →
    (∃ vars h rest, t.stack = .loop vars h :: rest) →
    execBlock f body σ = (.normal, σ') → ∃ u, BodyRun img b t u ∧ Rel σ' u

/-- what a loop's own control code may do to a state: move `pc`, overwrite `result`, push, pop
or keep the innermost loop frame — and nothing else -/
structure CtlStep (s s' : State) : Prop where
  regs : ∀ r, r ≠ .result → s'.regs r = s.regs r
  stack : s'.stack = s.stack ∨ (∃ vars h, s'.stack = .loop vars h :: s.stack) ∨
    (∃ vars h, s.stack = .loop vars h :: s'.stack)
  defaultColor : s'.defaultColor = s.defaultColor
  matrix : s'.matrix = s.matrix
  globals : s'.globals = s.globals
  constants : s'.constants = s.constants
  eval : s'.eval = s.eval
  unnamed : s'.unnamed = s.unnamed
  lights : s'.lights = s.lights
  trace : s'.trace = s.trace
  status : s'.status = s.status
  draws : s'.draws = s.draws

/-- a relation between source-level and VM states that the while theorem can carry through a
loop: it implies agreement on names and registers, and loop control does not disturb it -/
structure RelOk (Rel : S → State → Prop) : Prop where
  env : ∀ σ s, Rel σ s → EnvR σ s
  ctl : ∀ σ s s', Rel σ s → CtlStep s s' → Rel σ s'

theorem getVariable_ctl {s s' : State} (h : CtlStep s s') (n : String) :
    s'.getVariable n = s.getVariable n := by
  simp only [State.getVariable, h.constants, h.globals]
  rcases h.stack with e | ⟨vars, hh, e⟩ | ⟨vars, hh, e⟩
  · rw [e]
  · rw [e, activation_cons_loop]
  · rw [e, activation_cons_loop]

/-- agreement on names and registers is such a relation -/
theorem EnvR.relOk : RelOk EnvR where
  env := fun _ _ h => h
  ctl := fun σ s s' h hc => ⟨fun n => by rw [getVariable_ctl hc n]; exact h.1 n,
    fun r hr => by rw [hc.regs r hr]; exact h.2 r hr⟩

theorem while_from_top (img : Image) (top : Nat) (e : Expr) (b : List Instr) (body : Block)
    (he : PureCond e)
    (hc : CodeAt img top (loopTail (genExpr e ++ [Instr.pop (.reg .result)]) (b ++ [])))
    (Rel : S → State → Prop) (hrel : RelOk Rel) (hsim : BodySim Rel img b body) :
    ∀ (f : Nat) (σ σ' : S) (m : Nat) (s : State) (vars : List (LoopVar × Val)) (h : Nat)
      (rest : List Frame),
      Rel σ s → s.status = .running → s.pc = (top : Int) → s.stack = .loop vars h :: rest →
      s.eval.length = h → whilePasses f (.expr e) body σ = some (m, σ') →
      ∃ ts s_top xf k,
        WhilePasses (BodyRun img b) (top + (genExpr e).length + 2) top s ts s_top ∧ ts.length = m ∧
        xf.truthy = false ∧
        run img k s = exitW (top + (genExpr e).length + b.length + 4) xf s_top ∧
        Rel σ' (exitW (top + (genExpr e).length + b.length + 4) xf s_top) ∧
        s_top.eval = s.eval ∧ ∃ vars' rest', s_top.stack = .loop vars' h :: rest' := by
  obtain ⟨hT, hJ, hB, _, hBk, hE⟩ := loopTail_parts hc
  simp only [List.length_append, List.length_cons, List.length_nil, Nat.add_zero, Nat.zero_add] at hJ hB hBk hE
  intro f
  induction f with
  | zero => intro σ σ' m s vars h rest _ _ _ _ _ hw; simp [whilePasses] at hw
  | succ f ih =>
    intro σ σ' m s vars h rest hrl hs hpc hst hev hw
    have henv := hrel.env σ s hrl
    simp only [whilePasses] at hw
    cases f with
    | zero => simp [evalRv] at hw
    | succ f =>
      simp only [evalRv] at hw
      cases hcond : evalExpr f e σ with
      | error o => simp [hcond] at hw
      | ok p =>
        obtain ⟨x, σ1⟩ := p
        simp only [hcond] at hw
        -- the test code computes `x` into `result`
        let τ : S := { σ with vm := { σ.vm with regs := s.regs } }
        obtain ⟨rfl, hτ⟩ := evalExpr_pure_congr e he f σ τ x σ1 (fun _ => rfl)
          (fun r hr => henv.2 r hr) hcond
        have hsame : SameEnv τ s := ⟨fun n => henv.1 n, rfl⟩
        have htest := C02_value_in_register img e he.callFree .result f τ τ x s top hs hpc
          (by simpa [genRv] using hT) hsame hτ
        simp only [genRv, List.length_append, List.length_cons, List.length_nil, Nat.zero_add] at htest
        let sT : State :=
          { s with pc := (top : Int) + ((genExpr e).length + 1 : Nat),
                   regs := fun r' => if r' = .result then x else s.regs r' }
        have hjmp := run_jump_ifFalse img sT (top + ((genExpr e).length + 1)) _ (by exact hs)
          (by simp [sT]) hJ
        by_cases hx : x.truthy = true
        · simp only [hx, if_true] at hw
          cases hbody : execBlock (f + 1) body σ1 with
          | mk o σ2 =>
            cases o <;> simp only [hbody] at hw <;> try (simp at hw)
            cases hrec : whilePasses (f + 1) (.expr e) body σ2 with
            | none => simp [hrec] at hw
            | some q =>
              obtain ⟨m', σ''⟩ := q
              simp only [hrec, Option.some.injEq, Prod.mk.injEq] at hw
              obtain ⟨w, ⟨rfl, rfl⟩, rfl⟩ := hw
              have hent : run img 1 sT = enterW (top + (genExpr e).length + 2) x s := by
                rw [hjmp]
                apply State.ext' <;> first | rfl | (simp [sT, enterW, hx]; omega) | (simp [sT, enterW, hx])
              obtain ⟨u, ⟨⟨k1, hk1⟩, hur, hupc, huev, hufr⟩, henv2⟩ :=
                hsim (f + 1) σ1 σ2 (enterW (top + (genExpr e).length + 2) x s)
                  (hrel.ctl σ1 s _ hrl ⟨fun r hr => by simp [enterW, hr], .inl rfl, rfl, rfl, rfl, rfl, rfl,
                    rfl, rfl, rfl, rfl, rfl⟩)
                  (by exact hs) ⟨top + (genExpr e).length + 2, rfl, by
                    have : top + ((genExpr e).length + 1) + 1 = top + (genExpr e).length + 2 := by omega
                    rw [← this]; exact hB⟩
                  ⟨vars, h, rest, by exact hst⟩ hbody
              obtain ⟨rest', hust⟩ := hufr vars h rest (by exact hst)
              have hback : run img 1 u = { u with pc := (top : Int) } := by
                rw [run_jump_always img u (top + ((genExpr e).length + 1) + 1 + b.length) _ hur
                  (by rw [hupc]; simp [enterW]; omega) hBk]
                apply State.ext' <;> first | rfl | (simp; omega)
              obtain ⟨ts, s_top, xf, k2, hch, hl, hxf, hrun2, henv3, hev3, hfr3⟩ :=
                ih σ2 σ'' m' ({ u with pc := (top : Int) } : State) vars h rest'
                  (hrel.ctl σ2 u _ henv2 ⟨fun _ _ => rfl, .inl rfl, rfl, rfl, rfl, rfl, rfl, rfl, rfl, rfl, rfl,
                    rfl⟩) (by exact hur) rfl (by exact hust)
                  (by show u.eval.length = h; rw [huev]; exact hev) hrec
              refine ⟨_ :: ts, s_top, xf, (genExpr e).length + 1 + (1 + (k1 + (1 + k2))),
                .pass x hx ⟨⟨k1, hk1⟩, hur, hupc, huev, hufr⟩ hch, by simp [hl], hxf, ?_, henv3, ?_, hfr3⟩
              · exact run_trans htest (run_trans hent (run_trans hk1 (run_trans hback hrun2)))
              · rw [hev3]; exact huev
        · have hx' : x.truthy = false := by simpa using hx
          simp only [hx', Bool.false_eq_true, if_false, Option.some.injEq, Prod.mk.injEq] at hw
          obtain ⟨rfl, rfl⟩ := hw
          have hfail : run img 1 sT = ({ sT with pc := ((top + (genExpr e).length + b.length + 3 : Nat) : Int) } : State) := by
            rw [hjmp]
            apply State.ext' <;> first | rfl | (simp [sT, hx']; omega) | (simp [sT, hx'])
          have hend : run img 1 ({ sT with pc := ((top + (genExpr e).length + b.length + 3 : Nat) : Int) } : State) =
              exitW (top + (genExpr e).length + b.length + 4) x s := by
            rw [run_one _ _ (by exact hs),
              step_endLoop img _ (top + (genExpr e).length + b.length + 3) vars h rest (by exact hs) rfl
                (by rw [← hE]; congr 1; omega) (by exact hst)]
            apply State.ext' <;> first | rfl | (simp [sT, exitW, hst, trimEval, ← hev]; omega) |
              (simp [sT, exitW, hst, trimEval, ← hev])
          refine ⟨[], s, x, (genExpr e).length + 1 + (1 + 1), .done s, rfl, hx', ?_, ?_, rfl, vars, rest, hst⟩
          · exact run_trans htest (run_trans hfail hend)
          · exact hrel.ctl σ1 s _ hrl ⟨fun r hr => by simp [exitW, hr],
              .inr (.inr ⟨vars, h, by simp [exitW, hst]⟩), rfl, rfl, rfl, rfl, rfl, rfl, rfl, rfl, rfl, rfl⟩


theorem assembled_while (test b : List Instr) :
    unG (assembleLoop [] test [] (ins b) []) = [Instr.loop] ++ [] ++ loopTail test (b ++ []) := by
  rw [assembleLoop_ins, unG_ins, loopCode_eq]; simp

/-- **while_loop.**  `repeat while {e}` for a call-free condition `e` (not reading the scratch
register `result`) and any body related to its source `body` by `BodySim` for a state
relation `Rel` that loop control preserves (`RelOk`; `EnvR` is one, `EnvR.relOk`): if the source-level
loop `Sem.execWhile` ends normally after `m` passes in `σ'` (fuel `f`), then the VM, started at
`LOOP` in a state that agrees with `σ`, evaluates the condition before every pass — each pass
starts in a state `enterW … x …` with `x` the condition's value then, true — runs the body
exactly `m` times, leaves the loop the first time the condition is false (`xf`), and ends just
past `END_LOOP` in a state that agrees with `σ'`, loop frame popped, evaluation stack restored. -/
theorem C04_while_loop (img : Image) (P0 : Nat) (e : Expr) (b : List Instr) (body : Block)
    (he : PureCond e)
    (hc : CodeAt img P0 (unG (assembleLoop [] (genRv (.expr e) (.to result)) [] (ins b) [])))
    (Rel : S → State → Prop) (hrel : RelOk Rel)
    (hsim : BodySim Rel img b body) (f : Nat) (σ σ' : S) (m : Nat) (s : State)
    (henv : Rel σ s) (hs : s.status = .running) (hpc : s.pc = (P0 : Int))
    (hw : whilePasses f (.expr e) body σ = some (m, σ')) :
    execWhile f (some (.expr e)) body σ = (.normal, σ') ∧
    ∃ ts s_top xf k,
      WhilePasses (BodyRun img b) (P0 + 1 + (genExpr e).length + 2) (P0 + 1) (afterLoop s) ts s_top ∧
      ts.length = m ∧ xf.truthy = false ∧
      run img k s = exitW (P0 + 1 + (genExpr e).length + b.length + 4) xf s_top ∧
      Rel σ' (exitW (P0 + 1 + (genExpr e).length + b.length + 4) xf s_top) ∧
      s_top.eval = s.eval ∧ ∃ vars', s_top.stack = .loop vars' s.eval.length :: (exitW 0 xf s_top).stack := by
  refine ⟨whilePasses_execWhile f _ body σ σ' m hw, ?_⟩
  rw [assembled_while] at hc
  have hL : img.code[P0]? = some .loop := by have := hc.left.left.head; simpa using this
  have hT : CodeAt img (P0 + 1) (loopTail (genExpr e ++ [Instr.pop (.reg .result)]) (b ++ [])) := by
    have := hc.right
    simpa [genRv, result] using this
  obtain ⟨ts, s_top, xf, k, hch, hl, hxf, hrun, henv', hev, vars', rest', hst'⟩ :=
    while_from_top img (P0 + 1) e b body he hT Rel hrel hsim f σ σ' m (afterLoop s) [] s.eval.length s.stack
      (hrel.ctl σ s _ henv ⟨fun _ _ => rfl, .inr (.inl ⟨[], s.eval.length, rfl⟩), rfl, rfl, rfl, rfl, rfl,
        rfl, rfl, rfl, rfl, rfl⟩) (by exact hs) (by simp [afterLoop, hpc]) rfl rfl hw
  refine ⟨ts, s_top, xf, 1 + k, hch, hl, hxf, run_trans (run_loop_instr img s P0 hs hpc hL) hrun, henv', hev,
    vars', ?_⟩
  simp [exitW, hst']


end WhileLoop

/-! ## 6. names in order -/

/-- **`sortNames` sorts**: the result is in ascending order (Python's code-point order on
strings, `String`'s `<`) … -/
theorem C04_sortNames_sorted (xs : List String) : (sortNames xs).Pairwise (· ≤ ·) :=
  foldl_ins_sorted xs [] .nil

/-- … and is a rearrangement of the input: every name as often as it was given -/
theorem C04_sortNames_perm (xs : List String) : (sortNames xs).Perm xs := by
  have := foldl_ins_perm xs []
  rw [List.append_nil] at this
  exact this

/-- `lightNames` (what `repeat all` and `all` in a list visit): strictly ascending — so every
name exactly once — and exactly the names of the lights there are -/
theorem C04_lightNames (s : State) :
    s.lightNames.Pairwise (· < ·) ∧ s.lightNames.Nodup ∧
    ∀ n, n ∈ s.lightNames ↔ ∃ l ∈ s.lights, l.name = n := by
  have h1 := dedupSorted_strict _ (C04_sortNames_sorted (s.lights.map (·.name)))
  refine ⟨h1, strict_nodup _ h1, fun n => ?_⟩
  unfold State.lightNames
  rw [mem_dedupSorted, (C04_sortNames_perm _).mem_iff]
  simp

theorem C04_groupNames (s : State) :
    s.groupNames.Pairwise (· < ·) ∧ ∀ n, n ∈ s.groupNames ↔ ∃ l ∈ s.lights, l.group = n := by
  refine ⟨dedupSorted_strict _ (C04_sortNames_sorted _), fun n => ?_⟩
  unfold State.groupNames
  rw [mem_dedupSorted, (C04_sortNames_perm _).mem_iff]
  simp

theorem C04_locationNames (s : State) :
    s.locationNames.Pairwise (· < ·) ∧ ∀ n, n ∈ s.locationNames ↔ ∃ l ∈ s.lights, l.location = n := by
  refine ⟨dedupSorted_strict _ (C04_sortNames_sorted _), fun n => ?_⟩
  unfold State.locationNames
  rw [mem_dedupSorted, (C04_sortNames_perm _).mem_iff]
  simp

/-- the members of a group, as `repeat group`/`group "g"` in a list visit them: in name order,
each light of the group once (as often as the directory lists it) -/
theorem C04_groupLights (s : State) (g : String) (ms : List String) (h : s.groupLights g = some ms) :
    ms.Pairwise (· ≤ ·) ∧ ms.Perm ((s.lights.filter (·.group == g)).map (·.name)) := by
  unfold State.groupLights at h
  simp only at h
  split at h
  · simp at h
  · simp only [Option.some.injEq] at h
    subst h
    exact ⟨C04_sortNames_sorted _, C04_sortNames_perm _⟩

theorem C04_locationLights (s : State) (g : String) (ms : List String)
    (h : s.locationLights g = some ms) :
    ms.Pairwise (· ≤ ·) ∧ ms.Perm ((s.lights.filter (·.location == g)).map (·.name)) := by
  unfold State.locationLights at h
  simp only at h
  split at h
  · simp at h
  · simp only [Option.some.injEq] at h
    subst h
    exact ⟨C04_sortNames_sorted _, C04_sortNames_perm _⟩

/-- when the lights have distinct names, a group's members are visited exactly once each -/
theorem C04_groupLights_nodup (s : State) (g : String) (ms : List String)
    (hd : (s.lights.map (·.name)).Nodup) (h : s.groupLights g = some ms) : ms.Nodup := by
  have hp := (C04_groupLights s g ms h).2
  rw [hp.nodup_iff]
  exact (hd.sublist ((List.filter_sublist).map _))

/-- in a strictly ascending list the names below the `i`-th are exactly the first `i` -/
theorem filter_lt_sorted (xs : List String) (h : xs.Pairwise (· < ·)) (i : Nat) (hi : i < xs.length) :
    xs.filter (· < xs[i]) = xs.take i := by
  induction xs generalizing i with
  | nil => simp at hi
  | cons a t ih =>
    rw [List.pairwise_cons] at h
    cases i with
    | zero =>
      simp only [List.getElem_cons_zero, List.take_zero]
      rw [List.filter_eq_nil_iff]
      intro y hy
      rcases List.mem_cons.1 hy with rfl | hy
      · simp
      · simpa using String.lt_asymm (h.1 y hy)
    | succ i =>
      have hi' : i < t.length := by simpa using hi
      simp only [List.getElem_cons_succ, List.take_succ_cons]
      rw [List.filter_cons, if_pos (by simpa using h.1 _ (List.getElem_mem hi')), ih h.2 i hi']

/-- **`SortedList.prev`** on a strictly ascending list: the predecessor of the `i`-th name is the
`(i−1)`-th, and the first has none — so walking `prev` from the last name visits every name
exactly once, in descending order (the discovery loops push them in that order, which makes
the first name the first one popped) -/
theorem C04_prevName_sorted (xs : List String) (h : xs.Pairwise (· < ·)) (i : Nat) (hi : i < xs.length) :
    prevName xs xs[i] = if i = 0 then none else xs[i - 1]? := by
  unfold prevName
  rw [filter_lt_sorted xs h i hi]
  cases i with
  | zero => simp
  | succ i =>
    simp only [Nat.add_one_ne_zero, if_false, Nat.add_sub_cancel]
    rw [List.getLast?_eq_getElem?]
    simp only [List.length_take, Nat.min_eq_left (Nat.le_of_lt hi), Nat.add_sub_cancel]
    rw [List.getElem?_take]; simp

/-- **`SortedList.next`**: the successor of the `i`-th name is the `(i+1)`-th -/
theorem C04_nextName_sorted (xs : List String) (h : xs.Pairwise (· < ·)) (i : Nat) (hi : i < xs.length) :
    nextName xs xs[i] = xs[i + 1]? := by
  unfold nextName
  induction xs generalizing i with
  | nil => simp at hi
  | cons a t ih =>
    rw [List.pairwise_cons] at h
    cases i with
    | zero =>
      simp only [List.getElem_cons_zero, List.find?_cons, String.lt_irrefl, decide_false]
      cases t with
      | nil => rfl
      | cons b t' =>
        have : a < b := h.1 b (by simp)
        simp [this]
    | succ i =>
      have hi' : i < t.length := by simpa using hi
      have hlt : a < t[i] := h.1 _ (List.getElem_mem hi')
      have : ¬ t[i] < a := String.lt_asymm hlt
      simp only [List.getElem_cons_succ, List.find?_cons, this, decide_false]
      rw [ih h.2 i hi']
      simp


/-
NOT PROVED (full statement kept; covered by the differential check of `harness`):

theorem C04_iter_loop (img : Image) (P0 : Nat) (b : List Instr) (lv : String)
    (hc : CodeAt img P0 (unG (assembleLoop ([.moveq (.int 0) counter] ++ iterLights) counterTest
      [.pop (.var lv)] (ins b) (loopPost none))))
    (s : State) (hs : s.status = .running) (hpc : s.pc = (P0 : Int))
    (hdir : (s.regs .discForward).truthy = false) (hne : "" ∉ s.lightNames)
    (hconst : s.constants.get lv = none) (hscope : ScopeOk s.stack) (hok : BodyOkV img b lv) :
    ∃ (ts : List State) (s' : State),
      ts.length = s.lightNames.length ∧
      (∀ k (hk : k < ts.length), ts[k].getVariable lv = .str (s.lightNames[k]'(by omega))) ∧
      (∃ k, run img k s = exitLoop (P0 + …) s') ∧ (exitLoop (P0 + …) s').eval = s.eval

i.e. the discovery prologue `iterLights` walks `SortedList.prev` from the last name
(`C04_prevName_sorted`), pushing every name of `lightNames` once — the first name ends on top —
and counting them in the hidden counter; each pass pops the next name into `lv`.  What is proved
of it: the names and their order at source level (`C04_lightNames`, `C04_groupLights`,
`C04_iter_names_order`), the walk itself on lists (`C04_prevName_sorted`, `C04_nextName_sorted`),
the counted loop around it (`C04_count_loop…`), and that a `break` restores the evaluation stack
so that an enclosing iteration's pending names survive (`C04_break_innermost`); the nested
concrete run `exNested` below exercises all of it on the model VM.
-/

section IterNames
open Sem

/-- **iter_names_order (general).**  The names `repeat in a₁ and … and aₙ and b₁ and …` visits
are those of the first items followed by those of the remaining items: sources are VISITED in the
order written.  (They are EVALUATED from the last to the first, as the generated code does: the
remaining items from the state `s`, the first items in the state those left.) -/
theorem C04_iter_names_append (as bs : List IterItem) :
    ∀ (f : Nat) (s s2 : S) (zs : List String), iterNames f (as ++ bs) s = .ok (zs, s2) →
      ∃ ys s1 xs, iterNames (f - as.length) bs s = .ok (ys, s1) ∧ iterNames f as s1 = .ok (xs, s2) ∧
        zs = xs ++ ys := by
  induction as with
  | nil =>
    intro f s s2 zs h
    cases f with
    | zero => simp [iterNames] at h
    | succ f => exact ⟨zs, s2, [], by simpa using h, by simp [iterNames], rfl⟩
  | cons a as ih =>
    intro f s s2 zs h
    cases f with
    | zero => simp [iterNames] at h
    | succ f =>
      simp only [List.cons_append, iterNames] at h ⊢
      split at h
      · simp at h
      · rename_i ys' s1' hrest
        obtain ⟨ys, s1, xs, h1, h2, rfl⟩ := ih f s s1' ys' hrest
        refine ⟨ys, s1, ?_⟩
        simp only [List.length_cons, Nat.add_sub_add_right]
        rw [h2]
        simp only []
        split at h
        · simp at h
        · rename_i xs1 s2' hone
          simp only [Except.ok.injEq, Prod.mk.injEq] at h
          obtain ⟨rfl, rfl⟩ := h
          exact ⟨xs1 ++ xs, h1, by simp [hone], by simp⟩

/-- an item whose name is a string literal (or `all`) -/
inductive LitItem : IterItem → Prop
  | all : LitItem .all
  | light (x : String) : LitItem (.light (.lit (.str x)))
  | group (g : String) : LitItem (.group (.lit (.str g)))
  | location (g : String) : LitItem (.location (.lit (.str g)))

/-- what one source contributes: `all` the sorted, duplicate-free light names; a light itself;
a group or location its members in name order, each once (nothing if there is no such group) -/
def itemNames (vm : State) : IterItem → List String
  | .all => vm.lightNames
  | .light (.lit (.str x)) => [x]
  | .group (.lit (.str g)) => dedupSorted ((vm.groupLights g).getD [])
  | .location (.lit (.str g)) => dedupSorted ((vm.locationLights g).getD [])
  | _ => []

/-- what evaluating the sources leaves behind: the kind of the first source that is not a single
light, in the `operand` register (the discovery instructions are told what to walk through it) -/
def itemsOperand : List IterItem → S → S
  | [], s => s
  | .all :: rest, s => (itemsOperand rest s).setReg .operand (.operand .light)
  | .group _ :: rest, s => (itemsOperand rest s).setReg .operand (.operand .group)
  | .location _ :: rest, s => (itemsOperand rest s).setReg .operand (.operand .location)
  | .light _ :: rest, s => itemsOperand rest s

theorem itemsOperand_lights (items : List IterItem) (s : S) :
    (itemsOperand items s).vm.lights = s.vm.lights := by
  induction items with
  | nil => rfl
  | cons i rest ih => cases i <;> simpa [itemsOperand, S.setReg, State.setReg] using ih

theorem itemNames_congr {vm vm' : State} (h : vm.lights = vm'.lights) (i : IterItem) :
    itemNames vm i = itemNames vm' i := by
  unfold itemNames
  split <;> simp [State.lightNames, State.groupLights, State.locationLights, h]

/-- **iter_names_order.**  For literal sources the visiting order of `repeat in i₁ and … and iₙ`
is the concatenation, in item order, of each item's names (`itemNames`), and computing it
changes nothing but the `operand` register. -/
theorem C04_iter_names_order (items : List IterItem) (hl : ∀ i ∈ items, LitItem i) :
    ∀ (f : Nat) (s : S), items.length < f →
      iterNames f items s = .ok ((items.map (itemNames s.vm)).flatten, itemsOperand items s) := by
  induction items with
  | nil =>
    intro f s hf
    cases f with
    | zero => omega
    | succ f => simp [iterNames, itemsOperand]
  | cons a as ih =>
    intro f s hf
    cases f with
    | zero => omega
    | succ f =>
      have hf' : as.length < f := by simpa using hf
      have ih' := ih (fun i hi => hl i (by simp [hi])) f s hf'
      have hc : ∀ i, itemNames (itemsOperand as s).vm i = itemNames s.vm i :=
        fun i => itemNames_congr (itemsOperand_lights as s) i
      cases f with
      | zero => omega
      | succ f =>
        have ha := hl a (by simp)
        cases ha with
        | all => simp [iterNames, ih', itemNames, itemsOperand, State.lightNames, itemsOperand_lights]
        | light x => simp [iterNames, evalRv, ih', itemNames, itemsOperand]
        | group g =>
          have := hc (.group (.lit (.str g)))
          simp only [itemNames] at this
          simp [iterNames, evalRv, ih', itemNames, itemsOperand, this]
        | location g =>
          have := hc (.location (.lit (.str g)))
          simp only [itemNames] at this
          simp [iterNames, evalRv, ih', itemNames, itemsOperand, this]

end IterNames


/-! ## non-vacuity: concrete programs -/

section Examples

/-- integers printed, oldest first -/
def outInts (tr : List Event) : List Int :=
  tr.reverse.filterMap fun e => match e with | .out (.int i) => some i | _ => none

def exBody : List Instr := [.moveq (.int 1) (.reg .result), .out .register (.reg .result), .out .print (.lit .none)]
def exRepeat3 : Block := Block.ofList [.repeat_ (.count (.lit (.int 3))) (Block.ofList [.print (.lit (.int 1))])]

theorem exRepeat3_code : genBlock exRepeat3 =
    ins (loopCode [.moveq (.int 3) counter] counterTest (exBody ++ loopPost none)) := by
  simp only [exRepeat3, Block.ofList, genBlock, genStmt, genLoop, genRv, List.append_nil]
  rw [assembleLoop_ins]; simp [exBody, result]

def exImg : Image := Loader.load (loopCode [.moveq (.int 3) counter] counterTest (exBody ++ loopPost none))

theorem mapM_ins (xs : List Instr) :
    (ins xs).mapM (fun g => match g with | .i x => some x | .brk => none) = some xs := by
  induction xs with
  | nil => rfl
  | cons x xs ih => simp only [ins, List.map_cons, List.mapM_cons] at ih ⊢; rw [ih]; rfl

theorem genProgram_of_ins (b : Block) (xs : List Instr) (h : genBlock b = ins xs) :
    genProgram b = some xs := by
  unfold genProgram; rw [h]; exact mapM_ins xs

example : genProgram exRepeat3 =
    some (loopCode [.moveq (.int 3) counter] counterTest (exBody ++ loopPost none)) :=
  genProgram_of_ins _ _ exRepeat3_code

example : outInts (Vm.run exImg 200 (Vm.init [])).trace = [1,1,1] := by decide +kernel

/-- the body `print 1` satisfies the body contract from every state, in any image -/
theorem exBody_ok (img : Image) : BodyOk img exBody := by
  intro t ht ⟨pc, hpc, hc⟩ _
  have h1 : step img t = { t.setReg .result (.int 1) with pc := (pc : Int) + 1 } := by
    rw [step_moveq img t pc (.int 1) (.reg .result) ht hpc hc.head (by simp) (by simpa [State.put, State.setReg] using ht)]
    simp [State.put, State.setReg, hpc]
  have h2 : step img { t.setReg .result (.int 1) with pc := (pc : Int) + 1 } =
      { t.setReg .result (.int 1) with pc := (pc : Int) + 2, unnamed := t.unnamed ++ [.int 1] } := by
    rw [step_plain img _ (pc + 1) _ (by simpa [State.setReg] using ht) (by simp) hc.tail.head (by simp) rfl
      (by simpa [execInstr, State.setReg] using ht)]
    simp [execInstr, State.setReg, State.read]
    omega
  have h3 : step img { t.setReg .result (.int 1) with pc := (pc : Int) + 2, unnamed := t.unnamed ++ [.int 1] } =
      { t.setReg .result (.int 1) with pc := (pc : Int) + 3, trace := .out (.int 1) :: t.trace } := by
    rw [step_plain img _ (pc + 2) _ (by simpa [State.setReg] using ht) (by simp) hc.tail.tail.head (by simp) rfl
      (by simpa [execInstr, State.setReg, State.emit] using ht)]
    simp [execInstr, State.setReg, State.emit]
    omega
  refine ⟨{ t.setReg .result (.int 1) with pc := (pc : Int) + 3, trace := .out (.int 1) :: t.trace },
    ⟨3, ?_⟩, ?_, ?_, ?_, ?_⟩
  · rw [run_succ _ _ _ ht, h1, run_succ _ _ _ (by simpa [State.setReg] using ht), h2,
      run_one _ _ (by simpa [State.setReg] using ht), h3]
  · simpa [State.setReg] using ht
  · simp [hpc, exBody]
  · rfl
  · intro vars h rest hst; exact ⟨rest, hst⟩

/-- the loop `repeat 3 begin print 1 end` placed at address 0 of an image -/
def exImg2 : Image :=
  ⟨(([] : List Instr) ++ unG (assembleLoop (genRv (.lit (.int 3)) (.to counter)) counterTest []
      (ins exBody) (loopPost none)) ++ [Instr.stop]).toArray, []⟩

/-- `C04_count_loop` applied: all hypotheses hold for this image and the initial state, and the
conclusion gives exactly three passes -/
example : ∃ (ts : List State) (s' : State), ts.length = 3 ∧ (∃ k, run exImg2 k (Vm.init []) = exitLoop 16 s') ∧
    (∃ vars' rest', s'.stack = .loop vars' 0 :: rest') := by
  have hc : CodeAt exImg2 0 (unG (assembleLoop (genRv (.lit (.int 3)) (.to counter)) counterTest []
      (ins exBody) (loopPost none))) := CodeAt.intro [] _ [Instr.stop] []
  have hpreC : CodeAt exImg2 1 (genRv (.lit (.int 3)) (.to counter)) := by
    have := hc
    rw [assembled_counted, loopCode_eq] at this
    exact this.left.right
  have hpre := preRun_literal exImg2 (afterLoop (Vm.init [])) 1 0 [] (.int 3) 3 false rfl rfl hpreC rfl
    (by simpa using Num.int 3)
  obtain ⟨ts, s', _, hl, hk, _, hfr⟩ := C04_count_loop exImg2 0 _ exBody hc (Vm.init []) _ 3 rfl rfl hpre
    (exBody_ok exImg2)
  refine ⟨ts, s', ?_, ?_, hfr⟩
  · rw [hl]; exact passes_natCast 3
  · rw [assembled_counted] at hk
    simpa [loopCode, counterTest, testOp, loopPost, exBody, genRv] using hk

def outNums (tr : List Event) : List Rat :=
  tr.reverse.filterMap fun e => match e with | .out (.int i) => some (i : Rat) | .out (.num q) => some q | _ => none
def outStrs (tr : List Event) : List String :=
  tr.reverse.filterMap fun e => match e with | .out (.str i) => some i | _ => none

def printVar (v : String) : List Instr :=
  [.move (.var v) (.reg .result), .out .register (.reg .result), .out .print (.lit .none)]

/-- prologues with literal operands, written out (the generator's `genRv` on a literal is one
`MOVEQ`) -/
def rangePre (v : String) (a b : Val) : List Instr :=
  [.moveq a (.loopVar .first), .moveq b (.loopVar .last), .move (.loopVar .first) (.var v)] ++ calcCounter
def interpPre (v : String) (n a b : Val) : List Instr :=
  [Instr.moveq n (.loopVar .counter)] ++
    ([.moveq a (.loopVar .first), .moveq b (.loopVar .last), .move (.loopVar .first) (.var v)] ++ calcIncr)
def cyclePre (v : String) (n : Val) (start : Option Val) : List Instr :=
  [Instr.moveq n (.loopVar .counter)] ++
    ([.moveq (cycleStart start) (.loopVar .first), .move (.loopVar .first) (.var v)] ++ cycleTail)

example (v : String) (a b : Val) : indexVarRange v (.lit a) (.lit b) true = rangePre v a b :=
  indexVarRange_lit_with v a b
example (v : String) (n a b : Val) :
    genRv (.lit n) (.to counter) ++ indexVarRange v (.lit a) (.lit b) false = interpPre v n a b :=
  interp_pre_eq v n a b
example (v : String) (n : Val) (st : Option Val) :
    genRv (.lit n) (.to counter) ++ cycleVarRange v (st.map Rv.lit) = cyclePre v n st :=
  cycle_pre_eq v n st

def loopOf (pre body : List Instr) (idx : Option String) : List Instr :=
  unG (assembleLoop pre counterTest [] (ins body) (loopPost idx))

def runOuts (code : List Instr) (fuel : Nat) : List Rat := outNums (Vm.run (Loader.load code) fuel (Vm.init [])).trace

-- range, both directions, single value
example : runOuts (loopOf (rangePre "i" (.int 5) (.int 2)) (printVar "i") (some "i")) 400 = [5, 4, 3, 2] := by decide +kernel
example : runOuts (loopOf (rangePre "i" (.int (-1)) (.int 2)) (printVar "i") (some "i")) 400 = [-1, 0, 1, 2] := by decide +kernel
example : runOuts (loopOf (rangePre "i" (.int 7) (.int 7)) (printVar "i") (some "i")) 400 = [7] := by decide +kernel
-- interpolation: both ends, n = 1, n = 0
example : runOuts (loopOf (interpPre "i" (.int 5) (.int 0) (.int 10)) (printVar "i") (some "i")) 400 =
    [0, 5/2, 5, 15/2, 10] := by decide +kernel
example : runOuts (loopOf (interpPre "i" (.int 1) (.int 3) (.int 10)) (printVar "i") (some "i")) 400 = [3] := by decide +kernel
example : runOuts (loopOf (interpPre "i" (.int 0) (.int 3) (.int 10)) (printVar "i") (some "i")) 400 = [] := by decide +kernel
-- cycle: logical units, raw units, count 0 (no pass, no fault)
example : runOuts (loopOf (cyclePre "h" (.int 4) none) (printVar "h") (some "h")) 400 = [0, 90, 180, 270] := by decide +kernel
example : runOuts ([Instr.moveq (.mode .raw) (.reg .unitMode)] ++
    loopOf (cyclePre "h" (.int 4) (some (.int 100))) (printVar "h") (some "h")) 400 =
    [100, 16484, 32868, 49252] := by decide +kernel
example : (Vm.run (Loader.load (loopOf (cyclePre "h" (.int 0) none) (printVar "h") (some "h"))) 400 (Vm.init [])).status
    = .halted := by decide +kernel
example : runOuts (loopOf (cyclePre "h" (.int 0) none) (printVar "h") (some "h")) 400 = [] := by decide +kernel

/-- `n = 3  repeat n begin print n  n = 10 end`: the count is read once — three passes although
the body overwrites `n` — and the body sees the new value from the second pass on -/
def exCountOnce : List Instr :=
  [Instr.moveq (.int 3) (.var "n")] ++
  unG (assembleLoop [.move (.var "n") counter] counterTest []
    (ins (printVar "n" ++ [.moveq (.int 10) (.var "n")])) (loopPost none))
example : runOuts exCountOnce 400 = [3, 10, 10] := by decide +kernel

def exLights : List Light :=
  [{ name := "a", group := "g", location := "x", kind := .plain },
   { name := "b", group := "g", location := "y", kind := .plain },
   { name := "c", group := "h", location := "y", kind := .plain }]

/-- `repeat all as m begin break end` -/
def exInner : Code :=
  assembleLoop ([.moveq (.int 0) counter] ++ iterLights) counterTest [.pop (.var "m")] [G.brk] (loopPost none)
/-- `repeat all as l begin <inner> print l end` -/
def exNested : List Instr :=
  unG (assembleLoop ([.moveq (.int 0) counter] ++ iterLights) counterTest [.pop (.var "l")]
    (exInner ++ ins (printVar "l")) (loopPost none))

example : outStrs (Vm.run (Loader.load exNested) 2000 (Vm.init exLights)).trace = ["a", "b", "c"] := by decide +kernel
example : (Vm.run (Loader.load exNested) 2000 (Vm.init exLights)).status = .halted ∧
  (Vm.run (Loader.load exNested) 2000 (Vm.init exLights)).eval.length = 0 ∧ (Vm.run (Loader.load exNested) 2000 (Vm.init exLights)).stack.length = 0 := by decide +kernel
example : BrkAt [G.brk] 0 := .here

/-- the body `print i` satisfies the index-variable body contract from every state -/
theorem printVar_ok (img : Image) (v : String) : BodyOkV img (printVar v) v := by
  intro t ht ⟨pc, hpc, hc⟩ _ hcon hsc
  have h1 : step img t = { t.setReg .result (t.getVariable v) with pc := (pc : Int) + 1 } := by
    rw [step_move img t pc (.var v) (.reg .result) ht hpc (hc.get 0 (by simp [printVar]))
      (by simpa [State.put, State.setReg] using ht)]
    simp [State.put, State.setReg, State.read, hpc]
  have h2 : step img { t.setReg .result (t.getVariable v) with pc := (pc : Int) + 1 } =
      { t.setReg .result (t.getVariable v) with pc := (pc : Int) + 2,
                                                unnamed := t.unnamed ++ [t.getVariable v] } := by
    rw [step_plain img _ (pc + 1) _ (by simpa [State.setReg] using ht) (by simp)
      (hc.get 1 (by simp [printVar])) (by simp [printVar]) rfl
      (by simpa [execInstr, State.setReg, printVar] using ht)]
    simp [execInstr, State.setReg, State.read, printVar]
    omega
  have h3 : step img
      { t.setReg .result (t.getVariable v) with pc := (pc : Int) + 2,
                                                unnamed := t.unnamed ++ [t.getVariable v] } =
      { t.setReg .result (t.getVariable v) with pc := (pc : Int) + 3,
                                                trace := .out (t.getVariable v) :: t.trace } := by
    rw [step_plain img _ (pc + 2) _ (by simpa [State.setReg] using ht) (by simp)
      (hc.get 2 (by simp [printVar])) (by simp [printVar]) rfl
      (by simpa [execInstr, State.setReg, State.emit, printVar] using ht)]
    simp [execInstr, State.setReg, State.emit, printVar]
    omega
  refine ⟨{ t.setReg .result (t.getVariable v) with pc := (pc : Int) + 3,
                                                    trace := .out (t.getVariable v) :: t.trace },
    ⟨⟨3, ?_⟩, ?_, ?_, ?_, ?_⟩, rfl, hcon, hsc⟩
  · rw [run_succ _ _ _ ht, h1, run_succ _ _ _ (by simpa [State.setReg] using ht), h2,
      run_one _ _ (by simpa [State.setReg] using ht), h3]
  · simpa [State.setReg] using ht
  · simp [hpc, printVar]
  · rfl
  · intro vars h rest hst; exact ⟨rest, hst⟩

/-- `repeat with i from 5 to 2 begin print i end` at address 0 -/
def exRangeImg : Image :=
  ⟨(([] : List Instr) ++ unG (assembleLoop (indexVarRange "i" (.lit (.int 5)) (.lit (.int 2)) true)
      counterTest [] (ins (printVar "i")) (loopPost (some "i"))) ++ [Instr.stop]).toArray, []⟩

/-- `C04_range_loop` applied: four passes, `i` = 5, 4, 3, 2 at their starts -/
example : ∃ (ts : List State), ts.length = 4 ∧
    ∀ k (hk : k < ts.length), ts[k].getVariable "i" = .int (5 - k) := by
  obtain ⟨ts, s', hl, _, _, _, hvals, _⟩ := C04_range_loop exRangeImg 0 (printVar "i") "i" 5 2
    (CodeAt.intro [] _ [Instr.stop] []) (Vm.init []) rfl rfl rfl (.inl (by simp [LoopsOnly, Vm.init]))
    (printVar_ok exRangeImg "i")
  refine ⟨ts, by rw [hl]; decide, fun k hk => ?_⟩
  rw [hvals k hk]
  simp

section WhileExample
open Sem

/-- `x < 2` -/
def exCond : Expr := .bin .lt (.var "x") (.lit (.int 2))
/-- `x = {x + 1}` -/
def exIncBody : Block := .cons (.assign "x" (.expr (.bin .add (.var "x") (.lit (.int 1))))) .nil
def exIncCode : List Instr := [.push (.var "x"), .pushq (.int 1), .op .add, .pop (.var "x")]

example : genBlock exIncBody = ins exIncCode := by
  simp [exIncBody, genBlock, genStmt, genRv, genExpr, pushLit, ins, exIncCode]

def exσ (i : Int) : S := { vm := { regs := initRegs, globals := [("x", .int i)] } }

theorem lt_int_int (i j : Int) : Val.cmp .lt (.int i) (.int j) = some (.bool (decide (i < j))) := by
  rw [num_lt (Num.int i) (Num.int j)]
  congr 2
  exact decide_eq_decide.2 Rat.intCast_lt_intCast

theorem exCond_eval (i : Int) (f : Nat) :
    evalExpr (f + 2) exCond (exσ i) = .ok (.bool (decide (i < 2)), exσ i) := by
  simp [evalExpr, exCond, exσ, S.lookup, Dict.get, binOp, lt_int_int]

theorem exBody_exec (i : Int) (f : Nat) :
    execBlock (f + 5) exIncBody (exσ i) = (.normal, exσ (i + 1)) := by
  simp [execBlock, execStmt, evalRv, evalExpr, exIncBody, exσ, S.lookup, S.assign, Dict.get,
    Dict.put, binOp, add_int_int]

theorem evalRv_expr (f : Nat) (e : Expr) (s : S) : evalRv (f + 1) (.expr e) s = evalExpr f e s := by
  simp only [evalRv]

/-- the source-level loop `repeat while {x < 2} x = {x + 1}` from `x = 0`: two passes -/
theorem exWhile_passes : whilePasses 12 (.expr exCond) exIncBody (exσ 0) = some (2, exσ 2) := by
  have h0 : whilePasses 10 (.expr exCond) exIncBody (exσ 2) = some (0, exσ 2) := by
    rw [whilePasses, evalRv_expr, exCond_eval 2 6]; simp [Val.truthy]
  have h1 : whilePasses 11 (.expr exCond) exIncBody (exσ 1) = some (1, exσ 2) := by
    rw [whilePasses, evalRv_expr, exCond_eval 1 7]
    simp only [show (1 : Int) < 2 by decide, decide_true, Val.truthy, if_true]
    rw [exBody_exec 1 5]; simp only [show (1 : Int) + 1 = 2 by decide, h0]; rfl
  rw [whilePasses, evalRv_expr, exCond_eval 0 8]
  simp only [show (0 : Int) < 2 by decide, decide_true, Val.truthy, if_true]
  rw [exBody_exec 0 6]; simp only [show (0 : Int) + 1 = 1 by decide, h1]; rfl

/-- at top level (only loop frames on the stack): same globals, constants and — `result`
apart — registers -/
def TopAgree (σ : S) (s : State) : Prop :=
  ScopeAgree σ s ∧ (∀ r, r ≠ .result → σ.vm.regs r = s.regs r) ∧ LoopsOnly s.stack

theorem TopAgree.relOk : RelOk TopAgree where
  env := fun σ s h => ⟨fun n => h.1.lookup n, h.2.1⟩
  ctl := by
    intro σ s s' ⟨⟨hg, hc, hl⟩, hr, hlo⟩ hctl
    refine ⟨⟨by rw [hg, hctl.globals], by rw [hc, hctl.constants], ?_⟩,
      fun r hr' => by rw [hctl.regs r hr']; exact hr r hr', ?_⟩
    · rw [hl]
      rcases hctl.stack with e | ⟨vars, hh, e⟩ | ⟨vars, hh, e⟩
      · rw [e]
      · rw [e, activation_cons_loop]
      · rw [e, activation_cons_loop]
    · rcases hctl.stack with e | ⟨vars, hh, e⟩ | ⟨vars, hh, e⟩
      · rw [e]; exact hlo
      · rw [e]; exact loopsOnly_cons_loop hlo
      · rw [e] at hlo; exact hlo.cons.2

theorem evalExpr_var_ok (f : Nat) (n : String) (σ : S) (hne : σ.lookup n = .none → False) :
    evalExpr (f + 1) (.var n) σ = .ok (σ.lookup n, σ) := by
  simp only [evalExpr]

theorem evalExpr_var_none (f : Nat) (n : String) (σ : S) (h : σ.lookup n = .none) :
    evalExpr (f + 1) (.var n) σ = .error (.fault "undefined variable in expression") := by
  simp only [evalExpr, h]

/-- the code of `x = {x + 1}` simulates its source, whatever the image around it -/
theorem exInc_sim (img : Image) : BodySim TopAgree img exIncCode exIncBody := by
  intro f σ σ' t hrel ht ⟨pc, hpc, hc⟩ _ hex
  obtain ⟨hsa, hregs, hlo⟩ := hrel
  have hlk : σ.lookup "x" = t.getVariable "x" := hsa.lookup "x"
  -- the source side: the value assigned
  obtain ⟨r, hne, hadd, rfl⟩ : ∃ r, (σ.lookup "x" = .none → False) ∧
      Val.add (σ.lookup "x") (.int 1) = some r ∧ σ' = σ.assign "x" r := by
    cases f with
    | zero => simp [execBlock] at hex
    | succ f =>
    simp only [exIncBody, execBlock] at hex
    cases f with
    | zero => simp [execStmt] at hex
    | succ f =>
    simp only [execStmt] at hex
    cases f with
    | zero => simp [evalRv] at hex
    | succ f =>
    simp only [evalRv] at hex
    cases f with
    | zero => simp [evalExpr] at hex
    | succ f =>
    cases f with
    | zero => simp [evalExpr] at hex
    | succ f =>
    rw [evalExpr] at hex
    by_cases hn : σ.lookup "x" = .none
    · rw [evalExpr_var_none f "x" σ hn] at hex; simp at hex
    · rw [evalExpr_var_ok f "x" σ hn] at hex
      simp only [evalExpr, binOp] at hex
      cases hadd : Val.add (σ.lookup "x") (.int 1) with
      | none => simp [hadd] at hex
      | some r =>
        simp only [hadd, execBlock, Prod.mk.injEq, true_and] at hex
        exact ⟨r, hn, rfl, hex.symm⟩
  have hrun := run_group_var img _ _ .add "x" t pc _ _ r ht hpc hc
    (pfStep_push_var t t.eval "x" _ hlk.symm hne) (pfStep_pushq _ _ _)
    (by show Val.add _ _ = _; exact hadd)
  have hput := C03_toplevel_assign t "x" r hlo
  refine ⟨_, ⟨⟨4, hrun⟩, by simpa [putVariable_status] using ht, by simp [hpc, exIncCode], ?_, ?_⟩, ?_⟩
  · simp only []; rw [putVariable_eval]
  · intro vars h rest hst; exact ⟨rest, by simp only []; rw [hput]; exact hst⟩
  · have := C03_assign_agrees_toplevel σ t "x" r hlo hsa
    refine ⟨⟨this.1, this.2.1, this.2.2⟩, ?_, ?_⟩
    · intro q hq
      show (σ.assign "x" r).vm.regs q = (t.putVariable "x" r).regs q
      rw [hput]
      simp only [S.assign]
      split
      · split
        · exact hregs q hq
        · split <;> exact hregs q hq
      · exact hregs q hq
    · show LoopsOnly (t.putVariable "x" r).stack
      rw [hput]; exact hlo


/-- `repeat while {x < 2} x = {x + 1}` placed at address 0 -/
def exWhileImg : Image :=
  ⟨(([] : List Instr) ++ unG (assembleLoop [] (genRv (.expr exCond) (.to result)) [] (ins exIncCode) []) ++
    [Instr.stop]).toArray, []⟩

/-- `C04_while_loop` applied: the source loop makes two passes, so does the VM, and the final VM
state agrees with the final source state (`x = 2`) -/
example : ∃ (ts : List State) (xf : Val) (k : Nat),
    ts.length = 2 ∧ xf.truthy = false ∧ TopAgree (exσ 2) (run exWhileImg k (exσ 0).vm) ∧
    (run exWhileImg k (exσ 0).vm).globals = [("x", .int 2)] := by
  have hpure : PureCond exCond := .bin _ _ _ (.var _) (.lit _ rfl)
  obtain ⟨_, ts, s_top, xf, k, _, hl, hxf, hrun, hrel, _, _⟩ :=
    C04_while_loop exWhileImg 0 exCond exIncCode exIncBody hpure (CodeAt.intro [] _ [Instr.stop] [])
      TopAgree TopAgree.relOk (exInc_sim exWhileImg) 12 (exσ 0) (exσ 2) 2 (exσ 0).vm
      ⟨⟨rfl, rfl, rfl⟩, fun _ _ => rfl, by simp [LoopsOnly, exσ]⟩ rfl rfl exWhile_passes
  refine ⟨ts, xf, k, hl, hxf, by rw [hrun]; exact hrel, ?_⟩
  rw [hrun]
  exact hrel.1.1.symm


end WhileExample

end Examples

end Bardolph
