import Bardolph.Model.Sem
/-! # C04 — every repeat form runs the documented number of times (theorems below) -/
namespace Bardolph
end Bardolph
