import Bardolph.Model.Gen
import Bardolph.Model.Sem
import Bardolph.Model.Grid
import Bardolph.Proofs.SemSteps
import Bardolph.Proofs.Sim
/-! # C15 — zone and row/column addressing hits exactly the addressed cells (theorems below) -/
namespace Bardolph
namespace C15
open Vm SemSteps

/-! ## 1. the literal `ColorMatrix` and the stage list are the same thing -/

/-- a grid of `h` rows, each of `w` cells -/
def WF (h w : Nat) (g : Grid) : Prop := g.length = h ∧ ∀ row ∈ g, row.length = w

theorem wf_new (h w : Nat) : WF h w (Grid.new h w) := by
  refine ⟨by simp [Grid.new], ?_⟩
  intro row hr
  simp [Grid.new] at hr
  simp [hr.2]

theorem get?_new (h w r c : Nat) (hr : r < h) (hc : c < w) :
    Grid.get? (Grid.new h w) r c = some none := by
  simp [Grid.get?, Grid.new, hr, hc]

theorem setCell_spec {h w : Nat} {g : Grid} (hg : WF h w g) {r c : Nat} (hr : r < h) (hc : c < w)
    (v : Option (List Val)) :
    ∃ g', Grid.setCell g r c v = some g' ∧ WF h w g' ∧
      ∀ r' c', Grid.get? g' r' c' = if r' = r ∧ c' = c then some v else Grid.get? g r' c' := by
  obtain ⟨hl, hw⟩ := hg
  have hrl : r < g.length := by omega
  have hrow : g[r]? = some g[r] := List.getElem?_eq_getElem hrl
  have hlen : g[r].length = w := hw _ (List.getElem_mem hrl)
  refine ⟨g.set r (g[r].set c v), ?_, ⟨by simp [hl], ?_⟩, ?_⟩
  · simp [Grid.setCell, hrow, hlen, hc]
  · intro row hmem
    rcases List.mem_or_eq_of_mem_set hmem with h1 | h1
    · exact hw _ h1
    · simp [h1, hlen]
  · intro r' c'
    by_cases h1 : r' = r
    · subst h1
      by_cases h2 : c' = c
      · subst h2
        simp [Grid.get?, hrl, hlen, hc]
      · have h2' : c ≠ c' := fun e => h2 e.symm
        simp [Grid.get?, hrl, h2, List.getElem?_set_ne h2']
    · have h1' : r ≠ r' := fun e => h1 e.symm
      simp [Grid.get?, h1, List.getElem?_set_ne h1']

theorem overlayRow_spec {h w : Nat} (r : Nat) (hr : r < h) (color : List Val) :
    ∀ (n left : Nat) (g : Grid), WF h w g → left + n ≤ w →
    ∃ g', Grid.overlayRow g r left n color = some g' ∧ WF h w g' ∧
      ∀ r' c', Grid.get? g' r' c' =
        if r' = r ∧ left ≤ c' ∧ c' < left + n then some (some color) else Grid.get? g r' c' := by
  intro n
  induction n with
  | zero =>
    intro left g hg _
    refine ⟨g, by simp [Grid.overlayRow], hg, ?_⟩
    intro r' c'
    have : ¬ (r' = r ∧ left ≤ c' ∧ c' < left + 0) := by omega
    rw [if_neg this]
  | succ n ih =>
    intro left g hg hle
    obtain ⟨g1, h1, hg1, hc1⟩ := setCell_spec hg hr (show left < w by omega) (some color)
    obtain ⟨g2, h2, hg2, hc2⟩ := ih (left + 1) g1 hg1 (by omega)
    refine ⟨g2, ?_, hg2, ?_⟩
    · simp only [Grid.overlayRow, List.range'_succ, List.foldlM_cons, h1]
      exact h2
    · intro r' c'
      rw [hc2, hc1]
      by_cases ha : r' = r ∧ left + 1 ≤ c' ∧ c' < left + 1 + n
      · have : r' = r ∧ left ≤ c' ∧ c' < left + (n + 1) := by omega
        rw [if_pos ha, if_pos this]
      · by_cases hb : r' = r ∧ c' = left
        · have : r' = r ∧ left ≤ c' ∧ c' < left + (n + 1) := by omega
          rw [if_neg ha, if_pos hb, if_pos this]
        · have : ¬ (r' = r ∧ left ≤ c' ∧ c' < left + (n + 1)) := by omega
          rw [if_neg ha, if_neg hb, if_neg this]

theorem overlayRows_spec {h w : Nat} (left k : Nat) (color : List Val) :
    ∀ (n top : Nat) (g : Grid), WF h w g → (n = 0 ∨ k = 0 ∨ (top + n ≤ h ∧ left + k ≤ w)) →
    ∃ g', Grid.overlayRows g top n left k color = some g' ∧ WF h w g' ∧
      ∀ r' c', Grid.get? g' r' c' =
        if (top ≤ r' ∧ r' < top + n) ∧ left ≤ c' ∧ c' < left + k then some (some color)
        else Grid.get? g r' c' := by
  intro n
  induction n with
  | zero =>
    intro top g hg _
    refine ⟨g, by simp [Grid.overlayRows], hg, ?_⟩
    intro r' c'
    have : ¬ ((top ≤ r' ∧ r' < top + 0) ∧ left ≤ c' ∧ c' < left + k) := by omega
    rw [if_neg this]
  | succ n ih =>
    intro top g hg hle
    have hstep : ∃ g1, Grid.overlayRow g top left k color = some g1 ∧ WF h w g1 ∧
        ∀ r' c', Grid.get? g1 r' c' =
          if r' = top ∧ left ≤ c' ∧ c' < left + k then some (some color) else Grid.get? g r' c' := by
      by_cases hk0 : k = 0
      · subst hk0
        refine ⟨g, by simp [Grid.overlayRow], hg, ?_⟩
        intro r' c'
        have : ¬ (r' = top ∧ left ≤ c' ∧ c' < left + 0) := by omega
        rw [if_neg this]
      · exact overlayRow_spec top (by omega) color k left g hg (by omega)
    obtain ⟨g1, h1, hg1, hc1⟩ := hstep
    obtain ⟨g2, h2, hg2, hc2⟩ := ih (top + 1) g1 hg1 (by omega)
    refine ⟨g2, ?_, hg2, ?_⟩
    · simp only [Grid.overlayRows, List.range'_succ, List.foldlM_cons, h1]
      exact h2
    · intro r' c'
      rw [hc2, hc1]
      by_cases ha : (top + 1 ≤ r' ∧ r' < top + 1 + n) ∧ left ≤ c' ∧ c' < left + k
      · have : (top ≤ r' ∧ r' < top + (n + 1)) ∧ left ≤ c' ∧ c' < left + k := by omega
        rw [if_pos ha, if_pos this]
      · by_cases hb : r' = top ∧ left ≤ c' ∧ c' < left + k
        · have : (top ≤ r' ∧ r' < top + (n + 1)) ∧ left ≤ c' ∧ c' < left + k := by omega
          rw [if_neg ha, if_pos hb, if_pos this]
        · have : ¬ ((top ≤ r' ∧ r' < top + (n + 1)) ∧ left ≤ c' ∧ c' < left + k) := by omega
          rw [if_neg ha, if_neg hb, if_neg this]

/-- the rectangle of a stage lies inside an `h × w` matrix, or is empty (nothing is indexed) -/
def Fits (h w : Nat) (s : Stage) : Prop :=
  (s.bottom < s.top ∨ s.right < s.left) ∨ (s.bottom < h ∧ s.right < w)

/-- the test `Matrix.cell` applies to a stage -/
def covers (s : Stage) (r c : Nat) : Bool := s.top ≤ r && r ≤ s.bottom && s.left ≤ c && c ≤ s.right

/-- **overlay_color sets exactly the rectangle, bounds inclusive.** -/
theorem overlay_spec {h w : Nat} {g : Grid} (hg : WF h w g) (s : Stage) (hf : Fits h w s) :
    ∃ g', Grid.overlay g s.top s.bottom s.left s.right s.color = some g' ∧ WF h w g' ∧
      ∀ r c, Grid.get? g' r c = if covers s r c then some (some s.color) else Grid.get? g r c := by
  have hn : s.bottom + 1 - s.top = 0 ∨ s.right + 1 - s.left = 0 ∨
      (s.top + (s.bottom + 1 - s.top) ≤ h ∧ s.left + (s.right + 1 - s.left) ≤ w) := by
    unfold Fits at hf; omega
  obtain ⟨g', h1, hg', hc⟩ :=
    overlayRows_spec (h := h) (w := w) s.left (s.right + 1 - s.left) s.color
      (s.bottom + 1 - s.top) s.top g hg hn
  refine ⟨g', h1, hg', ?_⟩
  intro r c
  rw [hc]
  by_cases hcov : covers s r c = true
  · have hcov' := hcov
    simp only [covers, Bool.and_eq_true, decide_eq_true_eq] at hcov'
    have : (s.top ≤ r ∧ r < s.top + (s.bottom + 1 - s.top)) ∧ s.left ≤ c ∧
        c < s.left + (s.right + 1 - s.left) := by omega
    rw [if_pos this, if_pos hcov]
  · have hcov' := hcov
    simp only [covers, Bool.and_eq_true, decide_eq_true_eq] at hcov'
    have : ¬ ((s.top ≤ r ∧ r < s.top + (s.bottom + 1 - s.top)) ∧ s.left ≤ c ∧
        c < s.left + (s.right + 1 - s.left)) := by omega
    rw [if_neg this, if_neg hcov]

theorem setCell_none {h w : Nat} {g : Grid} (hg : WF h w g) {r c : Nat} (hx : h ≤ r ∨ w ≤ c)
    (v : Option (List Val)) : Grid.setCell g r c v = none := by
  obtain ⟨hl, hw⟩ := hg
  by_cases hr : r < g.length
  · have hlen : g[r].length = w := hw _ (List.getElem_mem hr)
    have : ¬ c < w := by omega
    simp [Grid.setCell, List.getElem?_eq_getElem hr, hlen, this]
  · simp [Grid.setCell, List.getElem?_eq_none (by omega : g.length ≤ r)]

theorem overlayRow_none {h w : Nat} (r : Nat) (color : List Val) :
    ∀ (n left : Nat) (g : Grid), WF h w g → 0 < n → (h ≤ r ∨ w < left + n) →
      Grid.overlayRow g r left n color = none := by
  intro n
  induction n with
  | zero => intro _ _ _ h0; omega
  | succ n ih =>
    intro left g hg _ hx
    simp only [Grid.overlayRow, List.range'_succ, List.foldlM_cons]
    by_cases hin : r < h ∧ left < w
    · obtain ⟨g1, h1, hg1, _⟩ := setCell_spec hg hin.1 hin.2 (some color)
      rw [h1]
      exact ih (left + 1) g1 hg1 (by omega) (by omega)
    · rw [setCell_none hg (by omega)]
      rfl

theorem overlayRows_none {h w : Nat} (left k : Nat) (hk : 0 < k) (color : List Val) :
    ∀ (n top : Nat) (g : Grid), WF h w g → 0 < n → (h < top + n ∨ w < left + k) →
      Grid.overlayRows g top n left k color = none := by
  intro n
  induction n with
  | zero => intro _ _ _ h0; omega
  | succ n ih =>
    intro top g hg _ hx
    simp only [Grid.overlayRows, List.range'_succ, List.foldlM_cons]
    by_cases hin : top < h ∧ left + k ≤ w
    · obtain ⟨g1, h1, hg1, _⟩ := overlayRow_spec top hin.1 color k left g hg hin.2
      rw [h1]
      exact ih (top + 1) g1 hg1 (by omega) (by omega)
    · rw [overlayRow_none top color k left g hg hk (by omega)]
      rfl

/-- **the model raises exactly where Python does**: `overlay_color` fails (`IndexError`) iff the
rectangle is non-empty and reaches outside the matrix — the condition on which the VM model
faults -/
theorem overlay_none_iff {h w : Nat} {g : Grid} (hg : WF h w g) (s : Stage) :
    Grid.overlay g s.top s.bottom s.left s.right s.color = none ↔ ¬ Fits h w s := by
  constructor
  · intro hnone hf
    obtain ⟨g', h1, _⟩ := overlay_spec hg s hf
    rw [h1] at hnone
    cases hnone
  · intro hf
    unfold Fits at hf
    exact overlayRows_none s.left (s.right + 1 - s.left) (by omega) s.color (s.bottom + 1 - s.top)
      s.top g hg (by omega) (by omega)

theorem not_fits_iff (h w : Nat) (t b l r : Nat) (col : List Val) :
    ¬ Fits h w ⟨t, b, l, r, col⟩ ↔
      (decide (t ≤ b) && decide (l ≤ r) && (decide (b ≥ h) || decide (r ≥ w))) = true := by
  simp only [Fits, Bool.and_eq_true, Bool.or_eq_true, decide_eq_true_eq]
  omega

theorem cell_eq (h w : Nat) (stages : List Stage) (r c : Nat) :
    Matrix.cell ⟨h, w, stages⟩ r c = (stages.reverse.find? fun s => covers s r c).map (·.color) := rfl

theorem overlayAll_spec {h w : Nat} : ∀ (stages : List Stage) (g : Grid), WF h w g →
    (∀ s ∈ stages, Fits h w s) →
    ∃ g', Grid.overlayAll g stages = some g' ∧ WF h w g' ∧
      ∀ r c, Grid.get? g' r c =
        match stages.reverse.find? fun s => covers s r c with
        | some s => some (some s.color)
        | none => Grid.get? g r c := by
  intro stages
  induction stages with
  | nil => intro g hg _; exact ⟨g, by simp [Grid.overlayAll], hg, by simp⟩
  | cons s rest ih =>
    intro g hg hf
    obtain ⟨g1, h1, hg1, hc1⟩ := overlay_spec hg s (hf s (by simp))
    obtain ⟨g2, h2, hg2, hc2⟩ := ih g1 hg1 (fun x hx => hf x (by simp [hx]))
    refine ⟨g2, ?_, hg2, ?_⟩
    · simp only [Grid.overlayAll, List.foldlM_cons, h1]
      exact h2
    · intro r c
      rw [hc2, List.reverse_cons, List.find?_append]
      cases hfind : rest.reverse.find? fun s => covers s r c with
      | some x => simp
      | none =>
        rw [hc1]
        by_cases hcov : covers s r c = true <;> simp [hcov]

/-- **C15_grid_is_stages.**  Running the literal `overlay_color` loops for every stage, oldest
first, on a fresh `h × w` matrix never indexes outside the matrix and leaves in cell `(r, c)`
the colour of the last stage whose (inclusive) rectangle contains it — `Vm.Matrix.cell` — and
`None` where no stage reaches. -/
theorem C15_grid_is_stages (h w : Nat) (stages : List Stage) (hf : ∀ s ∈ stages, Fits h w s) :
    ∃ g, Grid.overlayAll (Grid.new h w) stages = some g ∧ WF h w g ∧
      ∀ r c, r < h → c < w → Grid.get? g r c = some (Matrix.cell ⟨h, w, stages⟩ r c) := by
  obtain ⟨g, h1, hg, hc⟩ := overlayAll_spec stages (Grid.new h w) (wf_new h w) hf
  refine ⟨g, h1, hg, ?_⟩
  intro r c hr hcw
  rw [hc, cell_eq, get?_new h w r c hr hcw]
  cases stages.reverse.find? fun s => covers s r c <;> rfl

/-- `find_replace(None, default)`: a cell no stage reached now carries the default colour -/
theorem get?_findReplaceNone (g : Grid) (d : List Val) (r c : Nat) :
    Grid.get? (Grid.findReplaceNone g d) r c =
      (Grid.get? g r c).map fun cell => if cell.isNone then some d else cell := by
  simp only [Grid.get?, Grid.findReplaceNone, List.getElem?_map]
  cases g[r]? <;> simp

/-- `as_list` is row-major -/
theorem asList_getElem? {h w : Nat} : ∀ (g : Grid), WF h w g → ∀ r c, c < w →
    (Grid.asList g)[r * w + c]? = Grid.get? g r c := by
  induction h with
  | zero =>
    intro g hg r c _
    have : g = [] := List.eq_nil_of_length_eq_zero hg.1
    subst this
    simp [Grid.asList, Grid.get?]
  | succ h ih =>
    intro g hg r c hc
    match g, hg with
    | row :: rest, hg =>
      have hrow : row.length = w := hg.2 row (by simp)
      have hrest : WF h w rest := ⟨by have := hg.1; simp at this; omega,
        fun x hx => hg.2 x (by simp [hx])⟩
      cases r with
      | zero =>
        simp only [Grid.asList, List.flatten_cons, Nat.zero_mul, Nat.zero_add]
        rw [List.getElem?_append_left (by omega)]
        simp [Grid.get?]
      | succ r =>
        have e : (r + 1) * w + c = row.length + (r * w + c) := by
          rw [Nat.succ_mul, hrow]; omega
        simp only [Grid.asList, List.flatten_cons, e]
        rw [List.getElem?_append_right (by omega), Nat.add_sub_cancel_left]
        have := ih rest hrest r c hc
        simpa [Grid.asList, Grid.get?] using this

theorem asList_length {h w : Nat} : ∀ (g : Grid), WF h w g → (Grid.asList g).length = h * w := by
  induction h with
  | zero =>
    intro g hg
    have : g = [] := List.eq_nil_of_length_eq_zero hg.1
    subst this
    simp [Grid.asList]
  | succ h ih =>
    intro g hg
    match g, hg with
    | row :: rest, hg =>
      have hrow : row.length = w := hg.2 row (by simp)
      have hrest : WF h w rest := ⟨by have := hg.1; simp at this; omega,
        fun x hx => hg.2 x (by simp [hx])⟩
      have := ih rest hrest
      simp only [Grid.asList] at this
      simp only [Grid.asList, List.flatten_cons, List.length_append, this, hrow, Nat.succ_mul]
      omega

/-- **C15_cell_colour.**  What `_as_raw_matrix` hands to the device wrapper, read literally
(overlay every stage, replace `None` by the default, flatten): `h * w` cells, cell `(r, c)` at
index `r * w + c`, carrying the colour of the last stage containing it, else the default. -/
theorem C15_cell_colour (h w : Nat) (stages : List Stage) (hf : ∀ s ∈ stages, Fits h w s)
    (d : List Val) :
    ∃ g, Grid.overlayAll (Grid.new h w) stages = some g ∧
      (Grid.asList (Grid.findReplaceNone g d)).length = h * w ∧
      ∀ r c, r < h → c < w →
        (Grid.asList (Grid.findReplaceNone g d))[r * w + c]? =
          some (some ((Matrix.cell ⟨h, w, stages⟩ r c).getD d)) := by
  obtain ⟨g, h1, hg, hc⟩ := C15_grid_is_stages h w stages hf
  have hg' : WF h w (Grid.findReplaceNone g d) := by
    refine ⟨by simp [Grid.findReplaceNone, hg.1], ?_⟩
    intro row hrow
    simp only [Grid.findReplaceNone, List.mem_map] at hrow
    obtain ⟨x, hx, rfl⟩ := hrow
    simp [hg.2 x hx]
  refine ⟨g, h1, asList_length _ hg', ?_⟩
  intro r c hr hcw
  rw [asList_getElem? _ hg' r c hcw, get?_findReplaceNone, hc r c hr hcw]
  cases Matrix.cell ⟨h, w, stages⟩ r c <;> rfl

/-- a block that stages nothing (it is empty, or its stages stand in branches not taken and
loops that make no pass): the matrix handed to the device wrapper still has `h * w` cells, every
one carrying the default colour -/
theorem C15_no_stage_all_default (h w : Nat) (d : List Val) :
    ∃ g, Grid.overlayAll (Grid.new h w) [] = some g ∧
      (Grid.asList (Grid.findReplaceNone g d)).length = h * w ∧
      ∀ r c, r < h → c < w →
        (Grid.asList (Grid.findReplaceNone g d))[r * w + c]? = some (some d) := by
  obtain ⟨g, h1, h2, h3⟩ := C15_cell_colour h w [] (by intro s hs; cases hs) d
  refine ⟨g, h1, h2, ?_⟩
  intro r c hr hc
  rw [h3 r c hr hc]
  simp [Matrix.cell]

/-! ## 2. rectangle normalisation: inclusive ranges, omitted end, omitted clause -/

/-- an omitted `row` (or `column`) clause means the full extent -/
theorem C15_omitted_clause_is_full_extent (extent : Nat) (h : 0 < extent) :
    normAxis .none .none extent = some (0, extent - 1) := by
  have : (extent == 0) = false := by simp; omega
  simp [normAxis, this]

/-- an omitted end of a range equals its start -/
theorem C15_omitted_end_is_start (a : Nat) (extent : Nat) :
    normAxis (.int a) .none extent = some (a, a) := by
  simp [normAxis, natOf]

/-- both ends given: taken as they are -/
theorem C15_both_ends (a b : Nat) (extent : Nat) :
    normAxis (.int a) (.int b) extent = some (a, b) := by
  simp [normAxis, natOf]

/-- a negative or non-integer bound is rejected (the VM faults), never clipped -/
theorem C15_negative_rejected (a : Int) (ha : a < 0) (l : Val) (extent : Nat) :
    normAxis (.int a) l extent = none := by
  have : ¬ (a ≥ 0) := by omega
  cases l <;> simp [normAxis, natOf, this]

/-- **C15_rect_inclusive.**  A stage covers `(r, c)` iff `first ≤ r ≤ last` on both axes. -/
theorem C15_rect_inclusive (t b l r' : Nat) (col : List Val) (r c : Nat) :
    covers ⟨t, b, l, r', col⟩ r c = true ↔ (t ≤ r ∧ r ≤ b) ∧ (l ≤ c ∧ c ≤ r') := by
  simp only [covers, Bool.and_eq_true, decide_eq_true_eq]
  omega

/-- the cell of a matrix after one more stage: the new colour inside the new rectangle, the
old content outside -/
theorem cell_append (h w : Nat) (stages : List Stage) (s : Stage) (r c : Nat) :
    Matrix.cell ⟨h, w, stages ++ [s]⟩ r c =
      if covers s r c then some s.color else Matrix.cell ⟨h, w, stages⟩ r c := by
  rw [cell_eq, cell_eq, List.reverse_append]
  simp only [List.reverse_cons, List.reverse_nil, List.nil_append, List.cons_append,
    List.find?_cons]
  cases hcov : covers s r c <;> simp

/-- the `COLOR` instruction with operand `MATRIX` (one `stage`, or the one-line form): the
registers' rectangle, normalised, is appended as a stage carrying the current colour; a
non-empty rectangle reaching outside the matrix faults (Python: `IndexError`) -/
theorem doColor_stage (s : State) (m : Matrix) (t b l r : Nat)
    (hop : s.regs .operand = .operand .matrix) (hm : s.matrix = some m)
    (hrows : normAxis (s.regs .firstRow) (s.regs .lastRow) m.height = some (t, b))
    (hcols : normAxis (s.regs .firstColumn) (s.regs .lastColumn) m.width = some (l, r))
    (hfit : Fits m.height m.width ⟨t, b, l, r, s.getColor⟩) :
    s.doColor =
      { s with matrix := some { m with stages := m.stages ++ [⟨t, b, l, r, s.getColor⟩] } } := by
  have hcond : (decide (t ≤ b) && decide (l ≤ r) && (decide (b ≥ m.height) || decide (r ≥ m.width)))
      = false := by
    unfold Fits at hfit
    simp only [Bool.and_eq_false_iff, Bool.or_eq_false_iff, decide_eq_false_iff_not]
    simp only at hfit
    omega
  simp only [State.doColor, hop, hm, hrows, hcols, hcond]
  rfl

/-- … and a non-empty rectangle reaching outside the matrix faults, exactly where the literal
`overlay_color` raises (`overlay_none_iff`) -/
theorem doColor_stage_out_of_range (s : State) (m : Matrix) (t b l r : Nat)
    (hop : s.regs .operand = .operand .matrix) (hm : s.matrix = some m)
    (hrows : normAxis (s.regs .firstRow) (s.regs .lastRow) m.height = some (t, b))
    (hcols : normAxis (s.regs .firstColumn) (s.regs .lastColumn) m.width = some (l, r))
    (hfit : ¬ Fits m.height m.width ⟨t, b, l, r, s.getColor⟩) :
    s.doColor = s.fault "matrix index out of range" := by
  have hcond := (not_fits_iff m.height m.width t b l r s.getColor).mp hfit
  simp only [State.doColor, hop, hm, hrows, hcols, hcond]
  rfl

/-! ## 3. the one-line form is a block with a single stage -/

/-- **C15_inline_is_single_stage** (code): `set L row … column …` compiles to the instructions of
`set L begin stage row … column … end` but for one: the block form loads the NAME register again
after `END matrix` (commands inside a block may have loaded other names; the result of the block
goes to the light named in the `set`), the one-line form has nothing in between that could. -/
theorem C15_inline_is_single_stage (n : NameSpec) (rows cols : Option Range) (cf : Bool) :
    ∃ pre, Gen.genOperand (.matrixInline n rows cols cf) =
        pre ++ Gen.ins [.moveq (.operand .matrixLight) (.reg .operand)] ∧
      Gen.genOperand (.matrixBlock n (.cons (.stage rows cols cf) .nil)) =
        pre ++ Gen.ins [Gen.genName n, .moveq (.operand .matrixLight) (.reg .operand)] :=
  ⟨Gen.ins ([Gen.genName n, .matrix] ++ Gen.genMatrixRanges rows cols cf ++ [.color, .endMatrix]),
    by simp [Gen.genOperand, Gen.ins], by simp [Gen.genOperand, Gen.genBlock, Gen.genStmt, Gen.ins]⟩

/-- the NAME register holds what the name `n` stands for -/
def NameLoaded (n : NameSpec) (st : Sem.S) : Prop :=
  match n with
  | .str x => st.vm.regs .name = .str x
  | .var x => st.vm.regs .name = st.lookup x

/-- what `Sem.execOperand` does for the name of an operand -/
def loadName (n : NameSpec) (st : Sem.S) : Sem.S :=
  match n with
  | .str x => st.setReg .name (.str x)
  | .var x => st.setReg .name (st.lookup x)

theorem setReg_same (st : Sem.S) (r : Reg) : st.setReg r (st.vm.regs r) = st := by
  obtain ⟨vm, l, rt, res⟩ := st
  simp only [Sem.S.setReg, State.setReg]
  congr 2
  funext r'
  split
  · rename_i h; rw [h]
  · rfl

theorem loadName_of_loaded {n : NameSpec} {st : Sem.S} (h : NameLoaded n st) : loadName n st = st := by
  cases n with
  | str x => simp only [NameLoaded] at h; simp only [loadName]; rw [← h]; exact setReg_same st .name
  | var x => simp only [NameLoaded] at h; simp only [loadName]; rw [← h]; exact setReg_same st .name

theorem nameLoaded_loadName (n : NameSpec) (st : Sem.S) : NameLoaded n (loadName n st) := by
  cases n <;> simp [NameLoaded, loadName, Sem.S.setReg, State.setReg, Sem.S.lookup]

theorem nameLoaded_setReg {n : NameSpec} {st : Sem.S} (h : NameLoaded n st) (r : Reg) (v : Val)
    (hr : r ≠ .name) : NameLoaded n (st.setReg r v) := by
  have hr' : ¬ Reg.name = r := fun e => hr e.symm
  cases n <;> simpa [NameLoaded, Sem.S.setReg, State.setReg, Sem.S.lookup, hr'] using h

/-- a handler that leaves registers, variables and macros alone keeps the name loaded -/
theorem nameLoaded_device {n : NameSpec} {st st' : Sem.S} {o : Sem.Outcome} (hd : State → State)
    (h1 : ∀ vm, (hd vm).regs = vm.regs) (h2 : ∀ vm, (hd vm).globals = vm.globals)
    (h3 : ∀ vm, (hd vm).constants = vm.constants) (h : NameLoaded n st)
    (he : st.device hd = (o, st')) : NameLoaded n st' := by
  have key : st'.vm.regs = st.vm.regs ∧ st'.vm.globals = st.vm.globals ∧
      st'.vm.constants = st.vm.constants ∧ st'.locals = st.locals := by
    simp only [Sem.S.device] at he
    split at he <;> (simp only [Prod.mk.injEq] at he; obtain ⟨_, rfl⟩ := he; simp [h1, h2, h3])
  obtain ⟨k1, k2, k3, k4⟩ := key
  cases n <;> simpa [NameLoaded, Sem.S.lookup, k1, k2, k3, k4] using h

theorem sendColor_env (s : State) (n raw dur) : (s.sendColor n raw dur).globals = s.globals ∧
    (s.sendColor n raw dur).constants = s.constants := by
  simp only [State.sendColor]; split <;> exact ⟨rfl, rfl⟩

theorem foldColor_env (names : List String) (raw dur) (s : State) :
    (names.foldl (fun st n => if st.status == .running then st.sendColor n raw dur else st) s).globals
      = s.globals ∧
    (names.foldl (fun st n => if st.status == .running then st.sendColor n raw dur else st) s).constants
      = s.constants := by
  induction names generalizing s with
  | nil => exact ⟨rfl, rfl⟩
  | cons n rest ih =>
    simp only [List.foldl_cons]
    split
    · rw [(ih _).1, (ih _).2]; exact sendColor_env s n raw dur
    · exact ih s

theorem colorMultiple_env (s : State) (names) : (s.colorMultiple names).globals = s.globals ∧
    (s.colorMultiple names).constants = s.constants := by
  simp only [State.colorMultiple]
  split
  · exact foldColor_env ..
  · exact ⟨rfl, rfl⟩

theorem doColor_env (s : State) : s.doColor.globals = s.globals ∧ s.doColor.constants = s.constants := by
  unfold State.doColor
  repeat' split
  all_goals try exact colorMultiple_env _ _
  all_goals try simp only [State.emit, State.fault]
  all_goals repeat' split
  all_goals first | exact ⟨rfl, rfl⟩ | simp

theorem matrixI_env (s : State) : (execInstr default s .matrix).globals = s.globals ∧
    (execInstr default s .matrix).constants = s.constants := by
  simp only [execInstr]
  repeat' split
  all_goals exact ⟨rfl, rfl⟩

theorem inline_block_core (f : Nat) (n : NameSpec) (rows cols : Option Range) (cf : Bool)
    (s0 : Sem.S) (h0 : NameLoaded n s0) (ld : Sem.S → Sem.S) (hld : ∀ st, NameLoaded n st → ld st = st)
    (fire : Sem.S → Sem.Outcome × Sem.S)
    (hkeep : ∀ s1 s2, Sem.evalMatrixRanges f rows cols cf s1 = .ok s2 → NameLoaded n s1 →
      NameLoaded n s2) :
    (if ((s0.device fun vm => execInstr default vm Instr.matrix).fst != Sem.Outcome.normal) = true then
      ((s0.device fun vm => execInstr default vm Instr.matrix).fst,
        (s0.device fun vm => execInstr default vm Instr.matrix).snd)
    else
      match
        (match
          (match Sem.evalMatrixRanges f rows cols cf
              ((s0.device fun vm => execInstr default vm Instr.matrix).snd.setReg
                Reg.operand (Val.operand Operand.matrix)) with
          | Except.error o => (o, (s0.device fun vm => execInstr default vm Instr.matrix).snd)
          | Except.ok s1 => s1.device State.doColor) with
        | (Sem.Outcome.normal, s') => (Sem.Outcome.normal, s')
        | r => r) with
      | (Sem.Outcome.normal, s2) => fire (ld s2)
      | r => r) =
    if ((s0.device fun vm => execInstr default vm Instr.matrix).fst != Sem.Outcome.normal) = true then
      ((s0.device fun vm => execInstr default vm Instr.matrix).fst,
        (s0.device fun vm => execInstr default vm Instr.matrix).snd)
    else
      match Sem.evalMatrixRanges f rows cols cf
          ((s0.device fun vm => execInstr default vm Instr.matrix).snd.setReg Reg.operand
            (Val.operand Operand.matrix)) with
      | Except.error o => (o, (s0.device fun vm => execInstr default vm Instr.matrix).snd)
      | Except.ok s2 =>
        match s2.device State.doColor with
        | (Sem.Outcome.normal, s3) => fire s3
        | r => r := by
  generalize hD : s0.device (fun vm => execInstr default vm .matrix) = D0
  obtain ⟨o1, s1⟩ := D0
  have h1 : NameLoaded n s1 :=
    nameLoaded_device _ (fun vm => Sim.matrixI_regs vm default) (fun vm => (matrixI_env vm).1)
      (fun vm => (matrixI_env vm).2) h0 hD
  dsimp only
  split
  · rfl
  · generalize hE : Sem.evalMatrixRanges f rows cols cf _ = E
    have hne := hE ▸ evalMatrixRanges_ne_normal f rows cols cf _
    cases E with
    | error o => cases o <;> first | rfl | simp at hne
    | ok s2 =>
      have h2 := hkeep _ s2 hE (nameLoaded_setReg h1 .operand _ (by decide))
      dsimp only
      generalize hD2 : s2.device State.doColor = D
      obtain ⟨o, s3⟩ := D
      have h3 : NameLoaded n s3 :=
        nameLoaded_device _ (fun vm => Sim.doColor_regs vm) (fun vm => (doColor_env vm).1)
          (fun vm => (doColor_env vm).2) h2 hD2
      cases o <;> first | rfl | (dsimp only; rw [hld s3 h3])

/-- **C15_inline_is_single_stage** (source semantics): the two forms have the same outcome and
leave the same state — same events, same registers — for every action kind, name form and
starting state, provided the range operands leave the name alone (`hkeep`: evaluating them does
not change what `n` stands for — they contain no call that assigns the name's variable or
commands another light); the block form spends two more units of fuel on entering the block and
the statement.  (Without the proviso the forms differ since the block form's result goes to the
light named in the `set`: it loads NAME again after the body.) -/
theorem C15_inline_is_single_stage_sem (f : Nat) (k : ActKind) (n : NameSpec)
    (rows cols : Option Range) (cf : Bool) (s : Sem.S)
    (hkeep : ∀ s1 s2, Sem.evalMatrixRanges f rows cols cf s1 = .ok s2 → NameLoaded n s1 →
      NameLoaded n s2) :
    Sem.execOperand (f + 3) k (.matrixBlock n (.cons (.stage rows cols cf) .nil)) s =
      Sem.execOperand (f + 1) k (.matrixInline n rows cols cf) s := by
  simp only [Sem.execOperand, Sem.execBlock, Sem.execStmt]
  cases n with
  | str x =>
    exact inline_block_core f (.str x) rows cols cf _ (nameLoaded_loadName (.str x) s)
      (loadName (.str x)) (fun st h => loadName_of_loaded h)
      (fun st => (st.setReg .operand (.operand .matrixLight)).device
        (if (k == ActKind.set) = true then State.doColor else State.doPower)) hkeep
  | var x =>
    exact inline_block_core f (.var x) rows cols cf _ (nameLoaded_loadName (.var x) s)
      (loadName (.var x)) (fun st h => loadName_of_loaded h)
      (fun st => (st.setReg .operand (.operand .matrixLight)).device
        (if (k == ActKind.set) = true then State.doColor else State.doPower)) hkeep

/-! ## 4. the whole matrix goes out exactly once -/

/-- `h * w` values in row-major order -/
def tile {α : Type} (h w : Nat) (F : Nat → Nat → α) : List α :=
  (List.range h).flatMap fun r => (List.range w).map fun c => F r c

theorem tile_length {α : Type} (h w : Nat) (F : Nat → Nat → α) : (tile h w F).length = h * w := by
  induction h with
  | zero => simp [tile]
  | succ h ih =>
    simp only [tile] at ih
    simp only [tile, List.range_succ, List.flatMap_append, List.length_append, ih,
      List.flatMap_cons, List.flatMap_nil, List.append_nil, List.length_map, List.length_range,
      Nat.succ_mul]

theorem tile_getElem? {α : Type} (h w : Nat) (F : Nat → Nat → α) (r c : Nat) (hr : r < h)
    (hc : c < w) : (tile h w F)[r * w + c]? = some (F r c) := by
  induction h with
  | zero => omega
  | succ h ih =>
    have hlen := tile_length h w F
    simp only [tile] at ih hlen
    simp only [tile, List.range_succ, List.flatMap_append, List.flatMap_cons, List.flatMap_nil,
      List.append_nil]
    by_cases hrh : r < h
    · have : r * w + c < h * w := by
        have : (r + 1) * w ≤ h * w := Nat.mul_le_mul_right w hrh
        rw [Nat.succ_mul] at this
        omega
      rw [List.getElem?_append_left (by omega)]
      exact ih hrh
    · have hrh : r = h := by omega
      subst hrh
      rw [List.getElem?_append_right (by omega), hlen, Nat.add_sub_cancel_left]
      simp [hc]

/-- a list of `h * w` values is determined by its entries at the indices `r * w + c` -/
theorem tile_ext {α : Type} (h w : Nat) (l₁ l₂ : List α) (h1 : l₁.length = h * w)
    (h2 : l₂.length = h * w)
    (hx : ∀ r c, r < h → c < w → l₁[r * w + c]? = l₂[r * w + c]?) : l₁ = l₂ := by
  apply List.ext_getElem?
  intro i
  by_cases hi : i < h * w
  · have hw : 0 < w := by
      rcases Nat.eq_zero_or_pos w with h0 | h0
      · subst h0; simp at hi
      · exact h0
    have := hx (i / w) (i % w) ((Nat.div_lt_iff_lt_mul hw).mpr hi) (Nat.mod_lt _ hw)
    rwa [Nat.div_add_mod'] at this
  · rw [List.getElem?_eq_none (by omega), List.getElem?_eq_none (by omega)]

/-- what the matrix path transmits for one cell (`_as_raw_matrix`): a staged colour converted
to raw units and clamped-and-rounded by the wrapper; the saved default (stored raw) or black
where no stage reached -/
def cellWire (s : State) (c : Option (List Val)) : Option (List Int) :=
  match c with
  | none => wireColor (s.defaultColor.getD [.int 0, .int 0, .int 0, .int 0])
  | some col => (s.asRawColor col).bind wireColor

theorem mapM_eq_map {α β : Type} (f : α → Option β) (g : α → β) :
    ∀ l : List α, (∀ x ∈ l, f x = some (g x)) → l.mapM f = some (l.map g) := by
  intro l
  induction l with
  | nil => intro _; rfl
  | cons a l ih =>
    intro h
    rw [List.mapM_cons, h a (by simp), ih (fun x hx => h x (by simp [hx]))]
    rfl

/-- `COLOR` with operand `MATRIX_LIGHT`: exactly one event, a `setTile` carrying the whole
matrix, cell `(r, c)` being whatever `cellWire` makes of `m.cell r c` -/
theorem doColor_matrixLight (s : State) (l : Light) (h w : Nat) (m : Matrix)
    (F : Nat → Nat → List Int) (d : Int)
    (hop : s.regs .operand = .operand .matrixLight) (hl : s.light? (s.regs .name) = some l)
    (hk : l.kind = .matrix h w) (hm : s.matrix = some m) (hmh : m.height = h) (hmw : m.width = w)
    (hcells : ∀ r c, r < h → c < w → cellWire s (m.cell r c) = some (F r c))
    (hdur : (s.asRawTime (s.regs .duration)).bind wire32 = some d) :
    s.doColor = s.emit (.setTile l.name (tile h w F) d w h) := by
  have hmap : (tile h w fun r c => m.cell r c).mapM (cellWire s) = some (tile h w F) := by
    rw [mapM_eq_map (cellWire s) (fun x => (cellWire s x).getD [])]
    · congr 1
      apply tile_ext h w
      · simp [tile_length]
      · exact tile_length h w F
      · intro r c hr hc
        rw [List.getElem?_map, tile_getElem? h w _ r c hr hc, tile_getElem? h w F r c hr hc]
        simp [hcells r c hr hc]
    · intro x hx
      simp only [tile, List.mem_flatMap, List.mem_range, List.mem_map] at hx
      obtain ⟨r, hr, c, hc, rfl⟩ := hx
      simp [hcells r c hr hc]
  have key : s.doColor =
      match (tile h w fun r c => m.cell r c).mapM (cellWire s),
        (s.asRawTime (s.regs .duration)).bind wire32 with
      | some cs, some d => s.emit (.setTile l.name cs d w h)
      | _, _ => s.fault "matrix conversion" := by
    simp only [State.doColor, hop, hl, hk, hm, hmh, hmw]
    rfl
  rw [key, hmap, hdur]

/-- a colour: four numbers (`int`, `float` or `bool`) -/
def IsColor (c : List Val) : Prop :=
  ∃ x y z k, c = [x, y, z, k] ∧ (numOf x).isSome ∧ (numOf y).isSome ∧ (numOf z).isSome ∧
    (numOf k).isSome

theorem wireColor_isColor {c : List Val} (hc : IsColor c) : ∃ wc, wireColor c = some wc := by
  obtain ⟨x, y, z, k, rfl, hx, hy, hz, hk⟩ := hc
  obtain ⟨x', hx⟩ := Option.isSome_iff_exists.mp hx
  obtain ⟨y', hy⟩ := Option.isSome_iff_exists.mp hy
  obtain ⟨z', hz⟩ := Option.isSome_iff_exists.mp hz
  obtain ⟨k', hk⟩ := Option.isSome_iff_exists.mp hk
  exact ⟨_, by simp [wireColor, hx, hy, hz, hk]; rfl⟩

theorem isColor_nums (a b c : Rat) (k : Val) (hk : (numOf k).isSome) :
    IsColor [.num a, .num b, .num c, k] :=
  ⟨_, _, _, _, rfl, rfl, rfl, rfl, hk⟩

/-- a colour converts to raw units in every unit mode, and the result is again a colour -/
theorem asRawColor_isColor (s : State) {c : List Val} (hc : IsColor c) :
    ∃ raw, s.asRawColor c = some raw ∧ IsColor raw := by
  obtain ⟨x, y, z, k, rfl, hx, hy, hz, hk⟩ := hc
  obtain ⟨x', hx'⟩ := Option.isSome_iff_exists.mp hx
  obtain ⟨y', hy'⟩ := Option.isSome_iff_exists.mp hy
  obtain ⟨z', hz'⟩ := Option.isSome_iff_exists.mp hz
  unfold State.asRawColor
  cases s.mode with
  | raw => exact ⟨_, rfl, _, _, _, _, rfl, hx, hy, hz, hk⟩
  | logical =>
    simp only [convert, logicalToRaw, hx', hy', hz']
    exact ⟨_, rfl, isColor_nums _ _ _ k hk⟩
  | rgb =>
    simp only [convert, rgbToRaw, rgbToHsvList, hx', hy', hz', Option.map_some]
    exact ⟨_, rfl, _, _, _, _, rfl, rfl, rfl, rfl, hk⟩

theorem black_isColor : IsColor [.int 0, .int 0, .int 0, .int 0] :=
  ⟨_, _, _, _, rfl, rfl, rfl, rfl, rfl⟩

/-- **C15_matrix_once.**  On a matrix light of any height and width, with the matrix register
holding any list of stages whose colours (and the saved default, if any) are numbers, the
final `COLOR` of a `set … begin … end` (or of the one-line form) sends exactly one message (the
matrix register holding the matrix of THIS light, `m.height = h`, `m.width = w` — as it does unless
a routine called inside the block opened a block of its own on another matrix light, in which case
the machine sends this light the cells of that other matrix): a
`setTile` with `h * w` cells; cell `(r, c)` is at index `r * w + c` and carries the colour of
the last stage containing it converted as `cellWire` says, and the default (black if none was
saved) where no stage reaches. -/
theorem C15_matrix_once (s : State) (l : Light) (h w : Nat) (m : Matrix) (q : Rat)
    (hop : s.regs .operand = .operand .matrixLight) (hl : s.light? (s.regs .name) = some l)
    (hk : l.kind = .matrix h w) (hm : s.matrix = some m) (hmh : m.height = h) (hmw : m.width = w)
    (hstages : ∀ st ∈ m.stages, IsColor st.color)
    (hdef : ∀ dc, s.defaultColor = some dc → IsColor dc)
    (hdur : numOf (s.regs .duration) = some q) :
    ∃ cells d, s.doColor = s.emit (.setTile l.name cells d w h) ∧ cells.length = h * w ∧
      ∀ r c, r < h → c < w → ∃ wc, cells[r * w + c]? = some wc ∧
        cellWire s (m.cell r c) = some wc ∧
        (m.cell r c = none → wireColor (s.defaultColor.getD [.int 0, .int 0, .int 0, .int 0]) = some wc) ∧
        (∀ col, m.cell r c = some col → (s.asRawColor col).bind wireColor = some wc) := by
  have hall : ∀ r c, ∃ wc, cellWire s (m.cell r c) = some wc := by
    intro r c
    cases hcell : m.cell r c with
    | none =>
      cases hd : s.defaultColor with
      | none => simpa [cellWire, hd] using wireColor_isColor black_isColor
      | some dc => simpa [cellWire, hd] using wireColor_isColor (hdef dc hd)
    | some col =>
      have hmem : ∃ st ∈ m.stages, st.color = col := by
        simp only [Matrix.cell, Option.map_eq_some_iff] at hcell
        obtain ⟨st, hfind, hcol⟩ := hcell
        exact ⟨st, by simpa using List.mem_of_find?_eq_some hfind, hcol⟩
      obtain ⟨st, hst, rfl⟩ := hmem
      obtain ⟨raw, hraw, hrc⟩ := asRawColor_isColor s (hstages st hst)
      obtain ⟨wc, hwc⟩ := wireColor_isColor hrc
      exact ⟨wc, by simp [cellWire, hraw, hwc]⟩
  have hd : ∃ d, (s.asRawTime (s.regs .duration)).bind wire32 = some d := by
    unfold State.asRawTime
    by_cases hraw : (s.mode == .raw) = true
    · exact ⟨Conv.param32 q, by simp [hraw, wire32, hdur]⟩
    · have hne : s.regs .duration ≠ .none := by
        intro e; rw [e] at hdur; simp [numOf, Val.asNum] at hdur
      refine ⟨Conv.param32 (q * 1000), ?_⟩
      simp only [hraw]
      cases hv : s.regs .duration <;> simp_all [wire32, numOf, Val.asNum]
  obtain ⟨d, hd⟩ := hd
  let F : Nat → Nat → List Int := fun r c => (cellWire s (m.cell r c)).getD []
  have hF : ∀ r c, cellWire s (m.cell r c) = some (F r c) := by
    intro r c
    obtain ⟨wc, hwc⟩ := hall r c
    simp [F, hwc]
  refine ⟨tile h w F, d, doColor_matrixLight s l h w m F d hop hl hk hm hmh hmw (fun r c _ _ => hF r c) hd,
    tile_length h w F, ?_⟩
  intro r c hr hc
  refine ⟨F r c, tile_getElem? h w F r c hr hc, hF r c, ?_, ?_⟩
  · intro hnone
    have := hF r c
    rwa [hnone] at this
  · intro col hsome
    have := hF r c
    rwa [hsome] at this

/-- a plain `set` of one light: the registers' colour converted to raw units, clamped and
rounded by the wrapper -/
theorem colorMultiple_single (s : State) (n : String) (c : List Int) (d : Int)
    (hrun : s.status = .running)
    (hc : (s.asRawColor s.getColor).bind wireColor = some c)
    (hd : (s.asRawTime (s.regs .duration)).bind wire32 = some d) :
    s.colorMultiple [n] = (s.emit (.setColor n c d)).updLight n fun l => { l with color := c } := by
  cases hraw : s.asRawColor s.getColor with
  | none => simp [hraw] at hc
  | some raw =>
    cases hdur : s.asRawTime (s.regs .duration) with
    | none => simp [hdur] at hd
    | some dur =>
      have hc' : wireColor raw = some c := by simpa [hraw] using hc
      have hd' : wire32 dur = some d := by simpa [hdur] using hd
      simp [State.colorMultiple, hraw, hdur, hrun, State.sendColor, hc', hd']

/-- **C15_cell_conversion_eq_set.**  A cell staged while the colour registers held `s.getColor`
goes out, from any later state `s'` in the same unit mode, with exactly the wire colour that a
plain `set` executed in `s` transmits. -/
theorem C15_cell_conversion_eq_set (s s' : State) (n : String) (c : List Int) (d : Int)
    (hmode : s'.mode = s.mode) (hrun : s.status = .running)
    (hcell : cellWire s' (some s.getColor) = some c)
    (hd : (s.asRawTime (s.regs .duration)).bind wire32 = some d) :
    s.colorMultiple [n] = (s.emit (.setColor n c d)).updLight n fun l => { l with color := c } := by
  apply colorMultiple_single s n c d hrun _ hd
  simpa [cellWire, State.asRawColor, hmode] using hcell

/-! ## 5. a zone range colours exactly the zones `a … b` -/

/-- the device side of a zone command (`set_zone_color(start, end)`, lifxlan's convention and
the simulated device's): indices `first ≤ i < last` take the colour -/
def applyZones {α : Type} (zones : List α) (first last : Nat) (c : α) : List α :=
  zones.mapIdx fun i z => if first ≤ i ∧ i < last then c else z

theorem applyZones_length {α : Type} (zones : List α) (first last : Nat) (c : α) :
    (applyZones zones first last c).length = zones.length := by
  simp [applyZones]

theorem applyZones_getElem? {α : Type} (zones : List α) (first last : Nat) (c : α) (i : Nat) :
    (applyZones zones first last c)[i]? =
      if first ≤ i ∧ i < last then zones[i]?.map (fun _ => c) else zones[i]? := by
  simp only [applyZones, List.getElem?_mapIdx]
  cases zones[i]? <;> by_cases h : first ≤ i ∧ i < last <;> simp [h]

/-- `COLOR` with operand `MZ_LIGHT`: exactly one event, a zone command for `a … b + 1` -/
theorem doColor_zones (s : State) (l : Light) (k : Nat) (a b : Int) (c : List Int) (d : Int)
    (hop : s.regs .operand = .operand .mzLight) (hl : s.light? (s.regs .name) = some l)
    (hk : l.kind = .multizone k) (hfirst : s.regs .firstZone = .int a)
    (hlast : s.regs .lastZone = .int b ∨ (s.regs .lastZone = .none ∧ b = a))
    (ha : 0 ≤ a) (hab : a ≤ b) (hb : b ≤ 65534)
    (hc : (s.asRawColor s.getColor).bind wireColor = some c)
    (hd : (s.asRawTime (s.regs .duration)).bind wire32 = some d) :
    s.doColor = s.emit (.setZones l.name a (b + 1) c d) := by
  cases hraw : s.asRawColor s.getColor with
  | none => simp [hraw] at hc
  | some raw =>
    cases hdur : s.asRawTime (s.regs .duration) with
    | none => simp [hdur] at hd
    | some dur =>
      have hc' : wireColor raw = some c := by simpa [hraw] using hc
      have hd' : wire32 dur = some d := by simpa [hdur] using hd
      have hw1 := wire16_int a ha (by omega)
      have hw2 := wire16_int (b + 1) (by omega) (by omega)
      rcases hlast with hlast | ⟨hlast, rfl⟩
      · simp only [State.doColor, hop, hl, hk, hfirst, hlast, hraw, hdur, add_one, hc', hd', hw1, hw2]
      · simp only [State.doColor, hop, hl, hk, hfirst, hlast, hraw, hdur, add_one, hc', hd', hw1, hw2]

/-- **C15_zone_exact.**  `set L zone a b` (`zone a` alone: `b = a`) on a multizone light sends
exactly one zone command, and on the device — of any length — afterwards zone `i` carries the
new colour iff `a ≤ i ≤ b`; every other zone is as it was, and no zone is added or lost. -/
theorem C15_zone_exact (s : State) (l : Light) (k : Nat) (a b : Nat) (c : List Int) (d : Int)
    (hop : s.regs .operand = .operand .mzLight) (hl : s.light? (s.regs .name) = some l)
    (hk : l.kind = .multizone k) (hfirst : s.regs .firstZone = .int a)
    (hlast : s.regs .lastZone = .int b ∨ (s.regs .lastZone = .none ∧ b = a))
    (hab : a ≤ b) (hb : b ≤ 65534)
    (hc : (s.asRawColor s.getColor).bind wireColor = some c)
    (hd : (s.asRawTime (s.regs .duration)).bind wire32 = some d) :
    s.doColor = s.emit (.setZones l.name a ((b + 1 : Nat) : Int) c d) ∧
    ∀ (zones : List (List Int)),
      (applyZones zones a (b + 1) c).length = zones.length ∧
      ∀ i, i < zones.length →
        ((a ≤ i ∧ i ≤ b) → (applyZones zones a (b + 1) c)[i]? = some c) ∧
        (¬ (a ≤ i ∧ i ≤ b) → (applyZones zones a (b + 1) c)[i]? = zones[i]?) := by
  refine ⟨?_, ?_⟩
  · have hlast' : s.regs .lastZone = .int (b : Int) ∨ (s.regs .lastZone = .none ∧ (b : Int) = a) := by
      rcases hlast with h | ⟨h, e⟩
      · exact .inl h
      · exact .inr ⟨h, by omega⟩
    have := doColor_zones s l k a b c d hop hl hk hfirst hlast' (by omega) (by omega) (by omega) hc hd
    rw [this]
    rfl
  · intro zones
    refine ⟨applyZones_length _ _ _ _, ?_⟩
    intro i hi
    rw [applyZones_getElem?]
    constructor
    · intro h
      have : a ≤ i ∧ i < b + 1 := by omega
      rw [if_pos this, List.getElem?_eq_getElem hi]
      rfl
    · intro h
      have : ¬ (a ≤ i ∧ i < b + 1) := by omega
      rw [if_neg this]

/-! ## the hypotheses are satisfiable

A 3 × 2 matrix with two overlapping stages (logical units, one fractional percentage, one
cell left to the default), and a zone command on a light with 8 zones. -/
namespace Example

def red : List Val := [.int 0, .int 100, .int 50, .int 3500]
def blue : List Val := [.num 240, .int 100, .num (51 / 2), .int 3500]
def stages : List Stage := [⟨0, 1, 0, 1, red⟩, ⟨1, 2, 1, 1, blue⟩]

theorem stages_fit : ∀ s ∈ stages, Fits 3 2 s := by
  intro s hs
  simp only [stages, List.mem_cons, List.not_mem_nil, or_false] at hs
  rcases hs with rfl | rfl <;> simp [Fits]

/-- the literal loops: the later stage wins where the two overlap, `(2, 0)` stays `None` -/
example : Grid.overlayAll (Grid.new 3 2) stages =
    some [[some red, some red], [some red, some blue], [none, some blue]] := rfl

example : Grid.asList (Grid.findReplaceNone
      [[some red, some red], [some red, some blue], [none, some blue]] [.int 1, .int 2, .int 3, .int 4]) =
    [some red, some red, some red, some blue, some [.int 1, .int 2, .int 3, .int 4], some blue] := rfl

/-- a stage reaching outside the matrix is an `IndexError`, an empty one is not -/
example : Grid.overlay (Grid.new 3 2) 0 3 0 0 red = none := rfl
example : Grid.overlay (Grid.new 3 2) 0 0 0 2 red = none := rfl
example : Grid.overlay (Grid.new 3 2) 2 1 0 7 red = some (Grid.new 3 2) := rfl

example : ∃ g, Grid.overlayAll (Grid.new 3 2) stages = some g ∧ WF 3 2 g ∧
    ∀ r c, r < 3 → c < 2 → Grid.get? g r c = some (Matrix.cell ⟨3, 2, stages⟩ r c) :=
  C15_grid_is_stages 3 2 stages stages_fit

def light : Light := { name := "M", group := "g", location := "l", kind := .matrix 3 2 }
def state : State :=
  (({ Vm.init [light] with matrix := some ⟨3, 2, stages⟩ }).setReg .name (.str "M")).setReg
    .operand (.operand .matrixLight)

def wire : Nat → Nat → List Int
  | 0, _ => [0, 65535, 32768, 3500]
  | 1, 0 => [0, 65535, 32768, 3500]
  | 2, 0 => [0, 0, 0, 0]
  | _, _ => [43690, 65535, 16711, 3500]

/-- one `setTile`, six cells, row-major; 25.5 % is converted (16711), not rounded to 26 % first -/
example : state.doColor = state.emit (.setTile "M"
    [[0, 65535, 32768, 3500], [0, 65535, 32768, 3500],
     [0, 65535, 32768, 3500], [43690, 65535, 16711, 3500],
     [0, 0, 0, 0], [43690, 65535, 16711, 3500]] 0 2 3) :=
  doColor_matrixLight state light 3 2 ⟨3, 2, stages⟩ wire 0 rfl rfl rfl rfl rfl rfl
    (by
      intro r c hr hc
      have hr' : r = 0 ∨ r = 1 ∨ r = 2 := by omega
      have hc' : c = 0 ∨ c = 1 := by omega
      rcases hr' with rfl | rfl | rfl <;> rcases hc' with rfl | rfl <;> decide +kernel)
    (by decide +kernel)

example : ∃ cells d, state.doColor = state.emit (.setTile "M" cells d 2 3) ∧
    cells.length = 3 * 2 := by
  obtain ⟨cells, d, h1, h2, _⟩ := C15_matrix_once state light 3 2 ⟨3, 2, stages⟩ 0 rfl rfl rfl rfl rfl rfl
    (by
      intro st hs
      simp only [stages, List.mem_cons, List.not_mem_nil, or_false] at hs
      rcases hs with rfl | rfl <;> exact ⟨_, _, _, _, rfl, rfl, rfl, rfl, rfl⟩)
    (by intro dc h; cases h) rfl
  exact ⟨cells, d, h1, h2⟩

def zoneLight : Light := { name := "Z", group := "g", location := "l", kind := .multizone 8 }
def zoneState : State :=
  ((((((((Vm.init [zoneLight]).setReg .name (.str "Z")).setReg .operand (.operand .mzLight)).setReg
    .firstZone (.int 2)).setReg .lastZone (.int 4)).setReg .hue (.int 120)).setReg
    .saturation (.int 100)).setReg .brightness (.int 50)).setReg .kelvin (.int 3500)

example : zoneState.doColor = zoneState.emit (.setZones "Z" 2 5 [21845, 65535, 32768, 3500] 0) :=
  (C15_zone_exact zoneState zoneLight 8 2 4 [21845, 65535, 32768, 3500] 0
    rfl rfl rfl rfl (.inl rfl) (by decide) (by decide) (by decide +kernel) (by decide +kernel)).1

example : applyZones [[0], [1], [2], [3], [4], [5], [6], [7]] 2 5 [9] =
    [[0], [1], [9], [9], [9], [5], [6], [7]] := by decide

/-- the same wire colour from a plain `set` in the same registers -/
example : zoneState.colorMultiple ["Z"] =
    (zoneState.emit (.setColor "Z" [21845, 65535, 32768, 3500] 0)).updLight "Z"
      fun l => { l with color := [21845, 65535, 32768, 3500] } :=
  colorMultiple_single zoneState "Z" _ 0 rfl (by decide +kernel) (by decide +kernel)

end Example

end C15
end Bardolph
