import Bardolph.Model.Gen
/-! # C15 — zone and row/column addressing hits exactly the addressed cells (theorems below) -/
namespace Bardolph
end Bardolph
