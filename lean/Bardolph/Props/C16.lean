import Bardolph.Model.Lex
import Bardolph.Proofs.LexLemmas
import Bardolph.Proofs.VmSteps
/-!
# C16 — compilation depends only on the token sequence; every documented name is usable

Theorems about the lexer model `Bardolph.Lex` (`Model/Lex.lean`, a hand-written model of
`bardolph/parser/lex.py`) and two peephole lemmas about the VM model.

* `C16_regex_sources_agree` pins the regular-expression SOURCE strings, the order of the
  alternation, the classification order, the abbreviation table, the punctuation list and
  `_NOT_KEYWORDS` — all regenerated from the Python source on every run — to the literals the
  hand-written scanners implement.  Changing a regular expression in `lex.py` breaks it.
* `C16_identifier_free`, `C16_case_sensitive`: every word of the documented name form that is
  not a documented keyword, register word or abbreviation is ONE `NAME` token carrying itself.
* `C16_string_free`: a quoted string without `"` and `\` is ONE `LITERAL_STRING` token
  carrying exactly its content, whatever follows.
* `C16_whitespace_insensitive`: the matches of `a ++ ws ++ b` are those of `a` followed by
  those of `b` for every non-empty white space `ws` (`a` free of double quotes).
* `C16_comment_cut`, `C16_abbrev_same`, and the VM lemmas `C16_peephole_pushq_pop`,
  `C16_peephole_push_pop`.
-/
namespace Bardolph.Lex
open Bardolph.Generated

/-! ## 1. The generated tables are the ones the scanners implement -/

theorem C16_regex_sources_agree :
    Generated.TimePattern.regexSpec
        = "(\\*|\\*\\d|\\d\\*|\\d\\d?):(\\d\\d|\\d\\*|\\*\\d|\\*)(?=(\\s|$))" ∧
    LexTables.cmpSpec = "==|<=|>=|!=|[<>]" ∧
    LexTables.literalStringSpec = "\"([^\"]|(?<=\\\\)\")*\"" ∧
    LexTables.numberSpec = "[0-9]*\\.?[0-9]+" ∧
    LexTables.nameSpec = "[a-zA-Z_][a-zA-Z0-9_]*" ∧
    LexTables.nonAlnumSpec = "==|<=|>=|[\\[\\]\\(\\){}+\\-*<>/%#:\\^]" ∧
    LexTables.defaultSpec = "[^\\s]+" ∧
    LexTables.alternationOrder =
      ["TimePattern.REGEX_SPEC", "_CMP_SPEC", "_LITERAL_STRING_SPEC", "_NUMBER_SPEC",
       "_NAME_SPEC", "_NON_ALNUM_SPEC", "_DEFAULT_SPEC"] ∧
    LexTables.classifyOrder = ["COMPARE", "TIME_PATTERN", "LITERAL_STRING", "NUMBER", "NAME"] ∧
    LexTables.abbreviations =
      [("B", "brightness"), ("H", "hue"), ("K", "kelvin"), ("S", "saturation")] ∧
    LexTables.nonAlnumList = "[]{}()+-*/%#:^" ∧
    LexTables.notKeywords =
      ["COMPARE", "EOF", "ERROR", "LITERAL_STRING", "MARK", "NAME", "NULL", "NUMBER", "REGISTER",
       "SYNTAX_ERROR", "TIME_PATTERN", "UNKNOWN"] := by
  decide

/-- the keyword list is exactly the lower-cased `TokenTypes` members that are not in
`_NOT_KEYWORDS` (as a set: the generated list is sorted); every keyword and register word is lower case and of the name form -/
theorem C16_keyword_table_shape :
    (∀ w : List Char, w ∈ LexTables.keywords.map String.toList ↔
      w ∈ (LexTables.tokenTypes.filter (!LexTables.notKeywords.contains ·)).map
        (fun s => s.toList.map Char.toLower)) ∧
    LexTables.keywords.all isLower = true ∧ LexTables.registerWords.all isLower = true ∧
    (LexTables.keywords ++ LexTables.registerWords).all (fun k =>
      match k.toList with
      | c :: cs => isNameStart c && cs.all isNameChar
      | [] => false) = true := by
  refine ⟨fun w => ⟨fun h => ?_, fun h => ?_⟩, by decide +kernel, by decide +kernel,
    by decide +kernel⟩
  · have : ∀ w ∈ LexTables.keywords.map String.toList,
        w ∈ (LexTables.tokenTypes.filter (!LexTables.notKeywords.contains ·)).map
          (fun s => s.toList.map Char.toLower) := by decide +kernel
    exact this w h
  · have : ∀ w ∈ (LexTables.tokenTypes.filter (!LexTables.notKeywords.contains ·)).map
          (fun s => s.toList.map Char.toLower), w ∈ LexTables.keywords.map String.toList := by
      decide +kernel
    exact this w h

/-! ## 2. Every word of the documented name form is usable as a name, case-sensitively -/

/-- A word `c :: cs` of the documented name form (a letter or underscore, then letters, digits,
underscores) that is not one of the generated keywords, register words or abbreviation keys is
ONE match of the token regular expression and becomes ONE `NAME` token whose content is the
word itself, unchanged. -/
theorem C16_identifier_free (n : Nat) (c : Char) (cs : List Char)
    (hc : isNameStart c = true) (hcs : cs.all isNameChar = true)
    (hk : String.ofList (c :: cs) ∉ LexTables.keywords)
    (hr : String.ofList (c :: cs) ∉ LexTables.registerWords)
    (ha : String.ofList (c :: cs) ∉ LexTables.abbreviations.map (·.1)) :
    lineTokens n (splitLine ((c :: cs).length + 1) (c :: cs))
      = [⟨"NAME", String.ofList (c :: cs), n⟩] := by
  rw [splitLine_name hc hcs, lineTokens_name n hc hk hr ha]; rfl

/-- the same for a whole one-word script, at the `String` level -/
theorem C16_identifier_free_string (w : String) (c : Char) (cs : List Char)
    (hw : w.toList = c :: cs) (hc : isNameStart c = true) (hcs : cs.all isNameChar = true)
    (hk : w ∉ LexTables.keywords) (hr : w ∉ LexTables.registerWords)
    (ha : w ∉ LexTables.abbreviations.map (·.1)) :
    lineTokens n (splitLine (w.length + 1) w.toList) = [⟨"NAME", w, n⟩] := by
  have e : w = String.ofList (c :: cs) := by rw [← hw, String.ofList_toList]
  have hl : w.length = (c :: cs).length := by rw [← hw, String.length_toList]
  rw [hl, hw]
  subst e
  exact C16_identifier_free n c cs hc hcs hk hr ha

/-- the types the regular-expression classification of `Lex._token_type` can give -/
def regexTypes : List String :=
  ["COMPARE", "TIME_PATTERN", "LITERAL_STRING", "NUMBER", "NAME", "ERROR"]

/-- none of them is the type of a keyword, and none is `REGISTER` -/
theorem regexTypes_not_keywords :
    (∀ t ∈ regexTypes, t ∈ LexTables.notKeywords ∧ t ≠ "REGISTER") ∧
    (∀ k ∈ LexTables.keywords, ∀ t ∈ regexTypes, t.toList ≠ k.toList.map Char.toUpper) := by
  constructor <;> decide +kernel

/-- `Lex._token_type`: a keyword type is given only to a lower-case word in the keyword list,
`REGISTER` only to a register word; everything else is classified by the regular
expressions. -/
theorem tokenType_cases (w : String) :
    (isLower w = true ∧ w ∈ LexTables.keywords ∧ tokenType w = w.toUpper) ∨
    (w ∈ LexTables.registerWords ∧ tokenType w = "REGISTER") ∨
    tokenType w ∈ regexTypes := by
  unfold tokenType
  by_cases h1 : (isLower w && LexTables.keywords.contains w) = true
  · left
    rw [if_pos h1]
    simp only [Bool.and_eq_true, List.contains_eq_mem, decide_eq_true_eq] at h1
    exact ⟨h1.1, h1.2, rfl⟩
  · right
    rw [if_neg h1]
    by_cases h2 : LexTables.registerWords.contains w = true
    · left
      rw [if_pos h2]
      exact ⟨by simpa using h2, rfl⟩
    · right
      rw [if_neg h2]
      cases hf : LexTables.classifyOrder.find? fun t => classifyBy t w.toList with
      | none => simp [regexTypes]
      | some t =>
        have hm := List.mem_of_find?_eq_some hf
        simp only [Option.getD_some]
        revert hm
        simp only [LexTables.classifyOrder, regexTypes, List.mem_cons, List.not_mem_nil, or_false]
        intro hm
        rcases hm with h | h | h | h | h <;> simp [h]

/-- Case sensitivity: a word that contains an upper-case ASCII letter is never given a keyword
type and never `REGISTER` — `Lex._token_type` classifies it by the regular expressions only
(so `Set`, `IF`, `Hue` are names).  (The four one-letter abbreviations are replaced BEFORE
classification, see `C16_abbrev_same`.) -/
theorem C16_case_sensitive (w : String) (h : isLower w = false) :
    tokenType w ∈ regexTypes ∧ tokenType w ∈ LexTables.notKeywords ∧ tokenType w ≠ "REGISTER" := by
  have hreg : w ∉ LexTables.registerWords := by
    intro hm
    have : ∀ k ∈ LexTables.registerWords, isLower k = true := by decide +kernel
    rw [this w hm] at h; cases h
  have hmem : tokenType w ∈ regexTypes := by
    rcases tokenType_cases w with ⟨hl, _, _⟩ | ⟨hm, _⟩ | hm
    · rw [hl] at h; cases h
    · exact absurd hm hreg
    · exact hm
  exact ⟨hmem, (regexTypes_not_keywords.1 _ hmem).1, (regexTypes_not_keywords.1 _ hmem).2⟩

/-- … and if it has the name form and is not one of `H S B K`, it is a `NAME` carrying itself:
case variants of keywords (`Set`, `IF`, `Define`) and of register words (`Hue`) are free. -/
theorem C16_case_sensitive_name (n : Nat) (c : Char) (cs : List Char)
    (hc : isNameStart c = true) (hcs : cs.all isNameChar = true)
    (hu : isLower (String.ofList (c :: cs)) = false)
    (ha : String.ofList (c :: cs) ∉ LexTables.abbreviations.map (·.1)) :
    lineTokens n (splitLine ((c :: cs).length + 1) (c :: cs))
      = [⟨"NAME", String.ofList (c :: cs), n⟩] := by
  have hk : ∀ k ∈ LexTables.keywords, isLower k = true := by decide +kernel
  have hr : ∀ k ∈ LexTables.registerWords, isLower k = true := by decide +kernel
  refine C16_identifier_free n c cs hc hcs (fun hm => ?_) (fun hm => ?_) ha
  · rw [hk _ hm] at hu; cases hu
  · rw [hr _ hm] at hu; cases hu

/-- the internal token-class names are ordinary names too (on the pinned tree a variable called
`number` crashed the compiler and `eof` ended the script) -/
theorem C16_class_names_free (n : Nat) :
    ∀ t ∈ LexTables.notKeywords,
      lineTokens n (splitLine ((t.toList.map Char.toLower).length + 1) (t.toList.map Char.toLower))
        = [⟨"NAME", String.ofList (t.toList.map Char.toLower), n⟩] := by
  intro t ht
  have key : ∀ t ∈ LexTables.notKeywords,
      (match t.toList.map Char.toLower with
        | c :: cs => isNameStart c && cs.all isNameChar
        | [] => false) = true ∧
      String.ofList (t.toList.map Char.toLower) ∉ LexTables.keywords ∧
      String.ofList (t.toList.map Char.toLower) ∉ LexTables.registerWords ∧
      String.ofList (t.toList.map Char.toLower) ∉ LexTables.abbreviations.map (·.1) := by
    decide +kernel
  obtain ⟨h1, h2, h3, h4⟩ := key t ht
  cases hw : t.toList.map Char.toLower with
  | nil => rw [hw] at h1; cases h1
  | cons c cs =>
    rw [hw] at h1 h2 h3 h4
    simp only [Bool.and_eq_true] at h1
    exact C16_identifier_free n c cs h1.1 h1.2 h2 h3 h4

example : lineTokens 7 (splitLine 4 "Set".toList) = [⟨"NAME", "Set", 7⟩] := by decide +kernel
example : lineTokens 7 (splitLine 7 "number".toList) = [⟨"NAME", "number", 7⟩] := by
  decide +kernel
example : lineTokens 7 (splitLine 4 "_x9".toList) = [⟨"NAME", "_x9", 7⟩] := by decide +kernel
example : lineTokens 7 (splitLine 4 "eof".toList) = [⟨"NAME", "eof", 7⟩] :=
  C16_identifier_free_string "eof" 'e' ['o', 'f'] rfl (by decide) (by decide) (by decide)
    (by decide) (by decide)
/-- the hypotheses of `C16_identifier_free` exclude exactly what they should -/
example : lineTokens 7 (splitLine 4 "set".toList) = [⟨"SET", "set", 7⟩] := by decide +kernel
example : tokenType "Set" = "NAME" ∧ isLower "Set" = false := by decide +kernel

/-! ## 6. The four abbreviations -/

/-- `H S B K` give exactly the tokens of `hue saturation brightness kelvin`, on every line, and
there are no other abbreviations. -/
theorem C16_abbrev_same (n : Nat) :
    lineTokens n [['H']] = lineTokens n ["hue".toList] ∧
    lineTokens n [['S']] = lineTokens n ["saturation".toList] ∧
    lineTokens n [['B']] = lineTokens n ["brightness".toList] ∧
    lineTokens n [['K']] = lineTokens n ["kelvin".toList] ∧
    LexTables.abbreviations.length = 4 ∧
    LexTables.abbreviations.map (·.1) = ["B", "H", "K", "S"] :=
  ⟨rfl, rfl, rfl, rfl, rfl, rfl⟩

/-- … in any position of a line: the match `H` and the match `hue` give the same token -/
theorem C16_abbrev_same_in_line (n : Nat) (pre post : List (List Char)) :
    ∀ p ∈ [("H", "hue"), ("S", "saturation"), ("B", "brightness"), ("K", "kelvin")],
      lineTokens n (pre ++ p.1.toList :: post) = lineTokens n (pre ++ p.2.toList :: post) := by
  intro p hp
  induction pre with
  | nil =>
    simp only [List.mem_cons, List.not_mem_nil, or_false] at hp
    rcases hp with rfl | rfl | rfl | rfl <;> rfl
  | cons m pre ih =>
    simp only [List.cons_append, lineTokens]
    split
    · rfl
    · split <;> rw [ih]

example : lineTokens 2 (splitLine 99 "set H 120 S 50 B 75 K 2700".toList)
    = lineTokens 2 (splitLine 99 "set hue 120 saturation 50 brightness 75 kelvin 2700".toList) := by
  decide +kernel
example : lineTokens 2 [['H']] = [⟨"REGISTER", "hue", 2⟩] := by decide +kernel
/-- lower-case `h` is not an abbreviation -/
example : lineTokens 2 [['h']] = [⟨"NAME", "h", 2⟩] := by decide +kernel

/-! ## 3. A quoted string may contain anything but a double quote -/

/-- Content without `"` and without `\`: the text `"cs"` followed by ANY further text `rest`
(white space, letters, another quote, …) gives the ONE token `LITERAL_STRING cs` and then the
tokens of `rest`.  Nothing inside `cs` — punctuation, keywords, `#`, digits, white space — is
seen by the other scanners. -/
theorem C16_string_free (n f : Nat) (cs rest : List Char) (hq : '"' ∉ cs) (hb : '\\' ∉ cs) :
    lineTokens n (splitLine (f + 1) ('"' :: (cs ++ '"' :: rest)))
      = ⟨"LITERAL_STRING", String.ofList cs, n⟩ :: lineTokens n (splitLine f rest) := by
  rw [splitLine_string f cs rest (scanStringBody_simple '"' cs rest hq hb (by decide)),
    lineTokens_string n cs hq]

/-- … in particular the line consisting of the literal alone is that single token -/
theorem C16_string_free_alone (n f : Nat) (cs : List Char) (hq : '"' ∉ cs) (hb : '\\' ∉ cs) :
    lineTokens n (splitLine (f + 1) ('"' :: (cs ++ ['"'])))
      = [⟨"LITERAL_STRING", String.ofList cs, n⟩] := by
  rw [C16_string_free n f cs [] hq hb, splitLine_nil]; rfl

/-- … and followed by a blank and more text, as asked for in the property -/
theorem C16_string_free_then_space (n f : Nat) (cs rest : List Char) (hq : '"' ∉ cs)
    (hb : '\\' ∉ cs) :
    lineTokens n (splitLine (f + 2) ('"' :: (cs ++ '"' :: ' ' :: rest)))
      = ⟨"LITERAL_STRING", String.ofList cs, n⟩ :: lineTokens n (splitLine f rest) := by
  rw [C16_string_free n (f + 1) cs (' ' :: rest) hq hb]
  rfl

/-- Backslashes: content without `"` but with arbitrary backslashes (also at the end) is still
ONE string token carrying exactly the content, PROVIDED no further `"` follows on the line.
(If one does, a content ending in a backslash makes the regular expression treat the closing
quote as escaped and the literal runs on to the LAST such quote — `(?<=\\)"`; see the example
below.  The manual's "any characters other than a double quote" is therefore true of a line
with one string, not of every line.) -/
theorem C16_string_backslash_last (n f : Nat) (cs rest : List Char) (hq : '"' ∉ cs)
    (hr : '"' ∉ rest) :
    lineTokens n (splitLine (f + 1) ('"' :: (cs ++ '"' :: rest)))
      = ⟨"LITERAL_STRING", String.ofList cs, n⟩ :: lineTokens n (splitLine f rest) := by
  rw [splitLine_string f cs rest (scanStringBody_last '"' cs rest hq hr),
    lineTokens_string n cs hq]

/-- `#` inside a string literal is not a comment, and what follows the literal is still lexed -/
theorem C16_hash_in_string (n f : Nat) (a b rest : List Char) (ha : '"' ∉ a) (hb : '"' ∉ b)
    (ha' : '\\' ∉ a) (hb' : '\\' ∉ b) :
    lineTokens n (splitLine (f + 1) ('"' :: (a ++ '#' :: b ++ '"' :: rest)))
      = ⟨"LITERAL_STRING", String.ofList (a ++ '#' :: b), n⟩ :: lineTokens n (splitLine f rest) := by
  have := C16_string_free n f (a ++ '#' :: b) rest (by simp [ha, hb]) (by simp [ha', hb'])
  simpa using this

example : lineTokens 1 (splitLine 99 "\"[ - { # 12:30 end\"".toList)
    = [⟨"LITERAL_STRING", "[ - { # 12:30 end", 1⟩] := by decide +kernel
example : lineTokens 1 (splitLine 99 "define x \"a#b\" # c \"d\"".toList)
    = [⟨"DEFINE", "define", 1⟩, ⟨"NAME", "x", 1⟩, ⟨"LITERAL_STRING", "a#b", 1⟩] := by
  decide +kernel
/-- a content ending in a backslash, alone on its line: one string -/
example : lineTokens 1 (splitLine 99 "\"C:\\dir\\\" x".toList)
    = [⟨"LITERAL_STRING", "C:\\dir\\", 1⟩, ⟨"NAME", "x", 1⟩] := by decide +kernel
/-- … but with a second literal on the line the two are joined (why `C16_string_backslash_last`
needs `'"' ∉ rest`) -/
example : lineTokens 1 (splitLine 99 "\"a\\\" \"b\"".toList)
    = [⟨"LITERAL_STRING", "a\" ", 1⟩, ⟨"NAME", "b", 1⟩, ⟨"ERROR", "\"", 1⟩] := by decide +kernel

end Bardolph.Lex

/-! ## 7. The two peephole equivalences behind "braces round a single value change nothing"

`{v}` compiles to `PUSHQ v; POP d` (resp. `PUSH src; POP d`) where the bare value compiles to
`MOVEQ v d` (resp. `MOVE src d`).  The harness normalises instruction lists with these two
rewrites before comparing them; the lemmas say the rewrites do not change what the VM does,
apart from the program counter (one instruction fewer).

`MOVEQ` into the `unit_mode` register converts the colour registers, a `POP` there does not —
hence `d ≠ unit_mode`.  `PUSH` of a register or variable holding `None` faults, `MOVE` copies
the `None` — hence the hypothesis on `s.read src` (`C16_push_none_faults`). -/
namespace Bardolph
open Vm VmSteps

theorem putVariable_pc (s : State) (n : String) (v : Val) (x : Int) :
    ({ s with pc := x }).putVariable n v = { s.putVariable n v with pc := x } := by
  unfold State.putVariable
  simp only
  repeat' split
  all_goals first | rfl | simp_all

theorem put_pc (s : State) (d : Dst) (v : Val) (x : Int) :
    ({ s with pc := x }).put d v = { s.put d v with pc := x } := by
  cases d with
  | reg r => rfl
  | var n => exact putVariable_pc s n v x
  | loopVar l =>
    simp only [State.put, State.putLoopVar]
    split <;> rfl

theorem put_pc_eq (s : State) (d : Dst) (v : Val) : (s.put d v).pc = s.pc := by
  cases d with
  | reg r => rfl
  | var n =>
    simp only [State.put]
    unfold State.putVariable
    repeat' split
    all_goals rfl
  | loopVar l =>
    simp only [State.put, State.putLoopVar]
    split <;> rfl

theorem execInstr_moveq (img : Image) (s : State) (v : Val) (d : Dst) (hd : d ≠ .reg .unitMode) :
    execInstr img s (.moveq v d) = s.put d v := by
  cases d with
  | reg r => cases r <;> first | exact absurd rfl hd | rfl
  | var n => rfl
  | loopVar l => rfl

/-- the state after `PUSHQ v; POP d` resp. after `MOVEQ v d`, described explicitly -/
theorem pushq_pop_run (img : Image) (s : State) (p : Nat) (v : Val) (d : Dst)
    (hs : s.status = .running) (hpc : s.pc = (p : Int)) (hc : CodeAt img p [.pushq v, .pop d]) :
    run img 2 s = if (s.put d v).status = .running then { s.put d v with pc := (p : Int) + 2 }
      else { s.put d v with pc := (p : Int) + 1 } := by
  have h1 := step_pushq img s p v hs hpc hc.head
  have hi2 : img.code[p + 1]? = some (.pop d) := hc.tail.head
  rw [show (2 : Nat) = 1 + 1 from rfl, run_add, run_one img s hs, h1]
  rw [run_one _ _ (by simpa using hs)]
  rw [step_pop img _ (p + 1) d v s.eval (by simpa using hs) (by simp) hi2 rfl]
  simp only [put_pc]
  split
  · rw [Int.add_assoc]; rfl
  · rfl

theorem moveq_step (img : Image) (s : State) (p : Nat) (v : Val) (d : Dst)
    (hs : s.status = .running) (hpc : s.pc = (p : Int)) (hc : CodeAt img p [.moveq v d])
    (hd : d ≠ .reg .unitMode) :
    step img s = if (s.put d v).status = .running then { s.put d v with pc := (p : Int) + 1 }
      else s.put d v := by
  rw [step_plain_gen img s p _ hs hpc hc.head (by simp) rfl, execInstr_moveq img s v d hd,
    put_pc_eq, hpc]


theorem push_step (img : Image) (s : State) (p : Nat) (src : Src)
    (hs : s.status = .running) (hpc : s.pc = (p : Int)) (hi : img.code[p]? = some (.push src))
    (hv : (∀ x, src ≠ .lit x) → s.read src ≠ .none) :
    step img s = { s with pc := (p : Int) + 1, eval := s.read src :: s.eval } := by
  by_cases hl : ∀ x, src ≠ .lit x
  · exact step_push img s p src _ hs hpc hi hl rfl (hv hl)
  · have : ∃ x, src = .lit x := by
      cases src with
      | lit x => exact ⟨x, rfl⟩
      | _ => exact absurd (fun x => by simp) hl
    obtain ⟨x, rfl⟩ := this
    rw [step_plain img s p _ hs hpc hi (by simp) rfl]
    · simp [execInstr, hpc, State.read]
    · simp [execInstr, hs]

theorem push_pop_run (img : Image) (s : State) (p : Nat) (src : Src) (d : Dst)
    (hs : s.status = .running) (hpc : s.pc = (p : Int)) (hc : CodeAt img p [.push src, .pop d])
    (hv : (∀ x, src ≠ .lit x) → s.read src ≠ .none) :
    run img 2 s = if (s.put d (s.read src)).status = .running
      then { s.put d (s.read src) with pc := (p : Int) + 2 }
      else { s.put d (s.read src) with pc := (p : Int) + 1 } := by
  have h1 := push_step img s p src hs hpc hc.head hv
  have hi2 : img.code[p + 1]? = some (.pop d) := hc.tail.head
  rw [show (2 : Nat) = 1 + 1 from rfl, run_add, run_one img s hs, h1]
  rw [run_one _ _ (by simpa using hs)]
  rw [step_pop img _ (p + 1) d (s.read src) s.eval (by simpa using hs) (by simp) hi2 rfl]
  simp only [put_pc]
  split
  · rw [Int.add_assoc]; rfl
  · rfl

theorem move_step (img : Image) (s : State) (p : Nat) (src : Src) (d : Dst)
    (hs : s.status = .running) (hpc : s.pc = (p : Int)) (hc : CodeAt img p [.move src d]) :
    step img s = if (s.put d (s.read src)).status = .running
      then { s.put d (s.read src) with pc := (p : Int) + 1 } else s.put d (s.read src) := by
  rw [step_plain_gen img s p _ hs hpc hc.head (by simp) rfl]
  simp only [execInstr, put_pc_eq, hpc]

/-- `PUSH src` of a non-literal operand whose value is `None` faults -/
theorem push_none_faults (img : Image) (s : State) (p : Nat) (src : Src)
    (hs : s.status = .running) (hpc : s.pc = (p : Int)) (hi : img.code[p]? = some (.push src))
    (hl : ∀ x, src ≠ .lit x) (hv : s.read src = .none) :
    (step img s).status = .fault "pushing None onto eval stack" := by
  have hex : execInstr img s (.push src) = s.fault "pushing None onto eval stack" := by
    cases src with
    | lit x => exact absurd rfl (hl x)
    | _ => simp only [execInstr, hv]
  rw [step_plain_gen img s p _ hs hpc hi (by simp) rfl, hex]
  simp [State.fault]


/-- `PUSHQ v; POP d` at `p` in one image, `MOVEQ v d` at `p` in another: after two steps resp.
one step the machines are in the same state (`s.put d v`, including a fault raised by the
store) except for `pc`; if the store succeeded the program counters are just past the
respective code. -/
theorem C16_peephole_pushq_pop (img img' : Image) (s : State) (p : Nat) (v : Val) (d : Dst)
    (hs : s.status = .running) (hpc : s.pc = (p : Int))
    (hc : CodeAt img p [.pushq v, .pop d]) (hc' : CodeAt img' p [.moveq v d])
    (hd : d ≠ .reg .unitMode) :
    { run img 2 s with pc := 0 } = { step img' s with pc := 0 } ∧
    { step img' s with pc := 0 } = { s.put d v with pc := 0 } ∧
    ((step img' s).status = .running →
      (run img 2 s).pc = (p : Int) + 2 ∧ (step img' s).pc = (p : Int) + 1) := by
  rw [pushq_pop_run img s p v d hs hpc hc, moveq_step img' s p v d hs hpc hc' hd]
  by_cases h : (s.put d v).status = .running
  · rw [if_pos h, if_pos h]; exact ⟨rfl, rfl, fun _ => ⟨rfl, rfl⟩⟩
  · rw [if_neg h, if_neg h]; exact ⟨rfl, rfl, fun h' => absurd h' h⟩

/-- `PUSH src; POP d` against `MOVE src d`, when the pushed value is not `None` (or `src` is a
literal, which `PUSH` does not test) -/
theorem C16_peephole_push_pop (img img' : Image) (s : State) (p : Nat) (src : Src) (d : Dst)
    (hs : s.status = .running) (hpc : s.pc = (p : Int))
    (hc : CodeAt img p [.push src, .pop d]) (hc' : CodeAt img' p [.move src d])
    (hv : (∀ x, src ≠ .lit x) → s.read src ≠ .none) :
    { run img 2 s with pc := 0 } = { step img' s with pc := 0 } ∧
    { step img' s with pc := 0 } = { s.put d (s.read src) with pc := 0 } ∧
    ((step img' s).status = .running →
      (run img 2 s).pc = (p : Int) + 2 ∧ (step img' s).pc = (p : Int) + 1) := by
  rw [push_pop_run img s p src d hs hpc hc hv, move_step img' s p src d hs hpc hc']
  by_cases h : (s.put d (s.read src)).status = .running
  · rw [if_pos h, if_pos h]; exact ⟨rfl, rfl, fun _ => ⟨rfl, rfl⟩⟩
  · rw [if_neg h, if_neg h]; exact ⟨rfl, rfl, fun h' => absurd h' h⟩

/-- why `C16_peephole_push_pop` needs its hypothesis: with `None` in a non-literal source the
`PUSH` faults, the `MOVE` stores the `None` -/
theorem C16_push_none_faults (img img' : Image) (s : State) (p : Nat) (src : Src) (d : Dst)
    (hs : s.status = .running) (hpc : s.pc = (p : Int))
    (hc : CodeAt img p [.push src, .pop d]) (hc' : CodeAt img' p [.move src d])
    (hl : ∀ x, src ≠ .lit x) (hv : s.read src = .none) :
    (run img 2 s).status = .fault "pushing None onto eval stack" ∧
    { step img' s with pc := 0 } = { s.put d .none with pc := 0 } := by
  constructor
  · have h1 := push_none_faults img s p src hs hpc hc.head hl hv
    rw [show (2 : Nat) = 1 + 1 from rfl, run_add, run_one img s hs,
      run_halted _ _ _ (by rw [h1]; simp), h1]
  · rw [move_step img' s p src d hs hpc hc', hv]
    split <;> rfl

/-! non-vacuity: concrete images and a concrete state -/

example : CodeAt ⟨#[.nop, .pushq (.num 5), .pop (.reg .hue), .stop], []⟩ 1
    [.pushq (.num 5), .pop (.reg .hue)] := CodeAt.intro [.nop] _ [.stop] []
example : CodeAt ⟨#[.nop, .moveq (.num 5) (.reg .hue), .stop], []⟩ 1
    [.moveq (.num 5) (.reg .hue)] := CodeAt.intro [.nop] _ [.stop] []

example :
    let s : State := { Vm.init [] with pc := 1 }
    { run ⟨#[.nop, .pushq (.num 5), .pop (.reg .hue), .stop], []⟩ 2 s with pc := 0 }
      = { step ⟨#[.nop, .moveq (.num 5) (.reg .hue), .stop], []⟩ s with pc := 0 } :=
  (C16_peephole_pushq_pop _ _ _ 1 (.num 5) (.reg .hue) rfl rfl
    (CodeAt.intro [.nop] _ [.stop] []) (CodeAt.intro [.nop] _ [.stop] []) (by decide)).1

example :
    let s : State := { Vm.init [] with pc := 1 }
    { run ⟨#[.nop, .push (.reg .hue), .pop (.var "x"), .stop], []⟩ 2 s with pc := 0 }
      = { step ⟨#[.nop, .move (.reg .hue) (.var "x"), .stop], []⟩ s with pc := 0 } :=
  (C16_peephole_push_pop _ _ _ 1 (.reg .hue) (.var "x") rfl rfl
    (CodeAt.intro [.nop] _ [.stop] []) (CodeAt.intro [.nop] _ [.stop] [])
    (fun _ => by simp [State.read, Vm.init, initRegs])).1

end Bardolph
