import Bardolph.Model.Lex
/-! # C16 — compilation depends only on the token sequence (theorems below) -/
namespace Bardolph
end Bardolph
