import Bardolph.Model.Lex
import Bardolph.Proofs.LexLemmas
import Bardolph.Proofs.VmSteps
/-!
# C16 — compilation depends only on the token sequence; every documented name is usable

Theorems about the lexer model `Bardolph.Lex` (`Model/Lex.lean`, a hand-written model of
`bardolph/parser/lex.py`; helper lemmas in `Proofs/LexLemmas.lean`) and two peephole lemmas
about the VM model.  Statements are about one line as a `List Char`: `splitLine` is
`re.finditer` over the line, `lineTokens` turns the matches into tokens.  Every fuel that is
at least the length of the text gives the same result (`splitLine_fuel`); `Lex.tokens` uses
`length + 1`.

1. `C16_regex_sources_agree` pins the regular-expression SOURCE strings, the order of the
   alternation, the classification order, the abbreviation table, the punctuation list and
   `_NOT_KEYWORDS` — all regenerated from the Python source on every run — to the literals the
   hand-written scanners implement.  Changing a regular expression in `lex.py` breaks it.
   `C16_keyword_table_shape`: keywords = lower-cased `TokenTypes` minus `_NOT_KEYWORDS`.
2. `C16_identifier_free` (+ `_string`), `C16_case_sensitive`, `C16_case_sensitive_name`,
   `C16_class_names_free`: every word of the documented name form that is not a generated
   keyword, register word or abbreviation is ONE `NAME` token carrying itself; a word with an
   upper-case letter never gets a keyword type; `number`, `eof`, `mark`, … are names.
3. `C16_string_free_general`, `C16_string_free`, `C16_string_backslash_last`,
   `C16_hash_in_string`: a quoted string whose content has no `"` and does not end in `\` is
   ONE `LITERAL_STRING` token carrying exactly its content, whatever follows; content ending
   in `\` too if no other `"` follows on the line (known finding C16-F1 otherwise).
4. `C16_whitespace_insensitive`, `C16_whitespace_kind`, `C16_leading_whitespace`,
   `C16_trailing_whitespace`, `C16_tokens_never_join`, `C16_linebreak_as_blank`;
   `C16_punct_own_token`, `C16_word_then_any`, `C16_digits_then_any` (no white space needed
   round operators, braces, brackets); `C16_layout_invariant`, `C16_relayout` (a line of
   quote-free pieces and string literals separated by arbitrary non-empty white space has the
   matches of its pieces, whatever the separators).
5. `C16_comment_cut`, `C16_no_comment_no_cut`, `C16_comment_after_ws`, `C16_comment_line`.
6. `C16_abbrev_same`, `C16_abbrev_same_in_line`.
7. `C16_peephole_pushq_pop`, `C16_peephole_push_pop`, `C16_push_none_faults`, `C16_negate_int`,
   `C16_negate_num` (VM).

Not covered here (correspondence/tests only): the `String`-level `Lex.tokens` (splitting the
text at `\n`), the parser's optional brackets/braces, and white space other than the six
ASCII characters of `isWs` (Python's `\s` also takes `\x1c`–`\x1f`, `\x85`, `\xa0`, …: the
model lexes `"@\x1c@"` as one ERROR token, Python as two).
-/
namespace Bardolph.Lex
open Bardolph.Generated

/-! ## 1. The generated tables are the ones the scanners implement -/

theorem C16_regex_sources_agree :
    Generated.TimePattern.regexSpec
        = "(\\*|\\*\\d|\\d\\*|\\d\\d?):(\\d\\d|\\d\\*|\\*\\d|\\*)(?=(\\s|[#\\]]|$))" ∧
    LexTables.cmpSpec = "==|<=|>=|!=|[<>]" ∧
    LexTables.literalStringSpec = "\"([^\"]|(?<=\\\\)\")*\"" ∧
    LexTables.numberSpec = "[0-9]*\\.?[0-9]+" ∧
    LexTables.nameSpec = "[a-zA-Z_][a-zA-Z0-9_]*" ∧
    LexTables.nonAlnumSpec = "==|<=|>=|[\\[\\]\\(\\){}+\\-*<>/%#:\\^]" ∧
    LexTables.defaultSpec = "[^\\s]+" ∧
    LexTables.alternationOrder =
      ["TimePattern.REGEX_SPEC", "_CMP_SPEC", "_LITERAL_STRING_SPEC", "_NUMBER_SPEC",
       "_NAME_SPEC", "_NON_ALNUM_SPEC", "_DEFAULT_SPEC"] ∧
    LexTables.classifyOrder = ["COMPARE", "TIME_PATTERN", "LITERAL_STRING", "NUMBER", "NAME"] ∧
    LexTables.abbreviations =
      [("B", "brightness"), ("H", "hue"), ("K", "kelvin"), ("S", "saturation")] ∧
    LexTables.nonAlnumList = "[]{}()+-*/%#:^" ∧
    LexTables.notKeywords =
      ["COMPARE", "EOF", "ERROR", "LITERAL_STRING", "MARK", "NAME", "NULL", "NUMBER", "REGISTER",
       "SYNTAX_ERROR", "TIME_PATTERN", "UNKNOWN"] := by
  decide

/-- the keyword list is exactly the lower-cased `TokenTypes` members that are not in
`_NOT_KEYWORDS` (as a set: the generated list is sorted); every keyword and register word is lower case and of the name form -/
theorem C16_keyword_table_shape :
    (∀ w : List Char, w ∈ LexTables.keywords.map String.toList ↔
      w ∈ (LexTables.tokenTypes.filter (!LexTables.notKeywords.contains ·)).map
        (fun s => s.toList.map Char.toLower)) ∧
    LexTables.keywords.all isLower = true ∧ LexTables.registerWords.all isLower = true ∧
    (LexTables.keywords ++ LexTables.registerWords).all (fun k =>
      match k.toList with
      | c :: cs => isNameStart c && cs.all isNameChar
      | [] => false) = true := by
  refine ⟨fun w => ⟨fun h => ?_, fun h => ?_⟩, by decide +kernel, by decide +kernel,
    by decide +kernel⟩
  · have : ∀ w ∈ LexTables.keywords.map String.toList,
        w ∈ (LexTables.tokenTypes.filter (!LexTables.notKeywords.contains ·)).map
          (fun s => s.toList.map Char.toLower) := by decide +kernel
    exact this w h
  · have : ∀ w ∈ (LexTables.tokenTypes.filter (!LexTables.notKeywords.contains ·)).map
          (fun s => s.toList.map Char.toLower), w ∈ LexTables.keywords.map String.toList := by
      decide +kernel
    exact this w h

/-! ## 2. Every word of the documented name form is usable as a name, case-sensitively -/

/-- A word `c :: cs` of the documented name form (a letter or underscore, then letters, digits,
underscores) that is not one of the generated keywords, register words or abbreviation keys is
ONE match of the token regular expression and becomes ONE `NAME` token whose content is the
word itself, unchanged. -/
theorem C16_identifier_free (n : Nat) (c : Char) (cs : List Char)
    (hc : isNameStart c = true) (hcs : cs.all isNameChar = true)
    (hk : String.ofList (c :: cs) ∉ LexTables.keywords)
    (hr : String.ofList (c :: cs) ∉ LexTables.registerWords)
    (ha : String.ofList (c :: cs) ∉ LexTables.abbreviations.map (·.1)) :
    lineTokens n (splitLine ((c :: cs).length + 1) (c :: cs))
      = [⟨"NAME", String.ofList (c :: cs), n⟩] := by
  rw [splitLine_name hc hcs, lineTokens_name n hc hk hr ha]; rfl

/-- the same for a whole one-word script, at the `String` level -/
theorem C16_identifier_free_string (w : String) (c : Char) (cs : List Char)
    (hw : w.toList = c :: cs) (hc : isNameStart c = true) (hcs : cs.all isNameChar = true)
    (hk : w ∉ LexTables.keywords) (hr : w ∉ LexTables.registerWords)
    (ha : w ∉ LexTables.abbreviations.map (·.1)) :
    lineTokens n (splitLine (w.length + 1) w.toList) = [⟨"NAME", w, n⟩] := by
  have e : w = String.ofList (c :: cs) := by rw [← hw, String.ofList_toList]
  have hl : w.length = (c :: cs).length := by rw [← hw, String.length_toList]
  rw [hl, hw]
  subst e
  exact C16_identifier_free n c cs hc hcs hk hr ha

/-- the types the regular-expression classification of `Lex._token_type` can give -/
def regexTypes : List String :=
  ["COMPARE", "TIME_PATTERN", "LITERAL_STRING", "NUMBER", "NAME", "ERROR"]

/-- none of them is the type of a keyword, and none is `REGISTER` -/
theorem regexTypes_not_keywords :
    (∀ t ∈ regexTypes, t ∈ LexTables.notKeywords ∧ t ≠ "REGISTER") ∧
    (∀ k ∈ LexTables.keywords, ∀ t ∈ regexTypes, t.toList ≠ k.toList.map Char.toUpper) := by
  constructor <;> decide +kernel

/-- `Lex._token_type`: a keyword type is given only to a lower-case word in the keyword list,
`REGISTER` only to a register word; everything else is classified by the regular
expressions. -/
theorem tokenType_cases (w : String) :
    (isLower w = true ∧ w ∈ LexTables.keywords ∧ tokenType w = w.toUpper) ∨
    (w ∈ LexTables.registerWords ∧ tokenType w = "REGISTER") ∨
    tokenType w ∈ regexTypes := by
  unfold tokenType
  by_cases h1 : (isLower w && LexTables.keywords.contains w) = true
  · left
    rw [if_pos h1]
    simp only [Bool.and_eq_true, List.contains_eq_mem, decide_eq_true_eq] at h1
    exact ⟨h1.1, h1.2, rfl⟩
  · right
    rw [if_neg h1]
    by_cases h2 : LexTables.registerWords.contains w = true
    · left
      rw [if_pos h2]
      exact ⟨by simpa using h2, rfl⟩
    · right
      rw [if_neg h2]
      cases hf : LexTables.classifyOrder.find? fun t => classifyBy t w.toList with
      | none => simp [regexTypes]
      | some t =>
        have hm := List.mem_of_find?_eq_some hf
        simp only [Option.getD_some]
        revert hm
        simp only [LexTables.classifyOrder, regexTypes, List.mem_cons, List.not_mem_nil, or_false]
        intro hm
        rcases hm with h | h | h | h | h <;> simp [h]

/-- Case sensitivity: a word that contains an upper-case ASCII letter is never given a keyword
type and never `REGISTER` — `Lex._token_type` classifies it by the regular expressions only
(so `Set`, `IF`, `Hue` are names).  (The four one-letter abbreviations are replaced BEFORE
classification, see `C16_abbrev_same`.) -/
theorem C16_case_sensitive (w : String) (h : isLower w = false) :
    tokenType w ∈ regexTypes ∧ tokenType w ∈ LexTables.notKeywords ∧ tokenType w ≠ "REGISTER" := by
  have hreg : w ∉ LexTables.registerWords := by
    intro hm
    have : ∀ k ∈ LexTables.registerWords, isLower k = true := by decide +kernel
    rw [this w hm] at h; cases h
  have hmem : tokenType w ∈ regexTypes := by
    rcases tokenType_cases w with ⟨hl, _, _⟩ | ⟨hm, _⟩ | hm
    · rw [hl] at h; cases h
    · exact absurd hm hreg
    · exact hm
  exact ⟨hmem, (regexTypes_not_keywords.1 _ hmem).1, (regexTypes_not_keywords.1 _ hmem).2⟩

/-- … and if it has the name form and is not one of `H S B K`, it is a `NAME` carrying itself:
case variants of keywords (`Set`, `IF`, `Define`) and of register words (`Hue`) are free. -/
theorem C16_case_sensitive_name (n : Nat) (c : Char) (cs : List Char)
    (hc : isNameStart c = true) (hcs : cs.all isNameChar = true)
    (hu : isLower (String.ofList (c :: cs)) = false)
    (ha : String.ofList (c :: cs) ∉ LexTables.abbreviations.map (·.1)) :
    lineTokens n (splitLine ((c :: cs).length + 1) (c :: cs))
      = [⟨"NAME", String.ofList (c :: cs), n⟩] := by
  have hk : ∀ k ∈ LexTables.keywords, isLower k = true := by decide +kernel
  have hr : ∀ k ∈ LexTables.registerWords, isLower k = true := by decide +kernel
  refine C16_identifier_free n c cs hc hcs (fun hm => ?_) (fun hm => ?_) ha
  · rw [hk _ hm] at hu; cases hu
  · rw [hr _ hm] at hu; cases hu

/-- the internal token-class names are ordinary names too (on the pinned tree a variable called
`number` crashed the compiler and `eof` ended the script) -/
theorem C16_class_names_free (n : Nat) :
    ∀ t ∈ LexTables.notKeywords,
      lineTokens n (splitLine ((t.toList.map Char.toLower).length + 1) (t.toList.map Char.toLower))
        = [⟨"NAME", String.ofList (t.toList.map Char.toLower), n⟩] := by
  intro t ht
  have key : ∀ t ∈ LexTables.notKeywords,
      (match t.toList.map Char.toLower with
        | c :: cs => isNameStart c && cs.all isNameChar
        | [] => false) = true ∧
      String.ofList (t.toList.map Char.toLower) ∉ LexTables.keywords ∧
      String.ofList (t.toList.map Char.toLower) ∉ LexTables.registerWords ∧
      String.ofList (t.toList.map Char.toLower) ∉ LexTables.abbreviations.map (·.1) := by
    decide +kernel
  obtain ⟨h1, h2, h3, h4⟩ := key t ht
  cases hw : t.toList.map Char.toLower with
  | nil => rw [hw] at h1; cases h1
  | cons c cs =>
    rw [hw] at h1 h2 h3 h4
    simp only [Bool.and_eq_true] at h1
    exact C16_identifier_free n c cs h1.1 h1.2 h2 h3 h4

example : lineTokens 7 (splitLine 4 "Set".toList) = [⟨"NAME", "Set", 7⟩] := by decide +kernel
example : lineTokens 7 (splitLine 7 "number".toList) = [⟨"NAME", "number", 7⟩] := by
  decide +kernel
example : lineTokens 7 (splitLine 4 "_x9".toList) = [⟨"NAME", "_x9", 7⟩] := by decide +kernel
example : lineTokens 7 (splitLine 4 "eof".toList) = [⟨"NAME", "eof", 7⟩] :=
  C16_identifier_free_string "eof" 'e' ['o', 'f'] rfl (by decide) (by decide) (by decide)
    (by decide) (by decide)
/-- the hypotheses of `C16_identifier_free` exclude exactly what they should -/
example : lineTokens 7 (splitLine 4 "set".toList) = [⟨"SET", "set", 7⟩] := by decide +kernel
example : tokenType "Set" = "NAME" ∧ isLower "Set" = false := by decide +kernel

/-! ## 6. The four abbreviations -/

/-- `H S B K` give exactly the tokens of `hue saturation brightness kelvin`, on every line, and
there are no other abbreviations. -/
theorem C16_abbrev_same (n : Nat) :
    lineTokens n [['H']] = lineTokens n ["hue".toList] ∧
    lineTokens n [['S']] = lineTokens n ["saturation".toList] ∧
    lineTokens n [['B']] = lineTokens n ["brightness".toList] ∧
    lineTokens n [['K']] = lineTokens n ["kelvin".toList] ∧
    LexTables.abbreviations.length = 4 ∧
    LexTables.abbreviations.map (·.1) = ["B", "H", "K", "S"] :=
  ⟨rfl, rfl, rfl, rfl, rfl, rfl⟩

/-- … in any position of a line: the match `H` and the match `hue` give the same token -/
theorem C16_abbrev_same_in_line (n : Nat) (pre post : List (List Char)) :
    ∀ p ∈ [("H", "hue"), ("S", "saturation"), ("B", "brightness"), ("K", "kelvin")],
      lineTokens n (pre ++ p.1.toList :: post) = lineTokens n (pre ++ p.2.toList :: post) := by
  intro p hp
  induction pre with
  | nil =>
    simp only [List.mem_cons, List.not_mem_nil, or_false] at hp
    rcases hp with rfl | rfl | rfl | rfl <;> rfl
  | cons m pre ih =>
    simp only [List.cons_append, lineTokens]
    split
    · rfl
    · split <;> rw [ih]

example : lineTokens 2 (splitLine 99 "set H 120 S 50 B 75 K 2700".toList)
    = lineTokens 2 (splitLine 99 "set hue 120 saturation 50 brightness 75 kelvin 2700".toList) := by
  decide +kernel
example : lineTokens 2 [['H']] = [⟨"REGISTER", "hue", 2⟩] := by decide +kernel
/-- lower-case `h` is not an abbreviation -/
example : lineTokens 2 [['h']] = [⟨"NAME", "h", 2⟩] := by decide +kernel

/-! ## 3. A quoted string may contain anything but a double quote -/

/-- Content without `"` that does not END in a backslash (backslashes elsewhere are fine): the
text `"cs"` followed by ANY further text `rest` (white space, letters, another quote, …) gives
the ONE token `LITERAL_STRING cs` and then the tokens of `rest`.  Nothing inside `cs` —
punctuation, keywords, `#`, digits, white space — is seen by the other scanners. -/
theorem C16_string_free_general (n f : Nat) (cs rest : List Char) (hq : '"' ∉ cs)
    (hl : cs.getLast? ≠ some '\\') :
    lineTokens n (splitLine (f + 1) ('"' :: (cs ++ '"' :: rest)))
      = ⟨"LITERAL_STRING", String.ofList cs, n⟩ :: lineTokens n (splitLine f rest) := by
  rw [splitLine_string f cs rest
      (scanStringBody_noesc '"' cs rest hq (getLast?_quote_cons cs hl)),
    lineTokens_string n cs hq]

/-- the same for content without `"` and without `\` at all (the form asked for) -/
theorem C16_string_free (n f : Nat) (cs rest : List Char) (hq : '"' ∉ cs) (hb : '\\' ∉ cs) :
    lineTokens n (splitLine (f + 1) ('"' :: (cs ++ '"' :: rest)))
      = ⟨"LITERAL_STRING", String.ofList cs, n⟩ :: lineTokens n (splitLine f rest) := by
  refine C16_string_free_general n f cs rest hq (fun h => hb ?_)
  exact List.mem_of_getLast? h

/-- … in particular the line consisting of the literal alone is that single token -/
theorem C16_string_free_alone (n f : Nat) (cs : List Char) (hq : '"' ∉ cs) (hb : '\\' ∉ cs) :
    lineTokens n (splitLine (f + 1) ('"' :: (cs ++ ['"'])))
      = [⟨"LITERAL_STRING", String.ofList cs, n⟩] := by
  rw [C16_string_free n f cs [] hq hb, splitLine_nil]; rfl

/-- … and followed by a blank and more text, as asked for in the property -/
theorem C16_string_free_then_space (n f : Nat) (cs rest : List Char) (hq : '"' ∉ cs)
    (hb : '\\' ∉ cs) :
    lineTokens n (splitLine (f + 2) ('"' :: (cs ++ '"' :: ' ' :: rest)))
      = ⟨"LITERAL_STRING", String.ofList cs, n⟩ :: lineTokens n (splitLine f rest) := by
  rw [C16_string_free n (f + 1) cs (' ' :: rest) hq hb]
  rfl

/-- Backslashes: content without `"` but with arbitrary backslashes (also at the end) is still
ONE string token carrying exactly the content, PROVIDED no further `"` follows on the line.
(If one does, a content ending in a backslash makes the regular expression treat the closing
quote as escaped and the literal runs on to the LAST such quote — `(?<=\\)"`; see the example
below.  The manual's "any characters other than a double quote" is therefore true of a line
with one string, not of every line.) -/
theorem C16_string_backslash_last (n f : Nat) (cs rest : List Char) (hq : '"' ∉ cs)
    (hr : '"' ∉ rest) :
    lineTokens n (splitLine (f + 1) ('"' :: (cs ++ '"' :: rest)))
      = ⟨"LITERAL_STRING", String.ofList cs, n⟩ :: lineTokens n (splitLine f rest) := by
  rw [splitLine_string f cs rest (scanStringBody_last '"' cs rest hq hr),
    lineTokens_string n cs hq]

/-- `#` inside a string literal is not a comment, and what follows the literal is still lexed -/
theorem C16_hash_in_string (n f : Nat) (a b rest : List Char) (ha : '"' ∉ a) (hb : '"' ∉ b)
    (ha' : '\\' ∉ a) (hb' : '\\' ∉ b) :
    lineTokens n (splitLine (f + 1) ('"' :: (a ++ '#' :: b ++ '"' :: rest)))
      = ⟨"LITERAL_STRING", String.ofList (a ++ '#' :: b), n⟩ :: lineTokens n (splitLine f rest) := by
  have := C16_string_free n f (a ++ '#' :: b) rest (by simp [ha, hb]) (by simp [ha', hb'])
  simpa using this

example : lineTokens 1 (splitLine 99 "\"[ - { # 12:30 end\"".toList)
    = [⟨"LITERAL_STRING", "[ - { # 12:30 end", 1⟩] := by decide +kernel
example : lineTokens 1 (splitLine 99 "define x \"a#b\" # c \"d\"".toList)
    = [⟨"DEFINE", "define", 1⟩, ⟨"NAME", "x", 1⟩, ⟨"LITERAL_STRING", "a#b", 1⟩] := by
  decide +kernel
/-- a content ending in a backslash, alone on its line: one string -/
example : lineTokens 1 (splitLine 99 "\"C:\\dir\\\" x".toList)
    = [⟨"LITERAL_STRING", "C:\\dir\\", 1⟩, ⟨"NAME", "x", 1⟩] := by decide +kernel
/-- … but with a second literal on the line the two are joined (why `C16_string_backslash_last`
needs `'"' ∉ rest`) -/
example : lineTokens 1 (splitLine 99 "\"a\\\" \"b\"".toList)
    = [⟨"LITERAL_STRING", "a\" ", 1⟩, ⟨"NAME", "b", 1⟩, ⟨"ERROR", "\"", 1⟩] := by decide +kernel

/-! ## 5. A `#` match cuts the line -/

/-- In the list of matches of a line, everything from a `#` match on is dropped: the tokens
are those of the matches before it.  (`#` is the only match that cuts: `unabbreviate_eq_hash`.) -/
theorem C16_comment_cut (n : Nat) (xs ys : List (List Char)) :
    lineTokens n (xs ++ ['#'] :: ys) = lineTokens n xs :=
  lineTokens_cut n xs ys ['#'] rfl

/-- … and before the first `#` match nothing is lost: one token per match, in order -/
theorem C16_no_comment_no_cut (n : Nat) (xs ys : List (List Char)) (h : ['#'] ∉ xs) :
    lineTokens n (xs ++ ys) = lineTokens n xs ++ lineTokens n ys ∧
    (lineTokens n xs).length = xs.length :=
  lineTokens_append n xs ys h

/-! ## 4. The amount and kind of white space between tokens does not matter -/

/-- For `a` free of double quotes and any NON-EMPTY white space `ws` (blanks, tabs, …), the
matches of `a ++ ws ++ b` are the matches of `a` followed by the matches of `b`: tokens never
join across white space, nothing of `ws` becomes a token, and what follows the white space is
lexed as if it stood alone.  All fuels that are at least the length of the text are equal
(`Lex.tokens` uses `length + 1`).

Quote-freeness of `a` is what is needed of `a` in general: every scanner except the
string-literal one looks at most one character past its match and stops at white space, while
a `"` left open in `a` would swallow `ws` (strings are covered by `C16_layout_invariant`). -/
theorem C16_whitespace_insensitive (a b ws : List Char) (f f₁ f₂ : Nat)
    (ha : '"' ∉ a) (hne : ws ≠ []) (hws : ws.all isWs = true)
    (hf : (a ++ ws ++ b).length ≤ f) (hf₁ : a.length ≤ f₁) (hf₂ : b.length ≤ f₂) :
    splitLine f (a ++ ws ++ b) = splitLine f₁ a ++ splitLine f₂ b := by
  rw [splitLine_append_ws f a ws b ha hne hws hf,
    splitLine_fuel f₁ a.length a hf₁ (Nat.le_refl _), splitLine_fuel f₂ b.length b hf₂ (Nat.le_refl _)]

/-- any white space is as good as one blank -/
theorem C16_whitespace_kind (a b ws : List Char) (f f' : Nat)
    (ha : '"' ∉ a) (hne : ws ≠ []) (hws : ws.all isWs = true)
    (hf : (a ++ ws ++ b).length ≤ f) (hf' : (a ++ [' '] ++ b).length ≤ f') :
    splitLine f (a ++ ws ++ b) = splitLine f' (a ++ [' '] ++ b) := by
  rw [splitLine_append_ws f a ws b ha hne hws hf,
    splitLine_append_ws f' a [' '] b ha (by simp) (by decide) hf']

/-- leading white space (indentation) does nothing -/
theorem C16_leading_whitespace (b ws : List Char) (f f' : Nat) (hws : ws.all isWs = true)
    (hf : (ws ++ b).length ≤ f) (hf' : b.length ≤ f') :
    splitLine f (ws ++ b) = splitLine f' b := by
  simp only [List.length_append] at hf
  have : f = (f - ws.length) + ws.length := by omega
  rw [this, splitLine_ws_list _ _ _ hws]
  exact splitLine_fuel _ _ _ (by omega) hf'

/-- trailing white space does nothing -/
theorem C16_trailing_whitespace (a ws : List Char) (f f' : Nat) (ha : '"' ∉ a)
    (hws : ws.all isWs = true) (hf : (a ++ ws).length ≤ f) (hf' : a.length ≤ f') :
    splitLine f (a ++ ws) = splitLine f' a := by
  cases ws with
  | nil => simp only [List.append_nil] at hf ⊢; exact splitLine_fuel _ _ _ hf hf'
  | cons w ws =>
    have := C16_whitespace_insensitive a [] (w :: ws) f f' 0 ha (by simp) hws (by simpa using hf)
      hf' (by simp)
    simpa [splitLine_nil] using this

/-- a comment after white space: the line lexes as if it ended before the white space -/
theorem C16_comment_after_ws (n : Nat) (a ws b : List Char) (f f' : Nat)
    (ha : '"' ∉ a) (hne : ws ≠ []) (hws : ws.all isWs = true)
    (hf : (a ++ ws ++ '#' :: b).length ≤ f) (hf' : a.length ≤ f') :
    lineTokens n (splitLine f (a ++ ws ++ '#' :: b)) = lineTokens n (splitLine f' a) := by
  rw [C16_whitespace_insensitive a ('#' :: b) ws f f' (b.length + 1) ha hne hws hf hf' (by simp),
    splitLine_hash, C16_comment_cut]

/-- a whole-line comment (possibly indented) gives no tokens -/
theorem C16_comment_line (n : Nat) (ws b : List Char) (f : Nat) (hws : ws.all isWs = true)
    (hf : (ws ++ '#' :: b).length ≤ f) :
    lineTokens n (splitLine f (ws ++ '#' :: b)) = [] := by
  rw [C16_leading_whitespace ('#' :: b) ws f (b.length + 1) hws hf (by simp), splitLine_hash]
  rfl

/-- Tokens never join across white space: without a comment in `a`, the tokens of
`a ++ ws ++ b` are the tokens of `a` followed by the tokens of `b`. -/
theorem C16_tokens_never_join (n : Nat) (a b ws : List Char) (f f₁ f₂ : Nat)
    (ha : '"' ∉ a) (hne : ws ≠ []) (hws : ws.all isWs = true)
    (hf : (a ++ ws ++ b).length ≤ f) (hf₁ : a.length ≤ f₁) (hf₂ : b.length ≤ f₂)
    (hc : ['#'] ∉ splitLine f₁ a) :
    lineTokens n (splitLine f (a ++ ws ++ b))
      = lineTokens n (splitLine f₁ a) ++ lineTokens n (splitLine f₂ b) := by
  rw [C16_whitespace_insensitive a b ws f f₁ f₂ ha hne hws hf hf₁ hf₂]
  exact (lineTokens_append n _ _ hc).1

/-- A line break is as good as a blank (up to the line numbers stored in the tokens): two
lines, the first without a comment, lex to the same (type, content) sequence as the two
joined by a blank. -/
theorem C16_linebreak_as_blank (n : Nat) (l₁ l₂ : List Char) (h₁ : '"' ∉ l₁)
    (hc : ['#'] ∉ splitLine (l₁.length + 1) l₁) :
    (lineTokens n (splitLine ((l₁ ++ [' '] ++ l₂).length + 1) (l₁ ++ [' '] ++ l₂))).map
        (fun t => (t.type, t.content))
      = (lineTokens n (splitLine (l₁.length + 1) l₁) ++
          lineTokens (n + 1) (splitLine (l₂.length + 1) l₂)).map (fun t => (t.type, t.content)) := by
  rw [C16_tokens_never_join n l₁ l₂ [' '] _ (l₁.length + 1) (l₂.length + 1) h₁ (by simp)
    (by decide) (Nat.le_succ _) (Nat.le_succ _) (Nat.le_succ _) hc]
  simp only [List.map_append]
  rw [lineTokens_line n (n + 1) (splitLine (l₂.length + 1) l₂)]

/-! ## 4b. Operators, braces and brackets need no surrounding white space -/

/-- Each of `[ ] { } ( ) + - / % : ^` is a match — and a `MARK` token — of its own wherever it
stands and whatever follows it directly (`*` too unless a time pattern such as `*:30` starts
there; `#` cuts the line: `C16_comment_cut`). -/
theorem C16_punct_own_token (n f : Nat) (p : Char) (rest : List Char) (hp : p ∈ soloPunct)
    (hne : p ≠ '#') :
    splitLine (f + 1) (p :: rest) = [p] :: splitLine f rest ∧
    lineTokens n (splitLine (f + 1) (p :: rest))
      = ⟨"MARK", String.ofList [p], n⟩ :: lineTokens n (splitLine f rest) := by
  refine ⟨splitLine_soloPunct f p rest hp, ?_⟩
  rw [splitLine_soloPunct f p rest hp]
  have key : ∀ q ∈ soloPunct, q ≠ '#' →
      unabbreviate (String.ofList [q]) = String.ofList [q] ∧
      (String.ofList [q] == "#") = false ∧
      ((String.ofList [q]).length == 1 &&
        LexTables.nonAlnumList.toList.contains ((String.ofList [q]).toList.headD ' ')) = true := by
    decide +kernel
  obtain ⟨k1, k2, k3⟩ := key p hp hne
  rw [lineTokens]
  simp only [k1, k2, k3, Bool.false_eq_true, if_false, if_true]

/-- A word of the name form (a name or a keyword) ends exactly where its name characters end:
whatever non-name character follows directly — an operator, a bracket, a brace, a quote —
starts the next match. -/
theorem C16_word_then_any (f : Nat) (c p : Char) (cs rest : List Char)
    (hc : isNameStart c = true) (hcs : cs.all isNameChar = true) (hp : isNameChar p = false) :
    splitLine (f + 1) (c :: cs ++ p :: rest) = (c :: cs) :: splitLine f (p :: rest) :=
  splitLine_name_then f rest hc hcs hp

/-- A run of digits is a match of its own in front of any character that is not a digit, `.`
or `:` (and, for `*`, is not followed by `:` — `5*:30` is a time pattern). -/
theorem C16_digits_then_any (f : Nat) (ds : List Char) (p : Char) (rest : List Char)
    (hne : ds ≠ []) (hds : ds.all isDigit = true) (hp : endsNumber p rest) :
    splitLine (f + 1) (ds ++ p :: rest) = ds :: splitLine f (p :: rest) :=
  splitLine_digits_then f ds p rest hne hds hp

/-- `{5%3}` by the three theorems: `{` alone, `5` ends at `%`, `%` alone, `3` ends at `}`, `}`
alone (the expression that failed to compile on the pinned tree) -/
example (f : Nat) : splitLine (f + 5) "{5%3}".toList = [['{'], ['5'], ['%'], ['3'], ['}']] := by
  show splitLine (f + 4 + 1) ('{' :: "5%3}".toList) = _
  rw [(C16_punct_own_token 0 (f + 4) '{' _ (by decide) (by decide)).1]
  show ['{'] :: splitLine (f + 3 + 1) (['5'] ++ '%' :: "3}".toList) = _
  rw [C16_digits_then_any (f + 3) ['5'] '%' _ (by decide) (by decide)
    ⟨by decide, by decide, by decide, by decide⟩]
  show ['{'] :: ['5'] :: splitLine (f + 2 + 1) ('%' :: "3}".toList) = _
  rw [(C16_punct_own_token 0 (f + 2) '%' _ (by decide) (by decide)).1]
  show ['{'] :: ['5'] :: ['%'] :: splitLine (f + 1 + 1) (['3'] ++ '}' :: []) = _
  rw [C16_digits_then_any (f + 1) ['3'] '}' _ (by decide) (by decide)
    ⟨by decide, by decide, by decide, by decide⟩]
  rw [(C16_punct_own_token 0 f '}' _ (by decide) (by decide)).1, splitLine_nil]
example : lineTokens 1 (splitLine 99 "[f(x+1)]".toList)
    = lineTokens 1 (splitLine 99 "[ f ( x + 1 ) ]".toList) := by decide +kernel
/-- `*` is excluded from `soloPunct` for a reason: `*:30` is a time pattern, `* :30` is not -/
example : splitLine 9 "*:30".toList = ["*:30".toList] ∧
    splitLine 9 "2*3".toList = [['2'], ['*'], ['3']] := by decide +kernel

/-! ### whole lines: pieces and separators -/

/-- a piece of a line: text free of double quotes, or a string literal with its content -/
inductive Word where
  | plain (a : List Char)
  | str (cs : List Char)

def Word.text : Word → List Char
  | .plain a => a
  | .str cs => '"' :: (cs ++ ['"'])

/-- plain text has no `"`; a string content has no `"` and does not end in `\` -/
def Word.ok : Word → Prop
  | .plain a => '"' ∉ a
  | .str cs => '"' ∉ cs ∧ cs.getLast? ≠ some '\\'

/-- the matches a piece gives when it stands alone -/
def Word.matches : Word → List (List Char)
  | .plain a => splitLine a.length a
  | .str cs => ['"' :: (cs ++ ['"'])]

/-- a line laid out as pieces, each followed by its separator -/
def layout (ps : List (Word × List Char)) : List Char := (ps.map fun p => p.1.text ++ p.2).flatten

/-- Layout invariance of the match list: a line made of pieces (quote-free text and simple
string literals), each followed by ANY non-empty white space, has the matches of its pieces, in
order — independent of the separators.  `b` is whatever follows (e.g. nothing, or a comment). -/
theorem C16_layout_invariant (ps : List (Word × List Char)) (b : List Char) (f : Nat)
    (h : ∀ p ∈ ps, p.1.ok ∧ p.2 ≠ [] ∧ p.2.all isWs = true)
    (hf : (layout ps ++ b).length ≤ f) :
    splitLine f (layout ps ++ b) = (ps.map fun p => p.1.matches).flatten ++ splitLine b.length b := by
  induction ps generalizing f with
  | nil => simp only [layout, List.map_nil, List.flatten_nil, List.nil_append] at hf ⊢
           exact splitLine_fuel _ _ _ hf (Nat.le_refl _)
  | cons p ps ih =>
    obtain ⟨hok, hne, hws⟩ := h p (List.mem_cons_self)
    have hrest : ∀ q ∈ ps, q.1.ok ∧ q.2 ≠ [] ∧ q.2.all isWs = true :=
      fun q hq => h q (List.mem_cons_of_mem _ hq)
    obtain ⟨w, sep⟩ := p
    simp only at hok hne hws
    have hlay : layout ((w, sep) :: ps) ++ b = w.text ++ sep ++ (layout ps ++ b) := by
      simp [layout]
    have hm : (((w, sep) :: ps).map fun p => p.1.matches).flatten ++ splitLine b.length b
        = w.matches ++ ((ps.map fun p => p.1.matches).flatten ++ splitLine b.length b) := by simp
    rw [hlay] at hf ⊢
    rw [hm]
    cases w with
    | plain a =>
      change splitLine f (a ++ sep ++ (layout ps ++ b)) = splitLine a.length a ++ _
      rw [splitLine_append_ws f a sep _ hok hne hws hf, ih _ hrest (Nat.le_refl _)]
    | str cs =>
      change splitLine f ('"' :: (cs ++ ['"']) ++ sep ++ (layout ps ++ b))
        = ['"' :: (cs ++ ['"'])] ++ _
      change ('"' :: (cs ++ ['"']) ++ sep ++ (layout ps ++ b)).length ≤ f at hf
      have e : '"' :: (cs ++ ['"']) ++ sep ++ (layout ps ++ b)
          = '"' :: (cs ++ '"' :: (sep ++ (layout ps ++ b))) := by simp
      rw [e] at hf ⊢
      simp only [List.length_cons, List.length_append] at hf
      obtain ⟨f', rfl⟩ : ∃ f', f = f' + 1 := ⟨f - 1, by omega⟩
      rw [splitLine_string f' cs _ (scanStringBody_noesc '"' cs _ hok.1 (getLast?_quote_cons cs hok.2))]
      have : f' = (f' - sep.length) + sep.length := by omega
      rw [this, splitLine_ws_list _ _ _ hws, ih _ hrest (by simp only [List.length_append]; omega)]
      rfl

/-- … so two layouts of the same pieces have the same matches, hence the same tokens -/
theorem C16_relayout (ps qs : List (Word × List Char)) (n f g : Nat)
    (hp : ∀ p ∈ ps, p.1.ok ∧ p.2 ≠ [] ∧ p.2.all isWs = true)
    (hq : ∀ p ∈ qs, p.1.ok ∧ p.2 ≠ [] ∧ p.2.all isWs = true)
    (hsame : ps.map (·.1) = qs.map (·.1))
    (hf : (layout ps).length ≤ f) (hg : (layout qs).length ≤ g) :
    lineTokens n (splitLine f (layout ps)) = lineTokens n (splitLine g (layout qs)) := by
  have e1 := C16_layout_invariant ps [] f hp (by simpa using hf)
  have e2 := C16_layout_invariant qs [] g hq (by simpa using hg)
  simp only [List.append_nil] at e1 e2
  have hm : (ps.map fun p => p.1.matches) = (qs.map fun p => p.1.matches) := by
    have := congrArg (List.map Word.matches) hsame
    rw [List.map_map, List.map_map] at this
    exact this
  rw [e1, e2, hm]

/-! ### non-vacuity -/

example : splitLine 99 "set\t \thue   120".toList = splitLine 99 "set hue 120".toList := by
  decide +kernel
example : splitLine 99 "set\t \thue   120".toList
    = [['s', 'e', 't'], ['h', 'u', 'e'], ['1', '2', '0']] := by decide +kernel
/-- the theorem applied: `a = "if x"`, `ws = "\t\t "`, `b = ">= 5 {"` -/
example : splitLine 99 ("if x".toList ++ "\t\t ".toList ++ ">= 5 {".toList)
    = splitLine 9 "if x".toList ++ splitLine 9 ">= 5 {".toList :=
  C16_whitespace_insensitive _ _ _ 99 9 9 (by decide) (by decide) (by decide) (by decide)
    (by decide) (by decide)
example : lineTokens 1 (splitLine 99 "  on all \t# switch \"everything\" on".toList)
    = [⟨"ON", "on", 1⟩, ⟨"ALL", "all", 1⟩] := by decide +kernel
example : lineTokens 1 (splitLine 99 "\t # only a comment".toList) = [] :=
  C16_comment_line 1 "\t ".toList " only a comment".toList 99 (by decide) (by decide)
/-- operators, braces and brackets need no white space (one instance; `5%3` failed on the
pinned tree) -/
example : lineTokens 1 (splitLine 99 "{5%3}".toList)
    = lineTokens 1 (splitLine 99 "{ 5 % 3 }".toList) := by decide +kernel
/-- a `#` directly after a default-class character is NOT a comment (`[^\s]+` takes it): the
white space in `C16_comment_after_ws` matters only there — after names, numbers and
punctuation a `#` cuts at once -/
example : lineTokens 1 (splitLine 99 "@#x".toList) = [⟨"ERROR", "@#x", 1⟩] ∧
    lineTokens 1 (splitLine 99 "on#x".toList) = [⟨"ON", "on", 1⟩] := by decide +kernel
/-- `C16_layout_invariant` applied to `define x "a # b"` with three different separators -/
example :
    let ps : List (Word × List Char) :=
      [(.plain "define".toList, " \t".toList), (.plain "x".toList, "\t".toList),
       (.str "a # b".toList, "  ".toList)]
    layout ps = "define \tx\t\"a # b\"  ".toList ∧
    splitLine 99 (layout ps ++ []) = ["define".toList, "x".toList, "\"a # b\"".toList] := by
  intro ps
  refine ⟨by decide, ?_⟩
  rw [C16_layout_invariant ps [] 99 (by
      intro p hp
      simp only [ps, List.mem_cons, List.not_mem_nil, or_false] at hp
      rcases hp with rfl | rfl | rfl
      · exact ⟨by simp [Word.ok], by decide, by decide⟩
      · exact ⟨by simp [Word.ok], by decide, by decide⟩
      · exact ⟨by simp [Word.ok], by decide, by decide⟩)
    (by decide)]
  decide +kernel

end Bardolph.Lex

/-! ## 7. The two peephole equivalences behind "braces round a single value change nothing"

`{v}` compiles to `PUSHQ v; POP d` (resp. `PUSH src; POP d`) where the bare value compiles to
`MOVEQ v d` (resp. `MOVE src d`).  The harness normalises instruction lists with these two
rewrites before comparing them; the lemmas say the rewrites do not change what the VM does,
apart from the program counter (one instruction fewer).

`MOVEQ` into the `unit_mode` register converts the colour registers, a `POP` there does not —
hence `d ≠ unit_mode`.  `PUSH` of a register or variable holding `None` faults, `MOVE` copies
the `None` — hence the hypothesis on `s.read src` (`C16_push_none_faults`). -/
namespace Bardolph
open Vm VmSteps

theorem putVariable_pc (s : State) (n : String) (v : Val) (x : Int) :
    ({ s with pc := x }).putVariable n v = { s.putVariable n v with pc := x } := by
  unfold State.putVariable
  simp only
  repeat' split
  all_goals first | rfl | simp_all

theorem put_pc (s : State) (d : Dst) (v : Val) (x : Int) :
    ({ s with pc := x }).put d v = { s.put d v with pc := x } := by
  cases d with
  | reg r => rfl
  | var n => exact putVariable_pc s n v x
  | loopVar l =>
    simp only [State.put, State.putLoopVar]
    split <;> rfl

theorem put_pc_eq (s : State) (d : Dst) (v : Val) : (s.put d v).pc = s.pc := by
  cases d with
  | reg r => rfl
  | var n =>
    simp only [State.put]
    unfold State.putVariable
    repeat' split
    all_goals rfl
  | loopVar l =>
    simp only [State.put, State.putLoopVar]
    split <;> rfl

theorem execInstr_moveq (img : Image) (s : State) (v : Val) (d : Dst) (hd : d ≠ .reg .unitMode) :
    execInstr img s (.moveq v d) = s.put d v := by
  cases d with
  | reg r => cases r <;> first | exact absurd rfl hd | rfl
  | var n => rfl
  | loopVar l => rfl

/-- the state after `PUSHQ v; POP d` resp. after `MOVEQ v d`, described explicitly -/
theorem pushq_pop_run (img : Image) (s : State) (p : Nat) (v : Val) (d : Dst)
    (hs : s.status = .running) (hpc : s.pc = (p : Int)) (hc : CodeAt img p [.pushq v, .pop d]) :
    run img 2 s = if (s.put d v).status = .running then { s.put d v with pc := (p : Int) + 2 }
      else { s.put d v with pc := (p : Int) + 1 } := by
  have h1 := step_pushq img s p v hs hpc hc.head
  have hi2 : img.code[p + 1]? = some (.pop d) := hc.tail.head
  rw [show (2 : Nat) = 1 + 1 from rfl, run_add, run_one img s hs, h1]
  rw [run_one _ _ (by simpa using hs)]
  rw [step_pop img _ (p + 1) d v s.eval (by simpa using hs) (by simp) hi2 rfl]
  simp only [put_pc]
  split
  · rw [Int.add_assoc]; rfl
  · rfl

theorem moveq_step (img : Image) (s : State) (p : Nat) (v : Val) (d : Dst)
    (hs : s.status = .running) (hpc : s.pc = (p : Int)) (hc : CodeAt img p [.moveq v d])
    (hd : d ≠ .reg .unitMode) :
    step img s = if (s.put d v).status = .running then { s.put d v with pc := (p : Int) + 1 }
      else s.put d v := by
  rw [step_plain_gen img s p _ hs hpc hc.head (by simp) rfl, execInstr_moveq img s v d hd,
    put_pc_eq, hpc]


theorem push_step (img : Image) (s : State) (p : Nat) (src : Src)
    (hs : s.status = .running) (hpc : s.pc = (p : Int)) (hi : img.code[p]? = some (.push src))
    (hv : (∀ x, src ≠ .lit x) → s.read src ≠ .none) :
    step img s = { s with pc := (p : Int) + 1, eval := s.read src :: s.eval } := by
  by_cases hl : ∀ x, src ≠ .lit x
  · exact step_push img s p src _ hs hpc hi hl rfl (hv hl)
  · have : ∃ x, src = .lit x := by
      cases src with
      | lit x => exact ⟨x, rfl⟩
      | _ => exact absurd (fun x => by simp) hl
    obtain ⟨x, rfl⟩ := this
    rw [step_plain img s p _ hs hpc hi (by simp) rfl]
    · simp [execInstr, hpc, State.read]
    · simp [execInstr, hs]

theorem push_pop_run (img : Image) (s : State) (p : Nat) (src : Src) (d : Dst)
    (hs : s.status = .running) (hpc : s.pc = (p : Int)) (hc : CodeAt img p [.push src, .pop d])
    (hv : (∀ x, src ≠ .lit x) → s.read src ≠ .none) :
    run img 2 s = if (s.put d (s.read src)).status = .running
      then { s.put d (s.read src) with pc := (p : Int) + 2 }
      else { s.put d (s.read src) with pc := (p : Int) + 1 } := by
  have h1 := push_step img s p src hs hpc hc.head hv
  have hi2 : img.code[p + 1]? = some (.pop d) := hc.tail.head
  rw [show (2 : Nat) = 1 + 1 from rfl, run_add, run_one img s hs, h1]
  rw [run_one _ _ (by simpa using hs)]
  rw [step_pop img _ (p + 1) d (s.read src) s.eval (by simpa using hs) (by simp) hi2 rfl]
  simp only [put_pc]
  split
  · rw [Int.add_assoc]; rfl
  · rfl

theorem move_step (img : Image) (s : State) (p : Nat) (src : Src) (d : Dst)
    (hs : s.status = .running) (hpc : s.pc = (p : Int)) (hc : CodeAt img p [.move src d]) :
    step img s = if (s.put d (s.read src)).status = .running
      then { s.put d (s.read src) with pc := (p : Int) + 1 } else s.put d (s.read src) := by
  rw [step_plain_gen img s p _ hs hpc hc.head (by simp) rfl]
  simp only [execInstr, put_pc_eq, hpc]

/-- `PUSH src` of a non-literal operand whose value is `None` faults -/
theorem push_none_faults (img : Image) (s : State) (p : Nat) (src : Src)
    (hs : s.status = .running) (hpc : s.pc = (p : Int)) (hi : img.code[p]? = some (.push src))
    (hl : ∀ x, src ≠ .lit x) (hv : s.read src = .none) :
    (step img s).status = .fault "pushing None onto eval stack" := by
  have hex : execInstr img s (.push src) = s.fault "pushing None onto eval stack" := by
    cases src with
    | lit x => exact absurd rfl (hl x)
    | _ => simp only [execInstr, hv]
  rw [step_plain_gen img s p _ hs hpc hi (by simp) rfl, hex]
  simp [State.fault]


/-- `PUSHQ v; POP d` at `p` in one image, `MOVEQ v d` at `p` in another: after two steps resp.
one step the machines are in the same state (`s.put d v`, including a fault raised by the
store) except for `pc`; if the store succeeded the program counters are just past the
respective code. -/
theorem C16_peephole_pushq_pop (img img' : Image) (s : State) (p : Nat) (v : Val) (d : Dst)
    (hs : s.status = .running) (hpc : s.pc = (p : Int))
    (hc : CodeAt img p [.pushq v, .pop d]) (hc' : CodeAt img' p [.moveq v d])
    (hd : d ≠ .reg .unitMode) :
    { run img 2 s with pc := 0 } = { step img' s with pc := 0 } ∧
    { step img' s with pc := 0 } = { s.put d v with pc := 0 } ∧
    ((step img' s).status = .running →
      (run img 2 s).pc = (p : Int) + 2 ∧ (step img' s).pc = (p : Int) + 1) := by
  rw [pushq_pop_run img s p v d hs hpc hc, moveq_step img' s p v d hs hpc hc' hd]
  by_cases h : (s.put d v).status = .running
  · rw [if_pos h, if_pos h]; exact ⟨rfl, rfl, fun _ => ⟨rfl, rfl⟩⟩
  · rw [if_neg h, if_neg h]; exact ⟨rfl, rfl, fun h' => absurd h' h⟩

/-- `PUSH src; POP d` against `MOVE src d`, when the pushed value is not `None` (or `src` is a
literal, which `PUSH` does not test) -/
theorem C16_peephole_push_pop (img img' : Image) (s : State) (p : Nat) (src : Src) (d : Dst)
    (hs : s.status = .running) (hpc : s.pc = (p : Int))
    (hc : CodeAt img p [.push src, .pop d]) (hc' : CodeAt img' p [.move src d])
    (hv : (∀ x, src ≠ .lit x) → s.read src ≠ .none) :
    { run img 2 s with pc := 0 } = { step img' s with pc := 0 } ∧
    { step img' s with pc := 0 } = { s.put d (s.read src) with pc := 0 } ∧
    ((step img' s).status = .running →
      (run img 2 s).pc = (p : Int) + 2 ∧ (step img' s).pc = (p : Int) + 1) := by
  rw [push_pop_run img s p src d hs hpc hc hv, move_step img' s p src d hs hpc hc']
  by_cases h : (s.put d (s.read src)).status = .running
  · rw [if_pos h, if_pos h]; exact ⟨rfl, rfl, fun _ => ⟨rfl, rfl⟩⟩
  · rw [if_neg h, if_neg h]; exact ⟨rfl, rfl, fun h' => absurd h' h⟩

/-- why `C16_peephole_push_pop` needs its hypothesis: with `None` in a non-literal source the
`PUSH` faults, the `MOVE` stores the `None` -/
theorem C16_push_none_faults (img img' : Image) (s : State) (p : Nat) (src : Src) (d : Dst)
    (hs : s.status = .running) (hpc : s.pc = (p : Int))
    (hc : CodeAt img p [.push src, .pop d]) (hc' : CodeAt img' p [.move src d])
    (hl : ∀ x, src ≠ .lit x) (hv : s.read src = .none) :
    (run img 2 s).status = .fault "pushing None onto eval stack" ∧
    { step img' s with pc := 0 } = { s.put d .none with pc := 0 } := by
  constructor
  · have h1 := push_none_faults img s p src hs hpc hc.head hl hv
    rw [show (2 : Nat) = 1 + 1 from rfl, run_add, run_one img s hs,
      run_halted _ _ _ (by rw [h1]; simp), h1]
  · rw [move_step img' s p src d hs hpc hc', hv]
    split <;> rfl

/-! non-vacuity: concrete images and a concrete state -/

example : CodeAt ⟨#[.nop, .pushq (.num 5), .pop (.reg .hue), .stop], []⟩ 1
    [.pushq (.num 5), .pop (.reg .hue)] := CodeAt.intro [.nop] _ [.stop] []
example : CodeAt ⟨#[.nop, .moveq (.num 5) (.reg .hue), .stop], []⟩ 1
    [.moveq (.num 5) (.reg .hue)] := CodeAt.intro [.nop] _ [.stop] []

example :
    let s : State := { Vm.init [] with pc := 1 }
    { run ⟨#[.nop, .pushq (.num 5), .pop (.reg .hue), .stop], []⟩ 2 s with pc := 0 }
      = { step ⟨#[.nop, .moveq (.num 5) (.reg .hue), .stop], []⟩ s with pc := 0 } :=
  (C16_peephole_pushq_pop _ _ _ 1 (.num 5) (.reg .hue) rfl rfl
    (CodeAt.intro [.nop] _ [.stop] []) (CodeAt.intro [.nop] _ [.stop] []) (by decide)).1

example :
    let s : State := { Vm.init [] with pc := 1 }
    { run ⟨#[.nop, .push (.reg .hue), .pop (.var "x"), .stop], []⟩ 2 s with pc := 0 }
      = { step ⟨#[.nop, .move (.reg .hue) (.var "x"), .stop], []⟩ s with pc := 0 } :=
  (C16_peephole_push_pop _ _ _ 1 (.reg .hue) (.var "x") rfl rfl
    (CodeAt.intro [.nop] _ [.stop] []) (CodeAt.intro [.nop] _ [.stop] [])
    (fun _ => by simp [State.read, Vm.init, initRegs])).1

/-- `{-n}` against `-n`: the parser writes a signed literal as ONE constant (`MOVEQ -n d`) and a
braced one as a product (`PUSHQ n; PUSHQ -1; OP mul; POP d`).  The multiplication leaves exactly
the negated literal on the evaluation stack — for an integer and for a float literal — so with
`C16_peephole_pushq_pop` the two programs store the same value (third peephole equivalence of
`harness/c16.py`). -/
theorem C16_negate_int (s : State) (n : Int) (rest : List Val) :
    ({ s with eval := .int (-1) :: .int n :: rest } : State).doOp .mul
      = { s with eval := .int (-n) :: rest } := by
  have h : ((n : Rat) * -1).num = -n := by
    rw [Rat.mul_neg, Rat.mul_one]; simp
  simp [State.doOp, binOp, Val.mul, Val.asNum, Val.mkNum, h]

theorem C16_negate_num (s : State) (q : Rat) (rest : List Val) :
    ({ s with eval := .int (-1) :: .num q :: rest } : State).doOp .mul
      = { s with eval := .num (-q) :: rest } := by
  have h : q * -1 = -q := by rw [Rat.mul_neg, Rat.mul_one]
  simp [State.doOp, binOp, Val.mul, Val.asNum, Val.mkNum, h]

end Bardolph
