import Bardolph.Proofs.JobControlEvents
/-!
# C08 — queued jobs run one at a time, in order, exactly once, and the queue drains

Property theorems about `Bardolph.JC` (`Model/JobControl.lean`): the transition system with one
transition per source line of `bardolph/lib/job_control.py`, any number of client threads
(`progs : Nat → List Op` gives every client its list of calls), one thread per agent, bodies
that keep running, finish or raise at the scheduler's whim.  `Reach .fixed progs s` = "`s` is
reachable by some interleaving"; every theorem below holds for EVERY reachable state, i.e. for
all interleavings at line granularity, all numbers of threads and jobs.

The inductive invariant (`Inv`, proved in `Proofs/JobControlInv.lean` by induction over the
transitions, on top of the lock invariant `LockInv` = "a thread inside a critical section owns
the lock", `Proofs/JobControlLock.lean`) carries all of them.

`Variant.pinned` (the code before the two `fix:` commits) is used at the end to exhibit the two
defects as concrete schedules.
-/
set_option linter.unusedSimpArgs false
set_option linter.unusedVariables false
namespace Bardolph.JC

variable {progs : Nat → List Op} {s : State}

/-! ## The lock -/

/-- a thread that stands inside a critical section owns the lock (both variants) -/
theorem C08_lock_discipline {v : Variant} (h : Reach v progs s) (t : Tid)
    (ht : 0 < (s.thr t).pc.crit) : s.owner = some t ∧ s.count = (s.thr t).pc.crit := by
  have := h.lockInv.crit t
  by_cases ho : s.owner = some t
  · simp [ho] at this; exact ⟨ho, this.symm⟩
  · simp [ho] at this; omega

/-- two threads are never inside critical sections at the same time (both variants) -/
theorem C08_critical_sections_exclusive {v : Variant} (h : Reach v progs s) (t u : Tid)
    (ht : 0 < (s.thr t).pc.crit) (hu : 0 < (s.thr u).pc.crit) : t = u :=
  exclusive h.lockInv ht hu

/-! ## Exclusion -/

/-- the body of a queued job runs ⇒ that job is the active agent -/
theorem C08_mutual_exclusion (h : Reach .fixed progs s) (a : Nat)
    (hq : (s.info a).bg = false) (hrun : bodyRunning s a) : s.active = some a :=
  h.inv.liveActive a (by rw [hrun]; rfl) hq

/-- … so at most one queued job's body runs at any instant -/
theorem C08_at_most_one_running (h : Reach .fixed progs s) (a b : Nat)
    (ha : (s.info a).bg = false) (hb : (s.info b).bg = false)
    (hra : bodyRunning s a) (hrb : bodyRunning s b) : a = b := by
  have h1 := C08_mutual_exclusion h a ha hra
  have h2 := C08_mutual_exclusion h b hb hrb
  rw [h1] at h2; exact Option.some.inj h2

/-- more generally: from the moment its thread is started until its completion callback has
executed `self._active_agent = None`, a queued agent is the active one -/
theorem C08_active_while_alive (h : Reach .fixed progs s) (a : Nat)
    (hq : (s.info a).bg = false) (hl : liveQ (s.thr (.job a)).pc = true) : s.active = some a :=
  h.inv.liveActive a hl hq

/-! ## Order: refinement of the specification deque -/

/-- The log of linearisation points (`append_fn(agent)`, `clear()`, `popleft()`,
`_active_agent = None`), replayed on the SPECIFICATION deque, is accepted by it — every start
took the head of the deque while nothing ran, every completion was of the running job — and
leaves it exactly in the implementation's state `(_queue, _active_agent)`.  Hence the sequence
of starts is one the deque allows for the linearised enqueue order, front-inserted first. -/
theorem C08_fifo_refinement (h : Reach .fixed progs s) :
    specRun Spec.init s.events = some ⟨s.queue, s.active⟩ :=
  h.inv.spec

/-- one step of the refinement, spelled out: whenever a job is started (`.start a` is
logged by the step), it was the head of the queue and nothing was active -/
theorem C08_start_takes_head (h : Reach .fixed progs s) (t : Tid) (c : Choice) (a : Nat)
    (hs : (step .fixed s t c).events = s.events ++ [.start a]) :
    s.active = none ∧ s.queue.head? = some a := by
  have h1 := h.inv.spec
  have h2 := (Reach.step t c h).inv.spec
  rw [hs, specRun_append, h1] at h2
  simp only [Option.bind_some, specRun, specStep] at h2
  cases hr : s.active with
  | some x => simp [hr] at h2
  | none =>
    cases hq : s.queue with
    | nil => simp [hr, hq] at h2
    | cons b rest =>
      simp [hr, hq] at h2
      by_cases hab : a = b
      · subst hab; simp
      · simp [hab] at h2

/-! ## Drain -/

/-- quiescent (no client inside a call, no job thread alive) ⇒ nothing queued, nothing active,
nothing in the background map -/
theorem C08_quiescent_drained (h : Reach .fixed progs s) (hq : Quiescent s) :
    s.queue = [] ∧ s.active = none ∧ s.bg = [] := by
  have inv := h.inv
  have notLive : ∀ u, liveQ (s.thr u).pc = false ∧ liveB (s.thr u).pc = false ∧
      obligated (s.thr u).pc = false ∧ (∀ a, starter a (s.thr u).pc = false) ∧
      (∀ a, bstarter a (s.thr u).pc = false) := by
    intro u
    cases u with
    | client n => rw [hq.1 n]; simp [liveQ, liveB, obligated, starter, bstarter]
    | job a =>
      rcases hq.2 a with e | e <;> rw [e] <;> simp [liveQ, liveB, obligated, starter, bstarter]
  have hact : s.active = none := by
    cases ha : s.active with
    | none => rfl
    | some a =>
      rcases inv.activeWitness a ha with hl | ⟨u, hu⟩
      · rw [(notLive _).1] at hl; cases hl
      · rw [(notLive u).2.2.2.1 a] at hu; cases hu
  refine ⟨?_, hact, ?_⟩
  · cases hqe : s.queue with
    | nil => rfl
    | cons x r =>
      obtain ⟨u, hu⟩ := inv.oblig hact (by simp [hqe])
      rw [(notLive u).2.2.1] at hu; cases hu
  · cases hb : s.bg with
    | nil => rfl
    | cons x r =>
      rcases inv.bgWitness x (by simp [hb]) with hl | ⟨u, hu⟩
      · rw [(notLive _).2.1] at hl; cases hl
      · rw [(notLive u).2.2.2.2 x] at hu; cases hu

/-- when everything has finished the controller reports that it has no jobs -/
theorem C08_drained_no_jobs (h : Reach .fixed progs s) (hq : Quiescent s) : hasJobs s = false := by
  obtain ⟨h1, h2, h3⟩ := C08_quiescent_drained h hq
  simp [hasJobs, h1, h2, h3]

/-- … and `is_running(name)` is false for every name -/
theorem C08_drained_nothing_running (h : Reach .fixed progs s) (hq : Quiescent s) (name : Nat) :
    isRunning s name = false := by
  obtain ⟨h1, h2, h3⟩ := C08_quiescent_drained h hq
  simp [isRunning, lookupBg, h2, h3]

/-- a queue that is not empty while nothing is active always has a thread that is bound to
run the "start next" test under the lock (the window between `self._active_agent = None` and
`_run_next_job()` is covered by the completion thread itself) -/
theorem C08_pending_start_has_owner (h : Reach .fixed progs s) (ha : s.active = none)
    (hq : s.queue ≠ []) : ∃ t, obligated (s.thr t).pc = true :=
  h.inv.oblig ha hq

/-! ## Exactly once -/

/-- No agent is popped twice, no agent's thread is started twice, no body is entered twice. -/
theorem C08_at_most_once (h : Reach .fixed progs s) (a : Nat) :
    s.events.count (.start a) ≤ 1 ∧ s.events.count (.tstart a) ≤ 1 ∧
      s.events.count (.bodyBegin a) ≤ 1 :=
  ⟨h.evInv.startOnce a, h.evInv.tstartOnce a, h.evInv.beginOnce a⟩

/-- a body is only ever entered by the thread of an agent that was popped from the queue as
the active one (queued agents) -/
theorem C08_body_after_start (h : Reach .fixed progs s) (a : Nat) (hq : (s.info a).bg = false)
    (hb : early (s.thr (.job a)).pc = false) : .bodyBegin a ∈ s.events :=
  h.evInv.beginDone a hb

/-- `C08_exactly_once`: in any quiescent state, every job that was ever queued (`enq` logged)
and was not removed by a later `clear_queue()` before it started has been executed exactly
once: its body was entered exactly once and has ended (by returning or by raising). -/
theorem C08_exactly_once (h : Reach .fixed progs s) (hq : Quiescent s) (a : Nat) (b : Bool)
    (henq : .enq b a ∈ s.events) :
    ClearedFrom [] s.events a ∨
      (s.events.count (.start a) = 1 ∧ s.events.count (.bodyBegin a) = 1 ∧
        ∃ r, .bodyEnd a r ∈ s.events) := by
  have hd := C08_quiescent_drained h hq
  have hacc := spec_accounting Spec.init _ s.events h.inv.spec a (Or.inr ⟨b, henq⟩)
  rw [hd.1] at hacc
  rcases hacc with hm | hst | hcl
  · simp at hm
  · right
    have ev := h.evInv
    have hnu : (s.thr (.job a)).pc ≠ .unborn := by
      rcases ev.startSeen a hst with h1 | h1
      · exact h1
      · rw [hd.2.1] at h1; cases h1
    have hdead : (s.thr (.job a)).pc = .dead := by
      rcases hq.2 a with e | e
      · exact absurd e hnu
      · exact e
    have hbeg := ev.beginDone a (by rw [hdead]; rfl)
    have hend := ev.endDone a (by rw [hdead]; rfl) (by rw [hdead]; simp)
    refine ⟨?_, ?_, hend⟩
    · have := ev.startOnce a
      have := List.count_pos_iff.mpr hst
      omega
    · have := ev.beginOnce a
      have := List.count_pos_iff.mpr hbeg
      omega
  · exact Or.inl hcl

/-- the same for background jobs: at quiescence every spawned job has run exactly once -/
theorem C08_background_exactly_once (h : Reach .fixed progs s) (hq : Quiescent s) (a : Nat)
    (hadd : .bgAdd a ∈ s.events) :
    s.events.count (.bodyBegin a) = 1 ∧ (∃ r, .bodyEnd a r ∈ s.events) ∧ .bgDel a ∈ s.events := by
  have hd := C08_quiescent_drained h hq
  have hdel : Event.bgDel a ∈ s.events := by
    cases Classical.em (Event.bgDel a ∈ s.events) with
    | inl h1 => exact h1
    | inr h1 =>
      have := (h.bgInv.tracked a).mpr ⟨hadd, h1⟩
      rw [hd.2.2] at this; cases this
  have hnu := h.bgInv.delSeen a hdel
  have hdead : (s.thr (.job a)).pc = .dead := by
    rcases hq.2 a with e | e
    · exact absurd e hnu
    · exact e
  have ev := h.evInv
  have hbeg := ev.beginDone a (by rw [hdead]; rfl)
  refine ⟨?_, ev.endDone a (by rw [hdead]; rfl) (by rw [hdead]; simp), hdel⟩
  have := ev.beginOnce a
  have := List.count_pos_iff.mpr hbeg
  omega

/-! ## A job that raises does not hold up the jobs behind it -/

/-- the completion callback line is reached in the same way whether the body returns or
raises: same next line, same shared state (the log differs only in the `raised` flag) -/
theorem C08_raise_does_not_block (a : Nat) (v : Variant)
    (hb : (s.thr (.job a)).pc = .body ∨ (s.thr (.job a)).pc = .xc2) :
    ((step v s (.job a) .raise).thr (.job a)).pc = .xc4 ∧
    ((step v s (.job a) .fin).thr (.job a)).pc = .xc4 ∧
    (step v s (.job a) .raise).queue = (step v s (.job a) .fin).queue ∧
    (step v s (.job a) .raise).active = (step v s (.job a) .fin).active ∧
    (step v s (.job a) .raise).owner = (step v s (.job a) .fin).owner := by
  rcases hb with hb | hb <;> simp [JC.step, hb, act, apply, setPc]

/-- no internal error (`AttributeError`, `IndexError`, `KeyError`, foreign `release`, a second
`execute()` of one agent) is reachable in the code as it stands -/
theorem C08_no_internal_error (h : Reach .fixed progs s) : s.errs = [] :=
  h.inv.noErr

/-- no deadlock: a thread can only be held up at `self._lock.acquire`, and then the owner of
the lock is a different thread that is not held up -/
theorem C08_no_deadlock {v : Variant} (h : Reach v progs s) (t : Tid) (k : AcqK)
    (hp : (s.thr t).pc = .acq1 k) (hblocked : canAcquire s t = false) :
    ∃ u, s.owner = some u ∧ u ≠ t ∧ 0 < (s.thr u).pc.crit ∧
      (∀ k', (s.thr u).pc = .acq1 k' → canAcquire s u = true) := by
  have hl := h.lockInv
  cases ho : s.owner with
  | none => simp [canAcquire, ho] at hblocked
  | some u =>
    have hne : u ≠ t := by rintro rfl; simp [canAcquire, ho] at hblocked
    have hc := hl.crit u
    have hpos := hl.pos (by simp [ho])
    simp [ho] at hc
    exact ⟨u, rfl, hne, by omega, fun k' _ => by simp [canAcquire, ho]⟩

/-- the owner of the lock is never held up: its next step executes its line and moves on.
Together with `C08_no_deadlock`: whenever some thread waits for the lock, another thread can
make progress. -/
theorem C08_owner_progresses (h : Reach .fixed progs s) (u : Tid) (c : Choice)
    (ho : s.owner = some u) : ((step .fixed s u c).thr u).pc ≠ (s.thr u).pc := by
  have hl := h.lockInv
  have hcrit : 0 < (s.thr u).pc.crit := by
    have := hl.crit u; have hp := hl.pos (by simp [ho]); simp [ho] at this; omega
  have hne : (act .fixed s u c (s.thr u).pc).eff ≠ .crash := by
    intro hc
    have h' := (Reach.step u c h).inv.noErr
    unfold JC.step at h'
    generalize act .fixed s u c (s.thr u).pc = x at hc h'
    obtain ⟨p', e, pop⟩ := x
    simp at hc; subst hc
    simp [apply] at h'
  have hprog := act_progress s u c _ hcrit hne (by simp [canAcquire, ho])
  rw [step_pc]
  split
  · rename_i b hb
    have : u ≠ .job b := by
      rintro rfl
      have := act_mkThread _ _ _ _ _ _ hb
      rw [this] at hcrit; simp [Pc.crit] at hcrit
    simp [this]; exact hprog
  · rename_i b hb
    have : u ≠ .job b := by
      rintro rfl
      have := act_startThread _ _ _ _ _ _ hb
      rw [this] at hcrit; simp [Pc.crit] at hcrit
    simp [this]; exact hprog
  · simp; exact hprog

/-! ## Background jobs -/

/-- a background body runs ⇒ its agent is in the background map, so `is_running(name)` is true -/
theorem C08_background_running_reported (h : Reach .fixed progs s) (a : Nat)
    (hbg : (s.info a).bg = true) (hrun : bodyRunning s a) :
    a ∈ s.bg ∧ isRunning s (s.info a).lbl = true := by
  have hm := h.inv.liveBg a (by rw [hrun]; rfl) hbg
  refine ⟨hm, ?_⟩
  have : (lookupBg s (s.info a).lbl).isSome = true := by
    rw [lookupBg, List.find?_isSome]
    exact ⟨a, hm, by simp⟩
  simp [isRunning, this]

/-- `C08_background_tracked`: an agent is in the background map (is reported by
`is_running(its name)`) exactly from `self._background[agent.name] = agent` in `spawn_job`
until `del self._background[agent.name]` in its completion callback: membership implies that
it is a background agent whose thread is alive and has not yet executed the `del` (or that
the spawning thread is between registering and starting it); conversely every background
agent whose thread is alive and has not executed the `del` is a member. -/
theorem C08_background_tracked (h : Reach .fixed progs s) (a : Nat) :
    (a ∈ s.bg → (s.info a).bg = true ∧
      (liveB (s.thr (.job a)).pc = true ∨ ∃ t, bstarter a (s.thr t).pc = true)) ∧
    ((s.info a).bg = true → liveB (s.thr (.job a)).pc = true → a ∈ s.bg) :=
  ⟨fun hm => ⟨(h.inv.bgInfo a hm).2, h.inv.bgWitness a hm⟩, fun hb hl => h.inv.liveBg a hl hb⟩

/-- in terms of the log: an agent is in the background map exactly between the logged
`self._background[agent.name] = agent` and the logged `del self._background[agent.name]` -/
theorem C08_background_tracked_log (h : Reach .fixed progs s) (a : Nat) :
    a ∈ s.bg ↔ (.bgAdd a ∈ s.events ∧ .bgDel a ∉ s.events) :=
  h.bgInv.tracked a

/-- `is_running(name)` is true iff the active agent or a member of the background map bears
that name -/
theorem C08_is_running_iff (name : Nat) :
    isRunning s name = true ↔
      (∃ a, s.active = some a ∧ (s.info a).lbl = name) ∨ ∃ a ∈ s.bg, (s.info a).lbl = name := by
  simp only [isRunning, lookupBg, Bool.or_eq_true, List.find?_isSome]
  constructor
  · rintro (h | ⟨a, ha, hl⟩)
    · cases hact : s.active with
      | none => simp [hact] at h
      | some a => simp [hact] at h; exact Or.inl ⟨a, rfl, h⟩
    · exact Or.inr ⟨a, ha, by simpa using hl⟩
  · rintro (⟨a, ha, hl⟩ | ⟨a, ha, hl⟩)
    · left; simp [ha, hl]
    · right; exact ⟨a, ha, by simpa using hl⟩

/-- background agents never become the active agent and never enter the queue -/
theorem C08_background_beside_queue (h : Reach .fixed progs s) (a : Nat)
    (hbg : (s.info a).bg = true) : a ∉ s.queue ∧ s.active ≠ some a := by
  constructor
  · intro hm; have := (h.inv.queueInfo a hm).2.1; rw [hbg] at this; cases this
  · intro hm; have := (h.inv.activeInfo a hm).2; rw [hbg] at this; cases this

/-! ## The hypotheses are satisfiable (concrete reachable states, by evaluation) -/

section Examples

/-- one client: `add_job(1); insert_job(2); spawn_job(3)` -/
def exProgs : Nat → List Op := fun n => if n = 0 then [.add 1, .insert 2, .spawn 3] else []

/-- the client runs all three calls, then job 0's thread runs into its body -/
def exMid : List (Tid × Choice) :=
  List.replicate 100 (.client 0, .run) ++ List.replicate 3 (.job 0, .run)

/-- … then every body ends (the first one by raising) and every callback completes -/
def exFull : List (Tid × Choice) :=
  exMid ++ [(.job 0, .raise)] ++ List.replicate 40 (.job 0, .run) ++
    List.replicate 2 (.job 1, .run) ++ [(.job 1, .fin)] ++ List.replicate 40 (.job 1, .run) ++
    List.replicate 2 (.job 2, .run) ++ [(.job 2, .fin)] ++ List.replicate 40 (.job 2, .run)

theorem exMid_reach : Reach .fixed exProgs (run .fixed (init exProgs) exMid) := Reach.init.run _
theorem exFull_reach : Reach .fixed exProgs (run .fixed (init exProgs) exFull) := Reach.init.run _

/-- `C08_mutual_exclusion` / `C08_background_running_reported` are not vacuous: a reachable
state in which the body of queued agent 0 runs while agent 1 waits in the queue and background
agent 2 is registered -/
example :
    bodyRunning (run .fixed (init exProgs) exMid) 0 ∧
    ((run .fixed (init exProgs) exMid).info 0).bg = false ∧
    (run .fixed (init exProgs) exMid).queue = [1] ∧
    (run .fixed (init exProgs) exMid).active = some 0 ∧
    (run .fixed (init exProgs) exMid).bg = [2] ∧
    ((run .fixed (init exProgs) exMid).info 2).bg = true ∧
    isRunning (run .fixed (init exProgs) exMid) 3 = true ∧
    isRunning (run .fixed (init exProgs) exMid) 1 = true ∧
    hasJobs (run .fixed (init exProgs) exMid) = true := by
  unfold bodyRunning
  decide +kernel

/-- the raising job did not hold up the one behind it: in the final state both queued jobs and
the background job have begun and ended, in deque order (the front-inserted agent 1 after
agent 0 only because agent 0 had been started before the insert) -/
example :
    (run .fixed (init exProgs) exFull).events =
      [.enq true 0, .start 0, .tstart 0, .enq false 1, .bgAdd 2, .tstart 2, .bodyBegin 0,
       .bodyEnd 0 true, .done 0, .start 1, .tstart 1, .bodyBegin 1, .bodyEnd 1 false, .done 1,
       .bodyBegin 2, .bodyEnd 2 false, .bgDel 2] := by
  decide +kernel

/-- a client thread is only moved by its own steps -/
theorem run_client_untouched (v : Variant) (n : Nat) (sched : List (Tid × Choice)) (s : State)
    (h : ∀ x ∈ sched, x.1 ≠ .client n) : (run v s sched).thr (.client n) = s.thr (.client n) := by
  induction sched generalizing s with
  | nil => rfl
  | cons x xs ih =>
    simp only [run]
    rw [ih _ (fun y hy => h y (by simp [hy]))]
    have hx : Tid.client n ≠ x.1 := fun e => h x (by simp) e.symm
    unfold JC.step
    generalize act v s x.1 x.2 (s.thr x.1).pc = a
    obtain ⟨p', e, pop⟩ := a
    cases e <;> simp [apply, setPc, setJobPc, hx] <;> (repeat' split) <;> simp [hx]

/-- `C08_quiescent_drained` / `C08_drained_no_jobs` are not vacuous: the final state of `exFull`
is quiescent (and reachable) -/
theorem exFull_quiescent : Quiescent (run .fixed (init exProgs) exFull) := by
  constructor
  · intro n
    by_cases h0 : n = 0
    · subst h0; decide +kernel
    · rw [run_client_untouched]
      · simp [JC.init]
      · have hall : ∀ x ∈ exFull, (match x.1 with | .client k => k == 0 | .job _ => true) = true := by
          decide +kernel
        intro x hx e
        have := hall x hx
        rw [e] at this
        simp at this
        exact h0 this
  · intro a
    by_cases h3 : a < 3
    · have : a = 0 ∨ a = 1 ∨ a = 2 := by omega
      rcases this with rfl | rfl | rfl <;> decide +kernel
    · left
      have hn : (run .fixed (init exProgs) exFull).next = 3 := by decide +kernel
      exact exFull_reach.inv.fresh a (by omega)

example : hasJobs (run .fixed (init exProgs) exFull) = false :=
  C08_drained_no_jobs exFull_reach exFull_quiescent

end Examples

/-! ## The two defects of the pinned tree, as schedules (each choice = one source line)

`clear_queue()` without the lock: client 0 is inside `add_job` → `_run_next_job`, has just
evaluated `len(self._queue) > 0` (20 lines executed); client 1 executes `self._queue.clear()`;
client 0's `popleft()` raises `IndexError`.  Found by `harness/c08.py` on the pinned tree
(signature `controller-call-raises`), repaired by the first `fix:` commit. -/

def pinnedClearProgs : Nat → List Op :=
  fun n => if n = 0 then [.add 1] else if n = 1 then [.clear] else []

def pinnedClearRace : List (Tid × Choice) :=
  List.replicate 20 (.client 0, .run) ++ [(.client 1, .run), (.client 1, .run), (.client 0, .run)]

theorem C08_pinned_clear_queue_defect :
    (run .pinned (init pinnedClearProgs) pinnedClearRace).errs = [.client 0] ∧
    ((run .pinned (init pinnedClearProgs) pinnedClearRace).thr (.client 0)).pc = .rn4 (.enq 0) := by
  decide +kernel

/-- the same schedule is harmless in the code as it stands (client 1 waits for the lock) -/
example : (run .fixed (init pinnedClearProgs) pinnedClearRace).errs = [] := by decide +kernel

/-! `stop_current()` testing `_active_agent` outside the lock: client 0 queues job 1 (29 lines),
client 1 evaluates `self._active_agent is not None and self._active_agent.is_running()` (true),
the job's thread runs to completion of `self._active_agent = None` and releases the lock,
client 1 takes the lock and executes `self._active_agent.request_stop()` on `None`:
`AttributeError`.  Repaired by the second `fix:` commit. -/

def pinnedStopProgs : Nat → List Op :=
  fun n => if n = 0 then [.add 1] else if n = 1 then [.stopCurrent] else []

def pinnedStopRace : List (Tid × Choice) :=
  List.replicate 29 (.client 0, .run) ++ List.replicate 4 (.client 1, .run) ++
  [(.job 0, .run), (.job 0, .run), (.job 0, .fin)] ++ List.replicate 8 (.job 0, .run) ++
  List.replicate 5 (.client 1, .run)

theorem C08_pinned_stop_current_defect :
    (run .pinned (init pinnedStopProgs) pinnedStopRace).errs = [.client 1] ∧
    ((run .pinned (init pinnedStopProgs) pinnedStopRace).thr (.client 1)).pc = .ps4 ∧
    (run .pinned (init pinnedStopProgs) pinnedStopRace).active = none := by
  decide +kernel

example : (run .fixed (init pinnedStopProgs) pinnedStopRace).errs = [] := by decide +kernel

end Bardolph.JC
