import Bardolph.Proofs.ExprBridgeSim
import Bardolph.Props.C02Climb
/-!
# C02 — the expression theorems hold for the parser model that is tied to the code

`Props/C02Climb.lean` proves that the stand-alone expression-parser model `ExprParse` is a correct
precedence-climbing parser (`C02_climb_roundtrip`, `C02_redundant_parens`).  The model of the WHOLE
parser, `ParseTok` (tied to the real `Parser.parse` on tens of thousands of texts in every run of
C06 and C16), has its own mirror of `expr_parser.py`.  Here the two are connected:

* `C02_parsetok_expression_eq` — on a braced value `{ … }` whose tokens lie in the alphabet the
  two models share (`toE`: numbers, strings, registers, declared variables and macros, the binary
  operators, unary `+ -`, `not`, parentheses), `ParseTok` succeeds exactly when `ExprParse.parse`
  does, consumes exactly the braced expression and appends exactly `ExprParse.parse`'s code (then
  the `POP` into the destination); when `ExprParse.parse` gives `none` it fails with a message.
* `C02_parsetok_roundtrip` — hence, for every well-formed expression tree `t`, the parser model
  compiles `hue { render t }` to `postfixOf t ++ [POP hue]`.

Finding while proving it: `ExprParse` had no `not` (its `atom` rejected the token), while the real
parser and `ParseTok` accept `{not 1}`, `{1 + not 2 * 3}` …; `ExprParse.atom` now mirrors
`_rvalue_not` (a whole expression follows `not`, then `OP NOT`).
-/
namespace Bardolph.ParseTok
open Bardolph

theorem alphabet_not_rbrace {ctx : St} {t : Tok} {e : ETok} (h : toE ctx t = some e) :
    t.isMark "}" = false := by
  cases e with
  | lparen =>
    have := (toE_lparen h).1
    simp only [Tok.isMark, Bool.and_eq_true, beq_iff_eq] at this
    simp [Tok.isMark, this.2]
  | rparen =>
    have := (toE_rparen h).1
    simp only [Tok.isMark, Bool.and_eq_true, beq_iff_eq] at this
    simp [Tok.isMark, this.2]
  | atom c => exact (toE_atom_facts h).1 _
  | op s =>
    obtain ⟨hc, hs, _⟩ := toE_op h
    have : s ≠ "}" := by intro h; rw [h] at hs; exact absurd hs (by decide)
    simp [Tok.isMark, hc, this]

/-- **Bridge.**  `st` stands at `{`; `toks` (translated: `etoks`) follow, then `}` (`rb`), then `m`.
`ParseTok`'s `_rvalue` into `d` succeeds exactly when `ExprParse.parse etoks` does, leaves the parser
at `m` and has appended `ExprParse.parse`'s code and `POP d`; otherwise it fails with a message. -/
theorem C02_parsetok_expression_eq (st : St) (hi : Inv st) (toks : List Tok) (etoks : List ETok)
    (rb m : Tok) (ms : List Tok) (d : Dst)
    (hl : st.cur.isMark "{" = true) (hrest : st.rest = toks ++ rb :: m :: ms)
    (hrb : rb.isMark "}" = true) (htr : Tr ⟨st, rb, m :: ms, st.code⟩ toks etoks) :
    match ExprParse.parse etoks with
    | some code =>
      rvalueTop (.to d) .main st = .ok () { st with
        cur := m, rest := ms, code := st.code ++ (code ++ [Instr.pop d]).toArray }
    | none => ∃ st', rvalueTop (.to d) .main st = .fail st' ∧ st'.errors ≠ st.errors := by
  let fr : Frame := ⟨st, rb, m :: ms, st.code⟩
  have hgood := (spec_rvalueTop (t := true) (.to d) .main).run st hi
  obtain ⟨_, _, _, _, _, _, _, hrbne⟩ := term_facts hrb
  -- the state after `{`
  have hnext : nextToken st = .ok () (fr.S toks []) := by
    have hne : (st.cur.ty == TT.eof) = false := by
      have := isMark_ne_eof hl; simpa using this
    unfold nextToken advance
    cases toks with
    | nil => simp [hne, hrest, Frame.S, fr]
    | cons t r => simp [hne, hrest, Frame.S, fr]
  obtain ⟨F0, hF0⟩ : ∃ F0, rvFuel st = F0 + 1 := ⟨rvFuel st - 1, by unfold rvFuel; omega⟩
  have hsim := (sim_all fr hrb F0).2.1 toks etoks [] (4 * etoks.length + 4) htr (by omega)
  unfold rvalueTop at hgood ⊢
  dsimp only at hgood ⊢
  rw [hF0] at hgood ⊢
  unfold rvalue at hgood ⊢
  rw [getSt_bind, if_pos hl, bind_ok hnext] at hgood ⊢
  dsimp only at hgood ⊢
  unfold ExprParse.parse
  have errs_ne : ∀ s' : St, FailPost st s' → s'.errors ≠ st.errors := by
    intro s' hp
    obtain ⟨new, hne, he', _⟩ := hp.errors
    rw [he']
    intro h
    have := congrArg List.length h
    cases new with
    | nil => exact hne rfl
    | cons _ _ => simp at this
  cases hr : expression F0 (fr.S toks []) with
  | ok u s' =>
    rw [hr] at hsim
    obtain ⟨toks1, etoks1, code1, rfl, htr1, he⟩ := hsim
    rw [he]
    rw [bind_ok hr] at hgood ⊢
    have hemit : emitTo .main (.pop d) (fr.S toks1 code1) = .ok () (fr.S toks1 (code1 ++ [.pop d])) :=
      fr.emit_S toks1 code1 _
    rw [bind_ok hemit, getSt_bind] at hgood ⊢
    cases toks1 with
    | nil =>
      cases htr1.nil_inv
      dsimp only
      rw [Frame.S_cur_nil]
      have hc : (!rb.isMark "}") = false := by rw [hrb]; rfl
      rw [if_neg (by rw [hc]; exact Bool.false_ne_true)]
      have hne : (rb.ty == TT.eof) = false := by simpa using hrbne
      simp [nextToken, advance, Frame.S, fr, hne]
    | cons t1 r1 =>
      obtain ⟨e1, er1, rfl, hte1, _⟩ := htr1.cons_inv
      dsimp only
      rw [Frame.S_cur_cons] at hgood ⊢
      have hc : (!t1.isMark "}") = true := by rw [alphabet_not_rbrace hte1]; rfl
      rw [if_pos hc] at hgood ⊢
      have hf : tokenError "Expected closing curly brace, got " "."
            (fr.S (t1 :: r1) (code1 ++ [Instr.pop d])) =
          (.fail ((fr.S (t1 :: r1) (code1 ++ [Instr.pop d])).addError
            ("Expected closing curly brace, got " ++ t1.str ++ ".")) : Res Unit) := rfl
      rw [bind_fail hf] at hgood ⊢
      exact ⟨_, rfl, errs_ne _ hgood⟩
  | fail s' =>
    rw [hr] at hsim
    have he : ExprParse.expression (4 * etoks.length + 4) (etoks, []) = none := hsim
    rw [he]
    rw [bind_fail hr] at hgood ⊢
    exact ⟨_, rfl, errs_ne _ hgood⟩
  | raised k s' => rw [bind_run, hr] at hgood; cases hgood
  | oof => rw [bind_run, hr] at hgood; cases hgood

theorem Tr.congr {fr fr' : Frame} (hg : fr.base.globals = fr'.base.globals)
    (hl : fr.base.locals = fr'.base.locals) {toks : List Tok} {etoks : List ETok}
    (h : Tr fr toks etoks) : Tr fr' toks etoks := by
  induction h with
  | nil => exact .nil
  | cons h1 _ ih => exact .cons (by rw [← toE_congr hg hl]; exact h1) ih

/-- **`C02_climb_roundtrip`, transported.**  For every well-formed expression tree `t`: when the
tokens between `{` and `}` are (a translation of) the documented rendering of `t`, the parser
model accepts the braced value and appends exactly the postfix code of `t`, then `POP d`. -/
theorem C02_parsetok_roundtrip_value (t : ExprParse.Tree) (hw : ExprParse.WfTree t)
    (st : St) (hi : Inv st) (toks : List Tok) (rb m : Tok) (ms : List Tok) (d : Dst)
    (hl : st.cur.isMark "{" = true) (hrest : st.rest = toks ++ rb :: m :: ms)
    (hrb : rb.isMark "}" = true)
    (htr : Tr ⟨st, rb, m :: ms, st.code⟩ toks (ExprParse.render t)) :
    rvalueTop (.to d) .main st = .ok () { st with
      cur := m, rest := ms,
      code := st.code ++ (ExprParse.postfixOf t ++ [Instr.pop d]).toArray } := by
  have h := C02_parsetok_expression_eq st hi toks _ rb m ms d hl hrest hrb htr
  rw [ExprParse.C02_climb_roundtrip t hw] at h
  exact h

/-- the symbol tables at the start of a parse: the built-in routines, nothing else -/
def startFrame : Frame := ⟨{ cur := eofTok, rest := [], globals := initialGlobals }, eofTok, [], #[]⟩

/-- **`C02_climb_roundtrip` for the whole parser model.**  For every well-formed expression tree
`t`, the text `hue { render t }` — as tokens: `hue`, `{`, any tokens `toks` of the shared alphabet
that translate to the documented rendering of `t`, `}` — is accepted by `ParseTok` and compiles to
the postfix code of `t` followed by `POP hue`. -/
def hueTok : Tok := ⟨.register, "hue", 1⟩
def lbTok : Tok := ⟨.mark, "{", 1⟩
def rbTok : Tok := ⟨.mark, "}", 1⟩

theorem C02_parsetok_roundtrip (t : ExprParse.Tree) (hw : ExprParse.WfTree t) (toks : List Tok)
    (hok : ∀ x ∈ toks, tokOk x = true) (htr : Tr startFrame toks (ExprParse.render t)) :
    parseTokens ([hueTok, lbTok] ++ toks ++ [rbTok]) =
      .accept (ExprParse.postfixOf t ++ [Instr.pop (.reg .hue)]) := by
  let all : List Tok := [hueTok, lbTok] ++ toks ++ [rbTok]
  have hall : ∀ x ∈ all, tokOk x = true := by
    intro x hx
    simp only [all, List.mem_append, List.mem_cons, List.not_mem_nil, or_false] at hx
    rcases hx with ((rfl | rfl) | hx) | rfl
    · rfl
    · rfl
    · exact hok x hx
    · rfl
  have hi0 := inv_initState hall
  let s0 : St :=
    { cur := hueTok, rest := (lbTok :: toks ++ [rbTok, eofTok]), globals := initialGlobals }
  have e0 : initState all = s0 := by
    rw [initState_eq]; simp [all, s0]
  rw [e0] at hi0
  let s1 : St := { s0 with cur := lbTok, rest := (toks ++ [rbTok, eofTok]) }
  have hskip : skipToken s0 = .ok () s1 := by simp [skipToken, advance, s0, s1, hueTok]
  have hi1 : Inv s1 := (ok_of_spec (t := false) spec_skipToken hi0 hskip).1
  have hval := C02_parsetok_roundtrip_value t hw s1 hi1 toks rbTok eofTok [] (.reg .hue)
    rfl rfl rfl (Tr.congr (fr := startFrame) (fr' := ⟨s1, rbTok, [eofTok], s1.code⟩) rfl rfl htr)
  let code2 : Array Instr := s1.code ++ (ExprParse.postfixOf t ++ [Instr.pop (.reg .hue)]).toArray
  let s2 : St := { s1 with cur := eofTok, rest := ([] : List Tok), code := code2 }
  have hreg : regOfName "hue" = some Reg.hue := by decide +kernel
  have hcmd : ∀ f, command (f + 1) s0 = .ok () s2 := by
    intro f
    have hty : s0.cur.ty = .register := rfl
    have hr : regOfName s0.cur.str = some Reg.hue := hreg
    unfold command
    rw [getSt_bind]
    simp only [hty]
    unfold setReg
    rw [getSt_bind]
    simp only [hr, hty]
    have h1 : (Reg.hue == Reg.time) = false := rfl
    have h2 : (TT.register == TT.default) = false := rfl
    simp only [h1, h2, Bool.false_eq_true, if_false]
    rw [bind_ok hskip, getSt_bind]
    have h3 : (s1.cur.ty == TT.literalString) = false := rfl
    simp only [h3, Bool.false_eq_true, if_false]
    exact hval
  unfold parseTokens script
  rw [e0]
  have hbody : bodyLoop (8 * all.length + 16) s0 = .ok () s2 := by
    unfold bodyLoop
    have hn : s0.rest.length + 1 = (toks.length + 2) + 1 + 1 := by simp [s0]
    rw [hn]
    unfold body
    rw [getSt_bind]
    have h0 : (s0.cur.ty == TT.eof) = false := rfl
    simp only [h0, Bool.false_eq_true, if_false]
    rw [bind_ok (hcmd _)]
    unfold body
    rw [getSt_bind]
    have h2 : (s2.cur.ty == TT.eof) = true := rfl
    simp only [h2, if_true]
    rfl
  rw [bind_ok hbody, getSt_bind]
  have h2 : (s2.cur.ty != TT.eof) = false := rfl
  simp only [h2, Bool.false_eq_true, if_false]
  simp [outcomeOf, pure_run, s2, code2, s1, s0]

section Example
open ExprParse

/-! ### the hypotheses are satisfiable: `hue {1 + 2 * saturation}` -/

def exTree : Tree :=
  .bin "+" (.atom [.pushq (.int 1)]) (.bin "*" (.atom [.pushq (.int 2)]) (.atom [.push (.reg .saturation)]))

def exToks : List Tok :=
  [⟨.number, "1", 1⟩, ⟨.mark, "+", 1⟩, ⟨.number, "2", 1⟩, ⟨.mark, "*", 1⟩, ⟨.register, "saturation", 1⟩]

theorem exTr : Tr startFrame exToks (render exTree) := by
  have hr : render exTree = [.atom [.pushq (.int 1)], .op "+", .atom [.pushq (.int 2)], .op "*",
      .atom [.push (.reg .saturation)]] := by
    simp [exTree, render, needsParen, precOf, Generated.ExprTables.prec]
  rw [hr]
  refine .cons ?_ (.cons ?_ (.cons ?_ (.cons ?_ (.cons ?_ .nil))))
  all_goals first | rfl | (simp [toE]; decide +kernel)

example : parseTokens ([hueTok, lbTok] ++ exToks ++ [rbTok]) =
    .accept [.pushq (.int 1), .pushq (.int 2), .push (.reg .saturation), .op .mul, .op .add,
      .pop (.reg .hue)] :=
  C02_parsetok_roundtrip exTree
    (by simp [WfTree, Climb.Wf, exTree, binops]) exToks (by decide) exTr

end Example

end Bardolph.ParseTok
