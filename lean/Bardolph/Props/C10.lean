import Bardolph.Model.Clock
/-!
# C10 — delays run on one time line from script start; time-of-day waits restart it

Theorems about `Bardolph.Clock` (the model of `clock.py` and of `Machine._wait`).  A run is
*any* list of stamped events accepted by `step` — the tick instants, the amount of work
between calls, and the instants at which the script thread gets to read the time, to enter
`Event.wait` and to resume after a tick are all universally quantified (only monotone
stamps are required), so every theorem below holds for every tick sequence, every work
length and every interleaving of the clock thread with the script thread.

The specification side is `timeline` (Model/Clock.lean, written from the property text):
base = instant of the script start or of the last time-of-day return, sum = Σ of the delay
values requested since.  The comparison operator of the wait loop, the `time > 0` test, the
raw divisor and `reset`'s zero are the values regenerated from the Python source.
-/
namespace Bardolph.Clock
open Bardolph.Generated.Clock

/-! ## Agreement with the source literals -/

theorem C10_source_literals :
    pauseLoopStrict = true ∧ waitTestStrict = true ∧ rawDivisor = 1000 ∧ timeRawFactor = 1000 ∧
    resetCue = 0 ∧ untilResets = true := by decide

/-! ## Helper lemmas -/

theorem mustWait_iff (c : Clk) (t : Time) : c.mustWait t = true ↔ t < c.due := by
  simp [Clk.mustWait, pauseLoopStrict, Clk.et, Clk.due]
  grind

theorem mustWait_false_iff (c : Clk) (t : Time) : c.mustWait t = false ↔ c.due ≤ t := by
  have := mustWait_iff c t
  cases h : c.mustWait t <;> simp [h] at this ⊢ <;> grind

theorem step_tick_pWait {s : St} {t : Time} (hp : s.phase = .pWait) (h : s.now ≤ t) :
    step s .tick t = some { s with now := t, phase := .pRead, flag := true } := by
  have h1 : ¬ t < s.now := by grind
  simp [step, h1, hp]

theorem step_read_pRead {s : St} {t : Time} (hp : s.phase = .pRead) (h : s.now ≤ t) :
    step s .read t = some (if s.clk.mustWait t then { s with now := t, phase := .pEnter }
      else { s with now := t, phase := .idle, rets := ⟨false, t, s.blocked⟩ :: s.rets }) := by
  have h1 : ¬ t < s.now := by grind
  simp [step, h1, hp]
  split <;> rfl

theorem step_enter_pEnter {s : St} {t : Time} (hp : s.phase = .pEnter) (h : s.now ≤ t) :
    step s .enter t = some (if s.flag then { s with now := t, phase := .pRead }
      else { s with now := t, phase := .pWait, blocked := true }) := by
  have h1 : ¬ t < s.now := by grind
  simp [step, h1, hp]
  split <;> rfl

theorem step_callPause_idle {s : St} {d t : Time} (hp : s.phase = .idle) (h : s.now ≤ t) :
    step s (.callPause d) t =
      some { s with now := t, clk := s.clk.addCue d, phase := .pRead, blocked := false } := by
  have h1 : ¬ t < s.now := by grind
  simp [step, h1, hp]

theorem step_now {s s' : St} {e : Ev} {t : Time} (h : step s e t = some s') :
    s.now ≤ t ∧ s'.now = t := by
  unfold step at h
  split at h
  · cases h
  · rename_i hlt
    refine ⟨by grind, ?_⟩
    cases e <;> cases hp : s.phase <;> simp only [hp] at h <;> (try split at h) <;>
      (first | cases h | skip) <;> simp_all

/-- one step keeps the clock object on the time line of the trace -/
theorem step_line {s s' : St} {e : Ev} {t : Time} {l : Line}
    (h : step s e t = some s') (ho : s.clk.origin = l.base) (hc : s.clk.cue = l.sum) :
    s'.clk.origin = (lineStep l (e, t)).base ∧ s'.clk.cue = (lineStep l (e, t)).sum := by
  unfold step at h
  split at h
  · cases h
  · cases e <;> cases hp : s.phase <;> simp only [hp] at h <;> (try split at h) <;>
      (first | cases h | skip) <;>
      simp_all [lineStep, Clk.addCue, Clk.reset, untilResets, resetCue]

theorem runFrom_line {tr : List (Ev × Time)} : ∀ {s s' : St} {l : Line},
    runFrom s tr = some s' → s.clk.origin = l.base → s.clk.cue = l.sum →
    s'.clk.origin = (timelineFrom l tr).base ∧ s'.clk.cue = (timelineFrom l tr).sum := by
  induction tr with
  | nil => intro s s' l h ho hc; simp [runFrom] at h; subst h; simp [timelineFrom, ho, hc]
  | cons ev rest ih =>
    intro s s' l h ho hc
    obtain ⟨e, t⟩ := ev
    simp only [runFrom] at h
    split at h
    · rename_i s₁ hs
      have := step_line hs ho hc
      simpa [timelineFrom] using ih h this.1 this.2
    · cases h

/-! ## The cue depends only on Σ d — lateness is never accumulated -/

/-- **no lateness accumulation.** After any run — any ticks, any work, any hold-ups, any
number of delays that were already overdue when requested — the clock's origin and cue are
exactly the base and the sum of the trace's time line: the due instant of the k-th delay is
`base + d₁ + … + d_k` and nothing else. -/
theorem C10_no_lateness_accumulation {t₀ : Time} {tr : List (Ev × Time)} {s : St}
    (h : run t₀ tr = some s) :
    s.clk.origin = (timeline t₀ tr).base ∧ s.clk.cue = (timeline t₀ tr).sum ∧
    s.clk.due = (timeline t₀ tr).due := by
  have := runFrom_line (l := ⟨t₀, 0⟩) h rfl rfl
  refine ⟨this.1, this.2, ?_⟩
  simp [Clk.due, Line.due, timeline, this.1, this.2]

/-- the time line ignores everything but delay requests and time-of-day returns -/
theorem timeline_ignores (l : Line) (t : Time) (p : TP.Pat) :
    lineStep l (.read, t) = l ∧ lineStep l (.enter, t) = l ∧ lineStep l (.tick, t) = l ∧
    lineStep l (.clear, t) = l ∧ lineStep l (.callUntil p, t) = l := by
  simp [lineStep]

theorem timelineFrom_pure : ∀ (tr : List (Ev × Time)) (l : Line), hasReset tr = false →
    timelineFrom l tr = ⟨l.base, l.sum + sumList (delaysOf tr)⟩ := by
  intro tr
  induction tr with
  | nil => intro l _; simp [timelineFrom, delaysOf, sumList]; cases l; simp; grind
  | cons ev rest ih =>
    intro l h
    obtain ⟨e, t⟩ := ev
    cases e <;> simp [hasReset] at h <;>
      simp [timelineFrom, lineStep, delaysOf, sumList] <;>
      (first
        | (have := ih l h; simp [timelineFrom] at this; rw [this])
        | (rename_i d; have := ih ⟨l.base, l.sum + d⟩ h; simp [timelineFrom] at this; rw [this]
           simp; grind))

/-- without a time-of-day wait the line is `t₀ + Σ d` -/
theorem timeline_pure (t₀ : Time) (tr : List (Ev × Time)) (h : hasReset tr = false) :
    timeline t₀ tr = ⟨t₀, sumList (delaysOf tr)⟩ := by
  have := timelineFrom_pure tr ⟨t₀, 0⟩ h
  simp [timeline, this]; grind

/-! ## Never early -/

/-- **never early.** In any run, a delay returns (the `read` at `t` that leaves the wait
loop) only at an instant at or after `base + Σ d` of the trace so far. -/
theorem C10_never_early {t₀ : Time} {tr : List (Ev × Time)} {s s' : St} {t : Time}
    (h : run t₀ tr = some s) (hp : s.phase = .pRead) (hs : step s .read t = some s')
    (hret : s'.phase = .idle) : (timeline t₀ tr).due ≤ t := by
  have hl := (C10_no_lateness_accumulation h).2.2
  rw [← hl]
  unfold step at hs
  split at hs
  · cases hs
  · simp only [hp] at hs
    split at hs
    · cases hs; simp at hret
    · rename_i hw
      have := (mustWait_false_iff s.clk t).mp (by simpa using hw)
      grind

/-- the k-th delay of a script without time-of-day waits never ends before
`t₀ + d₁ + … + d_k` -/
theorem C10_never_early_kth {t₀ : Time} {tr : List (Ev × Time)} {s s' : St} {t : Time}
    (h : run t₀ tr = some s) (hnr : hasReset tr = false) (hp : s.phase = .pRead)
    (hs : step s .read t = some s') (hret : s'.phase = .idle) :
    t₀ + sumList (delaysOf tr) ≤ t := by
  have := C10_never_early h hp hs hret
  rw [timeline_pure t₀ tr hnr] at this
  simpa [Line.due] using this

/-! ## The first tick at or after the due instant that finds the thread waiting ends the delay -/

/-- **first waiting tick.** A tick at `t ≥ due` that finds the script thread blocked in the
delay's wait ends the delay: whenever the thread gets to run again (`t' ≥ t`), its next
step is the `read` that returns — it never goes back to waiting. -/
theorem C10_first_waiting_tick {s : St} {t t' : Time} (hp : s.phase = .pWait)
    (hnow : s.now ≤ t) (hdue : s.clk.due ≤ t) (htt : t ≤ t') :
    ∃ s₁ s₂, step s .tick t = some s₁ ∧ step s₁ .read t' = some s₂ ∧ s₂.phase = .idle ∧
      s₂.rets = ⟨false, t', s.blocked⟩ :: s.rets ∧ s₂.clk = s.clk := by
  have hw : s.clk.mustWait t' = false := (mustWait_false_iff s.clk t').mpr (by grind)
  refine ⟨_, _, step_tick_pWait hp hnow, step_read_pRead (by rfl) (by simpa using htt), ?_⟩
  simp [hw]

/-- a tick before the due instant does not end the delay (thread not held up: it reads the
time at the instant of the tick) — it goes back to wait -/
theorem C10_early_tick_keeps_waiting {s : St} {t : Time} (hp : s.phase = .pWait)
    (hnow : s.now ≤ t) (hdue : t < s.clk.due) :
    ∃ s₁ s₂, step s .tick t = some s₁ ∧ step s₁ .read t = some s₂ ∧ s₂.phase = .pEnter ∧
      s₂.rets = s.rets := by
  have hw : s.clk.mustWait t = true := (mustWait_iff s.clk t).mpr hdue
  refine ⟨_, _, step_tick_pWait hp hnow, step_read_pRead (by rfl) (by simp), ?_⟩
  simp [hw]

/-- a tick that does not find the thread waiting changes nothing but the event flag, and
the flag is gone with the `clear` that follows -/
theorem C10_missed_tick {s : St} {t : Time} (hnow : s.now ≤ t)
    (hp1 : s.phase ≠ .pWait) (hp2 : ∀ p, s.phase ≠ .uWait p) :
    ∃ s₁ s₂, step s .tick t = some s₁ ∧ step s₁ .clear t = some s₂ ∧
      s₂ = { s with now := t, flag := false } := by
  have h1 : ¬ t < s.now := by grind
  have h2 : ¬ t < t := by grind
  cases hp : s.phase <;> simp_all [step]

/-- **within one tick.** The thread is not held up (it enters the wait at the instant `a` at
which it found the delay not yet due, and reads the time again at the instant `τ` of the tick
that wakes it) and the clock is not held up either (that tick comes at most `P` after `a`).
Then the four steps `read a, enter a, tick τ, read τ` end the delay exactly when `τ` is at
or after the due instant, and in that case less than `P` after it; otherwise the thread is
back at the point of entering the wait, to which the same statement applies again. -/
theorem C10_within_one_tick {s : St} {a τ P : Time} (hp : s.phase = .pRead)
    (hf : s.flag = false) (hnow : s.now ≤ a) (ha : a < s.clk.due) (haτ : a ≤ τ)
    (hP : τ ≤ a + P) :
    ∃ s₄, runFrom s [(.read, a), (.enter, a), (.tick, τ), (.read, τ)] = some s₄ ∧
      (s₄.phase = .idle ↔ s.clk.due ≤ τ) ∧ (s₄.phase = .pEnter ↔ τ < s.clk.due) ∧
      (s₄.phase = .idle → τ < s.clk.due + P ∧ s₄.rets = ⟨false, τ, true⟩ :: s.rets) ∧
      s₄.clk = s.clk := by
  have hw : s.clk.mustWait a = true := (mustWait_iff s.clk a).mpr ha
  have n1 : ¬ a < s.now := by grind
  have n2 : ¬ a < a := by grind
  have n3 : ¬ τ < a := by grind
  have n4 : ¬ τ < τ := by grind
  by_cases hd : s.clk.due ≤ τ
  · have hm : s.clk.mustWait τ = false := (mustWait_false_iff s.clk τ).mpr hd
    simp [runFrom, step, hp, hf, hw, hm, n1, n2, n3, n4, hd]
    grind
  · have hm : s.clk.mustWait τ = true := (mustWait_iff s.clk τ).mpr (by grind)
    simp [runFrom, step, hp, hf, hw, hm, n1, n2, n3, n4, hd]
    grind

/-! ## Behind schedule: the delay ends at once and nothing extra is added -/

/-- **behind schedule.** When the new due instant has already passed at the moment of the
call, the delay returns at the thread's first reading of the time, without ever blocking,
and the cue has grown by exactly `d`. -/
theorem C10_behind_schedule_immediate {s : St} {d t t' : Time} (hp : s.phase = .idle)
    (hnow : s.now ≤ t) (hlate : s.clk.due + d ≤ t) (htt : t ≤ t') :
    ∃ s₁ s₂, step s (.callPause d) t = some s₁ ∧ step s₁ .read t' = some s₂ ∧
      s₂.phase = .idle ∧ s₂.rets = ⟨false, t', false⟩ :: s.rets ∧
      s₂.clk.cue = s.clk.cue + d ∧ s₂.clk.origin = s.clk.origin := by
  have hw : (s.clk.addCue d).mustWait t' = false :=
    (mustWait_false_iff (s.clk.addCue d) t').mpr (by simp [Clk.due, Clk.addCue] at *; grind)
  refine ⟨_, _, step_callPause_idle hp hnow, step_read_pRead (by rfl) (by simpa using htt), ?_⟩
  simp only [hw]
  simp [Clk.addCue]

/-! ## `time at` restarts the time line -/

/-- **time-at restarts.** The return of a time-of-day wait (its `reset` at `t`) sets the
origin to `t` and the cue to 0, so the time line of the trace restarts there. -/
theorem C10_time_at_restarts {s s' : St} {t : Time} (h : step s .reset t = some s') :
    s'.clk.origin = t ∧ s'.clk.cue = 0 ∧ s'.phase = .idle ∧
    s'.rets = ⟨true, t, s.blocked⟩ :: s.rets ∧
    ∀ (t₀ : Time) (tr : List (Ev × Time)), timeline t₀ (tr ++ [(.reset, t)]) = ⟨t, 0⟩ := by
  unfold step at h
  split at h
  · cases h
  · cases hp : s.phase <;> simp only [hp] at h <;> cases h
    simp [Clk.reset, untilResets, resetCue, timeline, timelineFrom, lineStep]

/-- a time-of-day wait proceeds to its return exactly when the time read matches -/
theorem C10_time_at_matches {s s' : St} {p : TP.Pat} {t : Time} (hp : s.phase = .uRead p)
    (h : step s .read t = some s') :
    (s'.phase = .uReset ↔ p.matches (hourOf t) (minuteOf t) = true) ∧
    (s'.phase = .uEnter p ↔ p.matches (hourOf t) (minuteOf t) = false) := by
  unfold step at h
  split at h
  · cases h
  · simp only [hp] at h
    split at h <;> cases h <;> simp_all

/-- delays after a time-of-day return are never early with respect to the restarted line:
the instance of `C10_never_early` for a trace ending in `reset` at `r` followed by delay
requests only -/
theorem C10_never_early_after_time_at {t₀ r : Time} {tr tr' : List (Ev × Time)} {s s' : St}
    {t : Time} (h : run t₀ (tr ++ (.reset, r) :: tr') = some s) (hnr : hasReset tr' = false)
    (hp : s.phase = .pRead) (hs : step s .read t = some s') (hret : s'.phase = .idle) :
    r + sumList (delaysOf tr') ≤ t := by
  have := C10_never_early h hp hs hret
  have e : timeline t₀ (tr ++ (.reset, r) :: tr') = ⟨r, sumList (delaysOf tr')⟩ := by
    simp [timeline, timelineFrom, List.foldl_append, lineStep]
    have := timelineFrom_pure tr' ⟨r, 0⟩ hnr
    simp [timelineFrom] at this
    rw [this]; simp; grind
  rw [e] at this
  simpa [Line.due] using this

/-! ## A zero delay never blocks -/

/-- between calls the script is never ahead of its time line -/
theorem idle_not_ahead_from {tr : List (Ev × Time)} : ∀ {s s' : St},
    (s.phase = .idle → s.clk.due ≤ s.now) → runFrom s tr = some s' →
    (s'.phase = .idle → s'.clk.due ≤ s'.now) := by
  induction tr with
  | nil => intro s s' hi h; simp [runFrom] at h; subst h; exact hi
  | cons ev rest ih =>
    intro s s' hi h
    obtain ⟨e, t⟩ := ev
    simp only [runFrom] at h
    split at h
    · rename_i s₁ hs
      refine ih ?_ h
      have hn := step_now hs
      unfold step at hs
      split at hs
      · cases hs
      cases e <;> cases hp : s.phase <;> simp only [hp] at hs <;> (try split at hs) <;>
        (first | cases hs | skip) <;> simp_all [Clk.due, Clk.reset, untilResets, resetCue] <;>
        (try (rename_i hm; have := (mustWait_false_iff s.clk t).mp (by simpa using hm)
              simp [Clk.due] at this; grind)) <;> grind
    · cases h

/-- **zero never blocks.** After any run, a zero delay requested between calls returns at
the thread's first reading of the time without entering `Event.wait`; and at the level of
the `WAIT` instruction a zero `time` does not call the clock at all. -/
theorem C10_zero_never_blocks {t₀ : Time} {tr : List (Ev × Time)} {s : St} {t t' : Time}
    (h : run t₀ tr = some s) (hp : s.phase = .idle) (hnow : s.now ≤ t) (htt : t ≤ t') :
    (∃ s₁ s₂, step s (.callPause 0) t = some s₁ ∧ step s₁ .read t' = some s₂ ∧
      s₂.phase = .idle ∧ s₂.rets = ⟨false, t', false⟩ :: s.rets) ∧
    ∀ raw, waitChoice (.num 0) raw = .nothing := by
  have hi : s.clk.due ≤ s.now :=
    idle_not_ahead_from (s := init t₀) (by intro _; simp [init, Clk.due]; grind) h hp
  refine ⟨?_, by intro raw; simp [waitChoice, waitTestStrict]⟩
  obtain ⟨s₁, s₂, a, b, c, d, _⟩ :=
    C10_behind_schedule_immediate (d := 0) hp hnow (by grind) htt
  exact ⟨s₁, s₂, a, b, c, d⟩

/-! ## Raw units are milliseconds -/

/-- **raw is ms.** A positive numeric `time` is a delay of `time/1000` seconds in raw units
and of `time` seconds otherwise; converting a logical time with `units.time_raw` and waiting
for it in raw units is the same delay; a pattern waits for the time of day. -/
theorem C10_raw_is_ms (x : Rat) (hx : 0 < x) (p : TP.Pat) (raw : Bool) :
    waitChoice (.num x) true = .delay (x / 1000) ∧ waitChoice (.num x) false = .delay x ∧
    waitChoice (.num (timeRaw x)) true = .delay x ∧ waitChoice (.pat p) raw = .until_ p ∧
    (∀ y : Rat, y ≤ 0 → waitChoice (.num y) raw = .nothing) := by
  have h1 : (0 : Rat) < timeRaw x := by simp [timeRaw, timeRawFactor]; grind
  refine ⟨by simp [waitChoice, waitTestStrict, rawDivisor, hx],
          by simp [waitChoice, waitTestStrict, hx], ?_, by simp [waitChoice], ?_⟩
  · simp [waitChoice, waitTestStrict, rawDivisor, h1]
    simp [timeRaw, timeRawFactor]; grind
  · intro y hy
    have : ¬ (0 < y) := by grind
    simp [waitChoice, waitTestStrict, this]

/-! ## Non-vacuity: concrete runs accepted by the model -/

def noon : TP.Pat := ⟨[([12], [0])]⟩

/-- instants of return, earliest first -/
def retTimes (o : Option St) : Option (List (Bool × Time × Bool)) :=
  o.map fun s => s.rets.reverse.map fun r => (r.isUntil, r.at_, r.blocked)

/-- ticks every 1/2 s from 1/4: a 1 s delay requested at 0 returns at the tick 5/4 (the
first at or after 1), the next 1 s delay, requested after 2 s of work (at 13/4, behind
schedule: due 2), returns at once without blocking, and the third is due at 3 — not at
13/4 + 1: it is overdue again when requested at 7/2. -/
example : retTimes (run 0 [(.callPause 1, 0), (.read, 0), (.enter, 0), (.tick, 1/4), (.clear, 1/4),
      (.read, 1/4), (.enter, 1/4), (.tick, 3/4), (.clear, 3/4), (.read, 3/4), (.enter, 3/4),
      (.tick, 5/4), (.clear, 5/4), (.read, 5/4),
      (.tick, 7/4), (.clear, 7/4), (.tick, 9/4), (.clear, 9/4), (.tick, 11/4), (.clear, 11/4),
      (.callPause 1, 13/4), (.read, 13/4),
      (.callPause 1, 7/2), (.read, 7/2)]) =
    some [(false, 5/4, true), (false, 13/4, false), (false, 7/2, false)] := by decide +kernel

/-- a time-of-day wait started at 11:59:30 returns at the tick of 12:00:00 (43200) and the
following 1 s delay is due at 43201 -/
example : retTimes (run 43170 [(.callUntil noon, 43170), (.read, 43170), (.enter, 43170),
      (.tick, 43185), (.clear, 43185), (.read, 43185), (.enter, 43185),
      (.tick, 43200), (.clear, 43200), (.read, 43200), (.reset, 43200),
      (.callPause 1, 43200), (.read, 43200), (.enter, 43200),
      (.tick, 43201), (.clear, 43201), (.read, 43201)]) =
    some [(true, 43200, true), (false, 43201, true)] := by decide +kernel

/-- the hypotheses of `C10_first_waiting_tick` and `C10_within_one_tick` are satisfiable -/
example : ∃ s : St, s.phase = .pWait ∧ s.clk.due ≤ 2 ∧ s.now ≤ 2 :=
  ⟨⟨⟨0, 1⟩, .pWait, 1, false, true, []⟩, rfl, by decide +kernel, by decide +kernel⟩

/-- a thread held up after its wake-up returns late but the next due instant is unchanged -/
example : (run 0 [(.callPause 1, 0), (.read, 0), (.enter, 0), (.tick, 1), (.read, 5),
      (.callPause 1, 5)]).map (fun s => s.clk.due) = some 2 := by decide +kernel

end Bardolph.Clock
