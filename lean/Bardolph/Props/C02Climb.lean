import Bardolph.Proofs.Climb
/-!
# C02 — the expression parser is a correct precedence-climbing parser

`Bardolph.Model.ExprParse` mirrors `bardolph/parser/expr_parser.py`; its tables are generated
from the Python source.  Here:

* `C02_prec_table_documented` — the generated tables are the documented ones;
* `C02_climb_roundtrip` — parsing the documented rendering of any expression tree yields
  exactly the tree's postfix code (the general proof is in `Bardolph.Proofs.Climb`; it uses the
  tables only through `Climb.TableFacts`, instantiated here by `decide`);
* `C02_redundant_parens` — redundant parentheses do not change the code;
* regression examples by evaluation.
-/
namespace Bardolph.ExprParse
open Bardolph Bardolph.ExprParse

/-- the 14 binary operator symbols -/
def binops : List String :=
  ["or", "and", "==", "!=", "<", "<=", ">", ">=", "+", "-", "*", "/", "%", "^"]

/-- every binary node carries one of the 14 binary operator symbols; atoms carry any code -/
abbrev WfTree (t : Tree) : Prop := Climb.Wf binops t

/-- The generated precedence/associativity/operator tables are the documented ones. -/
theorem C02_prec_table_documented :
    -- precedence levels
    (precOf "^" > precOf "*" ∧ precOf "*" = precOf "/" ∧ precOf "/" = precOf "%" ∧
      precOf "*" > precOf "+" ∧ precOf "+" = precOf "-" ∧ precOf "+" > precOf "==" ∧
      precOf "==" = precOf "!=" ∧ precOf "==" = precOf "<" ∧ precOf "==" = precOf "<=" ∧
      precOf "==" = precOf ">" ∧ precOf "==" = precOf ">=" ∧
      precOf "==" > precOf "and" ∧ precOf "and" > precOf "or" ∧ precOf "or" > 0) ∧
    -- among the binary operators only `^` groups right to left
    (∀ s ∈ binops, (isRight (.op s) = true ↔ s = "^")) ∧
    -- all 14 are binary operator tokens with a VM operator
    (∀ s ∈ binops, isBinop (.op s) = true ∧ doOp s ≠ none) ∧
    (doOp "+" = some (.op .add) ∧ doOp "-" = some (.op .sub) ∧ doOp "*" = some (.op .mul) ∧
      doOp "/" = some (.op .div) ∧ doOp "%" = some (.op .mod) ∧ doOp "^" = some (.op .pow) ∧
      doOp "and" = some (.op .and) ∧ doOp "or" = some (.op .or) ∧ doOp "<" = some (.op .lt) ∧
      doOp "<=" = some (.op .lte) ∧ doOp ">" = some (.op .gt) ∧ doOp ">=" = some (.op .gte) ∧
      doOp "==" = some (.op .eq) ∧ doOp "!=" = some (.op .noteq)) ∧
    -- anything else is not a binary operator and has precedence −1
    (∀ c, isBinop (.atom c) = false ∧ tokPrec (.atom c) = -1) ∧
    (isBinop .lparen = false ∧ tokPrec .lparen = -1) ∧
    (isBinop .rparen = false ∧ tokPrec .rparen = -1) := by
  refine ⟨by decide, by decide, ?_, ⟨rfl, rfl, rfl, rfl, rfl, rfl, rfl, rfl, rfl, rfl, rfl, rfl,
    rfl, rfl⟩, fun _ => ⟨rfl, rfl⟩, ⟨rfl, rfl⟩, ⟨rfl, rfl⟩⟩
  have h : ∀ s ∈ binops, isBinop (.op s) = true ∧ (doOp s).isSome = true := by decide
  intro s hs
  refine ⟨(h s hs).1, fun e => ?_⟩
  have := (h s hs).2
  rw [e] at this
  cases this

/-- what the general proof needs from the tables -/
theorem tableFacts : Climb.TableFacts binops where
  binop := by decide
  hasOp := by
    have h : ∀ s ∈ binops, (doOp s).isSome = true := by decide
    exact fun s hs => Option.isSome_iff_exists.1 (h s hs)
  nonneg := by decide
  assoc := by decide

/-- **Pratt-parser correctness**: parsing the documented rendering of any well-formed
expression tree yields exactly its postfix code. -/
theorem C02_climb_roundtrip (t : Tree) (h : WfTree t) :
    parse (render t) = some (postfixOf t) :=
  Climb.parse_render tableFacts h

/-- `t'` is `t` with any number of subtrees wrapped in (redundant) parentheses -/
inductive AddParens : Tree → Tree → Prop
  | refl (t) : AddParens t t
  | wrap {t t'} : AddParens t t' → AddParens t (.paren t')
  | neg {t t'} : AddParens t t' → AddParens (.neg t) (.neg t')
  | pos {t t'} : AddParens t t' → AddParens (.pos t) (.pos t')
  | paren {t t'} : AddParens t t' → AddParens (.paren t) (.paren t')
  | bin (s) {l l' r r'} : AddParens l l' → AddParens r r' → AddParens (.bin s l r) (.bin s l' r')

theorem AddParens.postfixOf_eq {t t' : Tree} (h : AddParens t t') :
    postfixOf t' = postfixOf t := by
  induction h with
  | refl t => rfl
  | wrap _ ih => simpa [postfixOf] using ih
  | neg _ ih => simp [postfixOf, ih]
  | pos _ ih => simpa [postfixOf] using ih
  | paren _ ih => simpa [postfixOf] using ih
  | bin s _ _ ihl ihr => simp [postfixOf, ihl, ihr]

theorem AddParens.wf {t t' : Tree} (h : AddParens t t') (hw : WfTree t) : WfTree t' := by
  induction h with
  | refl t => exact hw
  | wrap _ ih => exact ih hw
  | neg _ ih => exact ih hw
  | pos _ ih => exact ih hw
  | paren _ ih => exact ih hw
  | bin s _ _ ihl ihr => exact ⟨hw.1, ihl hw.2.1, ihr hw.2.2⟩

/-- Wrapping any subtrees in parentheses changes neither the success nor the code of the parse. -/
theorem C02_redundant_parens (t t' : Tree) (h : WfTree t) (hp : AddParens t t') :
    parse (render t') = parse (render t) := by
  rw [C02_climb_roundtrip t h, C02_climb_roundtrip t' (hp.wf h), hp.postfixOf_eq]

/-- in particular for one pair of parentheses around the whole expression -/
theorem C02_redundant_parens_top (t : Tree) (h : WfTree t) :
    parse (.lparen :: (render t ++ [.rparen])) = parse (render t) :=
  C02_redundant_parens t (.paren t) h (.wrap (.refl t))

/-! ### regression examples (by evaluation) -/
section Examples

private def v (n : String) : Tree := .atom [.push (.var n)]
private def k (i : Int) : Tree := .atom [.pushq (.int i)]
private def tv (n : String) : Tok := .atom [.push (.var n)]
private def tk (i : Int) : Tok := .atom [.pushq (.int i)]
private def pv (n : String) : Instr := .push (.var n)
private def pk (i : Int) : Instr := .pushq (.int i)

-- `1 + 2 * x ^ 2 ^ 3`
example : render (.bin "+" (k 1) (.bin "*" (k 2) (.bin "^" (v "x") (.bin "^" (k 2) (k 3))))) =
    [tk 1, .op "+", tk 2, .op "*", tv "x", .op "^", tk 2, .op "^", tk 3] := rfl
example : parse [tk 1, .op "+", tk 2, .op "*", tv "x", .op "^", tk 2, .op "^", tk 3] =
    some [pk 1, pk 2, pv "x", pk 2, pk 3, .op .pow, .op .pow, .op .mul, .op .add] := rfl

-- `(a or b) and c`
example : render (.bin "and" (.bin "or" (v "a") (v "b")) (v "c")) =
    [.lparen, tv "a", .op "or", tv "b", .rparen, .op "and", tv "c"] := rfl
example : parse [.lparen, tv "a", .op "or", tv "b", .rparen, .op "and", tv "c"] =
    some [pv "a", pv "b", .op .or, pv "c", .op .and] := rfl
-- without the parentheses `and` binds tighter
example : parse [tv "a", .op "or", tv "b", .op "and", tv "c"] =
    some [pv "a", pv "b", pv "c", .op .and, .op .or] := rfl

-- `- (a + b) * c`: the sign applies to the parenthesised sum only
example : render (.bin "*" (.neg (.bin "+" (v "a") (v "b"))) (v "c")) =
    [.op "-", .lparen, tv "a", .op "+", tv "b", .rparen, .op "*", tv "c"] := rfl
example : parse [.op "-", .lparen, tv "a", .op "+", tv "b", .rparen, .op "*", tv "c"] =
    some [pv "a", pv "b", .op .add, pk (-1), .op .mul, pv "c", .op .mul] := rfl

-- `a - b - c` groups to the left; the other grouping needs parentheses
example : render (.bin "-" (.bin "-" (v "a") (v "b")) (v "c")) =
    [tv "a", .op "-", tv "b", .op "-", tv "c"] := rfl
example : parse [tv "a", .op "-", tv "b", .op "-", tv "c"] =
    some [pv "a", pv "b", .op .sub, pv "c", .op .sub] := rfl
example : render (.bin "-" (v "a") (.bin "-" (v "b") (v "c"))) =
    [tv "a", .op "-", .lparen, tv "b", .op "-", tv "c", .rparen] := rfl

-- `a ^ b ^ c` groups to the right; the other grouping needs parentheses
example : render (.bin "^" (v "a") (.bin "^" (v "b") (v "c"))) =
    [tv "a", .op "^", tv "b", .op "^", tv "c"] := rfl
example : parse [tv "a", .op "^", tv "b", .op "^", tv "c"] =
    some [pv "a", pv "b", pv "c", .op .pow, .op .pow] := rfl
example : render (.bin "^" (.bin "^" (v "a") (v "b")) (v "c")) =
    [.lparen, tv "a", .op "^", tv "b", .rparen, .op "^", tv "c"] := rfl

-- `a < b == c`: comparisons share one level and group to the left
example : parse [tv "a", .op "<", tv "b", .op "==", tv "c"] =
    some [pv "a", pv "b", .op .lt, pv "c", .op .eq] := rfl

-- `a or b * c + d and - e`: several runs of the inner loop
example : parse [tv "a", .op "or", tv "b", .op "*", tv "c", .op "+", tv "d", .op "and",
      .op "-", tv "e"] =
    some [pv "a", pv "b", pv "c", .op .mul, pv "d", .op .add, pv "e", pk (-1), .op .mul,
      .op .and, .op .or] := rfl

-- the round trip on a concrete tree, by evaluation
example :
    let t : Tree := .bin "or" (.pos (v "a")) (.bin "<=" (.bin "%" (.paren (v "b")) (k 2))
      (.neg (.neg (.bin "/" (v "c") (v "d")))))
    parse (render t) = some (postfixOf t) := rfl

-- `WfTree` is needed: a symbol that is not a binary operator does not parse
example : parse (render (.bin "not" (v "a") (v "b"))) = none := rfl
example : parse (render (.bin "=" (v "a") (v "b"))) = none := rfl

-- malformed inputs are rejected
example : parse [tv "a", .op "+"] = none := rfl
example : parse [.lparen, tv "a"] = none := rfl
example : parse [tv "a", .rparen] = none := rfl
example : parse [tv "a", tv "b"] = none := rfl
example : parse [.op "*", tv "a"] = none := rfl
example : parse [] = none := rfl

end Examples

end Bardolph.ExprParse
