import Bardolph.Model.Web
import Bardolph.Generated.Web
/-!
# C20 — the web front end runs only the manifest's scripts, escaped, without duplicates

Property theorems about `Bardolph.Web` (the model of `web/web_app.py`, `web/front_end.py` and
of the part of `JobControl` the web app uses).  All quantify over every manifest (arbitrary
strings, duplicates, missing optional keys) and every finite sequence of requests and job
completions (`run (init m) inputs`), or over every state.

* `C20_only_listed`, `C20_unlisted_starts_nothing`, `C20_run_starts_listed`
* `C20_no_duplicate_start` (+ `running_flag`), `C20_running_names_distinct`
* `C20_path_title_derivation`
* `C20_escape_safe` (all strings, by induction), `C20_escaped_fields` (what pages get),
  `unescape_escape`, `escape_injective`
* `C20_stop_targets`
* `C20_pages_total`
* `C20_src_*`: the regenerated source constants agree with the model's
-/

namespace Bardolph.Web

/-! ## html.escape -/

/-- what `html.escape` does to one character -/
def escChar (c : Char) : Str :=
  if c = '&' then entAmp else if c = '<' then entLt else if c = '>' then entGt
  else if c = '"' then entQuot else if c = '\'' then entApos else [c]

theorem replaceChar_append (c : Char) (b x y : Str) :
    replaceChar c b (x ++ y) = replaceChar c b x ++ replaceChar c b y := by
  induction x with
  | nil => rfl
  | cons a x ih => by_cases h : a = c <;> simp [replaceChar, h, ih]

theorem replaceChar_cons (c : Char) (b : Str) (a : Char) (x : Str) :
    replaceChar c b (a :: x) = replaceChar c b [a] ++ replaceChar c b x :=
  replaceChar_append c b [a] x

theorem escape_append (x y : Str) : escape (x ++ y) = escape x ++ escape y := by
  simp [escape, replaceChar_append]

theorem escape_nil : escape [] = [] := rfl

theorem escape_single (c : Char) : escape [c] = escChar c := by
  unfold escChar
  by_cases h1 : c = '&'
  · subst h1; decide
  by_cases h2 : c = '<'
  · subst h2; decide
  by_cases h3 : c = '>'
  · subst h3; decide
  by_cases h4 : c = '"'
  · subst h4; decide
  by_cases h5 : c = '\''
  · subst h5; decide
  simp [escape, replaceChar, h1, h2, h3, h4, h5]

theorem escape_cons (c : Char) (s : Str) : escape (c :: s) = escChar c ++ escape s := by
  have := escape_append [c] s
  simpa [escape_single] using this

theorem escape_eq_flatMap (s : Str) : escape s = s.flatMap escChar := by
  induction s with
  | nil => rfl
  | cons c s ih => rw [escape_cons, ih]; rfl

/-- the HTML metacharacters other than `&` -/
def metaChars : List Char := ['<', '>', '"', '\'']

/-- what follows the `&` in the five character references `html.escape` emits -/
def entityTails : List Str :=
  [['a', 'm', 'p', ';'], ['l', 't', ';'], ['g', 't', ';'], ['q', 'u', 'o', 't', ';'],
   ['#', 'x', '2', '7', ';']]

theorem escChar_no_meta (c x : Char) (hx : x ∈ escChar c) : x ∉ metaChars := by
  unfold escChar at hx
  split at hx
  · revert x; decide
  split at hx
  · revert x; decide
  split at hx
  · revert x; decide
  split at hx
  · revert x; decide
  split at hx
  · revert x; decide
  · rename_i h1 h2 h3 h4 h5
    simp at hx; subst hx; simp [metaChars, h2, h3, h4, h5]

/-- an ampersand inside the escape of one character starts it, and one of the five entities
follows -/
theorem escChar_amp (c : Char) (pre t : Str) (h : escChar c = pre ++ '&' :: t) :
    pre = [] ∧ t ∈ entityTails := by
  have key : ∀ ent : Str, ent ∈ entityTails → '&' :: ent = pre ++ '&' :: t →
      pre = [] ∧ t ∈ entityTails := by
    intro ent hent he
    cases pre with
    | nil => simp at he; subst he; exact ⟨rfl, hent⟩
    | cons x pre' =>
      simp at he
      have hmem : '&' ∈ ent := by rw [he.2]; simp
      have : ∀ e : Str, e ∈ entityTails → '&' ∉ e := by decide
      exact absurd hmem (this ent hent)
  unfold escChar at h
  split at h
  · exact key _ (by decide) h
  split at h
  · exact key _ (by decide) h
  split at h
  · exact key _ (by decide) h
  split at h
  · exact key _ (by decide) h
  split at h
  · exact key _ (by decide) h
  · rename_i h1 _ _ _ _
    cases pre with
    | nil => simp at h; exact absurd h.1 h1
    | cons x pre' => simp at h

/-- **C20, escaping.**  In `html.escape s` none of `< > " '` occurs, and every `&` is the
start of one of the five character references `&amp; &lt; &gt; &quot; &#x27;` — for every
string `s`. -/
theorem C20_escape_safe (s : Str) :
    (∀ c ∈ escape s, c ∉ metaChars) ∧
    (∀ pre post, escape s = pre ++ '&' :: post → ∃ t ∈ entityTails, ∃ rest, post = t ++ rest) := by
  constructor
  · intro c hc
    rw [escape_eq_flatMap] at hc
    obtain ⟨a, _, ha⟩ := List.mem_flatMap.mp hc
    exact escChar_no_meta a c ha
  · induction s with
    | nil => intro pre post h; simp [escape_nil] at h
    | cons c s ih =>
      intro pre post h
      rw [escape_cons] at h
      rcases List.append_eq_append_iff.mp h with ⟨a', h1, h2⟩ | ⟨c', h1, h2⟩
      · -- the ampersand lies in the escape of the rest
        exact ih a' post h2
      · -- the ampersand lies in the escape of the first character
        cases c' with
        | nil =>
          simp at h1 h2
          exact ih [] post (by simpa using h2.symm)
        | cons x c'' =>
          simp at h2
          obtain ⟨rfl, h2⟩ := h2
          obtain ⟨_, ht⟩ := escChar_amp c pre c'' h1
          exact ⟨c'', ht, escape s, h2⟩

/-! ## html.unescape undoes html.escape; escape is injective -/

theorem unescape_cons_of_ne (c : Char) (r : Str) (h : c ≠ '&') :
    unescape (c :: r) = c :: unescape r := by
  conv => lhs; unfold unescape
  split <;> simp_all

theorem unescape_escape (s : Str) : unescape (escape s) = s := by
  induction s with
  | nil => rfl
  | cons c s ih =>
    rw [escape_cons]
    unfold escChar
    split
    · subst_vars; simp [entAmp, unescape, ih]
    split
    · subst_vars; simp [entLt, unescape, ih]
    split
    · subst_vars; simp [entGt, unescape, ih]
    split
    · subst_vars; simp [entQuot, unescape, ih]
    split
    · subst_vars; simp [entApos, unescape, ih]
    · rename_i h1 _ _ _ _
      simp [unescape_cons_of_ne c _ h1, ih]

theorem escape_injective {a b : Str} (h : escape a = escape b) : a = b := by
  rw [← unescape_escape a, ← unescape_escape b, h]

/-! ## Default path and title -/

theorem stripLs_of_suffix (stem : Str) : stripLs (stem ++ lsSuffix) = stem := by
  have hl : (stem ++ lsSuffix).length - 3 = stem.length := by simp [lsSuffix]
  unfold stripLs
  rw [hl]
  simp

theorem stripLs_of_not_suffix (f : Str) (h : ¬ ∃ stem, f = stem ++ lsSuffix) : stripLs f = f := by
  unfold stripLs
  split
  · rename_i hd
    exact absurd ⟨f.take (f.length - 3), by rw [← hd, List.take_append_drop]⟩ h
  · rfl

/-- position `i` of `str.title()` applied to `t`: upper-cased when the previous character is
uncased or absent, lower-cased otherwise -/
def prevCased (b : Bool) (t : Str) : Nat → Bool
  | 0 => b
  | k + 1 => match t[k]? with
    | some p => isCasedA p
    | none => false

theorem titleCase_getElem? (b : Bool) (t : Str) (i : Nat) :
    (titleCase b t)[i]? =
      (t[i]?).map fun c => if prevCased b t i then lowerA c else upperA c := by
  induction t generalizing b i with
  | nil => simp [titleCase]
  | cons c r ih =>
    cases i with
    | zero => simp [titleCase, prevCased] <;> rfl
    | succ k =>
      simp only [titleCase, List.getElem?_cons_succ, ih]
      cases k <;> simp [prevCased] <;> rfl

theorem titleCase_length (b : Bool) (t : Str) : (titleCase b t).length = t.length := by
  induction t generalizing b with
  | nil => rfl
  | cons c r ih => simp [titleCase, ih]

/-- **C20, documented derivation of the default path and title.**
* an explicit path is used as it is; otherwise the path is the file name, with `.ls` removed
  when — and only when — the file name ends with exactly that suffix (only one copy is removed);
* an explicit title is used as it is; otherwise the title has the length of the path, with
  every `_` and `-` replaced by a space and every word capitalised: a letter is upper-cased when
  it is first or follows a non-letter, lower-cased when it follows a letter. -/
theorem C20_path_title_derivation (e : Entry) :
    (e.path ≠ [] → scriptPath e = e.path) ∧
    (e.path = [] → ∀ stem, e.fileName = stem ++ lsSuffix → scriptPath e = stem) ∧
    (e.path = [] → (¬ ∃ stem, e.fileName = stem ++ lsSuffix) → scriptPath e = e.fileName) ∧
    (e.title ≠ [] → scriptTitle e = e.title) ∧
    (e.title = [] →
      (scriptTitle e).length = (scriptPath e).length ∧
      ∀ i c, (scriptPath e)[i]? = some c →
        (scriptTitle e)[i]? = some
          (if prevCased false ((scriptPath e).map dashToSpace) i
           then lowerA (dashToSpace c) else upperA (dashToSpace c))) := by
  refine ⟨?_, ?_, ?_, ?_, ?_⟩
  · intro h; simp [scriptPath, h]
  · intro h stem hs; simp [scriptPath, h, hs, stripLs_of_suffix]
  · intro h hn; simp [scriptPath, h, stripLs_of_not_suffix _ hn]
  · intro h; simp [scriptTitle, h]
  · intro h
    constructor
    · simp [scriptTitle, h, titleCase_length]
    · intro i c hc
      simp [scriptTitle, h, titleCase_getElem?, hc]

/-- dashes and underscores are uncased, so "follows a letter" may be read on the path itself -/
theorem isCasedA_dashToSpace (c : Char) : isCasedA (dashToSpace c) = isCasedA c := by
  unfold dashToSpace
  split
  · rename_i h; rcases h with rfl | rfl <;> decide
  · rfl

example : stripLs "a.ls.ls".toList = "a.ls".toList := by decide
example : stripLs "a.lsx".toList = "a.lsx".toList := by decide
example : stripLs ".ls".toList = [] := by decide
example : stripLs "ls".toList = "ls".toList := by decide
example : stripLs "a.LS".toList = "a.LS".toList := by decide
example : stripLs "x.ls/y".toList = "x.ls/y".toList := by decide
example : scriptTitle { fileName := "test-get_title.ls".toList } = "Test Get Title".toList := by
  decide
example : scriptTitle { fileName := "hELLO-wORLD2b.ls".toList } = "Hello World2B".toList := by
  decide
example : scriptPath { fileName := "x.ls".toList, path := "p".toList } = "p".toList := by decide

/-! ## The script table is the manifest, keyed by path, last entry winning -/

/-- the entry the manifest lists for path `p`: the last one whose (derived) path is `p` -/
def entryFor (m : List Entry) (p : Str) : Option Entry :=
  m.reverse.find? fun e => scriptPath e = p

theorem entryFor_some {m : List Entry} {p : Str} {e : Entry} (h : entryFor m p = some e) :
    e ∈ m ∧ scriptPath e = p := by
  unfold entryFor at h
  have h1 := List.mem_of_find?_eq_some h
  have h2 := List.find?_some h
  exact ⟨by simpa using h1, by simpa using h2⟩

theorem entryFor_none {m : List Entry} {p : Str} :
    entryFor m p = none ↔ ∀ e ∈ m, scriptPath e ≠ p := by
  unfold entryFor
  simp [List.find?_eq_none]

theorem lookup_upsert (t : Table) (k : Str) (v : Script) (p : Str) :
    lookup (upsert k v t) p = if k = p then some v else lookup t p := by
  induction t with
  | nil => simp [upsert, lookup]
  | cons kv r ih =>
    obtain ⟨k', v'⟩ := kv
    by_cases hk : k' = k
    · subst hk; by_cases hp : k' = p <;> simp [upsert, lookup, hp]
    · by_cases hp : k' = p
      · subst hp
        have h1 : k ≠ k' := fun h => hk h.symm
        simp [upsert, lookup, hk, h1]
      · simp [upsert, lookup, hk, hp, ih]

theorem lookup_foldl (m : List Entry) (t : Table) (p : Str) :
    lookup (m.foldl (fun t e => upsert (scriptPath e) (mkScript e) t) t) p =
      match entryFor m p with
      | some e => some (mkScript e)
      | none => lookup t p := by
  induction m generalizing t with
  | nil => simp [entryFor]
  | cons e m ih =>
    rw [List.foldl_cons, ih]
    unfold entryFor
    rw [List.reverse_cons, List.find?_append]
    cases hm : m.reverse.find? (fun e => scriptPath e = p) with
    | some e' => simp
    | none =>
      by_cases hp : scriptPath e = p <;> simp [lookup_upsert, hp]

/-- looking a path up in the loaded table gives the ScriptControl of the entry the manifest
lists for it, and nothing for a path the manifest does not list -/
theorem lookup_loadManifest (m : List Entry) (p : Str) :
    lookup (loadManifest m) p = (entryFor m p).map mkScript := by
  unfold loadManifest
  rw [lookup_foldl]
  cases entryFor m p <;> simp [lookup]

theorem mem_upsert {t : Table} {k : Str} {v : Script} {kv : Str × Script}
    (h : kv ∈ upsert k v t) : kv = (k, v) ∨ kv ∈ t := by
  induction t with
  | nil => simp [upsert] at h; exact Or.inl h
  | cons a r ih =>
    obtain ⟨k', v'⟩ := a
    unfold upsert at h
    split at h
    · rename_i hk
      rcases List.mem_cons.mp h with h | h
      · left; rw [h, hk]
      · right; exact List.mem_cons_of_mem _ h
    · rcases List.mem_cons.mp h with h | h
      · right; rw [h]; exact List.mem_cons_self
      · rcases ih h with h | h
        · exact Or.inl h
        · right; exact List.mem_cons_of_mem _ h

/-- every ScriptControl in the table was built from an entry of the manifest -/
theorem mem_loadManifest {m : List Entry} {kv : Str × Script} (h : kv ∈ loadManifest m) :
    ∃ e ∈ m, kv = (scriptPath e, mkScript e) := by
  unfold loadManifest at h
  have gen : ∀ (m : List Entry) (t : Table),
      kv ∈ m.foldl (fun t e => upsert (scriptPath e) (mkScript e) t) t →
      kv ∈ t ∨ ∃ e ∈ m, kv = (scriptPath e, mkScript e) := by
    intro m
    induction m with
    | nil => intro t h; exact Or.inl h
    | cons e m ih =>
      intro t h
      rw [List.foldl_cons] at h
      rcases ih _ h with h | ⟨e', he', h⟩
      · rcases mem_upsert h with h | h
        · exact Or.inr ⟨e, List.mem_cons_self, h⟩
        · exact Or.inl h
      · exact Or.inr ⟨e', List.mem_cons_of_mem _ he', h⟩
  rcases gen m [] h with h | h
  · simp at h
  · exact h

/-! ## What one request does to job control -/

/-- the job `queue_script` builds for ScriptControl `sc` in state `s` -/
def jobOf (s : State) (sc : Script) : Job := ⟨s.nextId, sc.path, unescape sc.fileName⟩

/-- the events one request adds to the history -/
def events (s : State) : Request → List Event
  | .run p =>
    match lookup s.table p with
    | some sc =>
      if s.jc.isRunning sc.path then [] else [.started p (jobOf s sc) sc.runBackground]
    | none => []
  | .stop p =>
    match lookup s.table p with
    | some sc => if s.jc.isRunning sc.path then (s.jc.named sc.path).map .stopReq else []
    | none => []
  | .stopCurrent => s.jc.active.toList.map .stopReq
  | .stopAll => s.jc.running.map .stopReq
  | .off =>
    match lookup s.table pOff with
    | some sc =>
      if s.jc.isRunning sc.path then []
      else s.jc.active.toList.map .stopReq ++ [.started pOff (jobOf s sc) sc.runBackground]
    | none => []
  | .capture => [.snapshot]
  | .index => []
  | .status => []

theorem handle_log (s : State) (r : Request) : (handle s r).1.log = s.log ++ events s r := by
  cases r with
  | run p =>
    simp only [handle, events, scriptControl]
    cases lookup s.table p with
    | none => simp
    | some sc =>
      simp only [Option.map_some, view]
      split <;> simp [queueScript, jobOf]
  | stop p =>
    simp only [handle, events, scriptControl]
    cases lookup s.table p with
    | none => simp
    | some sc =>
      simp only [Option.map_some, view]
      split <;> simp [requestStops]
  | off =>
    simp only [handle, events, scriptControl]
    cases lookup s.table pOff with
    | none => simp
    | some sc =>
      simp only [Option.map_some, view]
      split <;> simp [queueScript, jobOf, stopCurrent, requestStops]
  | stopCurrent => simp [handle, events, stopCurrent, requestStops]
  | stopAll => simp [handle, events, stopAll, requestStops, JC.running]
  | capture => simp [handle, events]
  | index => simp [handle, events]
  | status => simp [handle, events]

theorem handle_table (s : State) (r : Request) : (handle s r).1.table = s.table := by
  cases r with
  | run p =>
    simp only [handle]
    cases scriptControl s p with
    | none => rfl
    | some v => simp only []; split <;> rfl
  | stop p =>
    simp only [handle]
    cases scriptControl s p with
    | none => rfl
    | some v => simp only []; split <;> rfl
  | off =>
    simp only [handle]
    cases scriptControl s pOff with
    | none => rfl
    | some v => simp only []; split <;> rfl
  | stopCurrent => rfl
  | stopAll => rfl
  | capture => rfl
  | index => rfl
  | status => rfl

theorem step_table (s : State) (i : Input) : (step s i).table = s.table := by
  cases i with
  | req r => exact handle_table s r
  | complete id => rfl

theorem run_table (s : State) (inputs : List Input) : (run s inputs).table = s.table := by
  induction inputs generalizing s with
  | nil => rfl
  | cons i is ih => simp only [run, List.foldl_cons] at ih ⊢; rw [ih, step_table]

theorem run_append (s : State) (a b : List Input) : run s (a ++ b) = run (run s a) b := by
  simp [run, List.foldl_append]

theorem reach_table (m : List Entry) (inputs : List Input) :
    (run (init m) inputs).table = loadManifest m := by
  rw [run_table]; rfl

/-! ## Only the manifest's scripts are ever started -/

/-- a start recorded in the history is legitimate for manifest `m`: the job was built from the
file name of the entry `m` lists for the requested path, it is named by that path (escaped),
and it went to the background exactly if that entry says so -/
def Legit (m : List Entry) : Event → Prop
  | .started p j bg =>
    ∃ e, entryFor m p = some e ∧ j.file = e.fileName ∧ j.name = escape p ∧ bg = e.runBackground
  | _ => True

theorem lookup_reach {m : List Entry} {s : State} (ht : s.table = loadManifest m) {p : Str}
    {sc : Script} (h : lookup s.table p = some sc) :
    ∃ e, entryFor m p = some e ∧ sc = mkScript e := by
  rw [ht, lookup_loadManifest] at h
  cases he : entryFor m p with
  | none => simp [he] at h
  | some e => simp [he] at h; exact ⟨e, rfl, h.symm⟩

theorem started_legit {m : List Entry} {s : State} (ht : s.table = loadManifest m) {p : Str}
    {sc : Script} (h : lookup s.table p = some sc) :
    Legit m (.started p (jobOf s sc) sc.runBackground) := by
  obtain ⟨e, he, rfl⟩ := lookup_reach ht h
  refine ⟨e, he, ?_, ?_, rfl⟩
  · simp [jobOf, mkScript, unescape_escape]
  · simp [jobOf, mkScript, (entryFor_some he).2]

theorem events_legit {m : List Entry} {s : State} (ht : s.table = loadManifest m)
    (r : Request) : ∀ ev ∈ events s r, Legit m ev := by
  intro ev hev
  cases r with
  | run p =>
    simp only [events] at hev
    cases hl : lookup s.table p with
    | none => simp [hl] at hev
    | some sc =>
      simp only [hl] at hev
      split at hev
      · simp at hev
      · simp at hev; subst hev; exact started_legit ht hl
  | off =>
    simp only [events] at hev
    cases hl : lookup s.table pOff with
    | none => simp [hl] at hev
    | some sc =>
      simp only [hl] at hev
      split at hev
      · simp at hev
      · rcases List.mem_append.mp hev with h | h
        · obtain ⟨j, _, rfl⟩ := List.mem_map.mp h; trivial
        · simp at h; subst h; exact started_legit ht hl
  | stop p =>
    simp only [events] at hev
    cases hl : lookup s.table p with
    | none => simp [hl] at hev
    | some sc =>
      simp only [hl] at hev
      split at hev
      · obtain ⟨j, _, rfl⟩ := List.mem_map.mp hev; trivial
      · simp at hev
  | stopCurrent => simp only [events] at hev; obtain ⟨j, _, rfl⟩ := List.mem_map.mp hev; trivial
  | stopAll => simp only [events] at hev; obtain ⟨j, _, rfl⟩ := List.mem_map.mp hev; trivial
  | capture => simp [events] at hev; subst hev; trivial
  | index => simp [events] at hev
  | status => simp [events] at hev

theorem run_log_legit (m : List Entry) (s : State) (ht : s.table = loadManifest m)
    (hl : ∀ ev ∈ s.log, Legit m ev) (inputs : List Input) :
    ∀ ev ∈ (run s inputs).log, Legit m ev := by
  induction inputs generalizing s with
  | nil => exact hl
  | cons i is ih =>
    simp only [run, List.foldl_cons] at ih ⊢
    apply ih
    · rw [step_table, ht]
    · cases i with
      | complete id => exact hl
      | req r =>
        intro ev hev
        simp only [step, handle_log] at hev
        rcases List.mem_append.mp hev with h | h
        · exact hl ev h
        · exact events_legit ht r ev h

/-- **C20, only listed scripts.**  For every manifest and every sequence of requests and job
completions: every job ever handed to job control was built from the file name of the entry
the manifest lists for the requested path (the last such entry), is named by that path, and
runs in the background exactly if the entry is so marked. -/
theorem C20_only_listed (m : List Entry) (inputs : List Input) (p : Str) (j : Job) (bg : Bool)
    (h : Event.started p j bg ∈ (run (init m) inputs).log) :
    ∃ e ∈ m, scriptPath e = p ∧ entryFor m p = some e ∧ j.file = e.fileName ∧
      j.name = escape p ∧ bg = e.runBackground := by
  have := run_log_legit m (init m) rfl (by simp [init]) inputs _ h
  obtain ⟨e, he, hf, hn, hb⟩ := this
  exact ⟨e, (entryFor_some he).1, (entryFor_some he).2, he, hf, hn, hb⟩

/-- **C20, unlisted paths.**  In every reachable state a request for a path the manifest does
not list changes nothing (no job, no stop, same job control) and answers with the index page;
the same holds for `/stop/<path>`. -/
theorem C20_unlisted_starts_nothing (m : List Entry) (inputs : List Input) (p : Str)
    (h : ∀ e ∈ m, scriptPath e ≠ p) :
    handle (run (init m) inputs) (.run p) =
      (run (init m) inputs, indexPage (run (init m) inputs)) ∧
    handle (run (init m) inputs) (.stop p) =
      (run (init m) inputs, indexPage (run (init m) inputs)) := by
  have hl : lookup (run (init m) inputs).table p = none := by
    rw [reach_table, lookup_loadManifest, entryFor_none.mpr h]; rfl
  simp [handle, scriptControl, hl]

/-! ## A listed script is started — queued, or in the background if so marked -/

theorem addJob_holds (jc : JC) (j : Job) :
    ((jc.addJob j).active = some j ∨ j ∈ (jc.addJob j).queue) ∧
    (jc.addJob j).background = jc.background := by
  unfold JC.addJob
  cases ha : jc.active with
  | some a => simp
  | none =>
    simp only [Option.isNone_none, if_true]
    unfold JC.runNext
    cases hq : jc.queue with
    | nil => simp
    | cons x q => simp

theorem spawn_holds (jc : JC) (j : Job) :
    j ∈ (jc.spawn j).background ∧ (jc.spawn j).active = jc.active ∧
    (jc.spawn j).queue = jc.queue := by
  simp [JC.spawn]

/-- **C20, a listed script is started.**  In every reachable state a request for a path the
manifest lists, whose script is not reported running, hands exactly one job to job control:
built from the listed file name, named by the path, spawned in the background if the entry is
marked `run_background` and appended to the queue otherwise; the answer is the action page of
that script. -/
theorem C20_run_starts_listed (m : List Entry) (inputs : List Input) (p : Str) (e : Entry)
    (he : entryFor m p = some e)
    (hr : (run (init m) inputs).jc.isRunning (escape p) = false) :
    let s := run (init m) inputs
    let j : Job := ⟨s.nextId, escape p, e.fileName⟩
    (handle s (.run p)).1.log = s.log ++ [.started p j e.runBackground] ∧
    (handle s (.run p)).1.jc = (if e.runBackground then s.jc.spawn j else s.jc.addJob j) ∧
    (handle s (.run p)).2 = .action ⟨mkScript e, false⟩ e.icon msgStarted := by
  intro s j
  have hl : lookup s.table p = some (mkScript e) := by
    show lookup (run (init m) inputs).table p = _
    rw [reach_table, lookup_loadManifest, he]; rfl
  have hsp : scriptPath e = p := (entryFor_some he).2
  have hr' : s.jc.isRunning (escape p) = false := hr
  refine ⟨?_, ?_, ?_⟩
  · rw [handle_log]
    simp [events, hl, jobOf, mkScript, unescape_escape, hr', j, hsp]
  · simp [handle, scriptControl, hl, view, queueScript, mkScript, unescape_escape, hr', j, hsp]
  · simp [handle, scriptControl, hl, view, mkScript, hr', hsp]

/-! ## No duplicate start -/

/-- **C20, no duplicate start.**  In any state, if the script for path `p` is reported running
(the `running` flag of the ScriptControl handed to the pages), a request for `p` changes
nothing: no job is built, queued or spawned.  The same holds for the `/off` route. -/
theorem C20_no_duplicate_start (s : State) (p : Str) (v : View)
    (hv : scriptControl s p = some v) (hrun : v.running = true) :
    handle s (.run p) = (s, .action v v.script.icon msgStarted) ∧
    (p = pOff → handle s .off = (s, .action v v.script.icon [])) := by
  constructor
  · simp [handle, hv, hrun]
  · intro hp; subst hp; simp [handle, hv, hrun]

/-- "reported running" in a reachable state means: a job named by the (escaped) path is the
active one or is in the background table -/
theorem running_flag (m : List Entry) (inputs : List Input) (p : Str) (v : View)
    (hv : scriptControl (run (init m) inputs) p = some v) :
    v.running = (run (init m) inputs).jc.isRunning (escape p) := by
  unfold scriptControl at hv
  cases hl : lookup (run (init m) inputs).table p with
  | none => simp [hl] at hv
  | some sc =>
    obtain ⟨e, he, rfl⟩ := lookup_reach (reach_table m inputs) hl
    simp [hl, view] at hv
    rw [← hv]
    simp [mkScript, (entryFor_some he).2]

/-! ## Stop, stop-current, stop-all -/

theorem named_spec (jc : JC) (n : Str) :
    (∀ j ∈ jc.named n, j ∈ jc.running ∧ j.name = n) ∧
    (jc.isRunning n = true → jc.named n ≠ []) ∧
    (jc.isRunning n = false → jc.named n = []) ∧
    (jc.named n).length ≤ 1 := by
  unfold JC.named JC.isRunning JC.running
  cases ha : jc.active with
  | none =>
    cases hf : jc.background.find? (fun j => decide (j.name = n)) with
    | none =>
      simp [List.find?_eq_none] at hf
      simp
      intro x hx hn; exact absurd hn (hf x hx)
    | some b =>
      have h1 := List.mem_of_find?_eq_some hf
      have h2 := List.find?_some hf
      simp at h2
      simp
      exact ⟨⟨h1, h2⟩, ⟨b, h1, h2⟩⟩
  | some a =>
    by_cases hn : a.name = n
    · simp [hn]
    · cases hf : jc.background.find? (fun j => decide (j.name = n)) with
      | none =>
        simp [List.find?_eq_none] at hf
        simp [hn]
        intro x hx hxn; exact absurd hxn (hf x hx)
      | some b =>
        have h1 := List.mem_of_find?_eq_some hf
        have h2 := List.find?_some hf
        simp at h2
        simp [hn]
        exact ⟨⟨Or.inr h1, h2⟩, ⟨b, h1, h2⟩⟩

/-- **C20, stop targets.**  In every reachable state:
* `/stop/<p>` delivers `request_stop` to at most one job, which is running (active or in the
  background) and is named by `p`; if the manifest lists `p` and a job named by `p` is running,
  the request is delivered; for an unlisted path nothing is delivered; job control is unchanged;
* `/stop-current` delivers it to exactly the active job (to nobody if there is none);
* `/stop-all` delivers it to exactly the running jobs (the active one and every background one)
  and leaves the queue empty;
* none of the three starts a job. -/
theorem C20_stop_targets (m : List Entry) (inputs : List Input) :
    let s := run (init m) inputs
    (∀ p, ∃ js : List Job,
      (handle s (.stop p)).1.log = s.log ++ js.map .stopReq ∧
      (handle s (.stop p)).1.jc = s.jc ∧
      js.length ≤ 1 ∧
      (∀ j ∈ js, j ∈ s.jc.running ∧ j.name = escape p) ∧
      ((∃ e ∈ m, scriptPath e = p) → s.jc.isRunning (escape p) = true → js ≠ []) ∧
      ((∀ e ∈ m, scriptPath e ≠ p) → js = [])) ∧
    ((handle s .stopCurrent).1.log = s.log ++ s.jc.active.toList.map .stopReq ∧
      (handle s .stopCurrent).1.jc = s.jc) ∧
    ((handle s .stopAll).1.log = s.log ++ s.jc.running.map .stopReq ∧
      (handle s .stopAll).1.jc.queue = [] ∧
      (handle s .stopAll).1.jc.active = s.jc.active ∧
      (handle s .stopAll).1.jc.background = s.jc.background) := by
  intro s
  refine ⟨?_, ?_, ?_⟩
  · intro p
    cases hl : lookup s.table p with
    | none =>
      refine ⟨[], ?_, ?_, by simp, by simp, ?_, by simp⟩
      · rw [handle_log]; simp [events, hl]
      · simp [handle, scriptControl, hl]
      · intro ⟨e, hem, hep⟩
        have : entryFor m p = none := by
          have := hl
          rw [show s.table = loadManifest m from reach_table m inputs, lookup_loadManifest] at this
          cases h : entryFor m p with
          | none => rfl
          | some x => simp [h] at this
        exact absurd hep (entryFor_none.mp this e hem)
    | some sc =>
      obtain ⟨e, he, rfl⟩ := lookup_reach (reach_table m inputs) hl
      have hp : (mkScript e).path = escape p := by simp [mkScript, (entryFor_some he).2]
      obtain ⟨h1, h2, h3, h4⟩ := named_spec s.jc (escape p)
      refine ⟨s.jc.named (escape p), ?_, ?_, h4, h1, fun _ hr => h2 hr, ?_⟩
      · rw [handle_log]
        simp only [events, hl, hp]
        split
        · rfl
        · rename_i hr; simp at hr; simp [h3 hr]
      · simp only [handle, scriptControl, hl, Option.map_some, view, hp]
        split <;> rfl
      · intro hn; exact absurd (entryFor_some he).2 (hn e (entryFor_some he).1)
  · constructor
    · rw [handle_log]; rfl
    · rfl
  · refine ⟨?_, rfl, rfl, rfl⟩
    rw [handle_log]; rfl

/-! ## Status and capture -/

/-- **C20, the status and capture pages.**  In any state `/status` answers with the status page
listing the names of the active, queued and background jobs and changes nothing; `/capture`
writes one snapshot, starts and stops nothing, and answers with the index page of all the
manifest's scripts. -/
theorem C20_pages_total (s : State) :
    handle s .status =
      (s, .status (s.jc.active.map (·.name)) (s.jc.queue.map (·.name))
        (s.jc.background.map (·.name))) ∧
    (handle s .capture).2 = .index (scriptList s) ∧
    (handle s .capture).1.jc = s.jc ∧
    (handle s .capture).1.log = s.log ++ [.snapshot] := by
  refine ⟨rfl, rfl, rfl, rfl⟩

/-! ## What the pages are handed is escaped -/

/-- the ScriptControl copies a response hands to its template -/
def Response.views : Response → List View
  | .index scripts => scripts
  | .action v _ _ => [v]
  | .status _ _ _ => []

/-- the five strings of a ScriptControl that the property names (file name, path, title, and
the two colour strings) -/
def Script.strings (sc : Script) : List Str :=
  [sc.fileName, sc.path, sc.title, sc.background, sc.color]

theorem views_from_table (s : State) (r : Request) :
    ∀ v ∈ (handle s r).2.views, ∃ kv ∈ s.table, v.script = kv.2 := by
  have hidx : ∀ (s' : State), s'.table = s.table →
      ∀ v ∈ (indexPage s').views, ∃ kv ∈ s.table, v.script = kv.2 := by
    intro s' ht v hv
    simp [indexPage, Response.views, scriptList, ht] at hv
    obtain ⟨a, b, hm, rfl⟩ := hv
    exact ⟨(a, b), hm, rfl⟩
  have hlk : ∀ p sc, lookup s.table p = some sc → ∃ kv ∈ s.table, sc = kv.2 := by
    intro p sc h
    generalize s.table = t at h
    induction t with
    | nil => simp [lookup] at h
    | cons a r ih =>
      obtain ⟨k, v⟩ := a
      unfold lookup at h
      split at h
      · simp at h; exact ⟨(k, v), List.mem_cons_self, h.symm⟩
      · obtain ⟨kv, hm, he⟩ := ih h
        exact ⟨kv, List.mem_cons_of_mem _ hm, he⟩
  have hact : ∀ (p : Str) (msg : Str) (s' : State), s'.table = s.table →
      ∀ v ∈ (actionOrIndex s' (scriptControl s p) msg).views, ∃ kv ∈ s.table, v.script = kv.2 := by
    intro p msg s' ht v hv
    unfold scriptControl at hv
    cases hl : lookup s.table p with
    | none => simp [hl, actionOrIndex] at hv; exact hidx s' ht v hv
    | some sc =>
      simp [hl, actionOrIndex, Response.views, view] at hv
      subst hv; exact hlk p sc hl
  cases r with
  | index => exact hidx s rfl
  | capture => exact hidx _ rfl
  | status => intro v hv; simp [handle, Response.views] at hv
  | stopCurrent => exact hact pStopCurrent msgRequested _ rfl
  | stopAll => exact hact pStopAll msgRequested _ rfl
  | run p =>
    intro v hv
    simp only [handle, scriptControl] at hv
    cases hl : lookup s.table p with
    | none => simp only [hl, Option.map_none] at hv; exact hidx s rfl v hv
    | some sc =>
      simp only [hl, Option.map_some, view] at hv
      split at hv <;> (simp [Response.views] at hv; subst hv; exact hlk p sc hl)
  | stop p =>
    intro v hv
    simp only [handle, scriptControl] at hv
    cases hl : lookup s.table p with
    | none => simp only [hl, Option.map_none] at hv; exact hidx s rfl v hv
    | some sc =>
      simp only [hl, Option.map_some, view] at hv
      split at hv
      · simp [Response.views] at hv; subst hv; exact hlk p sc hl
      · exact hidx s rfl v hv
  | off =>
    intro v hv
    simp only [handle, scriptControl] at hv
    cases hl : lookup s.table pOff with
    | none => simp only [hl, Option.map_none] at hv; exact hidx s rfl v hv
    | some sc =>
      simp only [hl, Option.map_some, view] at hv
      split at hv <;> (simp [Response.views] at hv; subst hv; exact hlk pOff sc hl)

/-- **C20, escaped fields.**  For every manifest, every history and every request: each
ScriptControl handed to a page was built from an entry of the manifest, its file name, path,
title and two colour strings are `html.escape` of that entry's strings, and therefore none of
`< > " '` occurs in them and every `&` in them starts one of the five character references. -/
theorem C20_escaped_fields (m : List Entry) (inputs : List Input) (r : Request) :
    ∀ v ∈ (handle (run (init m) inputs) r).2.views,
      (∃ e ∈ m, v.script.strings =
        [escape e.fileName, escape (scriptPath e), escape (scriptTitle e),
         escape e.background, escape e.color]) ∧
      ∀ str ∈ v.script.strings,
        (∀ c ∈ str, c ∉ metaChars) ∧
        (∀ pre post, str = pre ++ '&' :: post → ∃ t ∈ entityTails, ∃ rest, post = t ++ rest) := by
  intro v hv
  obtain ⟨kv, hkv, hs⟩ := views_from_table _ r v hv
  rw [reach_table] at hkv
  obtain ⟨e, hem, rfl⟩ := mem_loadManifest hkv
  have hstr : v.script.strings =
      [escape e.fileName, escape (scriptPath e), escape (scriptTitle e),
       escape e.background, escape e.color] := by
    rw [hs]; rfl
  refine ⟨⟨e, hem, hstr⟩, ?_⟩
  intro str hstr'
  rw [hstr] at hstr'
  simp at hstr'
  rcases hstr' with rfl | rfl | rfl | rfl | rfl <;> exact C20_escape_safe _

/-! ## No script runs twice at the same time; job names are escaped paths -/

/-- job control after one request -/
def jcAfter (s : State) : Request → JC
  | .run p =>
    match lookup s.table p with
    | some sc =>
      if s.jc.isRunning sc.path then s.jc
      else if sc.runBackground then s.jc.spawn (jobOf s sc) else s.jc.addJob (jobOf s sc)
    | none => s.jc
  | .off =>
    match lookup s.table pOff with
    | some sc =>
      if s.jc.isRunning sc.path then s.jc
      else if sc.runBackground then s.jc.spawn (jobOf s sc) else s.jc.addJob (jobOf s sc)
    | none => s.jc
  | .stopAll => { s.jc with queue := [] }
  | _ => s.jc

theorem handle_jc (s : State) (r : Request) : (handle s r).1.jc = jcAfter s r := by
  cases r with
  | run p =>
    simp only [handle, jcAfter, scriptControl]
    cases lookup s.table p with
    | none => rfl
    | some sc =>
      simp only [Option.map_some, view]
      split <;> simp [queueScript, jobOf]
  | off =>
    simp only [handle, jcAfter, scriptControl]
    cases lookup s.table pOff with
    | none => rfl
    | some sc =>
      simp only [Option.map_some, view]
      split <;> simp [queueScript, jobOf, stopCurrent, requestStops]
  | stop p =>
    simp only [handle, jcAfter, scriptControl]
    cases lookup s.table p with
    | none => rfl
    | some sc =>
      simp only [Option.map_some, view]
      split <;> rfl
  | stopCurrent => rfl
  | stopAll => rfl
  | capture => rfl
  | index => rfl
  | status => rfl

/-- the foreground jobs: the active one and the queued ones -/
def JC.foreground (jc : JC) : List Job := jc.active.toList ++ jc.queue

theorem addJob_foreground (jc : JC) (j : Job) :
    (jc.addJob j).foreground = jc.foreground ++ [j] := by
  unfold JC.addJob JC.foreground
  cases ha : jc.active with
  | some a => simp
  | none =>
    simp only [Option.isNone_none, if_true]
    unfold JC.runNext
    cases hq : jc.queue with
    | nil => simp
    | cons x q => simp

theorem complete_foreground (jc : JC) (id : Nat) :
    ∀ j ∈ (jc.complete id).foreground, j ∈ jc.foreground := by
  unfold JC.complete JC.foreground
  cases ha : jc.active with
  | none => simp
  | some a =>
    simp only
    split
    · unfold JC.runNext
      cases hq : jc.queue with
      | nil => simp
      | cons x q => simp; intro y hy; exact Or.inr (Or.inr hy)
    · simp

theorem complete_background (jc : JC) (id : Nat) :
    (jc.complete id).background = jc.background ∨
    (jc.complete id).background = jc.background.filter (·.id ≠ id) := by
  unfold JC.complete
  cases ha : jc.active with
  | none => right; rfl
  | some a =>
    simp only
    split
    · left
      unfold JC.runNext
      cases hq : jc.queue <;> simp
    · right; rfl

/-- the job-control invariant of reachable states -/
structure JobsOk (m : List Entry) (jc : JC) : Prop where
  fg : ∀ j ∈ jc.foreground, ∃ e, entryFor m (unescape j.name) = some e ∧
    j.name = escape (scriptPath e) ∧ e.runBackground = false
  bg : ∀ j ∈ jc.background, ∃ e, entryFor m (unescape j.name) = some e ∧
    j.name = escape (scriptPath e) ∧ e.runBackground = true
  nodup : (jc.background.map (·.name)).Nodup

theorem jobOf_name {m : List Entry} {s : State} (ht : s.table = loadManifest m) {p : Str}
    {sc : Script} (h : lookup s.table p = some sc) :
    ∃ e, entryFor m (unescape (jobOf s sc).name) = some e ∧
      (jobOf s sc).name = escape (scriptPath e) ∧ sc.runBackground = e.runBackground ∧
      sc.path = (jobOf s sc).name := by
  obtain ⟨e, he, rfl⟩ := lookup_reach ht h
  have hp := (entryFor_some he).2
  refine ⟨e, ?_, ?_, rfl, rfl⟩
  · simp [jobOf, mkScript, unescape_escape, hp, he]
  · simp [jobOf, mkScript]

theorem not_running_not_bg {jc : JC} {n : Str} (h : ¬ jc.isRunning n = true) :
    n ∉ jc.background.map (·.name) := by
  intro hm
  obtain ⟨j, hj, hn⟩ := List.mem_map.mp hm
  apply h
  unfold JC.isRunning
  simp only [Bool.or_eq_true, List.any_eq_true]
  right; exact ⟨j, hj, by simp [hn]⟩

theorem queue_ok {m : List Entry} {s : State} (ht : s.table = loadManifest m)
    (hj : JobsOk m s.jc) {p : Str} {sc : Script} (h : lookup s.table p = some sc)
    (hr : ¬ s.jc.isRunning sc.path = true) :
    JobsOk m (if sc.runBackground then s.jc.spawn (jobOf s sc) else s.jc.addJob (jobOf s sc)) := by
  obtain ⟨e, he, hn, hb, hp⟩ := jobOf_name ht h
  cases hbg : sc.runBackground with
  | true =>
    simp only [if_true]
    refine ⟨?_, ?_, ?_⟩
    · intro j hjm; exact hj.fg j (by simpa [JC.spawn, JC.foreground] using hjm)
    · intro j hjm
      simp only [JC.spawn, List.mem_append, List.mem_singleton] at hjm
      rcases hjm with hjm | rfl
      · exact hj.bg j hjm
      · exact ⟨e, he, hn, by rw [← hb, hbg]⟩
    · simp only [JC.spawn, List.map_append, List.map_cons, List.map_nil]
      rw [List.nodup_append]
      refine ⟨hj.nodup, by simp, ?_⟩
      intro a ha b hb' hab
      simp at hb'
      subst hb'
      rw [hp] at hr
      exact not_running_not_bg hr (hab ▸ ha)
  | false =>
    simp only [Bool.false_eq_true, if_false]
    have hbgsame := (addJob_holds s.jc (jobOf s sc)).2
    refine ⟨?_, ?_, ?_⟩
    · intro j hjm
      rw [addJob_foreground] at hjm
      rcases List.mem_append.mp hjm with hjm | hjm
      · exact hj.fg j hjm
      · simp at hjm; subst hjm
        exact ⟨e, he, hn, by rw [← hb, hbg]⟩
    · rw [hbgsame]; exact hj.bg
    · rw [hbgsame]; exact hj.nodup

theorem step_jobsOk {m : List Entry} {s : State} (ht : s.table = loadManifest m)
    (hj : JobsOk m s.jc) (i : Input) : JobsOk m (step s i).jc := by
  cases i with
  | complete id =>
    show JobsOk m (s.jc.complete id)
    refine ⟨?_, ?_, ?_⟩
    · intro j hjm; exact hj.fg j (complete_foreground _ _ j hjm)
    · intro j hjm
      rcases complete_background s.jc id with h | h <;> rw [h] at hjm
      · exact hj.bg j hjm
      · exact hj.bg j (List.mem_filter.mp hjm).1
    · rcases complete_background s.jc id with h | h <;> rw [h]
      · exact hj.nodup
      · exact hj.nodup.sublist ((List.filter_sublist).map _)
  | req r =>
    show JobsOk m (handle s r).1.jc
    rw [handle_jc]
    cases r with
    | run p =>
      simp only [jcAfter]
      cases hl : lookup s.table p with
      | none => exact hj
      | some sc =>
        simp only
        split
        · exact hj
        · rename_i hr; exact queue_ok ht hj hl hr
    | off =>
      simp only [jcAfter]
      cases hl : lookup s.table pOff with
      | none => exact hj
      | some sc =>
        simp only
        split
        · exact hj
        · rename_i hr; exact queue_ok ht hj hl hr
    | stopAll =>
      refine ⟨?_, hj.bg, hj.nodup⟩
      intro j hjm
      apply hj.fg
      simp only [jcAfter, JC.foreground, List.append_nil] at hjm
      exact List.mem_append_left _ hjm
    | stop p => exact hj
    | stopCurrent => exact hj
    | capture => exact hj
    | index => exact hj
    | status => exact hj

theorem reach_jobsOk (m : List Entry) (inputs : List Input) :
    JobsOk m (run (init m) inputs).jc := by
  have gen : ∀ (inputs : List Input) (s : State), s.table = loadManifest m → JobsOk m s.jc →
      JobsOk m (run s inputs).jc := by
    intro inputs
    induction inputs with
    | nil => intro s _ h; exact h
    | cons i is ih =>
      intro s ht hj
      simp only [run, List.foldl_cons] at ih ⊢
      exact ih _ (by rw [step_table, ht]) (step_jobsOk ht hj i)
  exact gen inputs (init m) rfl ⟨by simp [init, JC.foreground], by simp [init], by simp [init]⟩

/-- **C20, no script runs twice at the same time.**  In every reachable state the running jobs
(the active one and the background ones) have pairwise different names, and every job known to
job control — active, queued or background — is named `html.escape p` for a path `p` the
manifest lists (so the names the status page prints are escaped, too). -/
theorem C20_running_names_distinct (m : List Entry) (inputs : List Input) :
    ((run (init m) inputs).jc.running.map (·.name)).Nodup ∧
    ∀ j ∈ (run (init m) inputs).jc.foreground ++ (run (init m) inputs).jc.background,
      ∃ e ∈ m, j.name = escape (scriptPath e) := by
  have hj := reach_jobsOk m inputs
  constructor
  · unfold JC.running
    rw [List.map_append, List.nodup_append]
    refine ⟨?_, hj.nodup, ?_⟩
    · cases (run (init m) inputs).jc.active <;> simp
    · intro a ha b hb hab
      obtain ⟨ja, hja, rfl⟩ := List.mem_map.mp ha
      obtain ⟨jb, hjb, hjbn⟩ := List.mem_map.mp hb
      obtain ⟨e1, he1, _, hf⟩ := hj.fg ja (List.mem_append_left _ hja)
      obtain ⟨e2, he2, _, ht⟩ := hj.bg jb hjb
      rw [hjbn, ← hab, he1] at he2
      simp at he2; subst he2
      rw [hf] at ht; exact absurd ht (by decide)
  · intro j hjm
    rcases List.mem_append.mp hjm with h | h
    · obtain ⟨e, he, hn, _⟩ := hj.fg j h
      exact ⟨e, (entryFor_some he).1, hn⟩
    · obtain ⟨e, he, hn, _⟩ := hj.bg j h
      exact ⟨e, (entryFor_some he).1, hn⟩

/-! ## The source still has the shape the model mirrors

Every constant below is regenerated from `web/web_app.py`, `web/front_end.py` and the standard
library's `html.escape` on every run; a change there makes the corresponding theorem fail. -/
section Source

/-- `ScriptControl.__init__` escapes exactly file name, path, title, background and colour -/
theorem C20_src_escaped_fields :
    Generated.Web.escapedFields = [("file_name", "file_name"), ("path", "path"), ("title", "title"),
      ("background", "background"), ("color", "color")] ∧
    Generated.Web.plainFields = [("run_background", "run_background"), ("icon", "icon")] := by decide

/-- `html.escape` is the five replacements of the model, in that order -/
theorem C20_src_html_escape :
    Generated.Web.escapeReplacements.map (fun ab => (ab.1.toList, ab.2.toList)) =
      [(['&'], entAmp), (['<'], entLt), (['>'], entGt), (['"'], entQuot), (['\''], entApos)] := by
  decide

/-- `get_script_path` removes `.ls` by `path[-3:] == ".ls"` / `path[:-3]` -/
theorem C20_src_path_suffix :
    Generated.Web.lsSuffix.toList = lsSuffix ∧ Generated.Web.lsSliceLen = lsSuffix.length ∧
    Generated.Web.lsCutLen = lsSuffix.length ∧ Generated.Web.pathKeys = ["file_name", "path"] := by decide

/-- `get_script_title` replaces `_` and `-` by a space and applies `str.title()` -/
theorem C20_src_title :
    Generated.Web.titleReplacements = [("_", " "), ("-", " ")] ∧ Generated.Web.titleUsesStrTitle = true := by decide

/-- `queue_script` opens the unescaped file name and names the job by the ScriptControl's path -/
theorem C20_src_job_naming :
    Generated.Web.opened = "unescape:script_control.file_name" ∧
    Generated.Web.jobNames = [("add_job", "script_control.path"), ("spawn_job", "script_control.path")] := by
  decide

/-- `stop_all` clears the queue, stops the current job, stops the background jobs -/
theorem C20_src_stop_all :
    Generated.Web.stopAllCalls = ["clear_queue", "stop_current", "stop_background"] := by decide

/-- the blueprint's rules, the special paths and the messages are those of `route`/`handle` -/
theorem C20_src_routes :
    Generated.Web.routes = [("/", "index"), ("/capture", "capture"), ("/off", "off"), ("/status", "status"),
      ("/stop/<script_path>", "stop_script"), ("/stop-current", "stop_current"),
      ("/stop-all", "stop_all"), ("/<script_path>", "run_script")] ∧
    Generated.Web.specialPaths.map (fun ab => (ab.1, ab.2.toList)) =
      [("off", pOff), ("stop_all", pStopAll), ("stop_current", pStopCurrent)] ∧
    Generated.Web.actionMessages.map (fun ab => (ab.1, ab.2.toList)) =
      [("off", []), ("run_script", msgStarted), ("stop_all", msgRequested),
       ("stop_current", msgRequested), ("stop_script", msgStopRequested)] := by decide

end Source

/-! ## Non-vacuity: the hypotheses of the theorems above are satisfiable -/

/-- a hostile manifest: a file name with `&`, an explicit path running in the background, a
duplicate path (the later entry wins), a file name that is only the suffix -/
def exManifest : List Entry :=
  [{ fileName := "a&b.ls".toList, color := "<i>".toList },
   { fileName := "x.ls".toList, path := "p".toList, runBackground := true },
   { fileName := "old.ls".toList, path := "dup".toList },
   { fileName := "new'.ls".toList, path := "dup".toList },
   { fileName := ".ls".toList, title := "T".toList }]

-- a listed path starts the listed file, named by the escaped path
example : Event.started "a&b".toList ⟨0, "a&amp;b".toList, "a&b.ls".toList⟩ false ∈
    (run (init exManifest) [.req (.run "a&b".toList)]).log := by decide
-- the escaped variant of a listed path is not listed
example : (run (init exManifest) [.req (.run "a&amp;b".toList)]).log = [] := by decide
-- a file name is not a path
example : (run (init exManifest) [.req (.run "a&b.ls".toList), .req (.run "x".toList),
    .req (.run "x.ls".toList)]).log = [] := by decide
-- the later duplicate wins
example : Event.started "dup".toList ⟨0, "dup".toList, "new'.ls".toList⟩ false ∈
    (run (init exManifest) [.req (.run "dup".toList)]).log := by decide
-- a repeated request while running starts nothing; after completion it starts again
example : ((run (init exManifest)
    [.req (.run "p".toList), .req (.run "p".toList), .req (.run "p".toList)]).log).length = 1 := by
  decide
example : ((run (init exManifest)
    [.req (.run "p".toList), .complete 0, .req (.run "p".toList)]).log).length = 2 := by decide
-- the hypothesis of `C20_no_duplicate_start` is satisfiable
example : ∃ v, scriptControl (run (init exManifest) [.req (.run "p".toList)]) "p".toList = some v ∧
    v.running = true := ⟨_, rfl, by decide⟩
-- requests queue up behind the active job and run in order
example : (run (init exManifest) [.req (.run "a&b".toList), .req (.run "dup".toList),
    .req (.run "dup".toList), .complete 0]).jc =
    { active := some ⟨1, "dup".toList, "new'.ls".toList⟩,
      queue := [⟨2, "dup".toList, "new'.ls".toList⟩], background := [] } := by decide
-- stop reaches the named job only; stop-all reaches both and clears the queue
example : (run (init exManifest) [.req (.run "a&b".toList), .req (.run "p".toList),
    .req (.stop "p".toList)]).log.getLast? = some (.stopReq ⟨1, "p".toList, "x.ls".toList⟩) := by
  decide
example : let s := run (init exManifest) [.req (.run "a&b".toList), .req (.run "p".toList),
      .req (.run "dup".toList), .req .stopAll]
    s.jc.queue = [] ∧ s.log.drop 3 = [.stopReq ⟨0, "a&amp;b".toList, "a&b.ls".toList⟩,
      .stopReq ⟨1, "p".toList, "x.ls".toList⟩] := by decide
-- the file name that is only `.ls` has the empty path; its explicit title is kept
example : scriptPath { fileName := ".ls".toList } = [] := by decide
-- escaping
example : escape "a<b>&\"c'".toList = "a&lt;b&gt;&amp;&quot;c&#x27;".toList := by decide
example : escape "&amp;".toList = "&amp;amp;".toList := by decide

end Bardolph.Web
